---------------------------- MODULE SpanLifecycle ----------------------------
(***************************************************************************)
(* C04 - an exported span carries exactly what the application recorded   *)
(* before End; End takes effect once; every processor gets its own        *)
(* identical copy and is notified exactly once.                           *)
(*                                                                         *)
(* API-level reference machine of ONE span of a TracerProvider with the   *)
(* processors Procs (sequence of "simple" | "batch"):                     *)
(*   sdk/src/trace/span.cc (ctor, mutators, End, dtor),                   *)
(*   sdk/trace/multi_recordable.h, multi_span_processor.h, span_data.h,   *)
(*   sdk/common/attribute_utils.h (owned copies).                         *)
(* Values, keys, names, link contexts, resources, scopes are abstract ids *)
(* (a snapshot refers to VALUES, never to caller buffers: the replayer    *)
(* destroys every caller buffer right after the call).  Times are ranks,  *)
(* 0 = "not given by the caller" (then the exported time is don't-care).  *)
(*                                                                         *)
(* Don't-care bands: order inside attribute maps; timestamps the caller   *)
(* did not give; duration unless both steady times were given; status     *)
(* when "last SetStatus" and the OpenTelemetry rule (Ok is final, Unset   *)
(* is ignored, description only with Error) differ: either is accepted;   *)
(* a batch processor may export any time between End and ForceFlush.      *)
(***************************************************************************)
EXTENDS Naturals, Sequences, FiniteSets, TLC, Json

CONSTANTS Keys, Vals, Names, Kinds, Ctxs, Times, Resources, Scopes,   \* abstract id sets (naturals >= 1)
          Procs,          \* e.g. <<"simple", "batch">>
          MaxStartAttrs, MaxLinks, MaxLinkAttrs, MaxEvents, MaxEvAttrs,
          MaxOps,         \* bound on operations after Start
          Ghost,          \* BOOLEAN: keep the ghost call log (declarative last-write-wins invariants)
          Dev, Hist

\* processor configurations selectable from a .cfg file (CONSTANT Procs <- P_sb)
P_s == <<"simple">>
P_b == <<"batch">>
P_ss == <<"simple", "simple">>
P_sb == <<"simple", "batch">>
P_bs == <<"batch", "simple">>
P_bb == <<"batch", "batch">>
P_sss == <<"simple", "simple", "simple">>
P_ssb == <<"simple", "simple", "batch">>
P_sbs == <<"simple", "batch", "simple">>
P_sbb == <<"simple", "batch", "batch">>
P_bss == <<"batch", "simple", "simple">>
P_bsb == <<"batch", "simple", "batch">>
P_bbs == <<"batch", "batch", "simple">>
P_bbb == <<"batch", "batch", "batch">>

VARIABLES phase,     \* "init" | "recording" | "ended" | "released"
          name, kind, attrs, events, links, status, statusO, startSys, startSteady, endSteady, res, scope,
          exported, pending,    \* per processor: sequences of snapshots
          ops, done, devUsed,
          calls,     \* ghost: every mutator call made while recording, in order (only if Ghost)
          marks,     \* ghost: which rare things happened (post-End operations, duplicate keys, ...); generation only
          lastop, hist

svars == <<name, kind, attrs, events, links, status, statusO, startSys, startSteady, endSteady, res, scope>>
bvars == <<phase, svars, exported, pending, ops, done, devUsed, calls>>
vars  == <<bvars, marks, lastop, hist>>

NProc == Len(Procs)
PIdx  == 1..NProc
NoAttrs == [k \in Keys |-> 0]
KV == [k : Keys, v : Vals]
SeqsUpTo(S, n) == UNION {[1..m -> S] : m \in 0..n}
RECURSIVE Fold(_, _)
Fold(f, s) == IF s = <<>> THEN f ELSE Fold([f EXCEPT ![s[1].k] = s[1].v], Tail(s))
Codes == {"Unset", "Ok", "Error"}

(* what an exporter must see for a span that has ended ----------------------- *)
StatusAlts == {[code |-> status.code, desc |-> status.desc],
               [code |-> statusO.code, desc |-> IF statusO.code = "Error" THEN statusO.desc ELSE 99]}   \* 99: any
Snap == [name |-> name, kind |-> kind, attrs |-> attrs, events |-> events, links |-> links,
         status |-> StatusAlts, startSys |-> startSys,
         \* duration: exact if both steady times were given; 98: ">= 0" if neither; 99: any
         dur |-> IF startSteady # 0 /\ endSteady # 0 THEN endSteady - startSteady
                 ELSE IF startSteady = 0 /\ endSteady = 0 THEN 98 ELSE 99,
         res |-> res, scope |-> scope]

Counts(ex, pe) == [p \in PIdx |-> [lo |-> Len(ex[p]), hi |-> Len(ex[p]) + Len(pe[p])]]
Rec(r) == hist' = IF Hist THEN Append(hist, r @@ [rec |-> phase' = "recording", cnt |-> Counts(exported', pending'),
                                                  snap |-> IF \E p \in PIdx : exported'[p] \o pending'[p] # <<>>
                                                           THEN (CHOOSE s \in {(exported'[p] \o pending'[p])[1] :
                                                                    p \in {q \in PIdx : exported'[q] \o pending'[q] # <<>>}} : TRUE)
                                                           ELSE <<>>])
                 ELSE hist
Log(c) == calls' = IF Ghost /\ phase = "recording" THEN Append(calls, c) ELSE calls
Step(o, m) == ops' = ops + 1 /\ lastop' = o /\ marks' = IF Hist THEN marks \cup m ELSE marks
Post(m) == IF phase = "ended" THEN {m} ELSE {}

Init ==
  /\ phase = "init" /\ name = 0 /\ kind = 0 /\ attrs = NoAttrs /\ events = <<>> /\ links = <<>>
  /\ status = [code |-> "Unset", desc |-> 0] /\ statusO = [code |-> "Unset", desc |-> 0]
  /\ startSys = 0 /\ startSteady = 0 /\ endSteady = 0 /\ res = 0 /\ scope = 0
  /\ exported = [p \in PIdx |-> <<>>] /\ pending = [p \in PIdx |-> <<>>]
  /\ ops = 0 /\ done = FALSE /\ devUsed = {} /\ calls = <<>> /\ marks = {} /\ lastop = <<>> /\ hist = <<>>

(* ---- actions (parameters are the API arguments) ----------------------- *)
\* Tracer::StartSpan(name, attributes, links, options) on a tracer of scope sc, provider resource rs
Start(n, kd, as, ls, ss, st, rs, sc) ==
  /\ phase = "init" /\ ~done
  /\ phase' = "recording" /\ name' = n /\ kind' = kd
  /\ attrs' = Fold(NoAttrs, as)
  /\ links' = [i \in 1..Len(ls) |-> [ctx |-> ls[i].ctx, attrs |-> Fold(NoAttrs, ls[i].attrs)]]
  /\ startSys' = ss /\ startSteady' = st /\ res' = rs /\ scope' = sc
  /\ UNCHANGED <<events, status, statusO, endSteady, exported, pending, done, devUsed, ops>>
  /\ calls' = IF Ghost THEN <<[op |-> "start", n |-> n, as |-> as]>> ELSE calls
  /\ lastop' = <<"start">>
  /\ marks' = IF Hist /\ \E i, j \in 1..Len(as) : i < j /\ as[i].k = as[j].k /\ as[i].v # as[j].v THEN {"dupStart"} ELSE {}
  /\ Rec([op |-> "start", name |-> n, kind |-> kd, attrs |-> as, links |-> ls, ss |-> ss, st |-> st,
          res |-> rs, scope |-> sc, procs |-> Procs])

Usable == phase \in {"recording", "ended"} /\ ~done /\ ops < MaxOps   \* the application still holds the span

SetAttribute(k, v) ==
  /\ Usable
  /\ attrs' = IF phase = "recording" THEN [attrs EXCEPT ![k] = v] ELSE attrs
  /\ UNCHANGED <<phase, name, kind, events, links, status, statusO, startSys, startSteady, endSteady, res, scope,
                 exported, pending, done, devUsed>>
  /\ Log([op |-> "set", k |-> k, v |-> v]) /\ Step(<<"set", phase>>, Post("postSet") \cup (IF phase = "recording" /\ attrs[k] \notin {0, v} THEN {"overwrite"} ELSE {})
                                     \cup (IF phase = "ended" /\ "postFlush" \in marks THEN {"flushThenPostSet"} ELSE {}))
  /\ Rec([op |-> "set", k |-> k, v |-> v])

\* ovl: 1 AddEvent(name)  2 (name, ts)  3 (name, attrs)  4 (name, ts, attrs)
AddEvent(n, ovl, ts, as) ==
  /\ Usable
  /\ ovl \in {1, 3} => ts = 0
  /\ ovl \in {2, 4} => ts # 0
  /\ ovl \in {1, 2} => as = <<>>
  /\ phase = "recording" => Len(events) < MaxEvents
  /\ events' = IF phase = "recording" THEN Append(events, [name |-> n, ts |-> ts, attrs |-> Fold(NoAttrs, as)])
               ELSE events
  /\ UNCHANGED <<phase, name, kind, attrs, links, status, statusO, startSys, startSteady, endSteady, res, scope,
                 exported, pending, done, devUsed>>
  /\ Log([op |-> "event", n |-> n]) /\ Step(<<"event", phase, ovl>>, Post("postEvent") \cup
          (IF phase = "recording" /\ Len(as) = 2 /\ as[1].k = as[2].k /\ as[1].v # as[2].v THEN {"dupEvent"} ELSE {}))
  /\ Rec([op |-> "event", name |-> n, ovl |-> ovl, ts |-> ts, attrs |-> as])

SetStatus(c, d) ==
  /\ Usable
  /\ status' = IF phase = "recording" THEN [code |-> c, desc |-> d] ELSE status
  /\ statusO' = IF phase = "recording" /\ statusO.code # "Ok" /\ c # "Unset" THEN [code |-> c, desc |-> d] ELSE statusO
  /\ UNCHANGED <<phase, name, kind, attrs, events, links, startSys, startSteady, endSteady, res, scope,
                 exported, pending, done, devUsed>>
  /\ Log([op |-> "status", c |-> c, d |-> d]) /\ Step(<<"status", phase>>, Post("postStatus"))
  /\ Rec([op |-> "status", code |-> c, desc |-> d])

UpdateName(n) ==
  /\ Usable
  /\ name' = IF phase = "recording" THEN n ELSE name
  /\ UNCHANGED <<phase, kind, attrs, events, links, status, statusO, startSys, startSteady, endSteady, res, scope,
                 exported, pending, done, devUsed>>
  /\ Log([op |-> "name", n |-> n]) /\ Step(<<"name", phase>>, Post("postName"))
  /\ Rec([op |-> "name", name |-> n])

\* what End does to the processors, given the end time et (0: not given)
Deliver(et) ==
  /\ endSteady' = et
  /\ LET s == [Snap EXCEPT !.dur = IF startSteady # 0 /\ et # 0 THEN et - startSteady
                                   ELSE IF startSteady = 0 /\ et = 0 THEN 98 ELSE 99] IN
     /\ exported' = [p \in PIdx |-> IF Procs[p] = "simple" THEN Append(exported[p], s) ELSE exported[p]]
     /\ pending'  = [p \in PIdx |-> IF Procs[p] = "batch" THEN Append(pending[p], s) ELSE pending[p]]

End(et) ==
  /\ Usable
  /\ IF phase = "recording"
       THEN phase' = "ended" /\ Deliver(et)
       ELSE UNCHANGED <<phase, endSteady, exported, pending>>        \* a second End changes nothing
  /\ UNCHANGED <<name, kind, attrs, events, links, status, statusO, startSys, startSteady, res, scope, done, devUsed, calls>>
  /\ Step(<<"end", phase>>, Post("postEnd"))
  /\ Rec([op |-> "end", et |-> et])

\* the application drops its last reference: the destructor ends a span that is still recording
Release ==
  /\ Usable
  /\ phase' = "released"
  /\ IF phase = "recording" THEN Deliver(0) ELSE UNCHANGED <<endSteady, exported, pending>>
  /\ UNCHANGED <<name, kind, attrs, events, links, status, statusO, startSys, startSteady, res, scope, done, devUsed, calls>>
  /\ Step(<<"release", phase>>, IF phase = "recording" THEN {"implicitEnd"} ELSE {})
  /\ Rec([op |-> "release"])

\* TracerProvider::ForceFlush: every batch processor hands its queue to its exporter
Flush ==
  /\ phase # "init" /\ ~done /\ ops < MaxOps
  /\ exported' = [p \in PIdx |-> exported[p] \o pending[p]]
  /\ pending' = [p \in PIdx |-> <<>>]
  /\ UNCHANGED <<phase, svars, done, devUsed, calls>>
  /\ Step(<<"flush", phase>>, Post("postFlush") \cup (IF phase = "recording" THEN {"recFlush"} ELSE {}))
  /\ Rec([op |-> "flush"])

\* closing step of every generated behaviour: release (if still held) and flush
Finish ==
  /\ phase # "init" /\ ~done
  /\ done' = TRUE
  /\ phase' = "released"
  /\ IF phase = "recording"
       THEN /\ endSteady' = 0
            /\ LET s == [Snap EXCEPT !.dur = IF startSteady = 0 THEN 98 ELSE 99] IN
               exported' = [p \in PIdx |-> (exported[p] \o pending[p]) \o <<s>>]
       ELSE /\ exported' = [p \in PIdx |-> exported[p] \o pending[p]]
            /\ UNCHANGED endSteady
  /\ pending' = [p \in PIdx |-> <<>>]
  /\ UNCHANGED <<name, kind, attrs, events, links, status, statusO, startSys, startSteady, res, scope, devUsed, calls, ops>>
  /\ lastop' = <<"finish", phase>>
  /\ marks' = IF Hist /\ phase = "recording" THEN marks \cup {"implicitEnd"} ELSE marks
  /\ Rec([op |-> "finish"])

LinkSet == [ctx : Ctxs, attrs : SeqsUpTo(KV, MaxLinkAttrs)]
DoStart == \E n \in Names, kd \in Kinds, as \in SeqsUpTo(KV, MaxStartAttrs), ls \in SeqsUpTo(LinkSet, MaxLinks),
              ss \in Times \cup {0}, st \in {0, 1}, rs \in Resources, sc \in Scopes :
              Start(n, kd, as, ls, ss, st, rs, sc)
DoSet    == \E k \in Keys, v \in Vals : SetAttribute(k, v)
DoEvent  == \E n \in Names, ovl \in 1..4, ts \in Times \cup {0}, as \in SeqsUpTo(KV, MaxEvAttrs) : AddEvent(n, ovl, ts, as)
DoStatus == \E c \in Codes, d \in {0, 1} : SetStatus(c, d)
DoName   == \E n \in Names : UpdateName(n)
DoEnd    == \E et \in {0, 2, 3} : End(et)
Next == DoStart \/ DoSet \/ DoEvent \/ DoStatus \/ DoName \/ DoEnd \/ Release \/ Flush \/ Finish

\* Random-walk generation (TLC -simulate) over LARGE domains: TLC enumerates every successor of a state
\* before it picks one, so the big argument sets (attribute sequences, links) are drawn with
\* RandomElement instead of being enumerated; and because "invariants" are evaluated on every candidate
\* successor, only the deterministic step after Finish prints (EmitSim).
RandSeq(S, n) == [i \in 1..RandomElement(0..n) |-> RandomElement(S)]
RStart == \E n \in Names, ss \in Times \cup {0}, st \in {0, 1} :
             Start(n, RandomElement(Kinds), RandSeq(KV, MaxStartAttrs),
                   [i \in 1..RandomElement(0..MaxLinks) |-> [ctx |-> RandomElement(Ctxs), attrs |-> RandSeq(KV, MaxLinkAttrs)]],
                   ss, st, RandomElement(Resources), RandomElement(Scopes))
REvent == \E ovl \in 1..4 :
             AddEvent(RandomElement(Names), ovl, IF ovl \in {2, 4} THEN RandomElement(Times) ELSE 0,
                      IF ovl \in {3, 4} THEN RandSeq(KV, MaxEvAttrs) ELSE <<>>)
Emitted == /\ done /\ lastop[1] = "finish" /\ lastop' = <<"emitted">> /\ UNCHANGED <<bvars, marks, hist>>
NextSim == RStart \/ DoSet \/ REvent \/ DoStatus \/ DoName \/ DoEnd \/ Release \/ Flush \/ Finish \/ Emitted
Spec == Init /\ [][Next]_vars

(* ---- the property ------------------------------------------------------ *)
Ended == phase \in {"ended", "released"}
Got(p) == exported[p] \o pending[p]
TypeOK == /\ phase \in {"init", "recording", "ended", "released"}
          /\ \A k \in Keys : attrs[k] \in Vals \cup {0}
          /\ Len(events) <= MaxEvents
\* every processor is notified exactly once, and only by End (or the destructor)
ExportedOncePerProcessor == \A p \in PIdx : Len(Got(p)) = (IF Ended THEN 1 ELSE 0)
\* what it gets is the state of the span (nothing after End changed it: the state variables are
\* still the state at End, see AfterEndNothingChanges)
SnapshotEqualsState == Ended => \A p \in PIdx : Got(p) = <<Snap>>
\* every processor got the same
AllProcessorsIdentical == \A p, q \in PIdx : Got(p) = Got(q)
RecordingIffNotEnded == (phase = "recording") <=> (phase # "init" /\ ~Ended)
\* action property: once ended, no operation changes the span or exports anything more
AfterEndNothingChanges ==
  [][Ended => (/\ UNCHANGED svars
               /\ \A p \in PIdx : exported'[p] \o pending'[p] = exported[p] \o pending[p]
               /\ phase' \in {"ended", "released"})]_vars
\* a simple processor exports synchronously at End; a batch processor at the latest with the flush
SimpleIsSynchronous == \A p \in PIdx : Procs[p] = "simple" => pending[p] = <<>>
FlushedAtTheEnd == done => \A p \in PIdx : pending[p] = <<>> /\ Len(exported[p]) = 1

\* declarative reading of the statement over the ghost call log (Ghost = TRUE configurations):
\* last write wins per key, the name is the last UpdateName, events in call order
LastIdx(S) == CHOOSE i \in S : \A j \in S : j <= i
SetsOf(k) == {i \in 1..Len(calls) : calls[i].op = "set" /\ calls[i].k = k}
StartAs == calls[1].as
StartSetsOf(k) == {i \in 1..Len(StartAs) : StartAs[i].k = k}
LastWriteWins == (Ghost /\ phase # "init") => \A k \in Keys :
   attrs[k] = IF SetsOf(k) # {} THEN calls[LastIdx(SetsOf(k))].v
              ELSE IF StartSetsOf(k) # {} THEN StartAs[LastIdx(StartSetsOf(k))].v ELSE 0
NameIsLastUpdate == (Ghost /\ phase # "init") =>
   LET U == {i \in 1..Len(calls) : calls[i].op = "name"} IN
   name = IF U # {} THEN calls[LastIdx(U)].n ELSE calls[1].n
EventsInCallOrder == (Ghost /\ phase # "init") =>
   LET E == {i \in 1..Len(calls) : calls[i].op = "event"} IN
   /\ Len(events) = Cardinality(E)
   /\ \A j \in 1..Len(events) : \E i \in E : Cardinality({x \in E : x <= i}) = j /\ events[j].name = calls[i].n
StatusIsLastSet == (Ghost /\ phase # "init") =>
   LET S == {i \in 1..Len(calls) : calls[i].op = "status"} IN
   status = IF S # {} THEN [code |-> calls[LastIdx(S)].c, desc |-> calls[LastIdx(S)].d] ELSE [code |-> "Unset", desc |-> 0]

(* ---- behaviour export ------------------------------------------------ *)
ViewState == <<phase, svars, exported, pending, done, devUsed, calls>>
View == <<phase, svars, exported, pending, done, devUsed, calls, marks, lastop>>
EmitDone == done => PrintT(<<"BEH", ToJson(hist)>>)
EmitSim == (lastop = <<"emitted">>) => PrintT(<<"BEH", ToJson(hist)>>)
\* rare conditions, each printed once with a shortest behaviour (workers = 1; TLC registers 1..N)
WitNames == <<"SetAfterEnd", "EventAfterEnd", "StatusAfterEnd", "NameAfterEnd", "DoubleEnd", "ReleaseWhileRecording",
              "DupKeyAtStart", "DupKeyInEvent", "OverwriteAttr", "StatusOkThenError", "EndThenFlushThenSet",
              "LinkWithAttrs", "BothSteadyTimes", "FlushBeforeEnd">>
WitConds == <<done /\ "postSet" \in marks, done /\ "postEvent" \in marks, done /\ "postStatus" \in marks,
              done /\ "postName" \in marks, done /\ "postEnd" \in marks, done /\ "implicitEnd" \in marks,
              done /\ "dupStart" \in marks, done /\ "dupEvent" \in marks, done /\ "overwrite" \in marks,
              done /\ status.code = "Error" /\ statusO.code = "Ok",
              done /\ "flushThenPostSet" \in marks,
              done /\ Len(links) > 0 /\ \E k \in Keys : links[1].attrs[k] # 0,
              done /\ startSteady # 0 /\ endSteady # 0,
              done /\ "recFlush" \in marks /\ endSteady # 0>>
InitW == Init /\ \A i \in 1..Len(WitNames) : TLCSet(i, 0)
WitAll == \A i \in 1..Len(WitNames) :
            (TLCGet(i) = 0 /\ WitConds[i]) =>
               (TLCSet(i, 1) /\ PrintT(<<"BEH", ToJson([w |-> WitNames[i], steps |-> hist])>>))
WitStop == \E i \in 1..Len(WitNames) : TLCGet(i) = 0      \* "violated" once every witness was printed: stops the run
=============================================================================
