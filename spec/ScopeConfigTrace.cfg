\* tools/props/C19.py writes the same text with Dev = the deviations currently listed as known
CONSTANTS
  SignalSet <- SignalsAll  MatcherSet <- Matchers3  ScopeSet <- Scopes3
  MaxRules = 0  MaxGets = 100000  MaxEmits = 100000  Hist = FALSE
  Dev = {"getlogger-disabled-scope-new-object"}
INIT TInit
NEXT TNext
CONSTRAINT Progress
INVARIANTS Report TraceInv
POSTCONDITION Accepted
CHECK_DEADLOCK FALSE
