\* every admissible threshold function over 3 ratios in (0,1) (+ one <= 0, one >= 1) and every hash of
\* 3 trace ids into 0..4
CONSTANTS Mode = "ratio" Dev = {} Hist = FALSE NMid = 3 NIds = 3 Top = 4
INIT Init
NEXT Next
INVARIANTS ZeroSamplesNothing OneSamplesAll Nested RaisingOnlyAdds CanonicalExplains RejectsBadRows
