--------------------------- MODULE NostdOwnership ---------------------------
(***************************************************************************)
(* C20, ownership machine: what std::unique_ptr / std::shared_ptr promise *)
(* (and therefore what nostd::unique_ptr / nostd::shared_ptr must do) for  *)
(* every sequence of the operations the nostd types offer.                 *)
(*                                                                         *)
(* Pointer variables Vars (each a unique_ptr or a shared_ptr, of element   *)
(* type Base or Derived) over instance-counted objects 1..NObj.            *)
(* Abstract state: which variables are in scope, what each one owns,       *)
(* which objects are held as raw pointers by the caller (after release()), *)
(* and the life cycle of every object.  Every operation says how ownership *)
(* moves and which object it lets go of (`rel`); an object let go of is    *)
(* destroyed in that very step iff nobody owns it afterwards.  The         *)
(* property's clauses are the invariants at the end (checked by TLC on the *)
(* whole state graph with Dev = {}):                                       *)
(*   every managed object is destroyed at most once, it is alive exactly   *)
(*   as long as somebody owns it (no leak, no dangling owner), a           *)
(*   unique_ptr never shares, get() is the identity of the owned object.   *)
(*                                                                         *)
(* Don't-care band: self move-assignment `v = std::move(v)`.  The standard *)
(* library leaves the object in a "valid but unspecified state"            *)
(* ([res.on.arguments], [lib.types.movedfrom]); the spec admits both       *)
(* "unchanged" and "emptied" (AssignMoveSelf).                             *)
(*                                                                         *)
(* Named deviation (what the unchanged code does, DESIGN F15):             *)
(*   shared-self-copy-assign-sole-owner:  `s = s` on a shared_ptr that is  *)
(*   the only owner destroys the object and keeps the (dangling) pointer   *)
(*   (A); if s is null but owns a control block of its own, the control    *)
(*   block is freed and used again: nothing observable, the process may    *)
(*   die (B).  See AssignCopy / AssignCopySelfDev.                         *)
(*   shared-assign-from-member-of-own-pointee:  `head = head->next` /      *)
(*   `head = std::move(head->next)` on shared_ptr: the old head is let go  *)
(*   of before the source is read, which destroys the source and the whole *)
(*   rest of the chain.  See FromPointee / AssignFromPointeeDev.           *)
(*                                                                         *)
(* Objects are nodes (MKind): each owns a member pointer variable, so that *)
(* sources and destinations of every operation may live inside managed     *)
(* objects and destruction cascades along chains.                          *)
(***************************************************************************)
EXTENDS Naturals, Sequences, FiniteSets, TLC, Json

CONSTANTS NVar,    \* number of pointer variables (names "a", "b", "c")
          UVars,   \* names that are unique_ptr (the others are shared_ptr)
          BVars,   \* names whose element type is Base (the others Derived)
          NObj,    \* objects 1..NObj (all of dynamic type Derived)
          MKind,   \* "none" | "unique" | "shared": every object is a node with an owning member `next` of that
                   \* kind (element type Derived): the member of object o is the pointer variable "m<o>" of the
                   \* machine, alive (and initially empty) exactly as long as o is, so that every operation can
                   \* have its source or destination INSIDE a managed object (a = std::move(a->next), ...)
          Hist,    \* BOOLEAN: record behaviours (generation runs)
          Depth,   \* generation: length of the behaviours that are printed
          Dev      \* set of deviation names that are modelled

MName == <<"m1", "m2", "m3">>
Roots == SubSeq(<<"a", "b", "c">>, 1, NVar)
Vars == IF MKind = "none" THEN Roots ELSE Roots \o SubSeq(MName, 1, NObj)
RootVar == {Roots[i] : i \in 1..Len(Roots)}
MVarsOf(D) == IF MKind = "none" THEN {} ELSE {MName[o] : o \in D}
Var  == {Vars[i] : i \in 1..Len(Vars)}
Obj  == 1..NObj
Null == 0
OOS  == 9          \* "variable is not in scope" in the observable projection
MemberVars == MVarsOf(Obj)
SelfCopyDev == "shared-self-copy-assign-sole-owner"
PointeeDev  == "shared-assign-from-member-of-own-pointee"
NWit == 16

VARIABLES scope,   \* set of variables currently alive
          own,     \* Var -> Obj \cup {Null}
          raw,     \* objects owned by the caller through a raw pointer (after release())
          ost,     \* Obj -> "unborn" | "live" | "dead"
          dcnt,    \* Obj -> number of destructor runs (ghost)
          devUsed, \* ghost: deviations taken
          ncb,     \* ghost, only read by the deviation: shared_ptr variables that hold null but may own a
                   \* control block of their own (built from a null raw pointer / an empty unique_ptr:
                   \* std::shared_ptr<T>(static_cast<T*>(nullptr)) is not "empty").  Nothing the
                   \* interface offers can observe it.
          hist

bvars == <<scope, own, raw, ost, dcnt, devUsed, ncb>>
vars  == <<bvars, hist>>

IsU(v) == v \in UVars \/ (v \in MemberVars /\ MKind = "unique")
IsB(v) == v \in BVars
SameType(v, w) == IsB(v) <=> IsB(w)
\* w's pointer converts to v's: Derived* -> Base* or same type
PtrConv(w, v) == IsB(w) => IsB(v)
\* an rvalue of w can initialise / be assigned to v
MoveConv(w, v) == PtrConv(w, v) /\ (IsU(v) => IsU(w))
\* ... except that nostd offers no `shared_ptr<Base> = unique_ptr<Derived>&&` (two user conversions)
AssignConv(w, v) == MoveConv(w, v) /\ ~(IsU(w) /\ ~IsU(v) /\ ~SameType(v, w))
\* an lvalue of w can be copied into v (nostd::shared_ptr has no converting copy)
CopyConv(w, v) == ~IsU(w) /\ ~IsU(v) /\ SameType(v, w)
Swappable(v, w) == (IsU(v) <=> IsU(w)) /\ SameType(v, w)

Owned(o, sc, ow, rw) == (\E v \in sc : ow[v] = o) \/ o \in rw
Unborn == {o \in Obj : ost[o] = "unborn"}
NextObj == CHOOSE o \in Unborn : \A p \in Unborn : o <= p
SoleOwner(v) == own[v] # Null /\ \A w \in scope \ {v} : own[w] # own[v]

(* ---- observable projection (public API + instance counting) ---------- *)
\*  get[i]   object whose address get() returns (0 = nullptr, 9 = not in scope)
\*  live[o]  the instance counter says object o is alive
\*  died     objects whose destructor ran during this step
\*  ret      value returned by release(); for CtorAdopt/ResetAdopt/RawDelete the raw pointer that is
\*           passed in (an argument, echoed by the replayer); 9 for every other operation
\*  same     v == w for the pairs (1,2) (1,3) (2,3) of same-kind variables: "T" "F", "-" not applicable
SameK(i, j, sc, ow) ==
  LET v == Vars[i] w == Vars[j] IN
  IF v \in sc /\ w \in sc /\ (IsU(v) <=> IsU(w)) THEN (IF ow[v] = ow[w] THEN "T" ELSE "F") ELSE "-"
Pairs == IF Len(Vars) >= 3 THEN <<<<1, 2>>, <<1, 3>>, <<2, 3>>>> ELSE IF Len(Vars) = 2 THEN <<<<1, 2>>>> ELSE <<>>
ObsOf(sc, ow, os, died, ret) ==
  [get  |-> [i \in 1..Len(Vars) |-> IF Vars[i] \in sc THEN ow[Vars[i]] ELSE OOS],
   live |-> [o \in Obj |-> os[o] = "live"],
   died |-> died,
   ret  |-> ret,
   same |-> [k \in 1..Len(Pairs) |-> SameK(Pairs[k][1], Pairs[k][2], sc, ow)]]

NoDev == [name |-> "", exp |-> <<>>]

\* after a deviating step the real program has undefined behaviour: nothing more is specified;
\* generation runs stop at Depth operations
Go == devUsed = {} /\ (~Hist \/ Len(hist) < Depth)

\* Destruction cascades: an object that dies takes its member variable with it, which lets go of
\* what IT owns, and so on.  D: objects dead so far.
RECURSIVE Cascade(_, _, _, _)
Cascade(sc, ow, rw, D) ==
  LET sc3  == sc \ MVarsOf(D)
      more == {o \in ({ow[m] : m \in MVarsOf(D)} \ ({Null} \cup D)) : ~Owned(o, sc3, ow, rw)}
  IN IF more = {} THEN D ELSE Cascade(sc, ow, rw, D \cup more)
\* The state after an operation that leaves scope sc2 / ownership ow2 / raw set rw2, creates `born`
\* and lets go of `rel`: an object let go of dies in this step iff nobody owns it afterwards.
Settle(sc2, ow2, rw2, born, rel) ==
  LET scb == sc2 \cup MVarsOf(born)                 \* members of new objects exist, empty
      D   == Cascade(scb, ow2, rw2, {o \in rel \ {Null} : ~Owned(o, scb, ow2, rw2)})
  IN [sc   |-> scb \ MVarsOf(D),
      ow   |-> [x \in Var |-> IF x \in MVarsOf(D) THEN Null ELSE ow2[x]],
      os   |-> [o \in Obj |-> IF o \in D THEN "dead" ELSE IF o \in born THEN "live" ELSE ost[o]],
      died |-> D]
\* objects reachable from the root variables and the caller's raw pointers
RECURSIVE ReachN(_, _, _)
ReachN(ow, sc, R) == LET R2 == R \cup ({ow[m] : m \in MVarsOf(R) \cap sc} \ {Null})
                     IN IF R2 = R THEN R ELSE ReachN(ow, sc, R2)
Reach(sc, ow, rw) == ReachN(ow, sc, ({ow[x] : x \in sc \cap RootVar} \ {Null}) \cup rw)
\* Ownership cycles (an object owning itself through its members) leak in std as well and are never
\* built: every operation must leave every live object reachable from a root.
NoCycle(st, rw) == \A o \in Obj : st.os[o] = "live" =>
                      /\ o \in Reach(st.sc, st.ow, rw)
                      /\ o \notin ReachN(st.ow, st.sc, {st.ow[m] : m \in MVarsOf({o}) \cap st.sc} \ {Null})

\* One operation: new scope / ownership / raw set, newly created objects, objects let go of.
\* alts: other outcomes the contract allows for this step (don't-care band); dv: deviation record
Step(op, v, w, sc2, ow2, rw2, born, rel, ret, alts, dv, n2) ==
  LET st == Settle(sc2, ow2, rw2, born, rel)
  IN /\ Go
     /\ NoCycle(st, rw2)
     /\ scope' = st.sc /\ own' = st.ow /\ raw' = rw2
     /\ ost' = st.os
     /\ dcnt' = [o \in Obj |-> dcnt[o] + (IF o \in st.died THEN 1 ELSE 0)]
     /\ UNCHANGED devUsed
     /\ ncb' = {x \in n2 \cap st.sc : ~IsU(x) /\ st.ow[x] = Null}
     /\ hist' = IF ~Hist THEN hist
                ELSE Append(hist, [op |-> op, v |-> v, w |-> w,
                                   exp |-> ObsOf(st.sc, st.ow, st.os, st.died, ret),
                                   alts |-> alts, dev |-> dv.name, expDev |-> dv.exp])

Plain(op, v, w, sc2, ow2, rw2, born, rel, ret, n2) == Step(op, v, w, sc2, ow2, rw2, born, rel, ret, <<>>, NoDev, n2)
\* v takes over what w holds: it may own a null control block iff w did, or iff w is an empty unique_ptr
Takes(v, w) == IF (w \in ncb) \/ (IsU(w) /\ own[w] = Null) THEN ncb \cup {v} ELSE ncb \ {v}

(* ---- construction ------------------------------------------------------ *)
CtorDefault(v) ==      \* P<T> v;   P<T> v(nullptr);
  /\ v \in RootVar /\ v \notin scope
  /\ Plain("CtorDefault", v, "", scope \cup {v}, [own EXCEPT ![v] = Null], raw, {}, {}, OOS, ncb \cup {v})

CtorNew(v) ==          \* P<T> v(new Derived)  /  from std::unique_ptr&& / std::shared_ptr
  /\ v \in RootVar /\ v \notin scope /\ Unborn # {}
  /\ LET o == NextObj IN
     Plain("CtorNew", v, "", scope \cup {v}, [own EXCEPT ![v] = o], raw, {o}, {}, OOS, ncb)

CtorAdopt(v, o) ==     \* P<T> v(p) with p a raw pointer obtained from release()
  /\ v \in RootVar /\ v \notin scope /\ o \in raw
  /\ Plain("CtorAdopt", v, "", scope \cup {v}, [own EXCEPT ![v] = o], raw \ {o}, {}, {}, o, ncb)

CtorCopy(v, w) ==      \* shared_ptr<T> v(w);
  /\ v \in RootVar /\ v \notin scope /\ w \in scope /\ CopyConv(w, v)
  /\ Plain("CtorCopy", v, w, scope \cup {v}, [own EXCEPT ![v] = own[w]], raw, {}, {}, OOS, Takes(v, w))

CtorMove(v, w) ==      \* P<T> v(std::move(w));  incl. Derived -> Base and unique -> shared
  /\ v \in RootVar /\ v \notin scope /\ w \in scope /\ MoveConv(w, v)
  /\ Plain("CtorMove", v, w, scope \cup {v}, [own EXCEPT ![v] = own[w], ![w] = Null], raw, {}, {}, OOS, Takes(v, w) \ {w})

(* ---- assignment -------------------------------------------------------- *)
\* Deviation shared-assign-from-member-of-own-pointee (v = w or v = std::move(w), both shared_ptr, w a
\* member of an object that only lives through v, e.g. head = head->next): the code lets go of v's
\* object BEFORE it takes w's.  That destroys w, and with it everything only w kept alive, and v is
\* then filled from the destroyed w (dangling; the process may die).  EarlyRelease = what that does.
EarlyRelease(v) == Settle(scope, [own EXCEPT ![v] = Null], raw, {}, {own[v]})
FromPointee(v, w) == /\ PointeeDev \in Dev /\ v # w /\ ~IsU(v) /\ ~IsU(w) /\ w \in MemberVars
                     /\ w \notin EarlyRelease(v).sc
PointeeObs(v, w) == LET st == EarlyRelease(v) IN
                    ObsOf(st.sc, [st.ow EXCEPT ![v] = own[w]], st.os, st.died, OOS)

\* v = w (copy), including v = v.  The old object of v is let go of.
\* Deviation (only v = v): (A) v is the only owner of its object: the code destroys the object and keeps
\* pointing at it; (B) v holds null but owns a control block of its own: the code frees the control
\* block and goes on using it -- nothing observable changes, the process may die (sanitizer, allocator).
AssignCopy(v, w) ==
  /\ v \in scope /\ w \in scope /\ CopyConv(w, v)
  /\ LET o == own[v]
         devA == v = w /\ SoleOwner(v) /\ SelfCopyDev \in Dev
         devB == v = w /\ own[v] = Null /\ v \in ncb /\ SelfCopyDev \in Dev
         os3 == [ost EXCEPT ![o] = "dead"]
         dv == IF devA THEN [name |-> SelfCopyDev, exp |-> <<ObsOf(scope, own, os3, {o}, OOS)>>]
               ELSE IF devB THEN [name |-> SelfCopyDev, exp |-> <<ObsOf(scope, own, ost, {}, OOS)>>]
               ELSE IF FromPointee(v, w) THEN [name |-> PointeeDev, exp |-> <<PointeeObs(v, w)>>]
               ELSE NoDev
     IN Step("AssignCopy", v, w, scope, [own EXCEPT ![v] = own[w]], raw, {}, {o}, OOS, <<>>, dv,
             IF v = w THEN ncb ELSE Takes(v, w))

\* what the unchanged code does for `s = s` when s is the only owner: the object is destroyed
\* and s keeps pointing at it.  Only for the AsImplemented model-checking run (terminal state).
AssignCopySelfDev(v) ==
  /\ Go /\ ~Hist /\ SelfCopyDev \in Dev        \* generation runs carry the deviation in expDev of the ideal step
  /\ v \in scope /\ ~IsU(v) /\ SoleOwner(v)
  /\ LET o == own[v] IN
     /\ ost' = [ost EXCEPT ![o] = "dead"]
     /\ dcnt' = [dcnt EXCEPT ![o] = dcnt[o] + 1]
     /\ devUsed' = devUsed \cup {SelfCopyDev}
     /\ UNCHANGED <<scope, own, raw, ncb, hist>>

AssignMove(v, w) ==    \* v = std::move(w), v # w
  /\ v \in scope /\ w \in scope /\ v # w /\ AssignConv(w, v)
  /\ Step("AssignMove", v, w, scope, [own EXCEPT ![v] = own[w], ![w] = Null], raw, {}, {own[v]}, OOS, <<>>,
          IF FromPointee(v, w) THEN [name |-> PointeeDev, exp |-> <<PointeeObs(v, w)>>] ELSE NoDev,
          Takes(v, w) \ {w})

\* the deviating outcome itself, for the as-implemented model-checking run (terminal state)
AssignFromPointeeDev(v, w) ==
  /\ Go /\ ~Hist /\ v \in scope /\ w \in scope /\ CopyConv(w, v) /\ FromPointee(v, w)
  /\ LET st == EarlyRelease(v) IN
     /\ scope' = st.sc /\ own' = [st.ow EXCEPT ![v] = own[w]] /\ ost' = st.os
     /\ dcnt' = [o \in Obj |-> dcnt[o] + (IF o \in st.died THEN 1 ELSE 0)]
     /\ devUsed' = devUsed \cup {PointeeDev}
     /\ ncb' = ncb \cap st.sc
     /\ UNCHANGED <<raw, hist>>

\* v = std::move(v): valid but unspecified -- unchanged or emptied (never dangling, never leaked)
AssignMoveSelf(v, keep) ==
  /\ v \in scope
  /\ LET o == own[v]
         owE == [own EXCEPT ![v] = Null]
         stE == Settle(scope, owE, raw, {}, {o})
         oK == ObsOf(scope, own, ost, {}, OOS)
         oE == ObsOf(stE.sc, stE.ow, stE.os, stE.died, OOS)
     IN IF keep THEN Step("AssignMoveSelf", v, v, scope, own, raw, {}, {}, OOS, <<oE>>, NoDev, ncb)
                ELSE Step("AssignMoveSelf", v, v, scope, owE, raw, {}, {o}, OOS, <<oK>>, NoDev, ncb \ {v})

AssignNull(v) ==       \* v = nullptr
  /\ v \in scope
  /\ Plain("AssignNull", v, "", scope, [own EXCEPT ![v] = Null], raw, {}, {own[v]}, OOS, ncb \ {v})

(* ---- unique_ptr only ------------------------------------------------- *)
Reset(v) ==            \* v.reset()
  /\ v \in scope /\ IsU(v)
  /\ Plain("Reset", v, "", scope, [own EXCEPT ![v] = Null], raw, {}, {own[v]}, OOS, ncb)

ResetNew(v) ==         \* v.reset(new Derived)
  /\ v \in scope /\ IsU(v) /\ Unborn # {}
  /\ LET o == NextObj IN
     Plain("ResetNew", v, "", scope, [own EXCEPT ![v] = o], raw, {o}, {own[v]}, OOS, ncb)

ResetAdopt(v, o) ==    \* v.reset(p), p a released raw pointer
  /\ v \in scope /\ IsU(v) /\ o \in raw
  /\ Plain("ResetAdopt", v, "", scope, [own EXCEPT ![v] = o], raw \ {o}, {}, {own[v]}, o, ncb)

Release(v) ==          \* p = v.release()  (or std::unique_ptr<T> s = std::move(v))
  /\ v \in scope /\ IsU(v)
  /\ Plain("Release", v, "", scope, [own EXCEPT ![v] = Null], raw \cup ({own[v]} \ {Null}), {}, {}, own[v], ncb)

RawDelete(o) ==        \* delete p
  /\ o \in raw
  /\ Plain("RawDelete", "", "", scope, own, raw \ {o}, {}, {o}, o, ncb)

(* ---- both ---------------------------------------------------------------- *)
Swap(v, w) ==          \* v.swap(w), including v.swap(v)
  /\ v \in scope /\ w \in scope /\ Swappable(v, w)
  /\ Plain("Swap", v, w, scope, [own EXCEPT ![v] = own[w], ![w] = own[v]], raw, {}, {}, OOS,
           (ncb \ {v, w}) \cup (IF w \in ncb THEN {v} ELSE {}) \cup (IF v \in ncb THEN {w} ELSE {}))

ScopeExit(v) ==        \* the variable's destructor runs
  /\ v \in RootVar /\ v \in scope
  /\ Plain("ScopeExit", v, "", scope \ {v}, [own EXCEPT ![v] = Null], raw, {}, {own[v]}, OOS, ncb \ {v})

Init == /\ scope = {} /\ own = [v \in Var |-> Null] /\ raw = {}
        /\ ost = [o \in Obj |-> "unborn"] /\ dcnt = [o \in Obj |-> 0]
        /\ devUsed = {} /\ ncb = {} /\ hist = <<>>
        /\ \A i \in 1..NWit : TLCSet(i, 0)

Next == \/ \E v \in Var : CtorDefault(v) \/ CtorNew(v) \/ AssignNull(v) \/ Reset(v) \/ ResetNew(v)
                          \/ Release(v) \/ ScopeExit(v) \/ AssignCopySelfDev(v)
        \/ \E v \in Var, keep \in BOOLEAN : AssignMoveSelf(v, keep)
        \/ \E v \in Var, o \in Obj : CtorAdopt(v, o) \/ ResetAdopt(v, o)
        \/ \E o \in Obj : RawDelete(o)
        \/ \E v \in Var, w \in Var : CtorCopy(v, w) \/ CtorMove(v, w) \/ AssignCopy(v, w)
                                     \/ AssignMove(v, w) \/ Swap(v, w) \/ AssignFromPointeeDev(v, w)

Spec == Init /\ [][Next]_vars

(* ---- the property ------------------------------------------------------ *)
TypeOK == /\ scope \subseteq Var /\ raw \subseteq Obj
          /\ \A v \in Var : own[v] \in Obj \cup {Null}
          /\ \A v \in Var \ scope : own[v] = Null
          /\ (MKind # "none" /\ devUsed = {}) => \A o \in Obj : (MName[o] \in scope) <=> (ost[o] = "live")
          /\ ncb \subseteq {v \in scope : ~IsU(v) /\ own[v] = Null}
DestroyedAtMostOnce == \A o \in Obj : dcnt[o] <= 1 /\ (ost[o] = "dead" <=> dcnt[o] = 1)
\* alive exactly as long as somebody owns it: no leak (live, no owner), no dangling owner
LiveIffOwned == \A o \in Obj : (ost[o] = "live") <=> Owned(o, scope, own, raw)
UniqueExclusive == \A v \in scope : (IsU(v) /\ own[v] # Null) =>
                      (own[v] \notin raw /\ \A w \in scope \ {v} : own[w] # own[v])
RawExclusive == \A o \in raw : \A v \in scope : own[v] # o
Property == DestroyedAtMostOnce /\ LiveIffOwned /\ UniqueExclusive /\ RawExclusive
\* AsImplemented (Dev = the modelled deviations): every way of breaking the property goes
\* through a named deviation
PropertyOrDev == Property \/ devUsed # {}
\* ... and the states reached without any deviation (exactly the states of the Dev = {} machine,
\* because a deviating step is terminal) satisfy the property
IdealHolds == (devUsed = {}) => Property

(* ---- behaviour export ---------------------------------------------------- *)
Born == {o \in Obj : ost[o] # "unborn"}
Beh == [steps |-> hist, born |-> Born]
EmitAll == (Hist /\ (Len(hist) = Depth)) => PrintT(<<"BEH", ToJson(Beh)>>)
Last == hist[Len(hist)]
HasLast == Hist /\ Len(hist) > 0
\* rare conditions that must be in the replay set of every run: each is reported once (per worker)
\* from the path-enumeration run itself; the check is broken if one of them is never reported
Wits == <<
  <<"SelfCopySole",    HasLast /\ Last.op = "AssignCopy" /\ Last.v = Last.w /\ Last.dev # "" /\ own[Last.v] # Null>>,
  <<"SelfCopyNullCB",  HasLast /\ Last.op = "AssignCopy" /\ Last.v = Last.w /\ Last.dev # "" /\ own[Last.v] = Null>>,
  <<"SelfCopyShared",  HasLast /\ Last.op = "AssignCopy" /\ Last.v = Last.w /\ Last.dev = "" /\ own[Last.v] # Null>>,
  <<"SelfMove",        HasLast /\ Last.op = "AssignMoveSelf" /\ Last.exp.died # {}>>,
  <<"SelfSwap",        HasLast /\ Last.op = "Swap" /\ Last.v = Last.w /\ own[Last.v] # Null>>,
  <<"LastOwnerExit",   HasLast /\ Last.op = "ScopeExit" /\ Last.exp.died # {} /\ Len(hist) >= 4>>,
  <<"NotLastExit",     HasLast /\ Last.op = "ScopeExit" /\ Last.exp.died = {} /\ \E i \in 1..Len(Vars) : Last.exp.get[i] \in Obj>>,
  <<"AssignKills",     HasLast /\ Last.op \in {"AssignCopy", "AssignMove"} /\ Last.v # Last.w /\ Last.exp.died # {}>>,
  <<"Adopt",           HasLast /\ Last.op \in {"CtorAdopt", "ResetAdopt"}>>,
  <<"RawDelete",       HasLast /\ Last.op = "RawDelete">>,
  <<"ConvUniqueShared", HasLast /\ Last.op \in {"CtorMove", "AssignMove"} /\ Last.w \in UVars /\ Last.v \notin UVars /\ own[Last.v] # Null>>,
  <<"ConvDerivedBase", HasLast /\ Last.op \in {"CtorMove", "AssignMove"} /\ Last.w \notin BVars /\ Last.v \in BVars /\ own[Last.v] # Null>>,
  \* the source lives inside the object the destination owns: head = std::move(head->next), head = head->next
  <<"AssignFromOwnPointee", HasLast /\ Last.op \in {"AssignMove", "AssignCopy"} /\ Last.w \in MemberVars /\ Last.w \notin scope
                            /\ Last.exp.died # {} /\ own[Last.v] # Null>>,
  \* head.reset(head->next.release())
  <<"ResetFromOwnPointee", HasLast /\ Len(hist) > 1 /\ Last.op = "ResetAdopt" /\ Last.exp.died # {} /\ hist[Len(hist) - 1].op = "Release"
                           /\ hist[Len(hist) - 1].v \in MemberVars /\ hist[Len(hist) - 1].v \notin scope>>,
  <<"CascadeDeath",    HasLast /\ Cardinality(Last.exp.died) >= 2>>,
  <<"MemberTakesOver", HasLast /\ Last.op \in {"AssignMove", "AssignCopy", "ResetNew", "ResetAdopt"} /\ Last.v \in MemberVars /\ own[Last.v] # Null>> >>
WitAll == \A i \in 1..NWit : (Wits[i][2] /\ TLCGet(i) = 0) => (PrintT(<<"WIT", Wits[i][1]>>) /\ TLCSet(i, 1))
=============================================================================
