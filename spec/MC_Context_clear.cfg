\* C10 exhaustive: keys re-bound to the empty ContextValue ("clear a key"): shadowing consistent between GetValue and HasKey
CONSTANTS NT = 1  NK = 2  NV = 1  NS = 0  MaxCtx = 3  MaxSet = 3  MaxDepth = 0  MaxMap = 2  MaxDrop = 0  MaxTok = 1  SampleToks = 0  WithEmpty = TRUE
          GenDepth = 0  DeepTarget = 99  Hist = FALSE  KeepFlags = FALSE  Dev = {}
INIT Init
NEXT Next
VIEW View
INVARIANTS TypeOK MostRecentBinding Shadowing StackFrames
PROPERTIES Immutable AttachMakesCurrent DetachRestores ForeignTokenNoOp TokenLifetime ScopeActivates ThreadsIsolated
