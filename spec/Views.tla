------------------------------- MODULE Views -------------------------------
(***************************************************************************)
(* C19, second clause: "A registered view applies to exactly the           *)
(* instruments whose type, name (exact or pattern), unit and meter         *)
(* identity match its selectors, and then its name, description,           *)
(* aggregation and attribute filter - and nothing else - shape the         *)
(* exported stream, while instruments matched by no view get the default   *)
(* aggregation for their type."                                            *)
(*                                                                         *)
(* API-level reference machine of MeterProvider::AddView /                 *)
(* Meter::Create*  / MetricReader::Collect:                                *)
(*   AddView(v)      registers v (views are registered before instruments) *)
(*   CreateInst(i)   creates instrument i and records ONE measurement with *)
(*                   the attribute keys i.attrs (the harness tags it with  *)
(*                   a value unique to i, so that every collected stream   *)
(*                   can be attributed to its instrument)                  *)
(*   Collect         a pull reader collects                                *)
(* The observable is, per instrument, the bag of streams                   *)
(*   [name, desc, unit, type, kind, keys, meter].                          *)
(* Streams(i, views, {}) is the ideal: one stream per matching view in     *)
(* registration order (the ORDER is not part of the statement and is not   *)
(* compared), the default stream if none matches; a view with the drop     *)
(* aggregation contributes no data-carrying stream.                        *)
(*                                                                         *)
(* Name selectors: exact | prefix.* | .*suffix | * | one regular-expression *)
(* operator alone (alternation, ? + * [..] . \. ^$ {n}), full match.        *)
(* Meter identity: name, version and schema url range over {empty, a, b}   *)
(* on the meter side and on the selector side; an empty SELECTOR field     *)
(* does not constrain, a given one selects exactly the meters with that    *)
(* value (an unnamed meter is not selected by a selector naming a meter).  *)
(* Left open (not generated / not compared): a meter WITHOUT version or    *)
(* schema against a selector WITH one, where the verdict depends on it     *)
(* (Open); monotonicity, temporality, values; regex metacharacters inside  *)
(* "exact" names.                                                          *)
(*                                                                         *)
(* Named deviations (what the unchanged code does):                        *)
(*  multi-view-last-wins                     of several matching views     *)
(*        only the LAST one's stream is collected                          *)
(*  observable-view-attribute-filter-ignored  the attribute filter of a    *)
(*        view is not applied to observable (asynchronous) instruments     *)
(*  attribute-filter-key-as-c-string          the allow-list is looked up  *)
(*        with key.data() as a C string: a non-terminated key view is not  *)
(*        found, a key with an embedded NUL is found by its prefix         *)
(***************************************************************************)
EXTENDS Naturals, Sequences, FiniteSets, TLC, Json

CONSTANTS TypeSet,      \* instrument types in this run
          PatSet,       \* name selectors
          UnitSelSet,   \* unit selectors
          MSelSet,      \* meter selectors
          ShapeSet,     \* [name, desc, agg, filter] of a view
          INameSet, IUnitSet, MeterSet, AttrSet,   \* instruments
          MaxViews, MaxInst,
          Hist          \* BOOLEAN: record the behaviour in hist (generation runs only)

AllDevs == {"multi-view-last-wins", "observable-view-attribute-filter-ignored", "attribute-filter-key-as-c-string"}

(* ---- vocabulary ---------------------------------------------------------- *)
Types == {"Counter", "UpDownCounter", "Histogram", "ObsCounter", "ObsUpDown", "ObsGauge"}
IsObs(t) == t \in {"ObsCounter", "ObsUpDown", "ObsGauge"}
\* "the default aggregation for their type"
DefaultKind(t) == CASE t \in {"Counter", "UpDownCounter", "ObsCounter", "ObsUpDown"} -> "sum"
                    [] t = "Histogram" -> "hist"
                    [] t = "ObsGauge"  -> "last"
Aggs    == {"default", "sum", "last", "hist", "drop"}
Filters == {"none", "k1", "empty"}                    \* no filter | allow-list {k1} | allow-list {}

\* instrument names are token sequences; selectors: exact, prefix.*, .*suffix, * and ("rx") a regular
\* expression that must match the WHOLE name ("name (exact or pattern)")
AllNames == {<<"x", "a">>, <<"x", "b">>, <<"y", "a">>}
P(k, s)  == [k |-> k, s |-> s]
AllPats  == {P("exact", n) : n \in AllNames \cup {<<"z", "z">>}} \cup {P("prefix", <<"x">>), P("suffix", <<"a">>), P("all", <<>>)}

\* Regular-expression selectors.  A pattern is a tree over name tokens; Lang(t, L) is the set of token
\* sequences of length <= L it denotes (the textbook semantics; nothing flavour specific: full match
\* only, so greediness, captures, anchors inside a full match etc. do not matter).  The replayer
\* renders a tree with one character per token, so that every operator stands ALONE in the pattern
\* text:  alt a|b   opt a?   plus a+   star a*   cls [ab]   any .   escdot \.   anch ^..$   rep a{n}
RxAlphabet == {"x", "y", "a", "b", "z", ".", "_"}
Tk(c) == <<"tok", c>>
Sq(ts) == <<"seq", ts>>
Cat(A, B, L) == {w \in {u \o v : u \in A, v \in B} : Len(w) <= L}
RECURSIVE PlusSet(_, _, _)
PlusSet(A, acc, L) == LET nxt == acc \cup Cat(acc, A, L) IN IF nxt = acc THEN acc ELSE PlusSet(A, nxt, L)
RECURSIVE RepSet(_, _, _)
RepSet(A, n, L) == IF n = 0 THEN {<<>>} ELSE Cat(RepSet(A, n - 1, L), A, L)
RECURSIVE Lang(_, _)
RECURSIVE SeqLang(_, _)
SeqLang(ts, L) == IF ts = <<>> THEN {<<>>} ELSE Cat(Lang(Head(ts), L), SeqLang(Tail(ts), L), L)
Lang(t, L) ==
  CASE t[1] = "tok"    -> {<<t[2]>>}
    [] t[1] = "any"    -> {<<c>> : c \in RxAlphabet}
    [] t[1] = "cls"    -> {<<t[2][j]>> : j \in 1..Len(t[2])}
    [] t[1] = "escdot" -> {<<".">>}
    [] t[1] = "seq"    -> SeqLang(t[2], L)
    [] t[1] = "alt"    -> Lang(t[2], L) \cup Lang(t[3], L)
    [] t[1] = "opt"    -> {<<>>} \cup Lang(t[2], L)
    [] t[1] = "plus"   -> PlusSet(Lang(t[2], L), Lang(t[2], L), L)
    [] t[1] = "star"   -> {<<>>} \cup PlusSet(Lang(t[2], L), Lang(t[2], L), L)
    [] t[1] = "rep"    -> RepSet(Lang(t[2], L), t[3], L)
    [] t[1] = "anch"   -> Lang(t[2], L)
\* P("rx", <<label, tree>>): one pattern per operator, the operator being the only syntax in it
Rx(label, tree) == P("rx", <<label, tree>>)
RxPats == {Rx("alt",     <<"alt", Sq(<<Tk("x"), Tk("a")>>), Sq(<<Tk("y"), Tk("a")>>)>>),      \* xa|ya
           Rx("altone",  <<"alt", Sq(<<Tk("x"), Tk("b")>>), Sq(<<Tk("z"), Tk("z")>>)>>),      \* xb|zz
           Rx("altsub",  <<"alt", Tk("x"), Sq(<<Tk("x"), Tk("a"), Tk("a")>>)>>),               \* x|xaa
           Rx("opt",     Sq(<<Tk("x"), Tk("a"), <<"opt", Tk("a")>>>>)),                        \* xaa?
           Rx("plus",    Sq(<<Tk("x"), <<"plus", Tk("a")>>>>)),                                \* xa+
           Rx("star",    Sq(<<Tk("x"), <<"star", Tk("a")>>>>)),                                \* xa*
           Rx("cls",     Sq(<<Tk("x"), <<"cls", <<"a", "b">>>>>>)),                            \* x[ab]
           Rx("any",     Sq(<<Tk("x"), <<"any">>, Tk("a")>>)),                                 \* x.a
           Rx("escdot",  Sq(<<Tk("x"), <<"escdot">>, Tk("a")>>)),                              \* x\.a
           Rx("anch",    <<"anch", Sq(<<Tk("x"), Tk("a")>>)>>),                                \* ^xa$
           Rx("rep",     Sq(<<Tk("x"), <<"rep", Tk("a"), 2>>>>))}                              \* xa{2}
RxNames == {<<"x">>, <<"x", "a">>, <<"x", "a", "a">>, <<"x", "b">>, <<"y", "a">>, <<"x", ".", "a">>, <<"x", "_", "a">>}
RxMatch(p, n) == n \in Lang(p.s[2], Len(n))
\* the intended relation, written out by hand (a cross-check of Lang, evaluated by TLC at start-up)
RxTable(l) == CASE l = "alt"    -> {<<"x", "a">>, <<"y", "a">>}
                [] l = "altone" -> {<<"x", "b">>}
                [] l = "altsub" -> {<<"x">>, <<"x", "a", "a">>}
                [] l = "opt"    -> {<<"x", "a">>, <<"x", "a", "a">>}
                [] l = "plus"   -> {<<"x", "a">>, <<"x", "a", "a">>}
                [] l = "star"   -> {<<"x">>, <<"x", "a">>, <<"x", "a", "a">>}
                [] l = "cls"    -> {<<"x", "a">>, <<"x", "b">>}
                [] l = "any"    -> {<<"x", "a", "a">>, <<"x", ".", "a">>, <<"x", "_", "a">>}
                [] l = "escdot" -> {<<"x", ".", "a">>}
                [] l = "anch"   -> {<<"x", "a">>}
                [] l = "rep"    -> {<<"x", "a", "a">>}
ASSUME RxTableOK == \A p \in RxPats : {n \in RxNames : RxMatch(p, n)} = RxTable(p.s[1])

NameMatch(p, n) == CASE p.k = "all"    -> TRUE
                     [] p.k = "exact"  -> n = p.s
                     [] p.k = "prefix" -> Len(n) >= Len(p.s) /\ SubSeq(n, 1, Len(p.s)) = p.s
                     [] p.k = "suffix" -> Len(n) >= Len(p.s) /\ SubSeq(n, Len(n) - Len(p.s) + 1, Len(n)) = p.s
                     [] p.k = "rx"     -> RxMatch(p, n)
AllUnits   == {"", "ms", "By"}                        \* selector "" = any unit
UnitMatch(sel, u) == sel = "" \/ sel = u

\* Meter identities: name, version and schema url are each EMPTY (not given: GetMeter("") is accepted by
\* the SDK, which only logs a warning; version and schema default to "") or one of two values, on the
\* meter side and on the selector side alike.  id = "name|version|schema" (abstract tokens).
MNames    == {"", "m1", "m2"}
MVersions == {"", "1.0", "2.0"}
MSchemas  == {"", "s1", "s2"}
M(n, v, s) == [id |-> n \o "|" \o v \o "|" \o s, name |-> n, version |-> v, schema |-> s]
MeterA == M("m1", "1.0", "s1")
MeterB == M("m1", "2.0", "s1")
MeterC == M("m2", "1.0", "")
MeterU == M("", "1.0", "s1")      \* the unnamed meter of a versioned library
MeterN == M("", "", "")           \* GetMeter("")
MeterV == M("m1", "", "")         \* GetMeter("m1")
AllMeters == {M(n, v, s) : n \in MNames, v \in MVersions, s \in MSchemas}
MS(n, v, s) == [name |-> n, version |-> v, schema |-> s]
AllMSels == {MS(n, v, s) : n \in MNames, v \in MVersions, s \in MSchemas}
\* A selector field that is empty does not constrain the meter (MeterSelector("", "", "") selects every
\* meter, also the unnamed one); a selector field that is given selects the meters with exactly that
\* value - an unnamed meter is not the meter "m1".
FieldMatch(sel, f) == sel = "" \/ sel = f
MeterMatch(ms, m) == /\ FieldMatch(ms.name, m.name)
                     /\ FieldMatch(ms.version, m.version)
                     /\ FieldMatch(ms.schema, m.schema)
\* The statement does not say whether a meter WITHOUT version/schema "matches" a selector WITH one (the
\* SDK's rule: a version / schema url the meter does not set is not constrained by the selector).  The
\* second reading differs from MeterMatch in the version and schema fields only - never in the name - and
\* a (selector, meter) pair is left open only where the two readings give different verdicts.
FieldMatchUnset(sel, f) == sel = "" \/ f = "" \/ sel = f
MeterMatchUnset(ms, m) == /\ FieldMatch(ms.name, m.name)
                          /\ FieldMatchUnset(ms.version, m.version)
                          /\ FieldMatchUnset(ms.schema, m.schema)
Open(ms, m) == MeterMatch(ms, m) # MeterMatchUnset(ms, m)

Sh(n, d, a, f) == [name |-> n, desc |-> d, agg |-> a, filter |-> f]
AllShapes == {Sh(n, d, a, f) : n \in {"", "v"}, d \in {"", "d"}, a \in Aggs, f \in Filters}
V(t, p, u, ms, sh) == [type |-> t, pat |-> p, unit |-> u, msel |-> ms,
                       name |-> sh.name, desc |-> sh.desc, agg |-> sh.agg, filter |-> sh.filter]
ViewDomain == {V(t, p, u, ms, sh) : t \in TypeSet, p \in PatSet, u \in UnitSelSet, ms \in MSelSet, sh \in ShapeSet}

\* attribute keys of the one measurement: k1 | k1v (the key "k1" passed as a NON-terminated view)
\* | k1n (the 5-byte key "k1<NUL>zz") | k2
AllAttrSets == {{"k1", "k2"}, {"k1v", "k2"}, {"k1n", "k2"}, {}}
TrueKey(a)  == CASE a = "k1" -> "k1" [] a = "k1v" -> "k1" [] a = "k1n" -> "k1n" [] a = "k2" -> "k2"
CKey(a)     == CASE a = "k1" -> "k1" [] a = "k1v" -> "k1zz" [] a = "k1n" -> "k1" [] a = "k2" -> "k2"
AllowList(f) == IF f = "k1" THEN {"k1"} ELSE {}
I(t, n, u, m, at) == [type |-> t, name |-> n, unit |-> u, meter |-> m, attrs |-> at]
InstDomain == {I(t, n, u, m, at) : t \in TypeSet, n \in INameSet, u \in IUnitSet, m \in MeterSet, at \in AttrSet}

(* ---- the contract ----------------------------------------------------------- *)
Matches(v, i) == /\ v.type = i.type
                 /\ NameMatch(v.pat, i.name)
                 /\ UnitMatch(v.unit, i.unit)
                 /\ MeterMatch(v.msel, i.meter)

VTag(k) == CASE k = 1 -> "v1" [] k = 2 -> "v2" [] k = 3 -> "v3" [] OTHER -> "v4"
Keys(f, i, D) ==
  IF f = "none" \/ (IsObs(i.type) /\ "observable-view-attribute-filter-ignored" \in D)
    THEN {TrueKey(a) : a \in i.attrs}
    ELSE {TrueKey(a) : a \in {a \in i.attrs :
            (IF "attribute-filter-key-as-c-string" \in D THEN CKey(a) ELSE TrueKey(a)) \in AllowList(f)}}
\* the stream of instrument i shaped by the k-th registered view v: name, description, aggregation
\* and attribute filter come from the view, everything else from the instrument
Stream(v, k, i, D) ==
  [name  |-> IF v.name = "" THEN i.name ELSE <<"v", VTag(k)>>,
   desc  |-> IF v.desc = "" THEN "inst" ELSE VTag(k),
   unit  |-> i.unit, type |-> i.type, meter |-> i.meter.id,
   kind  |-> IF v.agg = "default" THEN DefaultKind(i.type) ELSE v.agg,
   keys  |-> Keys(v.filter, i, D)]
DefaultStream(i) ==
  [name |-> i.name, desc |-> "inst", unit |-> i.unit, type |-> i.type, meter |-> i.meter.id,
   kind |-> DefaultKind(i.type), keys |-> {TrueKey(a) : a \in i.attrs}]

Matching(i, vs) == SelectSeq([k \in 1..Len(vs) |-> k], LAMBDA k : Matches(vs[k], i))
Streams(i, vs, D) ==
  LET mk  == Matching(i, vs)
      all == [j \in 1..Len(mk) |-> Stream(vs[mk[j]], mk[j], i, D)]
      col == IF "multi-view-last-wins" \in D /\ Len(all) >= 2 THEN <<all[Len(all)]>> ELSE all
  IN  IF mk = <<>> THEN <<DefaultStream(i)>>
      ELSE SelectSeq(col, LAMBDA s : s.kind # "drop")
Alts(i, vs) == {[dev |-> D, streams |-> Streams(i, vs, D)] :
                  D \in {D \in (SUBSET AllDevs) \ {{}} : Streams(i, vs, D) # Streams(i, vs, {})}}

(* ---- the machine --------------------------------------------------------------- *)
VARIABLES views, insts, phase, hist
bvars == <<views, insts, phase>>
vars  == <<bvars, hist>>
Rec(e) == hist' = IF Hist THEN Append(hist, e) ELSE hist

Init == views = <<>> /\ insts = <<>> /\ phase = "views" /\ hist = <<>>

AddView(v) ==
  /\ phase = "views" /\ Len(views) < MaxViews
  /\ views' = Append(views, v)
  /\ UNCHANGED <<insts, phase>>
  /\ Rec([op |-> "view", v |-> v])
AddSomeView == \E v \in ViewDomain : AddView(v)

CreateInst(i) ==
  /\ phase \in {"views", "insts"} /\ Len(insts) < MaxInst
  /\ \A j \in 1..Len(insts) : ~(insts[j].meter = i.meter /\ insts[j].name = i.name)   \* one handle per name
  /\ \A k \in 1..Len(views) : ~Open(views[k].msel, i.meter)
  /\ insts' = Append(insts, i) /\ phase' = "insts"
  /\ UNCHANGED views
  /\ Rec([op |-> "inst", i |-> [i EXCEPT !.meter = i.meter.id],
          exp |-> Streams(i, views, {}), alts |-> Alts(i, views)])
CreateSomeInst == \E i \in InstDomain : CreateInst(i)

Collect ==
  /\ phase = "insts"
  /\ phase' = "done"
  /\ UNCHANGED <<views, insts>>
  /\ Rec([op |-> "collect"])

Next == AddSomeView \/ CreateSomeInst \/ Collect
Spec == Init /\ [][Next]_vars
View == bvars

(* ---- the property, checked in every reachable state ---------------------------- *)
Range(s) == {s[j] : j \in 1..Len(s)}
S(i) == Streams(i, views, {})
MatchSet(i) == {k \in 1..Len(views) : Matches(views[k], i)}

\* a view contributes a stream iff its four selectors match (and it does not drop)
ExactlyMatching ==
  \A j \in 1..Len(insts) : LET i == insts[j] IN
    /\ MatchSet(i) # {} => Len(S(i)) = Cardinality({k \in MatchSet(i) : views[k].agg # "drop"})
    /\ \A k \in MatchSet(i) : views[k].agg # "drop" => Stream(views[k], k, i, {}) \in Range(S(i))
    /\ \A k \in 1..Len(views) : k \in MatchSet(i) <=>
         (/\ views[k].type = i.type
          /\ views[k].unit \in {"", i.unit}
          /\ views[k].msel.name \in {"", i.meter.name} /\ views[k].msel.version \in {"", i.meter.version}
          /\ views[k].msel.schema \in {"", i.meter.schema}
          /\ \/ views[k].pat.k = "all"
             \/ views[k].pat.k = "exact" /\ views[k].pat.s = i.name
             \/ views[k].pat.k = "prefix" /\ views[k].pat.s = <<i.name[1]>>
             \/ views[k].pat.k = "suffix" /\ views[k].pat.s = <<i.name[Len(i.name)]>>
             \/ views[k].pat.k = "rx" /\ i.name \in RxTable(views[k].pat.s[1]))
\* name, description, aggregation, attribute filter of the view - and nothing else - shape the stream
OnlyViewShapes ==
  \A j \in 1..Len(insts) : LET i == insts[j] IN
    \A s \in Range(S(i)) :
      /\ s.unit = i.unit /\ s.type = i.type /\ s.meter = i.meter.id
      /\ MatchSet(i) # {} => \E k \in MatchSet(i) :
           /\ s.name = (IF views[k].name = "" THEN i.name ELSE <<"v", VTag(k)>>)
           /\ s.desc = (IF views[k].desc = "" THEN "inst" ELSE VTag(k))
           /\ s.kind = (IF views[k].agg = "default" THEN DefaultKind(i.type) ELSE views[k].agg)
           /\ s.keys = (CASE views[k].filter = "none" -> {TrueKey(a) : a \in i.attrs}
                          [] views[k].filter = "k1" -> {TrueKey(a) : a \in i.attrs} \cap {"k1"}
                          [] views[k].filter = "empty" -> {})
\* "meter identity": a selector that GIVES a name / version / schema url selects no meter that lacks it or
\* has another one - a meter without a name (version, schema url) is selected only by selectors that
\* leave the name (version, schema url) unconstrained
MeterIdentityExact ==
  \A j \in 1..Len(insts) : LET i == insts[j] IN
    \A k \in MatchSet(i) :
      /\ views[k].msel.name # ""    => i.meter.name = views[k].msel.name
      /\ views[k].msel.version # "" => i.meter.version = views[k].msel.version
      /\ views[k].msel.schema # ""  => i.meter.schema = views[k].msel.schema
      /\ views[k].unit # ""         => i.unit = views[k].unit
DefaultWhenNoMatch ==
  \A j \in 1..Len(insts) : LET i == insts[j] IN
    MatchSet(i) = {} => /\ Len(S(i)) = 1
                        /\ S(i)[1].kind = DefaultKind(i.type) /\ S(i)[1].name = i.name /\ S(i)[1].desc = "inst"
                        /\ S(i)[1].keys = {TrueKey(a) : a \in i.attrs}
\* each deviation is confined to the situation its name describes
DevNarrow ==
  \A j \in 1..Len(insts) : LET i == insts[j] IN
    \A D \in (SUBSET AllDevs) \ {{}} : Streams(i, views, D) # S(i) =>
      \/ "multi-view-last-wins" \in D /\ Cardinality(MatchSet(i)) >= 2
      \/ "observable-view-attribute-filter-ignored" \in D /\ IsObs(i.type)
           /\ \E k \in MatchSet(i) : views[k].filter # "none"
      \/ "attribute-filter-key-as-c-string" \in D /\ i.attrs \cap {"k1v", "k1n"} # {}
           /\ \E k \in MatchSet(i) : views[k].filter # "none"

(* ---- behaviour export -------------------------------------------------------------- *)
EmitAll == phase = "done" => PrintT(<<"BEH", ToJson(hist)>>)
\* vacuity tags: which situations the continuation "instrument i after `views`" exhibits; the check
\* demands that every tag occurs among the replayed cases
TagNames == {"TwoMatch", "FirstOnly", "SecondOnly", "NoneOfTwo", "Drop", "ObsFilter", "KeyView", "KeyNul",
             "EmptyFilter", "VersionMiss", "SchemaMiss", "MeterNameMiss", "TypeMiss", "UnitMiss", "PrefixHit",
             "SuffixHit", "ExactMiss", "Rename", "Default",
             \* empty identity fields on the METER side (and an instrument without unit)
             "UnnamedMeterMiss", "UnnamedMeterHit", "BareMeterMiss", "BareMeterHit", "NoVersionMeterHit",
             "NoSchemaMeterHit", "NoVersionMeterNameMiss", "NoUnitInstMiss", "NoUnitInstHit"}
Relax(v, f) == CASE f = "version" -> [v EXCEPT !.msel.version = ""]
                 [] f = "schema"  -> [v EXCEPT !.msel.schema = ""]
                 [] f = "mname"   -> [v EXCEPT !.msel.name = ""]
                 [] f = "unit"    -> [v EXCEPT !.unit = ""]
                 [] f = "pat"     -> [v EXCEPT !.pat = P("all", <<>>)]
OnlyMiss(i, f) == \E k \in 1..Len(views) : ~Matches(views[k], i) /\ Matches(Relax(views[k], f), i)
TagCond(w, i) ==
  LET ms == MatchSet(i) IN
  CASE w = "TwoMatch"      -> Cardinality(ms) = 2 /\ \A k \in ms : views[k].agg # "drop"
    [] w = "FirstOnly"     -> Len(views) = 2 /\ ms = {1}
    [] w = "SecondOnly"    -> Len(views) = 2 /\ ms = {2}
    [] w = "NoneOfTwo"     -> Len(views) = 2 /\ ms = {}
    [] w = "Default"       -> views # <<>> /\ ms = {}
    [] w = "Drop"          -> \E k \in ms : views[k].agg = "drop"
    [] w = "ObsFilter"     -> IsObs(i.type) /\ i.attrs # {} /\ \E k \in ms : views[k].filter = "k1"
    [] w = "KeyView"       -> ~IsObs(i.type) /\ "k1v" \in i.attrs /\ \E k \in ms : views[k].filter = "k1"
    [] w = "KeyNul"        -> ~IsObs(i.type) /\ "k1n" \in i.attrs /\ \E k \in ms : views[k].filter = "k1"
    [] w = "EmptyFilter"   -> ~IsObs(i.type) /\ i.attrs # {} /\ \E k \in ms : views[k].filter = "empty"
    [] w = "VersionMiss"   -> OnlyMiss(i, "version")
    [] w = "SchemaMiss"    -> OnlyMiss(i, "schema")
    [] w = "MeterNameMiss" -> OnlyMiss(i, "mname")
    [] w = "UnitMiss"      -> OnlyMiss(i, "unit")
    [] w = "ExactMiss"     -> \E k \in 1..Len(views) : views[k].pat.k = "exact" /\ ~Matches(views[k], i)
                                /\ Matches(Relax(views[k], "pat"), i)
    [] w = "TypeMiss"      -> \E k \in 1..Len(views) : views[k].type # i.type /\ Matches([views[k] EXCEPT !.type = i.type], i)
    [] w = "PrefixHit"     -> \E k \in ms : views[k].pat.k = "prefix"
    [] w = "SuffixHit"     -> \E k \in ms : views[k].pat.k = "suffix"
    \* a view that names a meter, and would apply but for the name, against a meter WITHOUT name
    [] w = "UnnamedMeterMiss" -> i.meter.name = "" /\ \E k \in 1..Len(views) :
                                   views[k].msel.name # "" /\ Matches(Relax(views[k], "mname"), i)
    [] w = "UnnamedMeterHit"  -> i.meter.name = "" /\ ms # {}
    \* GetMeter(""): no name, no version, no schema url - against a selector that gives all three
    [] w = "BareMeterMiss"    -> i.meter.name = "" /\ i.meter.version = "" /\ i.meter.schema = "" /\ \E k \in 1..Len(views) :
                                   /\ views[k].msel.name # "" /\ views[k].msel.version # "" /\ views[k].msel.schema # ""
                                   /\ Matches([views[k] EXCEPT !.msel = MS("", "", "")], i)
    [] w = "BareMeterHit"     -> i.meter.name = "" /\ i.meter.version = "" /\ i.meter.schema = "" /\ ms # {}
    [] w = "NoVersionMeterHit" -> i.meter.name # "" /\ i.meter.version = "" /\ \E k \in ms : views[k].msel.name # ""
    [] w = "NoSchemaMeterHit"  -> i.meter.name # "" /\ i.meter.schema = "" /\ \E k \in ms : views[k].msel.name # ""
    \* a meter without version against a selector with one: decided (no match) by the differing name
    [] w = "NoVersionMeterNameMiss" -> i.meter.version = "" /\ \E k \in 1..Len(views) :
                                   /\ views[k].msel.version # "" /\ views[k].msel.name \notin {"", i.meter.name}
                                   /\ Matches([views[k] EXCEPT !.msel = MS("", "", "")], i)
    [] w = "NoUnitInstMiss"   -> i.unit = "" /\ OnlyMiss(i, "unit")
    [] w = "NoUnitInstHit"    -> i.unit = "" /\ ms # {}
    [] w = "Rename"        -> \E k \in ms : views[k].name # "" /\ views[k].desc # "" /\ views[k].agg \notin {"default", "drop"}
CaseTags(i) == {w \in TagNames : TagCond(w, i)}
\* regular-expression selectors: <<"hit", label>> the view applies, <<"miss", label>> it does not and
\* ONLY because of the name pattern
RxTags(i) == {<<IF Matches(views[k], i) THEN "hit" ELSE "miss", views[k].pat.s[1]>> :
                k \in {k \in 1..Len(views) : views[k].pat.k = "rx" /\ Matches(Relax(views[k], "pat"), i)}}

\* Sweep export: for a registered view list, ALL continuations "CreateInst(i); Collect" at once (a
\* set of behaviours sharing the prefix `views`).  Streams(i, views) does not depend on the other
\* instruments, so the replayer may realise several continuations in one provider as long as
\* (meter, name) stays unique.
SweepCases == {[i |-> [i EXCEPT !.meter = i.meter.id], exp |-> Streams(i, views, {}), alts |-> Alts(i, views),
                 tags |-> CaseTags(i), rxtags |-> RxTags(i)] :
                 i \in {i \in InstDomain : \A k \in 1..Len(views) : ~Open(views[k].msel, i.meter)}}
EmitSweep == phase = "views" => PrintT(<<"BEHS", ToJson([views |-> views, cases |-> SweepCases])>>)

(* ---- named domains for the configs (cfg: CONSTANT X <- Name) --------------------------- *)
TypesAll   == Types
Types3     == {"Counter", "Histogram", "ObsGauge"}
Types2     == {"Counter", "ObsGauge"}
PatsAll    == AllPats
Pats3      == {P("exact", <<"x", "a">>), P("prefix", <<"x">>), P("all", <<>>)}
PatAllOnly == {P("all", <<>>)}
PatsRx     == RxPats
PatsMix    == Pats3 \cup RxPats
Pats2      == {P("all", <<>>), P("exact", <<"z", "z">>)}
UnitSelAll == AllUnits
UnitSel2   == {"", "ms"}
UnitSelAny == {""}
MSelsAll   == AllMSels
MSels4     == {MS("", "", ""), MS("m1", "1.0", "s1"), MS("m1", "", ""), MS("m2", "", "")}
MSels3     == {MS("", "", ""), MS("m1", "1.0", "s1"), MS("m2", "", "")}
MSels2     == {MS("", "", ""), MS("m1", "1.0", "s1")}
MetersAB   == {MeterA, MeterB}
MetersABU  == {MeterA, MeterB, MeterU}
MSelAny    == {MS("", "", "")}
ShapesAll  == AllShapes
Shapes2    == {Sh("v", "d", "default", "none"), Sh("", "", "last", "k1")}
Shape1     == {Sh("v", "", "default", "none")}
INamesAll  == AllNames
INamesRx   == RxNames
INamesMix  == AllNames \cup RxNames
Types1     == {"Counter"}
IName1     == {<<"x", "a">>}
IUnitsAll  == AllUnits
IUnits2    == {"ms", "By"}
IUnit1     == {"ms"}
MetersAll  == AllMeters                                  \* 27: {"", m1, m2} x {"", 1.0, 2.0} x {"", s1, s2}
Meters3    == {MeterA, MeterB, MeterC}
Meters6    == {MeterA, MeterB, MeterC, MeterU, MeterN, MeterV}
Meters2    == {MeterA, MeterC}
Meters2U   == {MeterA, MeterC, MeterN}
Meter1     == {MeterA}
AttrsAll   == AllAttrSets
Attrs1     == {{"k1", "k2"}}
=============================================================================
