--------------------------- MODULE SamplerTrace ---------------------------
(***************************************************************************)
(* C12, code -> spec: accepts a logged decision matrix of the REAL         *)
(* trace-id-ratio sampler iff it is a behaviour of the ratio model of      *)
(* Sampler.tla, i.e. iff some monotone threshold function T (0 for ratios  *)
(* <= 0, above every hash for ratios >= 1) and some hash h of the trace    *)
(* ids explain every decision:  sampled(id, r) == T(r) # 0 /\ h(id) <= T(r)*)
(* By the lemma CanonicalExplains (model checked in Sampler.tla) it is     *)
(* enough to try the canonical strictly increasing T and the row's first   *)
(* sampled column as hash.                                                 *)
(* Events (one ndjson line each):                                          *)
(*   Cfg(classes)      the sorted ratio columns, each "le0" | "mid" | "ge1"*)
(*                     (concrete doubles stay in the harness; NaN is not   *)
(*                     evaluated - a don't-care of the statement)          *)
(*   Row(id, src, d)   decisions (0/1 per column) for trace id number id,  *)
(*                     obtained in context src (other arguments, sampler   *)
(*                     instance, through a Tracer ... all vary with src).  *)
(*                     Rows of one id must agree: the decision depends on  *)
(*                     the trace id and the ratio only.                    *)
(***************************************************************************)
EXTENDS Sampler, IOUtils

TraceLog == ndJsonDeserialize(IOEnv.TRACE)

VARIABLES l, rc, hs, nexec, nrows
tvars == <<l, rc, hs, nexec, nrows>>

Ev == TraceLog[l]
Is(e) == l <= Len(TraceLog) /\ Ev.e = e /\ l' = l + 1

\* the variables of the model part are not used by the trace part
TInit == /\ TLCSet(1, 0)
         /\ ev = FALSE /\ cur = 0 /\ T = <<>> /\ h = <<>> /\ col = 1 /\ prevS = {}
         /\ l = 1 /\ rc = <<>> /\ hs = <<>> /\ nexec = 0 /\ nrows = 0

\* (a state-level definition: TLC would otherwise expand the quantifiers as action conjuncts,
\* recursing once per column)
WellFormed(cl) == /\ \A j \in 1..Len(cl) : cl[j] \in {"le0", "mid", "ge1"}
                  /\ Sorted(cl)
TCfg == /\ Is("Cfg")
        /\ WellFormed(Ev.classes) = TRUE
        /\ rc' = Ev.classes /\ hs' = <<>>
        /\ nexec' = nexec + 1 /\ UNCHANGED nrows

\* hs: trace id number -> the hash that explained its first row; later rows must have the same
TRow == /\ Is("Row")
        /\ RowExplained(rc, Ev.d) = TRUE
        /\ IF Ev.id \in DOMAIN hs
             THEN hs[Ev.id] = FirstSampled(Ev.d) /\ UNCHANGED hs
             ELSE hs' = hs @@ (Ev.id :> FirstSampled(Ev.d))
        /\ nrows' = nrows + 1 /\ UNCHANGED <<rc, nexec>>

TNext == (TCfg \/ TRow) /\ UNCHANGED vars
TSpec == TInit /\ [][TNext]_<<tvars, vars>>

Progress == TLCSet(1, IF l > TLCGet(1) THEN l ELSE TLCGet(1))
Accepted == IF TLCGet(1) = Len(TraceLog) + 1 THEN TRUE
            ELSE PrintT(<<"REJECTED_AT", TLCGet(1)>>) /\ FALSE
Report == (l = Len(TraceLog) + 1) => PrintT(<<"ACCEPTED", nexec>>)
=============================================================================
