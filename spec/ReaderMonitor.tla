---------------------------- MODULE ReaderMonitor ----------------------------
(***************************************************************************)
(* Level A monitor (trace spec) for the periodic metric reader clauses of *)
(* C02 / C03, over observable events of the real                           *)
(* PeriodicExportingMetricReader + MeterProvider with one counter         *)
(* (cumulative temporality: an exported sum is everything recorded that   *)
(* the collection saw).                                                    *)
(*  Cfg                   new execution                                   *)
(*  AddCall / AddRet      counter->Add(1) call / return                   *)
(*  Collected             a collection ran (observable-gauge callback)    *)
(*  XBegin(sum) XEnd      exporter Export begins (with the counter's      *)
(*                        sum in the batch) / returns                      *)
(*  XFF XSD               exporter ForceFlush / Shutdown invoked          *)
(*  FFCall(f) FFRet(f,r)  MeterProvider::ForceFlush                       *)
(*  SDCall(s) SDRet(s)    MeterProvider::Shutdown (or destruction)        *)
(*  End                                                                    *)
(* C02: ForceFlush returned true => an Export that began after the call   *)
(*      began carried at least everything recorded before the call, and   *)
(*      the exporter's ForceFlush was invoked afterwards; no Export after *)
(*      Shutdown returned.  C03: Exports never overlap.                   *)
(***************************************************************************)
EXTENDS Integers, Sequences, FiniteSets, TLC, Json, IOUtils

CONSTANTS Dev, Check
TraceLog == ndJsonDeserialize(IOEnv.TRACE)

VARIABLES l, addCalls, addRets, inExp, ffSnap, ffExported, ffOK, ffCollected, sdCalled, sdRet, expSD,
          devUsed, devExecs, usedHere, nexec
vars == <<l, addCalls, addRets, inExp, ffSnap, ffExported, ffOK, ffCollected, sdCalled, sdRet, expSD,
          devUsed, devExecs, usedHere, nexec>>

Ev == TraceLog[l]
Is(e) == l <= Len(TraceLog) /\ Ev.e = e /\ l' = l + 1
On(prop, cond) == (prop \in Check) => cond

Init == /\ TLCSet(1, 0)
        /\ l = 1 /\ addCalls = 0 /\ addRets = 0 /\ inExp = FALSE /\ ffSnap = <<>> /\ ffExported = <<>>
        /\ ffOK = <<>> /\ ffCollected = <<>> /\ sdCalled = FALSE /\ sdRet = FALSE /\ expSD = 0
        /\ devUsed = {} /\ devExecs = 0 /\ usedHere = FALSE /\ nexec = 0

TCfg == /\ Is("Cfg")
        /\ addCalls' = 0 /\ addRets' = 0 /\ inExp' = FALSE /\ ffSnap' = <<>> /\ ffExported' = <<>>
        /\ ffOK' = <<>> /\ ffCollected' = <<>> /\ sdCalled' = FALSE /\ sdRet' = FALSE /\ expSD' = 0
        /\ usedHere' = FALSE /\ nexec' = nexec + 1 /\ UNCHANGED <<devUsed, devExecs>>

TAddCall == /\ Is("AddCall") /\ addCalls' = addCalls + 1
            /\ UNCHANGED <<addRets, inExp, ffSnap, ffExported, ffOK, ffCollected, sdCalled, sdRet, expSD, devUsed, devExecs, usedHere, nexec>>
TAddRet == /\ Is("AddRet") /\ addRets < addCalls /\ addRets' = addRets + 1
           /\ UNCHANGED <<addCalls, inExp, ffSnap, ffExported, ffOK, ffCollected, sdCalled, sdRet, expSD, devUsed, devExecs, usedHere, nexec>>

TCollected == /\ Is("Collected")
              /\ ffCollected' = [f \in DOMAIN ffCollected |-> TRUE]
              /\ UNCHANGED <<addCalls, addRets, inExp, ffSnap, ffExported, ffOK, sdCalled, sdRet, expSD, devUsed, devExecs, usedHere, nexec>>

TXBegin == /\ Is("XBegin")
           /\ On("C03", ~inExp)                       \* Export never overlaps a running Export
           /\ On("C02", ~sdRet)                       \* no Export after Shutdown returned
           /\ inExp' = TRUE
           /\ ffExported' = [f \in DOMAIN ffExported |-> ffExported[f] \/ Ev.sum >= ffSnap[f]]
           /\ UNCHANGED <<addCalls, addRets, ffSnap, ffOK, ffCollected, sdCalled, sdRet, expSD, devUsed, devExecs, usedHere, nexec>>

TXEnd == /\ Is("XEnd") /\ inExp' = FALSE
         /\ UNCHANGED <<addCalls, addRets, ffSnap, ffExported, ffOK, ffCollected, sdCalled, sdRet, expSD, devUsed, devExecs, usedHere, nexec>>

TXFF == /\ Is("XFF")
        /\ ffOK' = [f \in DOMAIN ffOK |-> TRUE]        \* the exporter's ForceFlush was invoked after FFCall(f)
        /\ UNCHANGED <<addCalls, addRets, inExp, ffSnap, ffExported, ffCollected, sdCalled, sdRet, expSD, devUsed, devExecs, usedHere, nexec>>

TXSD == /\ Is("XSD") /\ expSD' = expSD + 1
        /\ UNCHANGED <<addCalls, addRets, inExp, ffSnap, ffExported, ffOK, ffCollected, sdCalled, sdRet, devUsed, devExecs, usedHere, nexec>>

TFFCall == /\ Is("FFCall") /\ Ev.f \notin DOMAIN ffSnap
           /\ ffSnap' = ffSnap @@ (Ev.f :> addRets)      \* everything recorded before the call began
           /\ ffExported' = ffExported @@ (Ev.f :> FALSE)
           /\ ffOK' = ffOK @@ (Ev.f :> FALSE)
           /\ ffCollected' = ffCollected @@ (Ev.f :> FALSE)
           /\ UNCHANGED <<addCalls, addRets, inExp, sdCalled, sdRet, expSD, devUsed, devExecs, usedHere, nexec>>

Cancelled == "ticket-published-after-cancelled-export"   \* F3

TFFRet == /\ Is("FFRet") /\ Ev.f \in DOMAIN ffOK
          \* (the statement does not order the exporter's ForceFlush after the Export: a ForceFlush racing
          \*  Shutdown flushes the exporter first; both must have happened before `true` is returned)
          /\ \/ /\ On("C02", Ev.r => (ffOK[Ev.f] /\ ffExported[Ev.f]))
                /\ UNCHANGED <<devUsed, devExecs, usedHere>>
             \* F3: a collection ran after the call began, its export was cancelled for timeout (no Export
             \* carrying the snapshot happened), yet the flush ticket was published
             \/ /\ "C02" \in Check /\ Ev.r /\ ~ffExported[Ev.f] /\ ffCollected[Ev.f] /\ Cancelled \in Dev
                /\ devUsed' = devUsed \cup {Cancelled}
                /\ devExecs' = IF usedHere THEN devExecs ELSE devExecs + 1
                /\ usedHere' = TRUE
          /\ UNCHANGED <<addCalls, addRets, inExp, ffSnap, ffExported, ffOK, ffCollected, sdCalled, sdRet, expSD, nexec>>

TSDCall == /\ Is("SDCall") /\ sdCalled' = TRUE
           /\ UNCHANGED <<addCalls, addRets, inExp, ffSnap, ffExported, ffOK, ffCollected, sdRet, expSD, devUsed, devExecs, usedHere, nexec>>

\* the first Shutdown to return makes the reader final (a second concurrent caller may return
\* earlier through the provider's latch: the statement speaks of the reader's own Shutdown, which
\* has returned once the exporter was shut down)
TSDRet == /\ Is("SDRet") /\ sdCalled
          /\ sdRet' = (sdRet \/ expSD >= 1)
          /\ UNCHANGED <<addCalls, addRets, inExp, ffSnap, ffExported, ffOK, ffCollected, sdCalled, expSD, devUsed, devExecs, usedHere, nexec>>

TEnd == /\ Is("End") /\ ~inExp /\ addRets = addCalls
        /\ UNCHANGED <<addCalls, addRets, inExp, ffSnap, ffExported, ffOK, ffCollected, sdCalled, sdRet, expSD, devUsed, devExecs, usedHere, nexec>>

Next == TCfg \/ TAddCall \/ TAddRet \/ TCollected \/ TXBegin \/ TXEnd \/ TXFF \/ TXSD \/ TFFCall \/ TFFRet
        \/ TSDCall \/ TSDRet \/ TEnd

Progress == TLCSet(1, IF l > TLCGet(1) THEN l ELSE TLCGet(1))
Accepted == IF TLCGet(1) = Len(TraceLog) + 1 THEN TRUE
            ELSE PrintT(<<"REJECTED_AT", TLCGet(1)>>) /\ FALSE
Report == (l = Len(TraceLog) + 1) =>
            (PrintT(<<"ACCEPTED", nexec>>) /\ PrintT(<<"DEVUSED", devUsed>>) /\ PrintT(<<"DEVEXECS", devExecs>>))
=============================================================================
