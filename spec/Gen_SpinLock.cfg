CONSTANTS NThr = 2 Rounds = 2 FastIter = 100 UseTry = TRUE Hist = TRUE
INIT Init
NEXT Next
VIEW View
INVARIANTS EmitAll
