CONSTANTS NProd = 2  NElem = 2  MaxSize = 2  SpuriousCAS = TRUE  Retry = FALSE Hist = TRUE
INIT Init
NEXT Next
VIEW View
INVARIANTS WitUndo
