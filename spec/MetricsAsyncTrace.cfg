CONSTANTS NI = 1  NR = 1  NC = 1  NA = 1  RichA = 1
          KindSet = {}  TempSet = {}  VC = {}  VSP = {}  VSN = {}
          MaxCol = 0  MaxRec = 0  MaxLen = 0  WitSet = {}  Hist = FALSE  Ties = FALSE  Dev = {}
INIT TInit
NEXT TNext
CONSTRAINT Progress
INVARIANT Report
POSTCONDITION Accepted
CHECK_DEADLOCK FALSE
