\* exhaustive: every list of <= 2 views over a product domain of selectors x every instrument
\* (quick tier of tools/props/C19.py; the thorough tier uses Types3 / MSels4)
CONSTANTS
  TypeSet <- Types2   PatSet <- Pats3   UnitSelSet <- UnitSel2   MSelSet <- MSels2   ShapeSet <- Shapes2
  INameSet <- INamesAll   IUnitSet <- IUnit1   MeterSet <- Meters2   AttrSet <- Attrs1
  MaxViews = 2  MaxInst = 1  Hist = FALSE
INIT Init
NEXT Next
VIEW View
INVARIANTS ExactlyMatching OnlyViewShapes MeterIdentityExact DefaultWhenNoMatch DevNarrow
