\* exhaustive: every list of <= 2 views over a product domain of selectors x every instrument
\* (tools/props/C19.py widens TypeSet to all six types in the thorough tier)
CONSTANTS
  TypeSet <- Types2   PatSet <- Pats3   UnitSelSet <- UnitSel2   MSelSet <- MSels4   ShapeSet <- Shapes2
  INameSet <- INamesAll   IUnitSet <- IUnits2   MeterSet <- Meters2   AttrSet <- Attrs1
  MaxViews = 2  MaxInst = 1  Hist = FALSE
INIT Init
NEXT Next
VIEW View
INVARIANTS ExactlyMatching OnlyViewShapes DefaultWhenNoMatch DevNarrow
