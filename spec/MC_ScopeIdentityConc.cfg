\* every interleaving of 3 threads x 2 Get calls over 3 identities (one pair differing in one field, one without name)
CONSTANTS
  Threads <- T3  ScopeSet <- Scopes3  MaxGets = 2  Atomic = TRUE
INIT Init
NEXT Next
INVARIANTS SameIdentitySameObject DifferentIdentityDifferentObject RegistryOnePerIdentity
