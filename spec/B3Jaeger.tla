------------------------------ MODULE B3Jaeger ------------------------------
(***************************************************************************)
(* C16 - B3 (single / multi header) and Jaeger propagation.                *)
(*                                                                         *)
(* An "inputs" property: the contract is transcribed over an abstract      *)
(* input partition which TLC enumerates.                                   *)
(*                                                                         *)
(*  inject side   sc = [tid, sid, fl]: id classes x ALL 256 flag bytes, for*)
(*                each of the three formats.  The statement does not pin   *)
(*                the header text, only the ROUND TRIP: extracting what    *)
(*                was injected yields the same ids and sampled = bit 0 of  *)
(*                the flags byte.  Inject(fmt, sc) is the abstract carrier *)
(*                the format's documentation prescribes.                   *)
(*  extract side  abstract carriers car = [fmt, s, m, j] (b3 single header,*)
(*                X-B3-* multi headers, uber-trace-id), explored as a      *)
(*                mutation graph from the documented well-formed forms     *)
(*                (CONSTRAINT Budget bounds the mutated dimensions).       *)
(*                Outcome(car):                                            *)
(*                  accept  documented form: a valid remote context with   *)
(*                          exactly the ids of source `src` (left-padded   *)
(*                          with zeros when 64-bit) and the sampled bit    *)
(*                  reject  nothing that could denote non-zero ids: the    *)
(*                          caller's context unchanged                     *)
(*                  either  arbitrary bytes: unchanged, or some context    *)
(*                          with non-zero ids (all the statement demands)  *)
(*                                                                         *)
(*  short / truncated / separator-free values (round 4): a header value   *)
(*                given directly as TOKENS (one token per byte; every byte *)
(*                value has exactly one token, TailTok): every PREFIX      *)
(*                (length 0 .. full + 1) of the rendering of a documented  *)
(*                form, with one of its last TailPos positions replaced by *)
(*                every token, and every token string of length <= ShortLen*)
(*                - for each header kind (b3, X-B3-TraceId / -SpanId /     *)
(*                -Sampled, uber-trace-id).  TailOutcome = the token-level *)
(*                contract (TokOutcomeB3 / TokOutcomeJ) of that value.     *)
(*                                                                         *)
(* Dev (named deviations of the unchanged tree; {} is the ideal):          *)
(*  "b3multi-sampled-low-hex-digit": the multi-header injector writes the  *)
(*   low hex digit of the flags byte into X-B3-Sampled, so a sampled       *)
(*   context whose flags byte is not xxxx0001 comes back as not sampled.   *)
(***************************************************************************)
EXTENDS Naturals, Sequences, FiniteSets, TLC, Json

CONSTANTS Dev, TidC, SidC, NFlag, JRep, MaxFaults,
          TailBases,   \* documented forms whose prefixes are explored (subset of AllTailBases)
          TailPos,     \* how many of the last positions of a prefix are replaced by every token (0..3)
          TailComp,    \* companions of a truncated b3 value: "none" (no X-B3-* header) / "wf" (well-formed ones)
          ShortKinds,  \* header kinds that also get every token string of length <= ShortLen
          ShortLen

DevF11  == "b3multi-sampled-low-hex-digit"
AllDevs == {DevF11}
FlagBytes == 0..(NFlag - 1)
Fmts == {"b3s", "b3m", "jg"}

VARIABLES phase,    \* "ctx" -> "injected" -> "done"   |   "carrier" -> "xdone"
          fmt,      \* propagator: b3s / b3m (inject), b3 / jg (extract)
          sc, car, res, devUsed,
          tl        \* the tail family: "tail" -> "tdone" (NoTail elsewhere)
vars == <<phase, fmt, sc, car, res, devUsed, tl>>

(* ---------------- abstract carriers ------------------------------------- *)
DefS == [p |-> "present", tid |-> "ok32", sid |-> "ok", smp |-> "1", par |-> "none", st |-> "ok", cs |-> "lower"]
DefM == [tid |-> "ok32", sid |-> "ok", smp |-> "1", cs |-> "lower"]
DefJ == [p |-> "present", tid |-> "ok32", sid |-> "ok", par |-> "0", fl |-> "hex2", fb |-> 1, st |-> "ok", cs |-> "lower"]
AbsS == [DefS EXCEPT !.p = "absent"]
AbsM == [DefM EXCEPT !.tid = "absent", !.sid = "absent", !.smp = "missing"]
AbsJ == [DefJ EXCEPT !.p = "absent"]
NoCar == [s |-> AbsS, m |-> AbsM, j |-> AbsJ]
\* no X-B3-* header at all (the case attribute of nothing is immaterial)
MAbs(m) == m.tid = "absent" /\ m.sid = "absent" /\ m.smp = "missing"

TidAlt == {"ok16", "zero32", "zero16", "otherlen", "long", "nonhex", "empty"}
SidAlt == {"zero", "short", "long", "nonhex", "empty"}
AltS(d) == CASE d = "tid" -> TidAlt [] d = "sid" -> SidAlt
             [] d = "smp" -> {"0", "d", "missing", "emptyfield", "other"}
             [] d = "par" -> {"p16", "junk"}
             [] d = "st"  -> {"onefield", "sepdup", "ws", "deny"}
             [] d = "cs"  -> {"upper", "mixed"}
AltM(d) == CASE d = "tid" -> (TidAlt \ {"empty"}) \cup {"absent"}
             [] d = "sid" -> (SidAlt \ {"empty"}) \cup {"absent"}
             [] d = "smp" -> {"0", "d", "missing", "other"}
             [] d = "cs"  -> {"upper", "mixed"}
AltJ(d) == CASE d = "p" -> {"absent"}
             [] d = "tid" -> TidAlt [] d = "sid" -> SidAlt
             [] d = "par" -> {"p16", "empty", "nonhex"}
             [] d = "fl"  -> {"hex1", "empty", "nonhex", "long"}
             [] d = "st"  -> {"f3", "f5", "ws", "urlenc"}
             [] d = "cs"  -> {"upper", "mixed"}
DimS == {"tid", "sid", "smp", "par", "st", "cs"}
DimM == {"tid", "sid", "smp", "cs"}
DimJ == {"p", "tid", "sid", "par", "fl", "st", "cs"}
\* printed once per run: the partition's vocabulary (the check verifies that every value was replayed)
ASSUME PrintT(<<"DIMS", ToJson([s |-> [d \in DimS |-> AltS(d) \cup {DefS[d]}],
                                m |-> [d \in DimM |-> AltM(d) \cup {DefM[d]}],
                                j |-> [d \in DimJ |-> AltJ(d) \cup {DefJ[d]}]])>>)

\* mutated dimensions, counted against the base the carrier started from (absent parts do not count)
FaultsS(s) == IF s.p = "absent" THEN 0 ELSE Cardinality({d \in DimS : s[d] # DefS[d]})
FaultsM(m) == IF MAbs(m) THEN 0 ELSE Cardinality({d \in DimM : m[d] # DefM[d]})
FaultsJ(j) == Cardinality({d \in DimJ : j[d] # DefJ[d]})
Faults(f, c) == IF f = "jg" THEN FaultsJ(c.j) ELSE FaultsS(c.s) + FaultsM(c.m)

(* ---------------- the contract ------------------------------------------ *)
OkTid == {"ok32", "ok16"}
\* documented single-header forms: tid-sid, tid-sid-S, tid-sid-S-parent, lower-case hex
WFS(s) == /\ s.p = "present" /\ s.st = "ok" /\ s.cs = "lower"
          /\ s.tid \in OkTid /\ s.sid = "ok"
          /\ s.smp \in {"1", "0", "d", "missing"}
          /\ s.par \in {"none", "p16"} /\ (s.smp = "missing" => s.par = "none")
\* documented multi-header forms: X-B3-TraceId, X-B3-SpanId, X-B3-Sampled 1 / 0 / not sent
WFM(m) == /\ m.cs = "lower" /\ m.tid \in OkTid /\ m.sid = "ok" /\ m.smp \in {"1", "0", "missing"}
\* documented Jaeger form tid:sid:parent:flags, flags as written by a propagator (00 / 01)
WFJ(j) == /\ j.p = "present" /\ j.st = "ok" /\ j.cs = "lower"
          /\ j.tid \in OkTid /\ j.sid = "ok" /\ j.par \in {"0", "p16"}
          /\ j.fl = "hex2" /\ j.fb \in {0, 1}
\* a documented form except that an id is all zeros: there is no non-zero id to install
ZeroTid == {"zero32", "zero16"}
ZeroIds(t, s) == (t \in ZeroTid /\ s \in {"ok", "zero"}) \/ (t \in OkTid /\ s = "zero")
\* (whatever the hex-digit case of the other fields)
ZS(s) == ZeroIds(s.tid, s.sid) /\ WFS([s EXCEPT !.tid = "ok32", !.sid = "ok", !.cs = "lower"])
ZM(m) == ZeroIds(m.tid, m.sid) /\ WFM([m EXCEPT !.tid = "ok32", !.sid = "ok", !.cs = "lower"])
ZJ(j) == ZeroIds(j.tid, j.sid) /\ WFJ([j EXCEPT !.tid = "ok32", !.sid = "ok", !.cs = "lower"])

Acc(src, t, smp) == [o |-> "accept", src |-> src, pad |-> (t = "ok16"), sampled |-> smp]
Rej    == [o |-> "reject", src |-> "", pad |-> FALSE, sampled |-> FALSE]
Either == [o |-> "either", src |-> "", pad |-> FALSE, sampled |-> FALSE]

OutcomeB3(c, D) ==
  IF c.s.p = "present"
    THEN \* the single header takes precedence over the multi headers
         IF WFS(c.s) THEN Acc("s", c.s.tid, c.s.smp \in {"1", "d"})
         ELSE IF ZS(c.s) /\ MAbs(c.m) THEN Rej
         ELSE Either
    ELSE IF MAbs(c.m) THEN Rej
         ELSE IF WFM(c.m) THEN Acc("m", c.m.tid, c.m.smp = "1")
         ELSE IF ZM(c.m) THEN Rej
         \* as implemented: any other X-B3-Sampled text counts as "not sampled"
         ELSE IF DevF11 \in D /\ WFM([c.m EXCEPT !.smp = "1"]) /\ c.m.smp = "other" THEN Acc("m", c.m.tid, FALSE)
         ELSE Either
OutcomeJ(c) ==
  IF c.j.p = "absent" THEN Rej
  ELSE IF WFJ(c.j) THEN Acc("j", c.j.tid, c.j.fb % 2 = 1)
  ELSE IF ZJ(c.j) THEN Rej
  ELSE Either
Outcome(f, c, D) == IF f = "jg" THEN OutcomeJ(c) ELSE OutcomeB3(c, D)

(* ---------------- inject -------------------------------------------------- *)
SCs == [tid : TidC, sid : SidC, fl : FlagBytes]
NoSC == [tid |-> "none", sid |-> "none", fl |-> 0]
Sampled(c) == c.fl % 2 = 1
Bit(c) == IF Sampled(c) THEN "1" ELSE "0"
\* the deviation: X-B3-Sampled = low hex digit of the flags byte
LowDigit(c) == IF c.fl % 16 = 1 THEN "1" ELSE IF c.fl % 16 = 0 THEN "0" ELSE "other"
InjectCar(f, c, D) ==
  CASE f = "b3s" -> [NoCar EXCEPT !.s = [DefS EXCEPT !.smp = Bit(c)]]
    [] f = "b3m" -> [NoCar EXCEPT !.m = [DefM EXCEPT !.smp = IF DevF11 \in D THEN LowDigit(c) ELSE Bit(c)]]
    [] f = "jg"  -> [NoCar EXCEPT !.j = [DefJ EXCEPT !.fb = IF Sampled(c) THEN 1 ELSE 0]]
XFmt(f) == IF f = "jg" THEN "jg" ELSE "b3"

(* ---------------- the state machine --------------------------------------- *)
NoTail == [h |-> "none", b |-> "none", comp |-> "none", cut |-> 0, pos |-> 0, tok |-> 0, v |-> <<>>]
Init == /\ res = Rej /\ devUsed = {} /\ tl = NoTail
        /\ \/ phase = "ctx" /\ fmt \in Fmts /\ sc \in SCs /\ car = NoCar
           \/ /\ phase = "carrier" /\ sc = NoSC
              /\ \/ fmt = "b3" /\ car \in {[NoCar EXCEPT !.s = DefS], [NoCar EXCEPT !.m = DefM],
                                           [NoCar EXCEPT !.s = DefS, !.m = DefM]}
                 \/ fmt = "jg" /\ \E b \in JRep : car = [NoCar EXCEPT !.j = [DefJ EXCEPT !.fb = b]]

Inject == /\ phase = "ctx" /\ phase' = "injected"
          /\ UNCHANGED <<fmt, sc, res, tl>>
          /\ \/ car' = InjectCar(fmt, sc, {}) /\ devUsed' = devUsed
             \/ /\ DevF11 \in Dev /\ fmt = "b3m" /\ LowDigit(sc) # Bit(sc)
                /\ car' = InjectCar(fmt, sc, {DevF11}) /\ devUsed' = devUsed \cup {DevF11}
ExtractRT == /\ phase = "injected" /\ phase' = "done"
             /\ res' = Outcome(XFmt(fmt), car, devUsed)
             /\ UNCHANGED <<fmt, sc, car, devUsed, tl>>

\* the bound on mutated dimensions (stated once more, with the canonical-form rule, as CONSTRAINT Budget)
Room == Faults(fmt, car) < MaxFaults
MutS(d) == /\ phase = "carrier" /\ Room /\ fmt = "b3" /\ car.s.p = "present"
           /\ car.s[d] = DefS[d]
           /\ \E v \in AltS(d) : car' = [car EXCEPT !.s[d] = v]
           /\ UNCHANGED <<phase, fmt, sc, res, devUsed, tl>>
MutM(d) == /\ phase = "carrier" /\ Room /\ fmt = "b3" /\ ~MAbs(car.m)
           /\ car.m[d] = DefM[d]
           /\ \E v \in AltM(d) : car' = [car EXCEPT !.m[d] = v]
           /\ UNCHANGED <<phase, fmt, sc, res, devUsed, tl>>
MutJ(d) == /\ phase = "carrier" /\ Room /\ fmt = "jg"
           /\ car.j[d] = DefJ[d]
           /\ \E v \in AltJ(d) : car' = [car EXCEPT !.j[d] = v]
           /\ UNCHANGED <<phase, fmt, sc, res, devUsed, tl>>
MutSingle == \E d \in DimS : MutS(d)
MutMulti  == \E d \in DimM : MutM(d)
MutJaeger == \E d \in DimJ : MutJ(d)
Extract == /\ phase = "carrier" /\ phase' = "xdone"
           /\ res' = Outcome(fmt, car, {})
           /\ UNCHANGED <<fmt, sc, car, devUsed, tl>>
\* (Next: below, after the tail family)

\* canonical forms only: a parent field needs a sampling field before it; a multi carrier that lost
\* every header is the absent carrier
Canon == /\ (car.s.smp \in {"missing"} => car.s.par = "none")
         /\ (car.s.st \in {"onefield", "deny"} => car.s.par = "none")
         \* an empty b3 value is an absent header, not a malformed one
         /\ ~(car.s.st = "onefield" /\ car.s.tid = "empty")
InBudget == phase = "carrier" => Faults(fmt, car) <= MaxFaults /\ Canon
Budget == InBudget      \* (the CONSTRAINT; TLC -coverage cannot evaluate a constraint operator inside an invariant)

(* ---------------- the property (C16) -------------------------------------- *)
Ideal == devUsed = {}
Done  == phase \in {"done", "xdone"}
\* round trip: same ids (no padding: all 128 bits are written), sampled = bit 0 of the flags byte,
\* whatever the other flag bits
RoundTrip == phase = "done" =>
               \/ /\ res.o = "accept" /\ ~res.pad /\ res.sampled = Sampled(sc)
                  /\ res.src = (CASE fmt = "b3s" -> "s" [] fmt = "b3m" -> "m" [] fmt = "jg" -> "j")
               \/ ~Ideal
\* a context is only promised for documented forms with non-zero ids
AcceptNonZero == (Done /\ res.o = "accept") =>
                   LET t == CASE res.src = "s" -> car.s.tid [] res.src = "m" -> car.m.tid [] res.src = "j" -> car.j.tid
                       s == CASE res.src = "s" -> car.s.sid [] res.src = "m" -> car.m.sid [] res.src = "j" -> car.j.sid
                   IN t \in OkTid /\ s = "ok" /\ res.pad = (t = "ok16")
\* the documented variants, clause by clause
Pad64 == (Done /\ fmt # "jg" /\ WFS(car.s) /\ car.s.tid = "ok16") => res.o = "accept" /\ res.pad
DebugIsSampled == (Done /\ fmt # "jg" /\ WFS(car.s) /\ car.s.smp = "d") => res.o = "accept" /\ res.sampled
MissingNotSampled ==
  /\ (Done /\ fmt # "jg" /\ WFS(car.s) /\ car.s.smp = "missing") => res.o = "accept" /\ ~res.sampled
  /\ (Done /\ fmt # "jg" /\ car.s.p = "absent" /\ WFM(car.m) /\ car.m.smp = "missing") => res.o = "accept" /\ ~res.sampled
SinglePrecedence == (Done /\ fmt # "jg" /\ WFS(car.s)) => res.o = "accept" /\ res.src = "s"
NothingFromNothing == (Done /\ car.s.p = "absent" /\ MAbs(car.m) /\ car.j.p = "absent") => res.o = "reject"
ZeroNeverInstalled == (Done /\ fmt = "jg" /\ car.j.tid \in ZeroTid /\ car.j.sid \in {"ok", "zero"} /\ WFJ([car.j EXCEPT !.tid = "ok32", !.sid = "ok", !.cs = "lower"]))
                          => res.o = "reject"
TypeOK == /\ res.o \in {"accept", "either", "reject"} /\ devUsed \subseteq Dev
          /\ phase \in {"ctx", "injected", "done", "carrier", "xdone", "tail", "tdone"}

(* ---------------- the documented forms again, on token sequences ------------ *)
\* one token per byte: 0..15 hex digit (letters lower-case), 26..31 upper-case letter A..F (value + 16),
\* 40 '-', 41 space/tab, 42 '%', 43 any other byte, 44 ':'
Dash == 40
Ows == 41
Pct == 42
Oth == 43
Colon == 44
RECURSIVE SplitAt(_, _, _)
\* fields of s between separators sep; cur = the field being collected
SplitAt(s, sep, cur) == IF s = <<>> THEN <<cur>>
                        ELSE IF s[1] = sep THEN <<cur>> \o SplitAt(Tail(s), sep, <<>>)
                        ELSE SplitAt(Tail(s), sep, Append(cur, s[1]))
Split(s, sep) == SplitAt(s, sep, <<>>)
LowerHex(f) == \A i \in 1..Len(f) : f[i] \in 0..15
AnyHex(f)   == \A i \in 1..Len(f) : f[i] \in 0..15 \/ f[i] \in 26..31
IsZero(f)   == \A i \in 1..Len(f) : f[i] = 0
HexN(f, n)  == Len(f) = n /\ AnyHex(f)
TidForm(f)  == HexN(f, 32) \/ HexN(f, 16)
Pad32(f)    == IF Len(f) = 16 THEN [i \in 1..16 |-> 0] \o f ELSE f
TAcc(src, t, s, smp) == [o |-> "accept", src |-> src, pad |-> (Len(t) = 16), sampled |-> smp, tid |-> Pad32(t), sid |-> s]
TRej    == [o |-> "reject", src |-> "", pad |-> FALSE, sampled |-> FALSE, tid |-> <<>>, sid |-> <<>>]
TEither == [o |-> "either", src |-> "", pad |-> FALSE, sampled |-> FALSE, tid |-> <<>>, sid |-> <<>>]
\* the shapes, up to hex-digit case.  b3: tid-sid | tid-sid-S | tid-sid-S-parent
SingleShape(F) == /\ Len(F) \in 2..4 /\ TidForm(F[1]) /\ HexN(F[2], 16)
                  /\ Len(F) >= 3 => F[3] \in {<<1>>, <<0>>, <<13>>}
                  /\ Len(F) = 4 => HexN(F[4], 16)
AllLower(F) == \A k \in 1..Len(F) : LowerHex(F[k])
\* c = [b3, mt, ms, mf : [p : BOOLEAN, v : tokens]]   (p: the header is present and non-empty)
MultiShape(c) == /\ c.mt.p /\ c.ms.p /\ TidForm(c.mt.v) /\ HexN(c.ms.v, 16)
                 /\ c.mf.p => c.mf.v \in {<<1>>, <<0>>}
MultiAbsent(c) == ~c.mt.p /\ ~c.ms.p /\ ~c.mf.p
\* a shape with an all-zero id denotes no context at all; a documented (lower-case) one denotes exactly
\* its ids; the same shape in another hex-digit case is left open
TokOutcomeB3(c) ==
  IF c.b3.p
    THEN LET F == Split(c.b3.v, Dash) IN
         IF ~SingleShape(F) THEN TEither
         ELSE IF IsZero(F[1]) \/ IsZero(F[2]) THEN (IF MultiAbsent(c) THEN TRej ELSE TEither)
         ELSE IF AllLower(F) THEN TAcc("s", F[1], F[2], Len(F) >= 3 /\ F[3] \in {<<1>>, <<13>>})
         ELSE TEither
    ELSE IF MultiAbsent(c) THEN TRej
         ELSE IF ~MultiShape(c) THEN TEither
         ELSE IF IsZero(c.mt.v) \/ IsZero(c.ms.v) THEN TRej
         ELSE IF LowerHex(c.mt.v) /\ LowerHex(c.ms.v) THEN TAcc("m", c.mt.v, c.ms.v, c.mf.p /\ c.mf.v = <<1>>)
         ELSE TEither
\* uber-trace-id: tid:sid:parent:flags, parent 0 or 16 hex, flags 00 / 01
JaegerShape(F) == /\ Len(F) = 4 /\ TidForm(F[1]) /\ HexN(F[2], 16)
                  /\ (F[3] = <<0>> \/ HexN(F[3], 16)) /\ F[4] \in {<<0, 0>>, <<0, 1>>}
TokOutcomeJ(h) ==
  IF ~h.p THEN TRej
  ELSE LET F == Split(h.v, Colon) IN
       IF ~JaegerShape(F) THEN TEither
       ELSE IF IsZero(F[1]) \/ IsZero(F[2]) THEN TRej
       ELSE IF AllLower(F) THEN TAcc("j", F[1], F[2], F[4] = <<0, 1>>)
       ELSE TEither

\* a representative rendering of an abstract carrier as tokens
Up(t, up) == IF up /\ t \in 10..15 THEN t + 16 ELSE t
Field(n, a, b, up) == [i \in 1..n |-> IF i = 2 THEN Up(a, up) ELSE IF i = n THEN b ELSE 0]
TidR(cls, up) == CASE cls = "ok32" -> Field(32, 10, 7, up) [] cls = "ok16" -> Field(16, 10, 7, up)
                   [] cls = "zero32" -> Field(32, 0, 0, up) [] cls = "zero16" -> Field(16, 0, 0, up)
                   [] cls = "otherlen" -> Field(15, 3, 3, up) [] cls = "long" -> Field(33, 3, 3, up)
                   [] cls = "nonhex" -> Field(32, Oth, 3, up) [] cls \in {"empty", "absent"} -> <<>>
SidR(cls, up) == CASE cls = "ok" -> Field(16, 11, 5, up) [] cls = "zero" -> Field(16, 0, 0, up)
                   [] cls = "short" -> Field(15, 3, 3, up) [] cls = "long" -> Field(17, 3, 3, up)
                   [] cls = "nonhex" -> Field(16, Oth, 3, up) [] cls \in {"empty", "absent"} -> <<>>
SmpR(x) == CASE x = "1" -> <<1>> [] x = "0" -> <<0>> [] x = "d" -> <<13>> [] x = "other" -> <<2>>
             [] x \in {"emptyfield", "missing"} -> <<>>
Hdr(present, v) == [p |-> present /\ v # <<>>, v |-> v]
RenderS(s) ==
  LET up == s.cs = "upper"
      t == TidR(s.tid, s.cs # "lower")
      d == SidR(s.sid, up)
      rest == IF s.smp = "missing" THEN <<>>
              ELSE <<Dash>> \o SmpR(s.smp) \o (CASE s.par = "none" -> <<>>
                                                  [] s.par = "p16" -> <<Dash>> \o Field(16, 12, 3, up)
                                                  [] s.par = "junk" -> <<Dash, Oth>>)
  IN CASE s.st = "ok"       -> t \o <<Dash>> \o d \o rest
       [] s.st = "sepdup"   -> t \o <<Dash, Dash>> \o d \o rest
       [] s.st = "ws"       -> <<Ows>> \o t \o <<Dash>> \o d \o rest
       [] s.st = "onefield" -> t
       [] s.st = "deny"     -> <<0>>
RenderB3(c) == [b3 |-> Hdr(c.s.p = "present", RenderS(c.s)),
                mt |-> Hdr(c.m.tid # "absent", TidR(c.m.tid, c.m.cs # "lower")),
                ms |-> Hdr(c.m.sid # "absent", SidR(c.m.sid, c.m.cs = "upper")),
                mf |-> Hdr(c.m.smp # "missing", SmpR(c.m.smp))]
RenderJ(j) ==
  LET up == j.cs = "upper"
      t == TidR(j.tid, j.cs # "lower")
      d == SidR(j.sid, up)
      p == CASE j.par = "0" -> <<0>> [] j.par = "p16" -> Field(16, 12, 3, up) [] j.par = "empty" -> <<>> [] j.par = "nonhex" -> <<Oth>>
      f == CASE j.fl = "hex2" -> <<Up(j.fb \div 16, up), Up(j.fb % 16, up)>> [] j.fl = "hex1" -> <<1>> [] j.fl = "empty" -> <<>>
             [] j.fl = "nonhex" -> <<Oth>> [] j.fl = "long" -> <<0, 0, 1>>
      c == IF j.st = "urlenc" THEN <<Pct, 3, 26>> ELSE <<Colon>>
      core == IF j.st = "f3" THEN t \o c \o d \o c \o f ELSE t \o c \o d \o c \o p \o c \o f
  IN Hdr(j.p = "present",
         CASE j.st = "f5" -> core \o <<Colon, 1>> [] j.st = "ws" -> <<Ows>> \o core [] OTHER -> core)
\* both formulations agree on every member of the partition
\* (TLC also evaluates invariants on the successors that CONSTRAINT Budget discards: skip those)
Agree == (phase \in {"carrier", "injected"} /\ InBudget) =>
           LET f == XFmt(fmt)
               a == Outcome(f, car, {})
               b == IF f = "jg" THEN TokOutcomeJ(RenderJ(car.j)) ELSE TokOutcomeB3(RenderB3(car))
           IN a.o = b.o /\ a.src = b.src /\ a.pad = b.pad /\ a.sampled = b.sampled

(* ---------------- short / truncated / separator-free header values ----------- *)
\* Every byte value has exactly one token: the harness expands a token to ALL byte values of its class
\* (hex digits, '-', ':', '%': one byte each; Ows: SP, HT; Oth: the other 229 byte values).
TailTok == (0..15) \cup (26..31) \cup {Dash, Ows, Pct, Oth, Colon}
ASSUME PrintT(<<"TAILTOK", ToJson(TailTok)>>)
AllTailBases == {"b3full", "b3pad", "mt", "ms", "mf", "jgfull", "jgpar0", "jgurl"}
HdrOf(b) == CASE b \in {"b3full", "b3pad"} -> "b3" [] b \in {"jgfull", "jgpar0", "jgurl"} -> "jg" [] OTHER -> b
\* the documented forms that are truncated (representative tokens, as rendered for Agree)
TBase(b) == CASE b = "b3full" -> RenderS([DefS EXCEPT !.par = "p16"])                 \* tid32-sid-1-parent
              [] b = "b3pad"  -> RenderS([DefS EXCEPT !.tid = "ok16", !.smp = "d"])   \* tid16-sid-d
              [] b = "mt"     -> TidR("ok32", FALSE)
              [] b = "ms"     -> SidR("ok", FALSE)
              [] b = "mf"     -> <<1>>
              [] b = "jgfull" -> RenderJ([DefJ EXCEPT !.par = "p16"]).v              \* tid:sid:parent:01
              [] b = "jgpar0" -> RenderJ(DefJ).v                                     \* tid:sid:0:01
              [] b = "jgurl"  -> RenderJ([DefJ EXCEPT !.st = "urlenc"]).v            \* tid%3Asid%3A0%3A01
\* (a constant: TLC renders each form once)
TBaseTab == [b \in AllTailBases |-> TBase(b)]
\* one more byte than the form has: the full value followed by any byte is a member too
TExtTab == [b \in AllTailBases |-> TBaseTab[b] \o <<0>>]
TExt(b) == TExtTab[b]
\* companions: well-formed X-B3-* headers carrying OTHER ids than the b3 value
CompT == Field(32, 14, 9, FALSE)
CompS == Field(16, 13, 6, FALSE)
SeqsUpTo(S, n) == UNION {[1..k -> S] : k \in 0..n}
CompsOf(b) == IF HdrOf(b) = "b3" THEN TailComp ELSE IF HdrOf(b) = "jg" THEN {"none"} ELSE {"wf"}
\* prefix of length n of form b, position n - p + 1 replaced by token x (p = 0: the plain prefix)
TailMember(b, c, n, p, x) ==
  LET pre == SubSeq(TExt(b), 1, n) IN
  [h |-> HdrOf(b), b |-> b, comp |-> c, cut |-> n, pos |-> p, tok |-> x,
   v |-> IF p = 0 THEN pre ELSE [pre EXCEPT ![n - p + 1] = x]]
ShortMember(k, w) ==
  [h |-> k, b |-> "short", comp |-> (IF k \in {"b3", "jg"} THEN "none" ELSE "wf"), cut |-> Len(w), pos |-> 0, tok |-> 0, v |-> w]
\* the token-level carrier of a member.  The swept header is PRESENT (an empty value is handed over as an
\* empty value); Hdr() turns "present and empty" into "absent", which is what the contract says about it.
TailCarB3(t) ==
  LET wf == t.comp = "wf" IN
  [b3 |-> IF t.h = "b3" THEN Hdr(TRUE, t.v) ELSE Hdr(FALSE, <<>>),
   mt |-> IF t.h = "mt" THEN Hdr(TRUE, t.v) ELSE Hdr(wf, CompT),
   ms |-> IF t.h = "ms" THEN Hdr(TRUE, t.v) ELSE Hdr(wf, CompS),
   mf |-> IF t.h = "mf" THEN Hdr(TRUE, t.v) ELSE Hdr(wf, <<1>>)]
TailOutcome(t) == IF t.h = "jg" THEN TokOutcomeJ(Hdr(TRUE, t.v)) ELSE TokOutcomeB3(TailCarB3(t))
Proj(o) == [o |-> o.o, src |-> o.src, pad |-> o.pad, sampled |-> o.sampled]

InitTail == /\ phase = "tail" /\ sc = NoSC /\ car = NoCar /\ res = Rej /\ devUsed = {}
            /\ \/ \E b \in TailBases : \E c \in CompsOf(b) : \E n \in 0..Len(TExt(b)) :
                    \/ tl = TailMember(b, c, n, 0, 0)
                    \/ \E p \in 1..TailPos : \E x \in TailTok : p <= n /\ tl = TailMember(b, c, n, p, x)
               \/ \E k \in ShortKinds : \E w \in SeqsUpTo(TailTok, ShortLen) : tl = ShortMember(k, w)
            /\ fmt = (IF tl.h = "jg" THEN "jg" ELSE "b3")
TailExtract == /\ phase = "tail" /\ phase' = "tdone"
               /\ res' = Proj(TailOutcome(tl))
               /\ UNCHANGED <<fmt, sc, car, devUsed, tl>>

Next == Inject \/ ExtractRT \/ MutSingle \/ MutMulti \/ MutJaeger \/ Extract \/ TailExtract
Spec == (Init \/ InitTail) /\ [][Next]_vars

\* what the statement says about such values, clause by clause
TDone == phase = "tdone"
Sep(h) == IF h = "jg" THEN Colon ELSE Dash
HasTok(v, x) == \E i \in 1..Len(v) : v[i] = x
\* a context is only ever promised for lower-case hex + separators, and its ids are never all zero
TailAcceptDocumented ==
  (TDone /\ res.o = "accept") =>
     LET o == TailOutcome(tl) IN
     /\ Len(o.tid) = 32 /\ Len(o.sid) = 16 /\ ~IsZero(o.tid) /\ ~IsZero(o.sid) /\ LowerHex(o.tid) /\ LowerHex(o.sid)
     /\ (res.src = tl.h \/ (res.src = "s" /\ tl.h = "b3") \/ (res.src = "j" /\ tl.h = "jg") \/ res.src = "m")
     /\ (res.src \in {"s", "j"} => \A i \in 1..Len(tl.v) : tl.v[i] \in (0..15) \cup {Sep(tl.h)})
\* a b3 / uber-trace-id value without its field separator never denotes a context of its own
TailNoSeparator ==
  (TDone /\ tl.h \in {"b3", "jg"} /\ ~HasTok(tl.v, Sep(tl.h)) /\ res.o = "accept") => (tl.v = <<>> /\ res.src = "m")
\* an empty value is an absent header
TailEmptyIsAbsent ==
  (TDone /\ tl.v = <<>>) =>
     CASE tl.h = "jg" -> res.o = "reject"
       [] tl.h = "b3" -> IF tl.comp = "wf" THEN res.o = "accept" /\ res.src = "m" ELSE res.o = "reject"
       [] tl.h = "mf" -> res.o = "accept" /\ res.src = "m" /\ ~res.sampled   \* missing sampling field
       [] OTHER -> res.o = "either"          \* an id header missing: arbitrary
\* the un-truncated documented forms are accepted (anchors the family to the class-level partition)
TailAnchored ==
  (TDone /\ tl.b \in AllTailBases /\ tl.pos = 0 /\ tl.cut = Len(TBaseTab[tl.b])) =>
     IF tl.b = "jgurl" THEN res.o = "either"
     ELSE /\ res.o = "accept"
          /\ res.src = (CASE tl.h = "b3" -> "s" [] tl.h = "jg" -> "j" [] OTHER -> "m")
          /\ res.pad = (tl.b = "b3pad") /\ res.sampled
TailTypeOK == /\ TailBases \subseteq AllTailBases /\ TailPos \in 0..3 /\ TailComp \subseteq {"none", "wf"}
              /\ ShortKinds \subseteq {"b3", "mt", "ms", "mf", "jg"}
              /\ (phase \in {"tail", "tdone"}) = (tl # NoTail)
              /\ tl # NoTail => \A i \in 1..Len(tl.v) : tl.v[i] \in TailTok

(* ---------------- behaviour export ----------------------------------------- *)
EmitAll ==
  /\ phase = "done" =>
       PrintT(<<"BEH", ToJson([k |-> "rt", fmt |-> fmt, sc |-> sc,
                               ext |-> Outcome(XFmt(fmt), InjectCar(fmt, sc, {}), {}),
                               dev |-> IF InjectCar(fmt, sc, AllDevs) # InjectCar(fmt, sc, {}) THEN DevF11 ELSE "",
                               extDev |-> Outcome(XFmt(fmt), InjectCar(fmt, sc, AllDevs), AllDevs)])>>)
  /\ phase = "xdone" => PrintT(<<"BEH", ToJson([k |-> "x", fmt |-> fmt, car |-> car, exp |-> res])>>)
  \* rest: what the full form goes on with behind the cut (the bytes a truncated VIEW is followed by)
  /\ phase = "tdone" =>
       PrintT(<<"BEH", ToJson([k |-> "t", fmt |-> fmt,
                               tl |-> [h |-> tl.h, b |-> tl.b, comp |-> tl.comp, cut |-> tl.cut, pos |-> tl.pos, tok |-> tl.tok],
                               car |-> IF tl.h = "jg" THEN [j |-> [p |-> TRUE, v |-> tl.v]]
                                       ELSE [hh \in {"b3", "mt", "ms", "mf"} |->
                                               IF hh = tl.h THEN [p |-> TRUE, v |-> tl.v] ELSE TailCarB3(tl)[hh]],
                               rest |-> IF tl.b \in AllTailBases THEN SubSeq(TExt(tl.b), tl.cut + 1, Len(TBaseTab[tl.b])) ELSE <<>>,
                               exp |-> TailOutcome(tl)])>>)
=============================================================================
