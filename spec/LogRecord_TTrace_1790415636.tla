---- MODULE LogRecord_TTrace_1790415636 ----
EXTENDS Sequences, TLCExt, LogRecord, Toolbox, Naturals, TLC

_expression ==
    LET LogRecord_TEExpression == INSTANCE LogRecord_TEExpression
    IN LogRecord_TEExpression!expression
----

_trace ==
    LET LogRecord_TETrace == INSTANCE LogRecord_TETrace
    IN LogRecord_TETrace!trace
----

_inv ==
    ~(
        TLCGet("level") = Len(_TETrace)
        /\
        exported = (<<<<>>, <<>>, <<>>>>)
        /\
        cur = (<<[lg |-> 1, mode |-> "new", r |-> 1, args |-> <<[v |-> 0, k |-> "attrs", nm |-> 0, m |-> <<2>>]>>]>>)
        /\
        res = (1)
        /\
        spans = (<<<<[s |-> 0, id |-> 1]>>>>)
        /\
        last = ([s |-> 0, lg |-> 0, r |-> 1, args |-> <<>>, t |-> 1, a |-> [v |-> 0, k |-> "attrs", nm |-> 0, m |-> <<2>>], op |-> "Arg", via |-> "", mayCrash |-> FALSE])
        /\
        pending = (<<<<>>, <<>>, <<>>>>)
        /\
        flags = ({})
        /\
        hist = (<<>>)
        /\
        nflush = (0)
        /\
        recs = (<<[lg |-> 1, args |-> <<[v |-> 0, k |-> "attrs", nm |-> 0, m |-> <<2>>]>>, t |-> 1, st |-> "emitting", noop |-> FALSE, sev |-> 0, body |-> 0, ts |-> 0, evid |-> 0, evname |-> 0, tid |-> 0, sid |-> 0, fl |-> 0, attrs |-> <<[v |-> 2, dead |-> FALSE]>>, nset |-> 0, span0 |-> 0]>>)
        /\
        scopeIds = (<<{1}>>)
        /\
        crashed = (FALSE)
        /\
        pipe = (<<"simple", "batch", "hold">>)
        /\
        devUsed = ({})
        /\
        nscope = (1)
    )
----

_init ==
    /\ recs = _TETrace[1].recs
    /\ devUsed = _TETrace[1].devUsed
    /\ nflush = _TETrace[1].nflush
    /\ cur = _TETrace[1].cur
    /\ scopeIds = _TETrace[1].scopeIds
    /\ flags = _TETrace[1].flags
    /\ pending = _TETrace[1].pending
    /\ nscope = _TETrace[1].nscope
    /\ pipe = _TETrace[1].pipe
    /\ res = _TETrace[1].res
    /\ hist = _TETrace[1].hist
    /\ exported = _TETrace[1].exported
    /\ last = _TETrace[1].last
    /\ crashed = _TETrace[1].crashed
    /\ spans = _TETrace[1].spans
----

_next ==
    /\ \E i,j \in DOMAIN _TETrace:
        /\ \/ /\ j = i + 1
              /\ i = TLCGet("level")
        /\ recs  = _TETrace[i].recs
        /\ recs' = _TETrace[j].recs
        /\ devUsed  = _TETrace[i].devUsed
        /\ devUsed' = _TETrace[j].devUsed
        /\ nflush  = _TETrace[i].nflush
        /\ nflush' = _TETrace[j].nflush
        /\ cur  = _TETrace[i].cur
        /\ cur' = _TETrace[j].cur
        /\ scopeIds  = _TETrace[i].scopeIds
        /\ scopeIds' = _TETrace[j].scopeIds
        /\ flags  = _TETrace[i].flags
        /\ flags' = _TETrace[j].flags
        /\ pending  = _TETrace[i].pending
        /\ pending' = _TETrace[j].pending
        /\ nscope  = _TETrace[i].nscope
        /\ nscope' = _TETrace[j].nscope
        /\ pipe  = _TETrace[i].pipe
        /\ pipe' = _TETrace[j].pipe
        /\ res  = _TETrace[i].res
        /\ res' = _TETrace[j].res
        /\ hist  = _TETrace[i].hist
        /\ hist' = _TETrace[j].hist
        /\ exported  = _TETrace[i].exported
        /\ exported' = _TETrace[j].exported
        /\ last  = _TETrace[i].last
        /\ last' = _TETrace[j].last
        /\ crashed  = _TETrace[i].crashed
        /\ crashed' = _TETrace[j].crashed
        /\ spans  = _TETrace[i].spans
        /\ spans' = _TETrace[j].spans

\* Uncomment the ASSUME below to write the states of the error trace
\* to the given file in Json format. Note that you can pass any tuple
\* to `JsonSerialize`. For example, a sub-sequence of _TETrace.
    \* ASSUME
    \*     LET J == INSTANCE Json
    \*         IN J!JsonSerialize("LogRecord_TTrace_1790415636.json", _TETrace)

=============================================================================

 Note that you can extract this module `LogRecord_TEExpression`
  to a dedicated file to reuse `expression` (the module in the 
  dedicated `LogRecord_TEExpression.tla` file takes precedence 
  over the module `LogRecord_TEExpression` below).

---- MODULE LogRecord_TEExpression ----
EXTENDS Sequences, TLCExt, LogRecord, Toolbox, Naturals, TLC

expression == 
    [
        \* To hide variables of the `LogRecord` spec from the error trace,
        \* remove the variables below.  The trace will be written in the order
        \* of the fields of this record.
        recs |-> recs
        ,devUsed |-> devUsed
        ,nflush |-> nflush
        ,cur |-> cur
        ,scopeIds |-> scopeIds
        ,flags |-> flags
        ,pending |-> pending
        ,nscope |-> nscope
        ,pipe |-> pipe
        ,res |-> res
        ,hist |-> hist
        ,exported |-> exported
        ,last |-> last
        ,crashed |-> crashed
        ,spans |-> spans
        
        \* Put additional constant-, state-, and action-level expressions here:
        \* ,_stateNumber |-> _TEPosition
        \* ,_recsUnchanged |-> recs = recs'
        
        \* Format the `recs` variable as Json value.
        \* ,_recsJson |->
        \*     LET J == INSTANCE Json
        \*     IN J!ToJson(recs)
        
        \* Lastly, you may build expressions over arbitrary sets of states by
        \* leveraging the _TETrace operator.  For example, this is how to
        \* count the number of times a spec variable changed up to the current
        \* state in the trace.
        \* ,_recsModCount |->
        \*     LET F[s \in DOMAIN _TETrace] ==
        \*         IF s = 1 THEN 0
        \*         ELSE IF _TETrace[s].recs # _TETrace[s-1].recs
        \*             THEN 1 + F[s-1] ELSE F[s-1]
        \*     IN F[_TEPosition - 1]
    ]

=============================================================================



Parsing and semantic processing can take forever if the trace below is long.
 In this case, it is advised to uncomment the module below to deserialize the
 trace from a generated binary file.

\*
\*---- MODULE LogRecord_TETrace ----
\*EXTENDS IOUtils, LogRecord, TLC
\*
\*trace == IODeserialize("LogRecord_TTrace_1790415636.bin", TRUE)
\*
\*=============================================================================
\*

---- MODULE LogRecord_TETrace ----
EXTENDS LogRecord, TLC

trace == 
    <<
    ([exported |-> <<<<>>, <<>>, <<>>>>,cur |-> <<[lg |-> 0, mode |-> "idle", r |-> 0, args |-> <<>>]>>,res |-> 1,spans |-> <<<<>>>>,last |-> [s |-> 0, lg |-> 0, r |-> 0, args |-> <<>>, t |-> 0, a |-> [v |-> 0, k |-> "none", nm |-> 0, m |-> <<>>], op |-> "Init", via |-> "", mayCrash |-> FALSE],pending |-> <<<<>>, <<>>, <<>>>>,flags |-> {},hist |-> <<>>,nflush |-> 0,recs |-> <<>>,scopeIds |-> <<{}>>,crashed |-> FALSE,pipe |-> <<"simple", "batch", "hold">>,devUsed |-> {},nscope |-> 0]),
    ([exported |-> <<<<>>, <<>>, <<>>>>,cur |-> <<[lg |-> 0, mode |-> "idle", r |-> 0, args |-> <<>>]>>,res |-> 1,spans |-> <<<<[s |-> 0, id |-> 1]>>>>,last |-> [s |-> 0, lg |-> 0, r |-> 1, args |-> <<>>, t |-> 1, a |-> [v |-> 0, k |-> "none", nm |-> 0, m |-> <<>>], op |-> "ScopeEnter", via |-> "", mayCrash |-> FALSE],pending |-> <<<<>>, <<>>, <<>>>>,flags |-> {},hist |-> <<>>,nflush |-> 0,recs |-> <<>>,scopeIds |-> <<{1}>>,crashed |-> FALSE,pipe |-> <<"simple", "batch", "hold">>,devUsed |-> {},nscope |-> 1]),
    ([exported |-> <<<<>>, <<>>, <<>>>>,cur |-> <<[lg |-> 1, mode |-> "new", r |-> 1, args |-> <<>>]>>,res |-> 1,spans |-> <<<<[s |-> 0, id |-> 1]>>>>,last |-> [s |-> 0, lg |-> 1, r |-> 1, args |-> <<>>, t |-> 1, a |-> [v |-> 0, k |-> "none", nm |-> 0, m |-> <<>>], op |-> "BeginEmit", via |-> "new", mayCrash |-> FALSE],pending |-> <<<<>>, <<>>, <<>>>>,flags |-> {},hist |-> <<>>,nflush |-> 0,recs |-> <<[lg |-> 1, args |-> <<>>, t |-> 1, st |-> "emitting", noop |-> FALSE, sev |-> 0, body |-> 0, ts |-> 0, evid |-> 0, evname |-> 0, tid |-> 0, sid |-> 0, fl |-> 0, attrs |-> <<0>>, nset |-> 0, span0 |-> 0]>>,scopeIds |-> <<{1}>>,crashed |-> FALSE,pipe |-> <<"simple", "batch", "hold">>,devUsed |-> {},nscope |-> 1]),
    ([exported |-> <<<<>>, <<>>, <<>>>>,cur |-> <<[lg |-> 1, mode |-> "new", r |-> 1, args |-> <<[v |-> 0, k |-> "attrs", nm |-> 0, m |-> <<2>>]>>]>>,res |-> 1,spans |-> <<<<[s |-> 0, id |-> 1]>>>>,last |-> [s |-> 0, lg |-> 0, r |-> 1, args |-> <<>>, t |-> 1, a |-> [v |-> 0, k |-> "attrs", nm |-> 0, m |-> <<2>>], op |-> "Arg", via |-> "", mayCrash |-> FALSE],pending |-> <<<<>>, <<>>, <<>>>>,flags |-> {},hist |-> <<>>,nflush |-> 0,recs |-> <<[lg |-> 1, args |-> <<[v |-> 0, k |-> "attrs", nm |-> 0, m |-> <<2>>]>>, t |-> 1, st |-> "emitting", noop |-> FALSE, sev |-> 0, body |-> 0, ts |-> 0, evid |-> 0, evname |-> 0, tid |-> 0, sid |-> 0, fl |-> 0, attrs |-> <<[v |-> 2, dead |-> FALSE]>>, nset |-> 0, span0 |-> 0]>>,scopeIds |-> <<{1}>>,crashed |-> FALSE,pipe |-> <<"simple", "batch", "hold">>,devUsed |-> {},nscope |-> 1])
    >>
----


=============================================================================

---- CONFIG LogRecord_TTrace_1790415636 ----
CONSTANTS
    NT = 1
    NS = 1
    PipeNames = { "sbh" }
    NRes = 1
    MaxRecs = 1
    MaxSets = 1
    MaxArgs = 2
    MaxScope = 1
    MaxFlush = 1
    NSev = 1
    NBody = 2
    NTs = 1
    NId = 1
    NFl = 1
    NAK = 1
    NAV = 2
    MaxMap = 1
    NEv = 1
    NName = 1
    GenDepth = 0
    Hist = FALSE
    Dev = { }

INVARIANT
    _inv

CHECK_DEADLOCK
    \* CHECK_DEADLOCK off because of PROPERTY or INVARIANT above.
    FALSE

INIT
    _init

NEXT
    _next

CONSTANT
    _TETrace <- _trace

ALIAS
    _expression
=============================================================================
\* Generated on Sat Sep 26 09:40:37 UTC 2026