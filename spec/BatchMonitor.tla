---------------------------- MODULE BatchMonitor ----------------------------
(***************************************************************************)
(* Level A (property-level) monitor for the batch span / log processors   *)
(* (C01, C02, C03), written as a trace spec over observable events only:  *)
(* API call/return with arguments and results, exporter callbacks with    *)
(* their batches, record destruction.  It accepts exactly the event       *)
(* sequences the three properties allow; any correct implementation,      *)
(* however it is written, produces accepted logs.                         *)
(*                                                                         *)
(*  Cfg(Q,B,..)                 new execution (resets the monitor)        *)
(*  OnEndCall(p,s,cons)         producer p starts its s-th call; cons =   *)
(*                              records consumed from the queue so far    *)
(*  OnEndRet(p,s,fate,others)   fate: queued | dropped (destroyed inside  *)
(*                              the call) | discarded (caller keeps it)   *)
(*  ExpBegin(batch) ExpEnd      exporter Export begins / returns          *)
(*  ExpFF  ExpSD                exporter ForceFlush / Shutdown invoked    *)
(*  FFCall(f) FFRet(f,r)        processor ForceFlush call / return value  *)
(*  SDCall(s) SDRet(s)          processor Shutdown (or destructor)        *)
(*  ProducersDone               (frozen-export scenarios) every producer  *)
(*                              call returned while Export was blocked    *)
(*  End(live)                   everything joined and destroyed           *)
(*  Stuck / Crash               never accepted                            *)
(*                                                                         *)
(* Dev: named deviations of the current code that are known findings; a   *)
(* step explainable only through one of them records its name in devUsed. *)
(***************************************************************************)
EXTENDS Integers, Sequences, FiniteSets, TLC, Json, IOUtils

CONSTANTS Dev,    \* names of known deviations the monitor may use (and report in devUsed)
          Check   \* subset of {"C01","C02","C03"}: which property's clauses are enforced

TraceLog == ndJsonDeserialize(IOEnv.TRACE)

VARIABLES l, Q, B, calls, consAt, started, failed, retd, fate, exported, lastS, inExp,
          ffSnap, ffOK, ffSeen, sdCalled, sdSnap, sdRet, expSD, devUsed, devExecs, usedHere, nexec,
          flushed, flAt

vars == <<l, Q, B, calls, consAt, started, failed, retd, fate, exported, lastS, inExp,
          ffSnap, ffOK, ffSeen, sdCalled, sdSnap, sdRet, expSD, devUsed, devExecs, usedHere, nexec,
          flushed, flAt>>

Ev == TraceLog[l]
Is(e) == l <= Len(TraceLog) /\ Ev.e = e /\ l' = l + 1
Id(p, s) == p * 100 + s
PofId(x) == x \div 100
SofId(x) == x % 100
On(prop, cond) == (prop \in Check) => cond
Accounted(x) == x \in exported \/ (x \in DOMAIN fate /\ fate[x] \in {"dropped", "discarded"})

Init == /\ TLCSet(1, 0)
        /\ l = 1 /\ Q = 0 /\ B = 0 /\ calls = {} /\ consAt = <<>> /\ started = 0 /\ failed = 0
        /\ retd = {} /\ fate = <<>> /\ exported = {} /\ lastS = [p \in 0..9 |-> -1] /\ inExp = FALSE
        /\ ffSnap = <<>> /\ ffOK = <<>> /\ ffSeen = FALSE /\ sdCalled = FALSE /\ sdSnap = {}
        /\ sdRet = FALSE /\ expSD = 0 /\ devUsed = {} /\ devExecs = 0 /\ usedHere = FALSE /\ nexec = 0
        /\ flushed = {} /\ flAt = <<>>

TCfg == /\ Is("Cfg")
        /\ Q' = Ev.Q /\ B' = Ev.B /\ calls' = {} /\ consAt' = <<>> /\ started' = 0 /\ failed' = 0
        /\ retd' = {} /\ fate' = <<>> /\ exported' = {} /\ lastS' = [p \in 0..9 |-> -1] /\ inExp' = FALSE
        /\ ffSnap' = <<>> /\ ffOK' = <<>> /\ ffSeen' = FALSE /\ sdCalled' = FALSE /\ sdSnap' = {}
        /\ sdRet' = FALSE /\ expSD' = 0 /\ usedHere' = FALSE /\ nexec' = nexec + 1
        /\ flushed' = {} /\ flAt' = <<>>
        /\ UNCHANGED <<devUsed, devExecs>>

TOnEndCall ==
  /\ Is("OnEndCall")
  /\ LET x == Id(Ev.p, Ev.s) IN
     /\ x \notin calls
     /\ Ev.s = Cardinality({c \in calls : PofId(c) = Ev.p})
     /\ calls' = calls \cup {x}
     /\ consAt' = consAt @@ (x :> Ev.cons)
     /\ flAt' = flAt @@ (x :> Cardinality(flushed))
  /\ started' = started + 1
  /\ UNCHANGED <<Q, B, failed, retd, fate, exported, lastS, inExp, ffSnap, ffOK, ffSeen, sdCalled, sdSnap,
                 sdRet, expSD, devUsed, devExecs, usedHere, nexec, flushed>>

\* C01: a record is dropped only if the calls started before this one returned (not themselves
\* failed), minus what was consumed before it started, already fill the queue.
\* A ForceFlush that returned true is a completed flush: every record that had been queued before it
\* began has left the queue by then (that is what "completed" means), whatever the implementation's own
\* consumption counter says.  `flAt[x]` = how many queued records completed flushes had covered when
\* call x began.  On a correct implementation consAt[x] >= flAt[x] and the maximum changes nothing.
Max2(a, b) == IF a >= b THEN a ELSE b
DropLegit(x) == (started - failed - 1) - Max2(consAt[x], flAt[x]) >= Q

TOnEndRet ==
  /\ Is("OnEndRet")
  /\ LET x == Id(Ev.p, Ev.s) IN
     /\ x \in calls /\ x \notin retd
     /\ Ev.fate \in {"queued", "dropped", "discarded"}
     /\ On("C01", Ev.others = 0)                        \* no other record destroyed inside this call
     /\ On("C01", Ev.fate = "dropped" => (x \notin exported /\ (DropLegit(x) \/ sdCalled)))
     /\ On("C01", Ev.fate = "discarded" => (x \notin exported /\ sdCalled))
     /\ retd' = retd \cup {x}
     /\ fate' = fate @@ (x :> Ev.fate)
  /\ failed' = IF Ev.fate = "queued" THEN failed ELSE failed + 1
  /\ UNCHANGED <<Q, B, calls, consAt, started, exported, lastS, inExp, ffSnap, ffOK, ffSeen, sdCalled, sdSnap,
                 sdRet, expSD, devUsed, devExecs, usedHere, nexec, flushed, flAt>>

RECURSIVE OrderOK(_, _)
OrderOK(items, lk) ==
  IF items = <<>> THEN TRUE
  ELSE LET x == Head(items) IN
       /\ SofId(x) > lk[PofId(x)]
       /\ OrderOK(Tail(items), [lk EXCEPT ![PofId(x)] = SofId(x)])
RECURSIVE Advance(_, _)
Advance(items, lk) ==
  IF items = <<>> THEN lk
  ELSE Advance(Tail(items), [lk EXCEPT ![PofId(Head(items))] = SofId(Head(items))])

Uncapped == "batch-uncapped-when-ticket-pending"   \* F1: whole queue exported once any ForceFlush ticket exists
TwoReads == "batch-size-read-twice"                \* F16: size() evaluated twice; producers add in between

TExpBegin ==
  /\ Is("ExpBegin")
  /\ On("C03", ~inExp)                                  \* C03: one Export at a time
  /\ On("C02", ~sdRet)                                  \* C02: no exporter call after Shutdown returned
  /\ LET b == Ev.batch IN
     /\ On("C03", Len(b) >= 1)                          \* C03: non-empty
     /\ \A i \in 1..Len(b) : b[i] \in calls
     /\ On("C01", \A i \in 1..Len(b) : /\ b[i] \notin exported    \* C01: exactly once
                                       /\ (b[i] \in DOMAIN fate => fate[b[i]] = "queued"))
     /\ On("C01", \A i, j \in 1..Len(b) : i # j => b[i] # b[j])
     /\ On("C01", OrderOK(b, lastS))                    \* C01: each producer's own order
     /\ \/ /\ ("C03" \notin Check \/ Len(b) <= B)       \* C03: at most max_export_batch_size
           /\ UNCHANGED <<devUsed, devExecs, usedHere, flushed, flAt>>
        \/ /\ "C03" \in Check /\ Len(b) > B /\ Uncapped \in Dev /\ ffSeen
           /\ devUsed' = devUsed \cup {Uncapped}
           /\ devExecs' = IF usedHere THEN devExecs ELSE devExecs + 1
           /\ usedHere' = TRUE
        \/ /\ "C03" \in Check /\ Len(b) > B /\ TwoReads \in Dev /\ ~ffSeen /\ Len(b) <= Q
           /\ devUsed' = devUsed \cup {TwoReads}
           /\ devExecs' = IF usedHere THEN devExecs ELSE devExecs + 1
           /\ usedHere' = TRUE
     /\ exported' = exported \cup {b[i] : i \in 1..Len(b)}
     /\ lastS' = Advance(b, lastS)
  /\ inExp' = TRUE
  /\ UNCHANGED <<Q, B, calls, consAt, started, failed, retd, fate, ffSnap, ffOK, ffSeen, sdCalled, sdSnap,
                 sdRet, expSD, nexec, flushed, flAt>>

TExpEnd == /\ Is("ExpEnd") /\ inExp' = FALSE
           /\ UNCHANGED <<Q, B, calls, consAt, started, failed, retd, fate, exported, lastS, ffSnap, ffOK, ffSeen,
                          sdCalled, sdSnap, sdRet, expSD, devUsed, devExecs, usedHere, nexec, flushed, flAt>>

\* exporter ForceFlush: completes every pending processor ForceFlush whose snapshot is accounted for
TExpFF == /\ Is("ExpFF") /\ On("C02", ~sdRet)
          /\ ffOK' = [f \in DOMAIN ffOK |-> ffOK[f] \/ (\A x \in ffSnap[f] : Accounted(x))]
          /\ UNCHANGED <<Q, B, calls, consAt, started, failed, retd, fate, exported, lastS, inExp, ffSnap, ffSeen,
                         sdCalled, sdSnap, sdRet, expSD, devUsed, devExecs, usedHere, nexec, flushed, flAt>>

TExpSD == /\ Is("ExpSD") /\ On("C02", ~sdRet /\ expSD = 0) /\ expSD' = expSD + 1   \* C02: exactly once
          /\ UNCHANGED <<Q, B, calls, consAt, started, failed, retd, fate, exported, lastS, inExp, ffSnap, ffOK,
                         ffSeen, sdCalled, sdSnap, sdRet, devUsed, devExecs, usedHere, nexec, flushed, flAt>>

TFFCall == /\ Is("FFCall")
           /\ Ev.f \notin DOMAIN ffSnap
           /\ ffSnap' = ffSnap @@ (Ev.f :> retd)        \* everything whose call returned before this call began
           /\ ffOK' = ffOK @@ (Ev.f :> FALSE)
           /\ ffSeen' = TRUE
           /\ UNCHANGED <<Q, B, calls, consAt, started, failed, retd, fate, exported, lastS, inExp, sdCalled, sdSnap,
                          sdRet, expSD, devUsed, devExecs, usedHere, nexec, flushed, flAt>>

\* C02: ForceFlush returning true => snapshot exported (or legitimately dropped) and the exporter's
\* ForceFlush invoked afterwards.  `false` is always accepted.
TFFRet == /\ Is("FFRet") /\ Ev.f \in DOMAIN ffOK
          /\ On("C02", Ev.r => ffOK[Ev.f])
          \* C01 ("never lost when at most max_queue_size records are produced between two completed flushes"):
          \* a flush that reports completion has taken its whole snapshot out of the queue, so the queue has
          \* room again for max_queue_size later records.  `cons` = records consumed from the queue when the
          \* call returned (logged by the batch harness; absent in logs of the Level-B model).
          /\ On("C01", (Ev.r /\ "cons" \in DOMAIN Ev) =>
                         Ev.cons >= Cardinality({x \in ffSnap[Ev.f] : fate[x] = "queued"}))
          /\ flushed' = IF Ev.r THEN flushed \cup {x \in ffSnap[Ev.f] : fate[x] = "queued"} ELSE flushed
          /\ UNCHANGED <<Q, B, calls, consAt, started, failed, retd, fate, exported, lastS, inExp, ffSnap, ffOK, ffSeen,
                         sdCalled, sdSnap, sdRet, expSD, devUsed, devExecs, usedHere, nexec, flAt>>

TSDCall == /\ Is("SDCall")
           /\ sdSnap' = IF sdCalled THEN sdSnap ELSE retd
           /\ sdCalled' = TRUE
           /\ UNCHANGED <<Q, B, calls, consAt, started, failed, retd, fate, exported, lastS, inExp, ffSnap, ffOK, ffSeen,
                          sdRet, expSD, devUsed, devExecs, usedHere, nexec, flushed, flAt>>

\* C02: when any Shutdown returns, everything produced before the first Shutdown call began has been
\* exported (or legitimately dropped), the exporter was shut down exactly once, no Export in flight
TSDRet == /\ Is("SDRet") /\ sdCalled
          /\ (("C01" \in Check \/ "C02" \in Check) => \A x \in sdSnap : Accounted(x))
          /\ On("C02", expSD = 1)
          /\ On("C02", ~inExp)
          /\ sdRet' = TRUE
          /\ UNCHANGED <<Q, B, calls, consAt, started, failed, retd, fate, exported, lastS, inExp, ffSnap, ffOK, ffSeen,
                         sdCalled, sdSnap, expSD, devUsed, devExecs, usedHere, nexec, flushed, flAt>>

TProducersDone == /\ Is("ProducersDone") /\ UNCHANGED <<Q, B, calls, consAt, started, failed, retd, fate, exported,
                         lastS, inExp, ffSnap, ffOK, ffSeen, sdCalled, sdSnap, sdRet, expSD, devUsed, devExecs, usedHere, nexec, flushed, flAt>>

TEnd == /\ Is("End")
        /\ On("C01", Ev.live = 0)                        \* every record destroyed by the end (no leak)
        /\ ~inExp /\ sdRet
        /\ calls = retd
        /\ UNCHANGED <<Q, B, calls, consAt, started, failed, retd, fate, exported, lastS, inExp, ffSnap, ffOK, ffSeen,
                       sdCalled, sdSnap, sdRet, expSD, devUsed, devExecs, usedHere, nexec, flushed, flAt>>

Next == TCfg \/ TOnEndCall \/ TOnEndRet \/ TExpBegin \/ TExpEnd \/ TExpFF \/ TExpSD \/ TFFCall \/ TFFRet
        \/ TSDCall \/ TSDRet \/ TProducersDone \/ TEnd

Progress == TLCSet(1, IF l > TLCGet(1) THEN l ELSE TLCGet(1))
Accepted == IF TLCGet(1) = Len(TraceLog) + 1 THEN TRUE
            ELSE PrintT(<<"REJECTED_AT", TLCGet(1)>>) /\ FALSE
Report == (l = Len(TraceLog) + 1) =>
            (PrintT(<<"ACCEPTED", nexec>>) /\ PrintT(<<"DEVUSED", devUsed>>) /\ PrintT(<<"DEVEXECS", devExecs>>))
=============================================================================
