----------------------- MODULE ScopeIdentityConcTrace -----------------------
(***************************************************************************)
(* Trace validation (code -> spec) of the concurrent identity clause of    *)
(* C19: the log of a REAL TracerProvider / MeterProvider / LoggerProvider  *)
(* used by several threads under the deterministic scheduler               *)
(* (harness/c19_conc.cc, flavour shim) is accepted iff it is a behaviour   *)
(* of ScopeIdentityConc.tla (Atomic = TRUE) up to a renaming of objects.   *)
(* Events (one ndjson line each):                                          *)
(*   Cfg(kind, ..)         new execution: fresh provider of that kind      *)
(*   Call(t, scope)        thread t enters Get*(scope)                     *)
(*   Ret(t, scope, obj)    the call returned; obj = number of the returned *)
(*                         pointer in order of first appearance            *)
(*   End                   all threads joined                              *)
(* The internal step Lin(t) is taken right before the Ret of t: the object *)
(* returned for a scope does not depend on the order in which requests     *)
(* take effect, so no accepted log is lost by this choice.                 *)
(* ren maps the spec's object numbers to the harness's: it must stay a     *)
(* function and injective - equal identity <=> same object.                *)
(***************************************************************************)
EXTENDS ScopeIdentityConc, Json, IOUtils

TraceLog == ndJsonDeserialize(IOEnv.TRACE)

VARIABLES l, nexec, ren
tvars == <<vars, l, nexec, ren>>

Ev == TraceLog[l]
Is(e) == l <= Len(TraceLog) /\ Ev.e = e /\ l' = l + 1

TInit == /\ TLCSet(1, 0)
         /\ l = 1 /\ nexec = 0 /\ ren = <<>>
         /\ kind = "" /\ objs = <<>> /\ nobj = 0
         /\ pc = [t \in Threads |-> "idle"] /\ arg = [t \in Threads |-> NoScope]
         /\ res = [t \in Threads |-> 0] /\ done = [t \in Threads |-> 0] /\ rets = {}

TCfg == /\ Is("Cfg")
        /\ kind' = Ev.kind /\ objs' = <<>> /\ nobj' = 0
        /\ pc' = [t \in Threads |-> "idle"] /\ arg' = [t \in Threads |-> NoScope]
        /\ res' = [t \in Threads |-> 0] /\ done' = [t \in Threads |-> 0] /\ rets' = {}
        /\ ren' = <<>> /\ nexec' = nexec + 1

TCall == /\ Is("Call") /\ Ev.t \in Threads
         /\ Call(Ev.t, Ev.scope)
         /\ UNCHANGED <<nexec, ren>>

TLin == /\ l <= Len(TraceLog) /\ Ev.e = "Ret" /\ Ev.t \in Threads
        /\ Lin(Ev.t)
        /\ UNCHANGED <<l, nexec, ren>>

RenRange == {ren[o] : o \in DOMAIN ren}
TRet == /\ Is("Ret") /\ Ev.t \in Threads
        /\ pc[Ev.t] = "got" /\ arg[Ev.t] = Ev.scope
        /\ IF res[Ev.t] \in DOMAIN ren
             THEN Ev.obj = ren[res[Ev.t]] /\ UNCHANGED ren
             ELSE Ev.obj \notin RenRange /\ ren' = ren @@ (res[Ev.t] :> Ev.obj)
        /\ Ret(Ev.t)
        /\ UNCHANGED nexec

TEnd == /\ Is("End")
        /\ \A t \in Threads : pc[t] = "idle"
        /\ UNCHANGED <<vars, nexec, ren>>

TNext == TCfg \/ TCall \/ TLin \/ TRet \/ TEnd
TSpec == TInit /\ [][TNext]_tvars

Progress == TLCSet(1, IF l > TLCGet(1) THEN l ELSE TLCGet(1))
Accepted == IF TLCGet(1) = Len(TraceLog) + 1 THEN TRUE
            ELSE PrintT(<<"REJECTED_AT", TLCGet(1)>>) /\ FALSE
Report == (l = Len(TraceLog) + 1) => PrintT(<<"ACCEPTED", nexec>>)
\* the property, on every validated prefix
TraceInv == SameIdentitySameObject /\ DifferentIdentityDifferentObject /\ RegistryOnePerIdentity
=============================================================================
