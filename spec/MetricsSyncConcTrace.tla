------------------------ MODULE MetricsSyncConcTrace ------------------------
(***************************************************************************)
(* Property-level monitor for the CONCURRENT clause of C06: recorder       *)
(* threads racing collector threads on one metric stream.  It accepts the  *)
(* event logs (in the deterministic scheduler's total order) in which      *)
(* every reader sees every measurement exactly once:                       *)
(*   AddCall(m, attrs, v) / AddRet(m)     measurement m (unique id)        *)
(*   ColCall(c, r) / ColRet(c, r, pts)    collection c by reader r and the *)
(*                                        points it was handed             *)
(*   DownCall(r) / DownRet(r)             MetricReader::Shutdown on reader *)
(*                                        r alone, racing everything else  *)
(* From DownCall(r) on nothing is said about what r is handed; every other *)
(* reader still has to see every measurement exactly once - also those     *)
(* that r's collections took out of the live table before r left.          *)
(* For a collection c of reader r, the measurements it may account are    *)
(* those not yet accounted to r whose Add was CALLED before ColRet(c); TLC  *)
(* picks the subset (the linearisation point of a racing Add is not        *)
(* observable, and the statement does not say in WHICH of two abutting     *)
(* intervals a racing measurement falls).  A delta reader is handed        *)
(* exactly the newly accounted measurements, a cumulative reader           *)
(* everything accounted so far.  A measurement once accounted to r is      *)
(* never handed to r's delta stream again (no double counting); a `final`  *)
(* collection (all recorder threads joined) must account everything (no    *)
(* lost update) -- so every reader has seen every measurement exactly once.*)
(* Intervals are not examined here (system_clock is not under the          *)
(* scheduler's control); MetricsSyncTrace.tla does that sequentially.      *)
(***************************************************************************)
EXTENDS AttrSetKey, IOUtils

TraceLog == ndJsonDeserialize(IOEnv.TRACE)

VARIABLES l, temps, meas, incl, before, down, nexec

vars == <<l, temps, meas, incl, before, down, nexec>>

Ev == TraceLog[l]
Is(e) == l <= Len(TraceLog) /\ Ev.e = e /\ l' = l + 1
Empty == [x \in {} |-> 0]

Init == /\ TLCSet(1, 0)
        /\ l = 1 /\ nexec = 0 /\ temps = <<>> /\ meas = Empty /\ incl = <<>> /\ before = Empty /\ down = {}

TCfg == /\ Is("Cfg")
        /\ temps' = Ev.temps
        /\ meas' = Empty /\ before' = Empty /\ down' = {}
        /\ incl' = [r \in 1..Len(Ev.temps) |-> {}]
        /\ nexec' = nexec + 1

TAddCall == /\ Is("AddCall")
            /\ Ev.m \notin DOMAIN meas
            /\ meas' = meas @@ (Ev.m :> [a |-> Canon(Ev.attrs, {0}), v |-> Ev.v, ret |-> FALSE])
            /\ UNCHANGED <<temps, incl, before, down, nexec>>

TAddRet == /\ Is("AddRet")
           /\ Ev.m \in DOMAIN meas /\ ~meas[Ev.m].ret
           /\ meas' = [meas EXCEPT ![Ev.m].ret = TRUE]
           /\ UNCHANGED <<temps, incl, before, down, nexec>>

TColCall == /\ Is("ColCall")
            /\ Ev.c \notin DOMAIN before
            /\ Ev.final => \A m \in DOMAIN meas : meas[m].ret       \* harness discipline
            /\ before' = before @@ (Ev.c :> Ev.final)
            /\ UNCHANGED <<temps, meas, incl, down, nexec>>

ASet(a) == {<<a[i][1], a[i][2]>> : i \in 1..Len(a)}
RECURSIVE SumOf(_, _)
SumOf(M, a) == IF M = {} THEN 0
               ELSE LET m == CHOOSE x \in M : TRUE IN
                    (IF meas[m].a = a THEN meas[m].v ELSE 0) + SumOf(M \ {m}, a)
\* the points are exactly the per-attribute-set sums of the measurements M (zero series optional)
Matches(P, M) ==
  /\ \A i, j \in 1..Len(P) : i # j => ASet(P[i].a) # ASet(P[j].a)
  /\ \A i \in 1..Len(P) : ~P[i].o /\ P[i].v = SumOf(M, ASet(P[i].a))
  /\ \A m \in M : SumOf(M, meas[m].a) # 0 => \E i \in 1..Len(P) : ASet(P[i].a) = meas[m].a

TColRet == /\ Is("ColRet")
           /\ Ev.c \in DOMAIN before
           /\ LET r == Ev.r
                  opt == DOMAIN meas \ incl[r]
              IN IF r \in down THEN UNCHANGED incl       \* a reader that was shut down: not examined
                 ELSE \E S \in (IF before[Ev.c] THEN {opt} ELSE SUBSET opt) :
                    /\ Matches(Ev.pts, IF temps[r] = "delta" THEN S ELSE incl[r] \cup S)
                    /\ incl' = [incl EXCEPT ![r] = @ \cup S]
           /\ UNCHANGED <<temps, meas, before, down, nexec>>

TDownCall == /\ Is("DownCall")
             /\ Ev.r \in 1..Len(temps) /\ Ev.r \notin down
             /\ down' = down \cup {Ev.r}
             /\ UNCHANGED <<temps, meas, incl, before, nexec>>
TDownRet == /\ Is("DownRet")
            /\ Ev.r \in down
            /\ UNCHANGED <<temps, meas, incl, before, down, nexec>>

\* all threads joined and every reader collected once more: everything was seen by everybody (who stayed)
TEnd == /\ Is("End")
        /\ \A m \in DOMAIN meas : meas[m].ret
        /\ \A r \in (1..Len(temps)) \ down : incl[r] = DOMAIN meas
        /\ UNCHANGED <<temps, meas, incl, before, down, nexec>>

Next == TCfg \/ TAddCall \/ TAddRet \/ TColCall \/ TColRet \/ TDownCall \/ TDownRet \/ TEnd

Spec == Init /\ [][Next]_vars

Progress == TLCSet(1, IF l > TLCGet(1) THEN l ELSE TLCGet(1))
Accepted == IF TLCGet(1) = Len(TraceLog) + 1 THEN TRUE
            ELSE PrintT(<<"REJECTED_AT", TLCGet(1)>>) /\ FALSE
Report == (l = Len(TraceLog) + 1) => PrintT(<<"ACCEPTED", nexec>>)
=============================================================================
