\* trace validation: the constants only have to be at least as large as anything the recorder does
CONSTANTS NT = 8  NK = 16  NV = 63  NS = 63  MaxCtx = 1000000  MaxSet = 1000000  MaxDepth = 1000000  MaxMap = 16  MaxDrop = 1000000  MaxTok = 1000000  SampleToks = 0  WithEmpty = TRUE
          GenDepth = 0  DeepTarget = 15  Hist = FALSE  KeepFlags = TRUE  Dev = {}
INIT TInit
NEXT TNext
CONSTRAINT Progress
INVARIANT Report
POSTCONDITION Accepted
CHECK_DEADLOCK FALSE
