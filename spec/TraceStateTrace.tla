-------------------------- MODULE TraceStateTrace --------------------------
(***************************************************************************)
(* C14, code -> spec: accepts a log of calls made on real TraceState       *)
(* objects (harness/c14_tracestate.cc record) iff it is a behaviour of     *)
(* TraceState.tla.  One ndjson line per call, in the spec's vocabulary:    *)
(*   Cfg                         new execution (object table reset)        *)
(*   From(hdr, res)              FromHeader of the token sequence hdr      *)
(*   Set(o, k, v, res)           objs[o].Set(k, v) returned the list res   *)
(*   Del(o, k, res)              objs[o].Delete(k)                         *)
(*   Get(o, k, found, val)       objs[o].Get(k)                            *)
(*   Rt(o, res)                  FromHeader(objs[o].ToHeader())            *)
(*   Obs(o, list, canon)         re-observation of an OLD object: its      *)
(*                               entries, and whether ToHeader()/Empty()   *)
(*                               are the serialisation of those entries    *)
(*   End                                                                   *)
(* Every result-producing call adds an object (1-based index in order).    *)
(* Dev (from the cfg) = the deviations currently listed as known; devAt    *)
(* records which were needed and in which execution.                       *)
(***************************************************************************)
EXTENDS TraceState, IOUtils

TraceLog == ndJsonDeserialize(IOEnv.TRACE)

VARIABLES l, nexec, devAt

tvars == <<vars, l, nexec, devAt>>

Ev == TraceLog[l]
Is(e) == l <= Len(TraceLog) /\ Ev.e = e /\ l' = l + 1
Ghosts == UNCHANGED <<latest, last, flags, devUsed, nops, hist>>
Mark(d) == IF d \in DOMAIN devAt THEN devAt ELSE devAt @@ (d :> nexec)

TInit == /\ TLCSet(1, 0)
         /\ l = 1 /\ nexec = 0 /\ devAt = <<>>
         /\ objs = <<>> /\ latest = <<>> /\ last = [op |-> "none"] /\ flags = {} /\ devUsed = {}
         /\ nops = 0 /\ hist = <<>>

TCfg == /\ Is("Cfg") /\ objs' = <<>> /\ nexec' = nexec + 1 /\ UNCHANGED devAt /\ Ghosts

TFrom == /\ Is("From")
         /\ \/ Ev.res = FromHeader(Ev.hdr)
            \/ Loose(Ev.hdr) /\ Ev.res = <<>>
         /\ objs' = Append(objs, Ev.res) /\ UNCHANGED <<nexec, devAt>> /\ Ghosts

TSet == /\ Is("Set") /\ Ev.o \in DOMAIN objs
        /\ LET L == objs[Ev.o]
               ideal == SetIdeal(L, Ev.k, Ev.v)
               alt == SetAlt(L, Ev.k, Ev.v)
           IN \/ Ev.res = ideal /\ UNCHANGED devAt
              \/ /\ Ev.res # ideal /\ alt # <<>> /\ alt[1].dev \in Dev /\ Ev.res = alt[1].res
                 /\ devAt' = Mark(alt[1].dev)
        /\ objs' = Append(objs, Ev.res) /\ UNCHANGED nexec /\ Ghosts

TDel == /\ Is("Del") /\ Ev.o \in DOMAIN objs
        /\ Ev.res = DeleteIdeal(objs[Ev.o], Ev.k)
        /\ objs' = Append(objs, Ev.res) /\ UNCHANGED <<nexec, devAt>> /\ Ghosts

TGet == /\ Is("Get") /\ Ev.o \in DOMAIN objs
        /\ GetRes(objs[Ev.o], Ev.k) = <<Ev.found, IF Ev.found THEN Ev.val ELSE NoK>>
        /\ UNCHANGED <<objs, nexec, devAt>> /\ Ghosts

TRt == /\ Is("Rt") /\ Ev.o \in DOMAIN objs
       /\ Ev.res = FromHeader(ToHeader(objs[Ev.o]))
       /\ objs' = Append(objs, Ev.res) /\ UNCHANGED <<nexec, devAt>> /\ Ghosts

\* immutability: an object observed later still shows exactly the list it was created with
TObs == /\ Is("Obs") /\ Ev.o \in DOMAIN objs
        /\ Ev.list = objs[Ev.o] /\ Ev.canon
        /\ UNCHANGED <<objs, nexec, devAt>> /\ Ghosts

TEnd == /\ Is("End") /\ Ev.objects = Len(objs)
        /\ \A o \in DOMAIN objs : Len(objs[o]) <= Max
        /\ UNCHANGED <<objs, nexec, devAt>> /\ Ghosts

TNext == TCfg \/ TFrom \/ TSet \/ TDel \/ TGet \/ TRt \/ TObs \/ TEnd

Progress == TLCSet(1, IF l > TLCGet(1) THEN l ELSE TLCGet(1))
Accepted == IF TLCGet(1) = Len(TraceLog) + 1 THEN TRUE
            ELSE PrintT(<<"REJECTED_AT", TLCGet(1)>>) /\ FALSE
Report == (l = Len(TraceLog) + 1) => /\ PrintT(<<"ACCEPTED", nexec>>)
                                     /\ PrintT(<<"DEVUSED", ToJson(devAt)>>)
=============================================================================
