INIT Init
NEXT Next
CONSTRAINT Progress
INVARIANT Report
POSTCONDITION Accepted
CHECK_DEADLOCK FALSE
