\* C13 exhaustive: two records (<= 1 argument each) from two threads with their own active spans, every interleaving
\* with ForceFlush, two multi-processor pipelines
CONSTANTS NT = 2  NS = 1  PipeNames = {"sb", "bhs"}  NRes = 1
          MaxRecs = 2  MaxSets = 0  MaxArgs = 1  MaxFlush = 1  MaxNull = 0  MaxAdd = 0  LgSet = {1}  MaxScope = 1  MaxNest = 1
          NSev = 0  NBody = 1  NTs = 0  NId = 1  NFl = 0  NAK = 0  NAV = 0  MaxMap = 0  NEv = 0  NName = 0
          GenDepth = 0  Hist = FALSE  Dev = {}
INIT Init
NEXT Next
VIEW View
INVARIANTS TypeOK ExportedEqualsEmitted ExactlyOncePerProcessor CorrelationRule DisabledEmitsNothing
PROPERTIES NullIgnored FlushExportsAll OnlyEmitExports
