\* C18, quick-tier configuration 'machine-ideal' (tools/props/C18.py generates this and the other configurations at run time)
CONSTANTS
 Dev = {}
 Hist = FALSE
 Mode = "machine"
 Keys = {"service.name"}
 Vals = {"s1"}
 EKeys = {"service.name"}
 SVals = {"s2"}
 Urls = {"u1"}
 TokKinds = {"kv", "padkv"}
 MaxTok = 1
 SvcKinds = {"unset", "empty", "set"}
 MaxPool = 4
 MaxProv = 1
 MaxSteps = 3
 DefUrls = {"", "ud"}
 DefExtras = {{}}
 EnvUrls = {"", "ue"}
 RdKinds = {"uint", "dur"}
 RdPres = {"none"}
 RdBodies = {"d1", "d9"}
 RdSufs = {"none"}
 RdTb = {FALSE}
 RdErr = {"erange"}
INIT Init
NEXT Next
VIEW View
INVARIANTS MMergePrecedence MCreate MServiceName MEmitSeesProviderResource MRead MDead MGivens
PROPERTY MergeLeavesOperandsUnchanged
