\* exhaustive: every interleaving of <= 3 Gets and <= 2 Emits over 3 scopes, rule lists of <= 2,
\* all three signals.  Dev = {} : the ideal provider satisfies SameArgsSameObject.
CONSTANTS
  SignalSet <- SignalsAll  MatcherSet <- Matchers3  ScopeSet <- Scopes3
  MaxRules = 2  MaxGets = 3  MaxEmits = 2  Dev <- NoDev  Hist = FALSE
INIT Init
NEXT Next
VIEW View
INVARIANTS FirstMatchWins DisabledEmitsNothingOthersUnaffected DifferentlyNamedUnaffected SameArgsSameObject DifferentArgsDifferentObject DevNarrow
