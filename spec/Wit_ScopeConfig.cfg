\* witness-directed behaviours (run with -workers 1): a shortest behaviour per rare situation, then stop
CONSTANTS
  SignalSet <- SignalsAll  MatcherSet <- Matchers3  ScopeSet <- Scopes3
  MaxRules = 1  MaxGets = 3  MaxEmits = 2  Dev <- NoDev  Hist = TRUE
INIT WInit
NEXT Next
VIEW View
INVARIANTS WitAll
