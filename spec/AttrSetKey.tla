----------------------------- MODULE AttrSetKey -----------------------------
(***************************************************************************)
(* C08, first clause: the identity of a metric series.                     *)
(*                                                                         *)
(* A caller hands Add()/Record() a *sequence* of (key, value) pairs (any   *)
(* order, duplicates possible).  The view's attribute filter is a set of   *)
(* allowed keys (0 \in F means "no filter": every key is allowed).         *)
(* Canon(seq, F) is the key-to-value map the measurement is filed under:   *)
(* last occurrence of every allowed key wins.  It is represented as a set  *)
(* of <<key, value>> pairs with pairwise different keys.  Two measurements *)
(* contribute to the same series exactly when their Canon is equal.        *)
(*                                                                         *)
(* Keys and values are small positive integers (abstract classes; the      *)
(* concretisation table lives in harness/c06_common.h).                    *)
(*                                                                         *)
(* The module is EXTENDed by MetricsSync.tla (reference model) and         *)
(* MetricsSyncTrace.tla (monitor), so that there is exactly one definition *)
(* of series identity.  AttrSetKeyMC.tla enumerates every pair of          *)
(* attribute sequences and every filter and checks the algebraic facts     *)
(* the statement lists.                                                    *)
(***************************************************************************)
EXTENDS Integers, Sequences, FiniteSets, TLC, Json

Allowed(k, F) == 0 \in F \/ k \in F

\* positions of seq that survive: allowed key, no later occurrence of the same key
Survivors(seq, F) == {i \in 1..Len(seq) : /\ Allowed(seq[i][1], F)
                                          /\ \A j \in (i + 1)..Len(seq) : seq[j][1] # seq[i][1]}

Canon(seq, F) == {<<seq[i][1], seq[i][2]>> : i \in Survivors(seq, F)}

SameSeries(a, b, F) == Canon(a, F) = Canon(b, F)

\* the overflow series (otel.metrics.overflow = true) is not a caller attribute set
OVF == {<<0, 0>>}

(* ---- independent formulation: a partial function key -> last value ---- *)
KeysOf(seq, F) == {seq[i][1] : i \in {j \in 1..Len(seq) : Allowed(seq[j][1], F)}}
LastIdx(seq, k) == CHOOSE i \in 1..Len(seq) : seq[i][1] = k /\ \A j \in 1..Len(seq) : seq[j][1] = k => j <= i
AsFn(seq, F) == [k \in KeysOf(seq, F) |-> seq[LastIdx(seq, k)][2]]
=============================================================================
