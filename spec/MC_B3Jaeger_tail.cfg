\* C16, the tail family (short / truncated / separator-free header values), quick-tier constants
CONSTANTS
  Dev = {}
  TidC = {"rand"}
  SidC = {"rand"}
  NFlag = 256
  JRep = {1}
  MaxFaults = 0
  TailBases = {"b3full", "mt", "ms", "mf", "jgfull", "jgurl"}
  TailPos = 2
  TailComp = {"none"}
  ShortKinds = {"b3", "mt", "ms", "mf", "jg"}
  ShortLen = 2
INIT InitTail
NEXT Next
INVARIANTS TypeOK TailTypeOK TailAcceptDocumented TailNoSeparator TailEmptyIsAbsent TailAnchored
