\* template: tools/props/C16.py writes a copy with Dev = the deviations currently listed as known
CONSTANTS
  Dev = {"b3multi-sampled-low-hex-digit"}
  TidC = {"rand"}
  SidC = {"rand"}
  NFlag = 256
  JRep = {1}
  MaxFaults = 0
  TailBases = {}
  TailPos = 0
  TailComp = {}
  ShortKinds = {}
  ShortLen = 0
INIT TInit
NEXT TNext
CONSTRAINT Progress
INVARIANT Report
POSTCONDITION Accepted
CHECK_DEADLOCK FALSE
