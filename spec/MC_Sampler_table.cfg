\* exhaustive decision table: 15 samplers x 144 parent-context classes
CONSTANTS Mode = "table" Dev = {} Hist = FALSE NMid = 1 NIds = 1 Top = 1
INIT Init
NEXT Next
INVARIANTS ParentDecides RootOnlyWithoutParent AlwaysConstant LocalRemoteAgnostic TracerFlagIsDecision
  ChildAgreesWithParent DevIsNarrow
