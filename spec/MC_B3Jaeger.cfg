\* C16, exhaustive: ideal behaviour (Dev = {}) satisfies every clause on the whole partition
CONSTANTS
  Dev = {}
  TidC = {"rand", "hi64zero", "lo64zero", "one", "max"}
  SidC = {"rand", "one", "max"}
  NFlag = 256
  JRep = {0, 1, 2, 3, 255}
  MaxFaults = 3
  TailBases = {}
  TailPos = 0
  TailComp = {}
  ShortKinds = {}
  ShortLen = 0
INIT Init
NEXT Next
CONSTRAINT Budget
INVARIANTS TypeOK RoundTrip AcceptNonZero Pad64 DebugIsSampled MissingNotSampled SinglePrecedence NothingFromNothing ZeroNeverInstalled Agree TailTypeOK
