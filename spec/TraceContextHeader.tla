------------------------- MODULE TraceContextHeader -------------------------
(***************************************************************************)
(* C09 - W3C trace-context propagation (HttpTraceContext::Inject/Extract). *)
(*                                                                         *)
(* An "inputs" property: the contract of the two pure functions is         *)
(* transcribed as operators over an ABSTRACT input partition and TLC       *)
(* enumerates the partition.                                               *)
(*                                                                         *)
(*  inject side   abstract span context  sc = [has, tid, sid, fl, ts,      *)
(*                remote]: id classes x ALL 256 flag bytes x simple trace  *)
(*                states; Inject(sc) = abstract carrier; the traceparent   *)
(*                is also given as a TOKEN sequence (digit indices 0..15,  *)
(*                Dash, placeholders for the ids) that the harness turns   *)
(*                into bytes with its digit table and compares byte-exact. *)
(*  extract side  abstract carrier car = [tp, ts]; tp is a record of field *)
(*                classes (whitespace, version, ids, flags, tail,          *)
(*                structure, hex-digit case).  The partition is explored   *)
(*                as a MUTATION GRAPH: the initial carriers are the        *)
(*                well-formed version-00 headers (all 256 flag bytes), an  *)
(*                action mutates one still-default dimension, a CONSTRAINT *)
(*                bounds the number of mutated dimensions.                 *)
(*                Outcome(car) in {accept, either, reject}:                *)
(*                  accept  a valid remote context with exactly the        *)
(*                          encoded ids, flags byte and trace state        *)
(*                  reject  the caller's context unchanged                 *)
(*                  either  the statement's don't-care band ("of that      *)
(*                          shape up to hex-digit case and surrounding     *)
(*                          whitespace"): unchanged, or exactly the encoded*)
(*                          context - nothing else                         *)
(*                                                                         *)
(* A second, independent formulation of the grammar works on TOKEN         *)
(* sequences (one token per byte: hex digit value + case, Dash, optional   *)
(* whitespace, other whitespace, any other byte): Parse(toks).  TLC checks *)
(* that both formulations agree on a representative rendering of every     *)
(* member of the partition (invariant Agree); TraceContextHeaderTrace.tla  *)
(* uses Parse to validate recorded real executions byte for byte.          *)
(*                                                                         *)
(* TAIL FAMILY (round 4): short / truncated / over-long header VALUES given *)
(* as token sequences over a vocabulary in which every byte value has       *)
(* exactly one token (TailTok): every PREFIX (length 0..full+2) of a        *)
(* well-formed traceparent (version 00, a higher version without and with   *)
(* trailing fields) with one of its last TailPos positions replaced by      *)
(* every token, every token string of length <= ShortLen, and the same for  *)
(* tracestate values next to a well-formed traceparent.  TailOutcome = the  *)
(* token-level grammar (Parse) of exactly that value; for tracestate a      *)
(* list of simple members must come back entry for entry, anything else is  *)
(* left open - but never touches the decision about the traceparent.        *)
(* Own initial predicate InitTail, own TLC config.                          *)
(*                                                                         *)
(* Dev: named deviations of the unchanged tree.  Dev = {} is the ideal.    *)
(*   "traceflags-upper-hex-inject": flag bytes with a nibble >= 10 are     *)
(*    written with upper-case digits ("-AB" instead of "-ab").             *)
(***************************************************************************)
EXTENDS Naturals, Sequences, FiniteSets, TLC, Json

CONSTANTS Dev,          \* set of deviation names in force
          TidC, SidC,   \* inject side: trace-id / span-id classes
          TsC,          \* inject side: trace-state classes
          NFlag,        \* flag bytes 0..NFlag-1 (256)
          RepFlags,     \* flag bytes that may be combined with up to MaxFaults mutations
          MaxFaults,    \* bound on mutated dimensions of a carrier
          SweepFaults,  \* bound on mutated dimensions for the other flag bytes
          TailBases,    \* tail family: well-formed forms whose prefixes are explored (subset of AllTailBases)
          TailPos,      \* how many of the last positions of a prefix are replaced by every token (0..3)
          ShortKinds,   \* header kinds ("tp", "ts") for which every short token string is explored
          ShortLen      \* ... up to this length

AllDevs == {"traceflags-upper-hex-inject"}
DevF8   == "traceflags-upper-hex-inject"
FlagBytes == 0..(NFlag - 1)

VARIABLES phase,    \* "ctx" -> "injected" -> "done"   |   "carrier" -> "xdone"
          sc,       \* abstract span context (inject side)
          car,      \* abstract carrier
          res,      \* outcome of Extract
          devUsed,  \* ghost: deviations taken on the way
          tl        \* the tail family: "tail" -> "tdone" (NoTail elsewhere)
vars == <<phase, sc, car, res, devUsed, tl>>

(* ---------------- abstract span contexts (inject side) ------------------ *)
NoSC == [has |-> FALSE, tid |-> "zero", sid |-> "zero", fl |-> 0, ts |-> "none", remote |-> FALSE]
SCs  == {c \in [has : {TRUE}, tid : TidC, sid : SidC, fl : FlagBytes, ts : TsC, remote : BOOLEAN] :
            \* the 32-member trace state (slow to build) only with the representative flag bytes
            c.ts = "full32" => c.fl \in RepFlags} \cup {NoSC}
Valid(c) == c.has /\ c.tid # "zero" /\ c.sid # "zero"

(* ---------------- abstract carriers ------------------------------------- *)
\* the default of every dimension is the W3C level-1 form
DefTP == [p |-> "present", lead |-> "none", trail |-> "none", ver |-> "00", tid |-> "ok", sid |-> "ok",
          fl |-> "hex2", fb |-> 1, tail |-> "none", st |-> "ok", cs |-> "lower"]
Dims == {"p", "lead", "trail", "ver", "tid", "sid", "fl", "tail", "st", "cs"}
Alt(d) == CASE d = "p"     -> {"absent"}
            [] d = "lead"  -> {"ows", "otherws", "junk"}
            [] d = "trail" -> {"ows", "otherws"}
            [] d = "ver"   -> {"hi", "ff", "v1", "v3", "vx", "v0"}
            [] d = "tid"   -> {"zero", "short", "long", "nonhex", "empty"}
            [] d = "sid"   -> {"zero", "short", "long", "nonhex", "empty"}
            [] d = "fl"    -> {"f1", "f3", "fx", "f0"}
            [] d = "tail"  -> {"dash", "dashext", "dashweird", "nodash", "junk"}
            [] d = "st"    -> {"trunc3", "trunc2", "trunc1", "blank", "sepbad", "sepdup", "cut"}
            [] d = "cs"    -> {"upper", "mixed", "flupper"}
CarTs == {"none", "one", "three"}
\* printed once per run: the partition's vocabulary (the check verifies that every value was replayed)
ASSUME PrintT(<<"DIMS", ToJson([d \in Dims |-> Alt(d) \cup {DefTP[d]}])>>)
EmptyCar == [tp |-> [DefTP EXCEPT !.p = "absent"], ts |-> "none"]

HasLetter(b) == (b \div 16) >= 10 \/ (b % 16) >= 10
\* "flupper" (only the two flag digits upper-case) is the same bytes as "lower" without a letter
Case(tp) == IF tp.cs = "flupper" /\ ~HasLetter(tp.fb) THEN "lower" ELSE tp.cs

Faults(c) == Cardinality({d \in Dims : c.tp[d] # DefTP[d]}) + (IF c.ts # "none" THEN 1 ELSE 0)

(* ---------------- the contract, class level ------------------------------ *)
WS == {"none", "ows", "otherws"}
\* the fields are those of a W3C traceparent: 2 hex - 32 hex (non-zero) - 16 hex (non-zero) - 2 hex,
\* version other than ff, nothing behind the flags for version 00, for a higher version only "-..."
Fields(tp) == /\ tp.p = "present" /\ tp.st = "ok"
              /\ tp.ver \in {"00", "hi"} /\ tp.tid = "ok" /\ tp.sid = "ok" /\ tp.fl = "hex2"
\* well-formed per the W3C grammar: MUST be accepted
WellFormed(tp) == /\ Fields(tp)
                  /\ tp.lead = "none" /\ tp.trail = "none" /\ Case(tp) = "lower"
                  /\ tp.ver = "00" => tp.tail = "none"
                  /\ tp.ver = "hi" => tp.tail \in {"none", "dash", "dashext"}
\* "of that shape up to hex-digit case and surrounding whitespace": MAY be accepted
ShapeOK(tp) == /\ Fields(tp)
               /\ tp.lead \in WS /\ tp.trail \in WS
               /\ tp.ver = "00" => tp.tail = "none"
               /\ tp.ver = "hi" => tp.tail \in {"none", "dash", "dashext", "dashweird"}

Rej == [o |-> "reject", flags |-> 0, ts |-> "none"]
Outcome(c) == IF WellFormed(c.tp) THEN [o |-> "accept", flags |-> c.tp.fb, ts |-> c.ts]
              ELSE IF ShapeOK(c.tp) THEN [o |-> "either", flags |-> c.tp.fb, ts |-> c.ts]
              ELSE Rej

(* ---------------- inject -------------------------------------------------- *)
InjectTP(c, D) == [DefTP EXCEPT !.fb = c.fl,
                                !.cs = IF DevF8 \in D /\ HasLetter(c.fl) THEN "flupper" ELSE "lower"]
InjectCar(c, D) == IF Valid(c) THEN [tp |-> InjectTP(c, D), ts |-> c.ts] ELSE EmptyCar

\* tokens: 0..15 hex digit (letters lower-case), 26..31 upper-case letter A..F (value + 16),
\* 40 Dash, 41 space/tab, 42 other white space, 43 any other byte, 50/51 placeholders for the
\* 32/16 lower-case digits of the trace id / span id of the injected context
Dash == 40
Ows == 41
Ws2 == 42
Oth == 43
PhTid == 50
PhSid == 51
Dig(n, up) == IF up /\ n >= 10 THEN n + 16 ELSE n
InjTokens(c, D) == LET tp == InjectTP(c, D)
                       up == tp.cs = "flupper" IN
  <<0, 0, Dash, PhTid, Dash, PhSid, Dash, Dig(tp.fb \div 16, up), Dig(tp.fb % 16, up)>>
\* what Inject must leave in the carrier: tp = <<>> means "traceparent not written"
InjExp(c, D) == IF Valid(c) THEN [tp |-> InjTokens(c, D), ts |-> c.ts] ELSE [tp |-> <<>>, ts |-> "none"]

(* ---------------- the state machine --------------------------------------- *)
NoTail == [h |-> "none", b |-> "none", cut |-> 0, pos |-> 0, tok |-> 0, v |-> <<>>]
Init == /\ res = Rej /\ devUsed = {} /\ tl = NoTail
        /\ \/ phase = "ctx" /\ sc \in SCs /\ car = EmptyCar
           \/ phase = "carrier" /\ sc = NoSC /\ \E f \in FlagBytes : car = [tp |-> [DefTP EXCEPT !.fb = f], ts |-> "none"]

Inject == /\ phase = "ctx" /\ phase' = "injected"
          /\ UNCHANGED <<sc, res, tl>>
          /\ \/ car' = InjectCar(sc, {}) /\ devUsed' = devUsed
             \/ /\ DevF8 \in Dev /\ Valid(sc) /\ HasLetter(sc.fl)
                /\ car' = InjectCar(sc, {DevF8}) /\ devUsed' = devUsed \cup {DevF8}

ExtractRT == /\ phase = "injected" /\ phase' = "done"
             /\ res' = Outcome(car)
             /\ UNCHANGED <<sc, car, devUsed, tl>>

\* the bound on mutated dimensions (the same bound is stated once more as CONSTRAINT Budget)
Room == /\ Faults(car) < MaxFaults
        /\ car.tp.fb \notin RepFlags => Faults(car) < SweepFaults
Mut(d) == /\ phase = "carrier" /\ Room
          /\ car.tp[d] = DefTP[d]
          /\ \E v \in Alt(d) : car' = [car EXCEPT !.tp[d] = v]
          /\ UNCHANGED <<phase, sc, res, devUsed, tl>>
MutP     == Mut("p")
MutLead  == Mut("lead")
MutTrail == Mut("trail")
MutVer   == Mut("ver")
MutTid   == Mut("tid")
MutSid   == Mut("sid")
MutFl    == Mut("fl")
MutTail  == Mut("tail")
MutSt    == Mut("st")
MutCs    == Mut("cs")
MutTs    == /\ phase = "carrier" /\ Room /\ car.ts = "none"
            /\ \E v \in CarTs \ {"none"} : car' = [car EXCEPT !.ts = v]
            /\ UNCHANGED <<phase, sc, res, devUsed, tl>>

Extract == /\ phase = "carrier" /\ phase' = "xdone"
           /\ res' = Outcome(car)
           /\ UNCHANGED <<sc, car, devUsed, tl>>

\* (Next and Spec: below, behind the tail family, which needs the token-level grammar)

\* CONSTRAINT: bound on the number of mutated dimensions
InBudget == phase = "carrier" =>
            /\ Faults(car) <= MaxFaults
            /\ car.tp.fb \notin RepFlags => Faults(car) <= SweepFaults
Budget == InBudget      \* (the CONSTRAINT; TLC -coverage cannot evaluate a constraint operator inside an invariant)

(* ---------------- the property (C09), checked in every state -------------- *)
Ideal == devUsed = {}
Done  == phase \in {"done", "xdone"}
\* a valid context is written as exactly the W3C level-1 form, 55 characters, lower-case, plus
\* the trace state iff non-empty
CoreLen(tp) == 2 + 1 + 32 + 1 + 16 + 1 + 2
InjectLevel1 == (phase = "injected" /\ Valid(sc)) =>
                   \/ /\ WellFormed(car.tp) /\ car.tp.ver = "00" /\ car.tp.tail = "none"
                      /\ Case(car.tp) = "lower" /\ CoreLen(car.tp) = 55
                      /\ car.tp.fb = sc.fl /\ car.ts = sc.ts
                   \/ ~Ideal
InjTokensLevel1 == \A c \in {sc} : Valid(c) =>
                     LET t == InjTokens(c, {}) IN
                       /\ Len(t) = 9 /\ t[1] = 0 /\ t[2] = 0 /\ t[3] = Dash /\ t[4] = PhTid /\ t[5] = Dash
                       /\ t[6] = PhSid /\ t[7] = Dash /\ t[8] < 16 /\ t[9] < 16 /\ t[8] * 16 + t[9] = c.fl
\* an invalid span context is never injected ...
InvalidNeverInjected == (phase = "injected" /\ ~Valid(sc)) => car = EmptyCar
\* ... and the round trip is the identity on ids, flags byte and trace state
RoundTrip == (phase = "done" /\ Valid(sc)) =>
                \/ res = [o |-> "accept", flags |-> sc.fl, ts |-> sc.ts]
                \/ ~Ideal
\* ... and never installed; only headers of the W3C shape are accepted at all
InvalidNeverInstalled == (Done /\ res.o # "reject") =>
                            car.tp.p = "present" /\ car.tp.tid = "ok" /\ car.tp.sid = "ok" /\ car.tp.ver # "ff"
OnlyShape == (Done /\ res.o # "reject") => ShapeOK(car.tp)
WellFormedAccepted == (Done /\ WellFormed(car.tp)) => res.o = "accept" /\ res.flags = car.tp.fb /\ res.ts = car.ts
Version00Exact == (Done /\ res.o # "reject" /\ car.tp.ver = "00") => car.tp.tail = "none"
TypeOK == /\ phase \in {"ctx", "injected", "done", "carrier", "xdone", "tail", "tdone"}
          /\ res.o \in {"accept", "either", "reject"} /\ res.flags \in FlagBytes
          /\ devUsed \subseteq Dev

(* ---------------- the grammar again, on token sequences -------------------- *)
IsHex(t)   == t \in 0..15 \/ t \in 26..31
IsLower(t) == t \in 0..15
Val(t)     == IF t >= 26 THEN t - 16 ELSE t
IsWs(t)    == t \in {Ows, Ws2}
RECURSIVE TrimL(_)
TrimL(s) == IF s # <<>> /\ IsWs(s[1]) THEN TrimL(Tail(s)) ELSE s
RECURSIVE TrimR(_)
TrimR(s) == IF s # <<>> /\ IsWs(s[Len(s)]) THEN TrimR(SubSeq(s, 1, Len(s) - 1)) ELSE s
AllHex(s)   == \A i \in 1..Len(s) : IsHex(s[i])
AllLower(s) == \A i \in 1..Len(s) : IsLower(s[i])
NonZero(s)  == \E i \in 1..Len(s) : Val(s[i]) # 0
Vals(s)     == [i \in 1..Len(s) |-> Val(s[i])]
\* the W3C parsing rule on the core (white space removed) c:
\*   at least 55 tokens; positions 3, 36, 53 are Dash; the four fields are hex; version # ff;
\*   version 00: exactly 55; higher version: 55, or a Dash at 56
CoreOK(c) == /\ Len(c) >= 55
             /\ c[3] = Dash /\ c[36] = Dash /\ c[53] = Dash
             /\ AllHex(SubSeq(c, 1, 2)) /\ AllHex(SubSeq(c, 4, 35)) /\ AllHex(SubSeq(c, 37, 52)) /\ AllHex(SubSeq(c, 54, 55))
             /\ ~(Val(c[1]) = 15 /\ Val(c[2]) = 15)
             /\ NonZero(SubSeq(c, 4, 35)) /\ NonZero(SubSeq(c, 37, 52))
             /\ IF Val(c[1]) = 0 /\ Val(c[2]) = 0 THEN Len(c) = 55 ELSE (Len(c) = 55 \/ c[56] = Dash)
\* strictly W3C: no surrounding white space, lower-case digits; an extension of lower-case hex and Dash
Strict(s) == /\ CoreOK(s) /\ AllLower(SubSeq(s, 1, 2)) /\ AllLower(SubSeq(s, 4, 35))
             /\ AllLower(SubSeq(s, 37, 52)) /\ AllLower(SubSeq(s, 54, 55))
             /\ \A i \in 56..Len(s) : IsLower(s[i]) \/ s[i] = Dash
Parse(s) == LET c == TrimR(TrimL(s)) IN
  IF ~CoreOK(c) THEN [o |-> "reject", tid |-> <<>>, sid |-> <<>>, flags |-> 0]
  ELSE [o |-> IF Strict(s) THEN "accept" ELSE "either",
        tid |-> Vals(SubSeq(c, 4, 35)), sid |-> Vals(SubSeq(c, 37, 52)), flags |-> Val(c[54]) * 16 + Val(c[55])]

\* a representative rendering of an abstract traceparent as tokens
Rep(n, t) == [i \in 1..n |-> t]
HexField(n, cls, up) ==
  CASE cls = "ok"     -> [i \in 1..n |-> IF i = 2 THEN (IF up THEN 26 ELSE 10) ELSE IF i = n THEN 7 ELSE 0]
    [] cls = "zero"   -> Rep(n, 0)
    [] cls = "short"  -> [i \in 1..(n - 1) |-> 3]
    [] cls = "long"   -> [i \in 1..(n + 1) |-> 3]
    [] cls = "nonhex" -> [i \in 1..n |-> IF i = 5 THEN Oth ELSE 3]
    [] cls = "empty"  -> <<>>
VerField(v, up) == CASE v = "00" -> <<0, 0>>
                     [] v = "hi" -> <<0, IF up THEN 27 ELSE 11>>
                     [] v = "ff" -> IF up THEN <<31, 31>> ELSE <<15, 15>>
                     [] v = "v1" -> <<0>>
                     [] v = "v3" -> <<0, 0, 0>>
                     [] v = "vx" -> <<0, Oth>>
                     [] v = "v0" -> <<>>
FlField(tp, up) == CASE tp.fl = "hex2" -> <<Dig(tp.fb \div 16, up), Dig(tp.fb % 16, up)>>
                     [] tp.fl = "f1" -> <<1>>
                     [] tp.fl = "f3" -> <<0, 0, 1>>
                     [] tp.fl = "fx" -> <<Oth, 1>>
                     [] tp.fl = "f0" -> <<>>
WsToks(w) == CASE w = "none" -> <<>> [] w = "ows" -> <<Ows, Ows>> [] w = "otherws" -> <<Ws2>> [] w = "junk" -> <<Oth>>
TailToks(t) == CASE t = "none" -> <<>> [] t = "dash" -> <<Dash>> [] t = "dashext" -> <<Dash, 1, Dash, 10>>
                 [] t = "dashweird" -> <<Dash, Oth, Ows, 1>> [] t = "nodash" -> <<Oth, 1>> [] t = "junk" -> <<Oth>>
Render(tp) ==
  LET upA == tp.cs \in {"upper", "mixed"}
      upF == tp.cs \in {"upper", "flupper"}
      v == VerField(tp.ver, tp.cs = "upper")
      t == HexField(32, tp.tid, upA)
      s == HexField(16, tp.sid, tp.cs = "upper")
      f == FlField(tp, upF)
      d == <<Dash>>
      core == CASE tp.st = "ok"     -> v \o d \o t \o d \o s \o d \o f \o TailToks(tp.tail)
                [] tp.st = "trunc3" -> v \o d \o t \o d \o s
                [] tp.st = "trunc2" -> v \o d \o t
                [] tp.st = "trunc1" -> v
                [] tp.st = "blank"  -> <<>>
                [] tp.st = "sepbad" -> v \o d \o t \o <<Oth>> \o s \o d \o f \o TailToks(tp.tail)
                [] tp.st = "sepdup" -> v \o d \o d \o t \o d \o s \o d \o f \o TailToks(tp.tail)
                [] tp.st = "cut"    -> LET w == v \o d \o t \o d \o s \o d \o f IN SubSeq(w, 1, IF Len(w) < 40 THEN Len(w) ELSE 40)
  IN WsToks(tp.lead) \o core \o WsToks(tp.trail)
\* both formulations agree on every member of the partition
\* (TLC also evaluates invariants on the successors that CONSTRAINT Budget discards: skip those)
Agree == (phase \in {"carrier", "injected"} /\ car.tp.p = "present" /\ InBudget) =>
            LET r == Parse(Render(car.tp))
                o == Outcome(car) IN
              /\ r.o = o.o
              /\ r.o # "reject" => r.flags = o.flags

(* ---------------- the tail family: short / truncated / over-long header values ---------- *)
\* Every byte value has exactly one token of TailTok; the harness expands a token to ALL byte values of
\* its class: hex digits (0..15 lower-case, 26..31 upper-case letters), '-', '=', ',': one byte each;
\* Ows: SP HT; Ws2: CR LF VT FF; Lo: g..z; Up: G..Z; Oth: the other 185 byte values (NUL, >= 0x80 ...).
\* For the traceparent grammar (Parse) Eq, Comma, Lo, Up are just bytes that are neither hex digit, nor
\* '-', nor white space - like Oth.
Eq    == 44
Comma == 45
Lo    == 46
Up    == 47
TailTok == (0..15) \cup (26..31) \cup {Dash, Ows, Ws2, Oth, Eq, Comma, Lo, Up}
ASSUME PrintT(<<"TAILTOK", ToJson(TailTok)>>)
AllTailBases == {"v00", "hi", "hiext", "ts3", "tsws"}
HdrOf(b) == IF b \in {"ts3", "tsws"} THEN "ts" ELSE "tp"
\* the ids / flags byte of the well-formed forms that are truncated
TFieldT == [i \in 1..32 |-> (i * 7) % 16]
TFieldS == [i \in 1..16 |-> (i * 5 + 3) % 16]
TFlags  == 171
TpForm(ver) == ver \o <<Dash>> \o TFieldT \o <<Dash>> \o TFieldS \o <<Dash, TFlags \div 16, TFlags % 16>>
TBase(b) == CASE b = "v00"   -> TpForm(<<0, 0>>)                                   \* 00-tid-sid-ab
              [] b = "hi"    -> TpForm(<<0, 11>>)                                  \* 0b-tid-sid-ab
              [] b = "hiext" -> TpForm(<<12, 3>>) \o <<Dash, 1, 10, Dash, 2>>      \* c3-tid-sid-ab-1a-2
              [] b = "ts3"   -> <<Lo, 1, Eq, 2, Up, Comma, Lo, 2, Eq, 3, 12, Comma, 10, 3, Eq, 4, Lo>>   \* g1=2G,g2=3c,a3=4g
              [] b = "tsws"  -> <<Lo, 1, Eq, 2, Ows, Comma, Ows, Lo, 2, Eq, 3>>    \* g1=2 , g2=3
\* (constants: TLC renders each form once)
TBaseTab == [b \in AllTailBases |-> TBase(b)]
\* two more bytes than the form has: the full value followed by one / two more bytes is a member too
TExtTab == [b \in AllTailBases |-> TBaseTab[b] \o (IF HdrOf(b) = "ts" THEN <<Comma, Lo>> ELSE <<Dash, 1>>)]
TExt(b) == TExtTab[b]
\* the well-formed traceparent next to which tracestate values are explored
TpFix == TBaseTab["v00"]
SeqsUpTo(S, n) == UNION {[1..k -> S] : k \in 0..n}
\* prefix of length n of form b, position n - p + 1 replaced by token x (p = 0: the plain prefix)
TailMember(b, n, p, x) ==
  LET pre == SubSeq(TExt(b), 1, n) IN
  [h |-> HdrOf(b), b |-> b, cut |-> n, pos |-> p, tok |-> x,
   v |-> IF p = 0 THEN pre ELSE [pre EXCEPT ![n - p + 1] = x]]
ShortMember(k, w) == [h |-> k, b |-> "short", cut |-> Len(w), pos |-> 0, tok |-> 0, v |-> w]

\* --- tracestate: what the statement promises ("... and trace state") is promised for a list of simple
\* members key=value (key: lower-case letter, then lower-case letters / digits; value: letters / digits;
\* no white space, no empty member, token-distinct keys, <= 32 members): exactly these entries, in order.
\* Any other tracestate bytes: the trace state of the result is left open (its grammar belongs to C14) -
\* but the traceparent still decides alone whether a context is extracted.
IsLc(t) == t \in 10..15 \/ t = Lo
IsDg(t) == t \in 0..9
IsUc(t) == t \in 26..31 \/ t = Up
KeyOK(k) == k # <<>> /\ IsLc(k[1]) /\ \A i \in 1..Len(k) : IsLc(k[i]) \/ IsDg(k[i])
ValOK(w) == w # <<>> /\ \A i \in 1..Len(w) : IsLc(w[i]) \/ IsDg(w[i]) \/ IsUc(w[i])
Kth(S, k) == CHOOSE x \in S : Cardinality({y \in S : y < x}) = k - 1
\* the pieces of s between the Commas, as index ranges a..b (b = a - 1: empty piece)
Members(s) == LET B == {0, Len(s) + 1} \cup {i \in 1..Len(s) : s[i] = Comma} IN
  [k \in 1..(Cardinality(B) - 1) |-> [a |-> Kth(B, k) + 1, b |-> Kth(B, k + 1) - 1]]
EqAt(s, m) == {i \in (m.a)..(m.b) : s[i] = Eq}
MemberOK(s, m) == /\ Cardinality(EqAt(s, m)) = 1
                  /\ LET e == CHOOSE i \in EqAt(s, m) : TRUE IN
                       KeyOK(SubSeq(s, m.a, e - 1)) /\ ValOK(SubSeq(s, e + 1, m.b))
KeyOf(s, m) == SubSeq(s, m.a, (CHOOSE i \in EqAt(s, m) : TRUE) - 1)
TsSimple(s) == \/ s = <<>>
               \/ LET ms == Members(s) IN
                    /\ Len(ms) <= 32
                    /\ \A k \in 1..Len(ms) : MemberOK(s, ms[k])
                    /\ \A j, k \in 1..Len(ms) : j # k => KeyOf(s, ms[j]) # KeyOf(s, ms[k])
\* the expected entries as index ranges into the value (key ka..kb, value va..vb)
TsEntries(s) == IF s = <<>> THEN <<>> ELSE
  LET ms == Members(s) IN
  [k \in 1..Len(ms) |-> LET e == CHOOSE i \in EqAt(s, ms[k]) : TRUE IN
                          [ka |-> ms[k].a, kb |-> e - 1, va |-> e + 1, vb |-> ms[k].b]]
TsOutcome(s) == IF TsSimple(s) THEN [k |-> "exact", e |-> TsEntries(s)] ELSE [k |-> "any", e |-> <<>>]
NoTs == [k |-> "exact", e |-> <<>>]       \* no tracestate header: an empty trace state

\* The swept header is PRESENT (an empty value is handed over as an empty value).
TailOutcome(t) ==
  LET r == Parse(IF t.h = "tp" THEN t.v ELSE TpFix) IN
  [o |-> r.o, tid |-> r.tid, sid |-> r.sid, flags |-> r.flags, ts |-> IF t.h = "tp" THEN NoTs ELSE TsOutcome(t.v)]

InitTail == /\ phase = "tail" /\ sc = NoSC /\ car = EmptyCar /\ res = Rej /\ devUsed = {}
            /\ \/ \E b \in TailBases : \E n \in 0..Len(TExt(b)) :
                    \/ tl = TailMember(b, n, 0, 0)
                    \/ \E p \in 1..TailPos : \E x \in TailTok : p <= n /\ tl = TailMember(b, n, p, x)
               \/ \E k \in ShortKinds : \E w \in SeqsUpTo(TailTok, ShortLen) : tl = ShortMember(k, w)
TailExtract == /\ phase = "tail" /\ phase' = "tdone"
               /\ res' = TailOutcome(tl)      \* (the whole outcome: ids and expected trace-state entries too)
               /\ UNCHANGED <<sc, car, devUsed, tl>>

Next == \/ Inject \/ ExtractRT \/ Extract \/ TailExtract
        \/ MutP \/ MutLead \/ MutTrail \/ MutVer \/ MutTid \/ MutSid \/ MutFl \/ MutTail \/ MutSt \/ MutCs \/ MutTs
Spec == (Init \/ InitTail) /\ [][Next]_vars

\* what the statement says about such values, clause by clause
TDone == phase = "tdone"
Core(s) == TrimR(TrimL(s))
\* a context is only ever promised for lower-case hex digits and '-', with non-zero ids and a version other than ff
TailAcceptDocumented ==
  (TDone /\ tl.h = "tp" /\ res.o = "accept") =>
     LET o == res IN
     /\ Len(o.tid) = 32 /\ Len(o.sid) = 16 /\ NonZero(o.tid) /\ NonZero(o.sid)
     /\ \A i \in 1..Len(tl.v) : tl.v[i] \in (0..15) \cup {Dash}
     /\ ~(tl.v[1] = 15 /\ tl.v[2] = 15)
     /\ res.flags = Val(tl.v[54]) * 16 + Val(tl.v[55])
\* "only for headers of that shape": a value with fewer than 55 bytes (white space not counted) never
\* denotes a context, version 00 takes exactly 55, a longer one goes on with '-'
TailTruncatedRejected ==
  (TDone /\ tl.h = "tp" /\ res.o # "reject") =>
     LET c == Core(tl.v) IN
     /\ Len(c) >= 55 /\ c[3] = Dash /\ c[36] = Dash /\ c[53] = Dash
     /\ (c[1] = 0 /\ c[2] = 0) => Len(c) = 55
     /\ Len(c) > 55 => c[56] = Dash
     /\ \A i \in (1..55) \ {3, 36, 53} : IsHex(c[i])
\* an empty traceparent is an absent one; an empty tracestate is an empty trace state
TailEmptyIsAbsent ==
  (TDone /\ tl.v = <<>>) =>
     IF tl.h = "tp" THEN res.o = "reject" ELSE res.o = "accept" /\ res.ts = NoTs
\* the un-truncated well-formed forms are accepted with their ids and flags (anchors the family to the
\* class-level partition: they render WellFormed members); version 00 + one more byte (not white space) is rejected, a higher
\* version followed by '-' accepted
TailAnchored ==
  /\ (TDone /\ tl.h = "tp" /\ tl.b \in AllTailBases /\ tl.pos = 0 /\ tl.cut = Len(TBaseTab[tl.b])) =>
        LET o == res IN
        /\ res.o = "accept" /\ res.flags = TFlags /\ o.tid = TFieldT /\ o.sid = TFieldS /\ o.ts = NoTs
  /\ (TDone /\ tl.b = "v00" /\ Len(Core(tl.v)) > 55) => res.o = "reject"
  /\ (TDone /\ tl.b = "hi" /\ tl.cut = 56 /\ tl.pos = 0) => res.o = "accept"
\* tracestate bytes never change the decision about the traceparent, nor its ids / flags
TailTsNeverBlocks ==
  (TDone /\ tl.h = "ts") =>
     LET o == res IN
     /\ res.o = "accept" /\ res.flags = TFlags /\ o.tid = TFieldT /\ o.sid = TFieldS
     /\ WellFormed([DefTP EXCEPT !.fb = TFlags]) /\ Parse(Render([DefTP EXCEPT !.fb = TFlags])).o = "accept"
\* entries are only demanded for letters / digits / '=' / ','; the complete simple forms demand theirs
TailTsExactOnlySimple ==
  /\ (TDone /\ tl.h = "ts" /\ res.ts.k = "exact") =>
        /\ \A i \in 1..Len(tl.v) : IsLc(tl.v[i]) \/ IsDg(tl.v[i]) \/ IsUc(tl.v[i]) \/ tl.v[i] \in {Eq, Comma}
        /\ tl.v # <<>> => tl.v[Len(tl.v)] \notin {Eq, Comma} /\ tl.v[1] \notin {Eq, Comma}
  /\ (TDone /\ tl.b = "ts3" /\ tl.pos = 0 /\ tl.cut \in {5, 11, 17}) =>
        res.ts.k = "exact" /\ Len(res.ts.e) = (tl.cut + 1) \div 6
  /\ (TDone /\ tl.h = "tp") => res.ts = NoTs
TailTypeOK == /\ TailBases \subseteq AllTailBases /\ TailPos \in 0..3 /\ ShortKinds \subseteq {"tp", "ts"}
              /\ (phase \in {"tail", "tdone"}) = (tl # NoTail)
              /\ tl # NoTail => /\ tl.h \in {"tp", "ts"} /\ Len(tl.v) = tl.cut /\ tl.pos <= tl.cut
                                /\ \A i \in 1..Len(tl.v) : tl.v[i] \in TailTok

(* ---------------- behaviour export ----------------------------------------- *)
\* one line per (abstract input, expected outcome); where a deviation applies both expectations
EmitAll ==
  /\ phase = "done" =>
       PrintT(<<"BEH", ToJson([k |-> "rt", sc |-> sc,
                               inj |-> InjExp(sc, {}), ext |-> Outcome(InjectCar(sc, {})),
                               dev |-> IF InjExp(sc, AllDevs) # InjExp(sc, {}) THEN DevF8 ELSE "",
                               injDev |-> InjExp(sc, AllDevs), extDev |-> Outcome(InjectCar(sc, AllDevs))])>>)
  /\ phase = "xdone" => PrintT(<<"BEH", ToJson([k |-> "x", car |-> car, exp |-> res])>>)
  \* rest: what the full form goes on with behind the cut (the bytes a truncated VIEW is followed by)
  /\ phase = "tdone" =>
       PrintT(<<"BEH", ToJson([k |-> "t",
                               tl |-> [h |-> tl.h, b |-> tl.b, cut |-> tl.cut, pos |-> tl.pos, tok |-> tl.tok],
                               tp |-> IF tl.h = "tp" THEN tl.v ELSE TpFix,
                               ts |-> IF tl.h = "ts" THEN [p |-> TRUE, v |-> tl.v] ELSE [p |-> FALSE, v |-> <<>>],
                               rest |-> IF tl.b \in AllTailBases THEN SubSeq(TExt(tl.b), tl.cut + 1, Len(TBaseTab[tl.b])) ELSE <<>>,
                               exp |-> res])>>)
=============================================================================
