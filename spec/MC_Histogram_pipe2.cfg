\* exhaustive: two readers (delta+cumulative, cumulative+cumulative, delta+delta), two attribute sets,
\* every boundary list within {1,3} over ranks 0..4 (below / equal / between / equal / above),
\* <= 3 recorded values, every split over <= 3 collections, record_min_max on and off
CONSTANTS MaxRank = 4
  BoundSets = {{}, {1}, {3}, {1,3}}
  Tables = {"D_small"}
  MMChoices = {TRUE, FALSE}
  Mode = "pipe" NSlots = 1 NKeys = 2 ReaderCfgs = {11, 12, 22}
  MaxAgg = 3 MaxOps = 3 Balanced = FALSE Dev = {} Hist = FALSE
INIT Init
NEXT Next
VIEW View
CONSTRAINT Bound
INVARIANTS TypeOK BucketsPartition BucketRule EveryValueInOneBucket SumExact MinMaxExact PointIsSummary ReadersAgree
