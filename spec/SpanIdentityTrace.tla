------------------------- MODULE SpanIdentityTrace -------------------------
(***************************************************************************)
(* Trace validation for C05 (code -> spec): a log of a real execution of  *)
(* the SDK tracer (harness/c05_identity.cc record) is accepted iff it is  *)
(* a behaviour of SpanIdentity.  Ids are logged as first-appearance ranks *)
(* (one counter for trace and span ids, 0 = all-zero id); they are passed *)
(* to the spec's actions as the "fresh" parameters and must be unused.    *)
(* Events: Cfg | remote | start | with(sc) | release(t, sc: any live     *)
(* scope, any thread) | end, each with `cur` =                            *)
(* <<trace rank, span rank>> of GetCurrentSpan() on every thread.         *)
(* Ranks count over the WHOLE log (all programs, OS-thread generations    *)
(* behind a model thread, forked children): `hi` = highest rank consumed  *)
(* so far, never reset; a fresh id must outrank it, i.e. be distinct from *)
(* every id that appeared anywhere earlier in the execution.              *)
(***************************************************************************)
EXTENDS SpanIdentity, IOUtils

TraceLog == ndJsonDeserialize(IOEnv.TRACE)

VARIABLES l, nexec, devAll, hi
tvars == <<vars, l, nexec, devAll, hi>>

Ev == TraceLog[l]
Is(e) == l <= Len(TraceLog) /\ Ev.e = e /\ l' = l + 1
UsedIds == {ents[e].trace : e \in 1..Len(ents)} \cup {ents[e].span : e \in 1..Len(ents)}
CurOK == \A t \in Thr :
           LET a == IF stack'[t] = <<>> THEN 0 ELSE stack'[t][Len(stack'[t])].e IN
           /\ Ev.cur[t][1] = (IF a = 0 THEN 0 ELSE ents'[a].trace)
           /\ Ev.cur[t][2] = (IF a = 0 THEN 0 ELSE ents'[a].span)

Max(a, b) == IF a > b THEN a ELSE b
TInit == Init /\ l = 1 /\ nexec = 0 /\ devAll = {} /\ hi = 0 /\ TLCSet(1, 0)

TCfg == /\ Is("Cfg")
        /\ ents' = <<>> /\ stack' = [t \in Thr |-> <<>>] /\ live' = {} /\ rm' = {} /\ nid' = 1 /\ ops' = 0 /\ nrem' = 0
        /\ devUsed' = {} /\ actor' = 0 /\ ls' = <<>> /\ lastop' = <<>> /\ hist' = <<>>
        /\ nexec' = nexec + 1 /\ devAll' = devAll \cup devUsed /\ UNCHANGED hi

TRemote == /\ Is("remote")
           /\ Ev.form \in {"valid", "nospan"} => (Ev.trace # 0 /\ Ev.trace \notin UsedIds)
           /\ Ev.form \in {"valid", "notrace"} => (Ev.span # 0 /\ Ev.span \notin UsedIds /\ Ev.span # Ev.trace)
           /\ MakeRemote(Ev.flags, Ev.ts, Ev.form, Ev.tcls, Ev.trace, Ev.span)
           /\ ents'[Len(ents')].trace = Ev.trace /\ ents'[Len(ents')].span = Ev.span
           /\ Ev.trace # 0 => Ev.trace > hi
           /\ Ev.span # 0 => Ev.span > hi
           /\ hi' = Max(hi, Max(Ev.trace, Ev.span))
           /\ CurOK /\ UNCHANGED <<nexec, devAll>>

TStart == /\ Is("start")
          /\ Ev.s \in AllSamplers
          /\ StartSpan(Ev.t, Ev.s, Ev.m, Ev.tcls, Ev.got.trace, Ev.got.span)
          /\ LET n == ents'[Len(ents')] IN
             /\ n.trace = Ev.got.trace /\ n.span = Ev.got.span /\ n.flags = Ev.got.flags /\ n.ts = Ev.got.ts
             /\ (n.kind = "sdk") = Ev.got.rec
             /\ Ev.got.valid /\ ~Ev.got.remote
             \* fresh: a span id nobody had; without parent also a trace id nobody had
             /\ n.span # 0 /\ n.span \notin UsedIds /\ n.span > hi
             /\ ls'.p = 0 => (n.trace # 0 /\ n.trace \notin UsedIds /\ n.trace # n.span /\ n.trace > hi)
             /\ hi' = Max(hi, Max(n.trace, n.span))
          /\ CurOK /\ UNCHANGED <<nexec, devAll>>

TWith == /\ Is("with") /\ WithActive(Ev.t, Ev.en, Ev.sc) /\ CurOK /\ UNCHANGED <<nexec, devAll, hi>>
TRelease == /\ Is("release") /\ ReleaseScope(Ev.t, Ev.sc) /\ CurOK /\ UNCHANGED <<nexec, devAll, hi>>
TEnd == /\ Is("end")
        /\ EndSpan(Ev.t, Ev.en)
        /\ LET x == ents'[Ev.en] IN
           /\ x.exported = "yes" => Ev.n = 1
           /\ x.exported = "no" => Ev.n = 0
           /\ Ev.n \in {0, 1}
           /\ Ev.n = 1 => (Ev.trace = x.trace /\ Ev.parent = x.parent /\ Ev.flags = x.flags /\ Ev.ts = x.ts)
           /\ Ev.ctx[1] = x.trace /\ Ev.ctx[2] = x.span        \* still exposes the same context
        /\ CurOK /\ UNCHANGED <<nexec, devAll, hi>>

TNext == TCfg \/ TRemote \/ TStart \/ TWith \/ TRelease \/ TEnd
TSpec == TInit /\ [][TNext]_tvars

Progress == TLCSet(1, IF l > TLCGet(1) THEN l ELSE TLCGet(1))
Accepted == IF TLCGet(1) = Len(TraceLog) + 1 THEN TRUE
            ELSE PrintT(<<"REJECTED_AT", TLCGet(1)>>) /\ FALSE
Report == (l = Len(TraceLog) + 1) => (PrintT(<<"ACCEPTED", nexec>>) /\ PrintT(<<"DEVUSED", devAll \cup devUsed>>))
=============================================================================
