------------------------------ MODULE NostdSpan ------------------------------
(***************************************************************************)
(* C20, span machine: the contract of std::span restricted to what         *)
(* nostd::span offers (construction from pointer+count, pointer pair,      *)
(* C array, std::array, a container, another span; copy, assignment;       *)
(* size/empty/data/operator[]/begin/end/extent) as an index-checked slice  *)
(* model.  nostd::span has no subspan/first/last members: sub-views are    *)
(* formed with span(data() + off, count), which is what PtrCount/Range     *)
(* with off > 0 model.                                                     *)
(*                                                                         *)
(* State: one base array `base` (values 0..2) and four span variables,     *)
(* each a window (off, len) into it:                                       *)
(*   d1, d2   span<int>            (dynamic extent)                        *)
(*   k        span<int, N>, N = k.len (static extent)                      *)
(*   c        span<const int>      (conversion target)                     *)
(* st = "unset" (no object), "null" (default constructed: data()=nullptr,  *)
(* size 0), "win" (a window).  A span is a VIEW: a write through one span  *)
(* is seen through every other span over the same elements (Write).        *)
(* Out-of-range operator[] and a static-extent count mismatch are          *)
(* undefined behaviour in std::span; they are not exercised.               *)
(***************************************************************************)
EXTENDS Naturals, Sequences, FiniteSets, TLC, Json

CONSTANTS MaxLen, Hist, Depth, Dev

Val == 0..2
Unset == [st |-> "unset", off |-> 0, len |-> 0]
NullS == [st |-> "null", off |-> 0, len |-> 0]
Win(o, l) == [st |-> "win", off |-> o, len |-> l]
Dyn == {"d1", "d2"}

NWit == 5          \* number of witness conditions (section "behaviour export")
VARIABLES base, sp, hist
vars == <<base, sp, hist>>
L == Len(base)

(* ---- observable projection ----------------------------------------------- *)
\* per span variable: st, size(), empty(), data()-base (off; 99 when data() must be nullptr),
\* the elements read through operator[] and through begin()/end(), extent (99 = dynamic_extent)
DYN == 99
ObsSpan(name, w, bs) ==
  [st    |-> w.st,
   size  |-> w.len,
   empty |-> IF w.len = 0 THEN "T" ELSE "F",
   off   |-> IF w.st = "null" THEN 99 ELSE w.off,
   elems |-> SubSeq(bs, w.off + 1, w.off + w.len),
   ext   |-> IF name = "k" THEN w.len ELSE DYN]
ObsOf(s, bs) == [base |-> bs, d1 |-> ObsSpan("d1", s.d1, bs), d2 |-> ObsSpan("d2", s.d2, bs),
                 k |-> ObsSpan("k", s.k, bs), c |-> ObsSpan("c", s.c, bs)]

Go == ~Hist \/ Len(hist) < Depth + 1
Step(op, x, y, how, i, v, s2, b2) ==
  /\ Go
  /\ sp' = s2 /\ base' = b2
  /\ hist' = IF ~Hist THEN hist
             ELSE Append(hist, [op |-> op, x |-> x, y |-> y, how |-> how, i |-> i, v |-> v, exp |-> ObsOf(s2, b2)])
Set(x, w) == [sp EXCEPT ![x] = w]

Init == /\ base \in UNION {[1..n -> {0}] : n \in 0..MaxLen}     \* zero-filled, length 0..MaxLen
        \* d1 either does not exist yet or already views the whole array (built with span(base, L))
        /\ sp \in {[d1 |-> w, d2 |-> Unset, k |-> Unset, c |-> Unset] : w \in {Unset, Win(0, Len(base))}}
        /\ \A i \in 1..NWit : TLCSet(i, 0)
        /\ hist = IF Hist THEN <<[op |-> "init", x |-> "", y |-> "", how |-> "", i |-> 0, v |-> 0, exp |-> ObsOf(sp, base)]>> ELSE <<>>

(* ---- construction ------------------------------------------------------ *)
Default(x) ==                 \* span<int> x;   span<int, 0> k;
  /\ x \in Dyn \cup {"k"}
  /\ Step("Default", x, "", "", 0, 0, Set(x, NullS), base)

PtrCount(x, off, len) ==      \* span<int> x(base + off, len)
  /\ x \in Dyn /\ off + len <= L
  /\ Step("PtrCount", x, "", "", off, len, Set(x, Win(off, len)), base)

Range(x, off, len) ==         \* span<int> x(base + off, base + off + len)
  /\ x \in Dyn /\ off + len <= L
  /\ Step("Range", x, "", "", off, len, Set(x, Win(off, len)), base)

\* the whole base as a C array int[L] or a std::array<int, L> (L >= 1), or a container with data()/size()
Whole(x, how) ==
  /\ x \in Dyn /\ how \in {"carray", "stdarray", "container"}
  /\ (how \in {"carray", "stdarray"} => L >= 1)
  /\ Step("Whole", x, "", how, 0, 0, Set(x, Win(0, L)), base)

\* span<const int> c(...) from a const C array / const std::array / const container
ConstWhole(how) ==
  /\ how \in {"carray", "stdarray", "container"} /\ (how \in {"carray", "stdarray"} => L >= 1)
  /\ Step("ConstWhole", "c", "", how, 0, 0, Set("c", Win(0, L)), base)

StaticWhole(how) ==           \* span<int, L> k(array)
  /\ how \in {"carray", "stdarray", "container"} /\ (how \in {"carray", "stdarray"} => L >= 1)
  /\ Step("StaticWhole", "k", "", how, 0, 0, Set("k", Win(0, L)), base)

StaticFrom(y, how) ==         \* span<int, N> k(y.data(), N) / k(y.begin(), y.end()) with N = y.size()
  /\ y \in Dyn /\ sp[y].st = "win" /\ how \in {"ptrcount", "range"}
  /\ Step("StaticFrom", "k", y, how, 0, 0, Set("k", sp[y]), base)

(* ---- copy, assignment, conversion ---------------------------------------- *)
CopyCtor(x, y) ==             \* span<int> x(y);
  /\ x \in Dyn /\ y \in Dyn /\ x # y /\ sp[y].st # "unset"
  /\ Step("CopyCtor", x, y, "", 0, 0, Set(x, sp[y]), base)

Assign(x, y) ==               \* x = y;  (including x = x)
  /\ x \in Dyn /\ y \in Dyn /\ sp[x].st # "unset" /\ sp[y].st # "unset"
  /\ Step("Assign", x, y, "", 0, 0, Set(x, sp[y]), base)

DynFromStatic(x) ==           \* span<int> x(k);   static -> dynamic extent
  /\ x \in Dyn /\ sp.k.st # "unset"
  /\ Step("DynFromStatic", x, "k", "", 0, 0, Set(x, sp.k), base)

ConstFrom(y) ==               \* span<const int> c(y);   y dynamic or static
  /\ y \in Dyn \cup {"k"} /\ sp[y].st # "unset"
  /\ Step("ConstFrom", "c", y, "", 0, 0, Set("c", sp[y]), base)

(* ---- element access -------------------------------------------------------- *)
Write(x, i, v) ==             \* x[i] = v   (i < x.size()): seen through every aliasing span
  /\ x \in Dyn \cup {"k"} /\ sp[x].st = "win" /\ i < sp[x].len
  /\ v = (base[sp[x].off + i + 1] + 1) % 3        \* one new value per element keeps the branching small
  /\ Step("Write", x, "", "", i, v, sp, [base EXCEPT ![sp[x].off + i + 1] = v])

Next == \/ \E x \in Dyn \cup {"k"} : Default(x)
        \/ \E x \in Dyn, off \in 0..MaxLen, len \in 0..MaxLen : PtrCount(x, off, len) \/ Range(x, off, len)
        \/ \E x \in Dyn, how \in {"carray", "stdarray", "container"} : Whole(x, how)
        \/ \E how \in {"carray", "stdarray", "container"} : ConstWhole(how)
        \/ \E how \in {"carray", "stdarray", "container"} : StaticWhole(how)
        \/ \E y \in Dyn, how \in {"ptrcount", "range"} : StaticFrom(y, how)
        \/ \E x \in Dyn, y \in Dyn : CopyCtor(x, y) \/ Assign(x, y)
        \/ \E x \in Dyn : DynFromStatic(x)
        \/ \E y \in Dyn \cup {"k"} : ConstFrom(y)
        \/ \E x \in Dyn \cup {"k"}, i \in 0..(MaxLen - 1), v \in Val : Write(x, i, v)

Spec == Init /\ [][Next]_vars

(* ---- the property: an index-checked slice model ------------------------- *)
Names == {"d1", "d2", "k", "c"}
TypeOK == /\ base \in UNION {[1..n -> Val] : n \in 0..MaxLen}
          /\ \A x \in Names : sp[x].st \in {"unset", "null", "win"}
\* every window lies inside the array: every element the projection reads exists
InBounds == \A x \in Names : sp[x].off + sp[x].len <= L
NullIsEmpty == \A x \in Names : sp[x].st \in {"unset", "null"} => (sp[x].off = 0 /\ sp[x].len = 0)
\* aliasing: two spans whose windows overlap see the same element at the shared positions
Aliasing == \A x \in Names, y \in Names : \A p \in 1..L :
              (p > sp[x].off /\ p <= sp[x].off + sp[x].len /\ p > sp[y].off /\ p <= sp[y].off + sp[y].len)
                => ObsSpan(x, sp[x], base).elems[p - sp[x].off] = ObsSpan(y, sp[y], base).elems[p - sp[y].off]
Property == InBounds /\ NullIsEmpty /\ Aliasing

(* ---- behaviour export ---------------------------------------------------- *)
EmitAll == (Hist /\ Len(hist) = Depth + 1) => PrintT(<<"BEH", ToJson([steps |-> hist])>>)
Last == hist[Len(hist)]
HasLast == Hist /\ Len(hist) > 1
\* rare conditions that must be in the replay set of every run: each is reported once (per worker)
\* from the path-enumeration run itself; the check is broken if one of them is never reported
Wits == <<
  <<"WriteSeenByOther", HasLast /\ Last.op = "Write" /\ Last.x = "d1" /\ sp.d2.st = "win" /\ sp.d2.off > sp.d1.off /\ sp.d1.off + Last.i >= sp.d2.off /\ sp.d1.off + Last.i < sp.d2.off + sp.d2.len>>,
  <<"EmptyAtEnd", HasLast /\ Last.op \in {"PtrCount", "Range"} /\ Last.i = L /\ L = MaxLen>>,
  <<"StaticTail", HasLast /\ Last.op = "StaticFrom" /\ sp.k.off > 0 /\ sp.k.len > 0>>,
  <<"ConstStatic", HasLast /\ Last.op = "ConstFrom" /\ Last.y = "k" /\ sp.c.len > 0>>,
  <<"SelfAssign", HasLast /\ Last.op = "Assign" /\ Last.x = Last.y /\ sp[Last.x].len > 0>> >>
WitAll == \A i \in 1..NWit : (Wits[i][2] /\ TLCGet(i) = 0) => (PrintT(<<"WIT", Wits[i][1]>>) /\ TLCSet(i, 1))
=============================================================================
