\* generation (run with -simulate): random behaviours AddView* CreateInst* Collect with expectations in hist
CONSTANTS
  TypeSet <- Types3   PatSet <- Pats3   UnitSelSet <- UnitSel2   MSelSet <- MSels4   ShapeSet <- ShapesAll
  INameSet <- INamesAll   IUnitSet <- IUnits2   MeterSet <- Meters6   AttrSet <- AttrsAll
  MaxViews = 2  MaxInst = 3  Hist = TRUE
INIT Init
NEXT Next
VIEW View
INVARIANTS EmitAll
