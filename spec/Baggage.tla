------------------------------ MODULE Baggage ------------------------------
(***************************************************************************)
(* C15 - reference model of opentelemetry::baggage::Baggage and of the     *)
(* BaggagePropagator (api/include/opentelemetry/baggage/...).              *)
(*                                                                         *)
(* Strings are ABSTRACT: sequences of runs [c |-> character class, n |->   *)
(* repeat count].  Character classes (the partition of the byte alphabet): *)
(*   "a" "b"   two distinct token characters  (ALPHA DIGIT - _ . ~)        *)
(*   "sp"      blank            "tab"  horizontal tab (headers only)       *)
(*   "eq" "cm" "sc" "pc" "pl"   the reserved characters  = , ; pct +       *)
(*   "op"      any other printable character                               *)
(*   "np"      a non-printable byte (< 0x20, 0x7f, >= 0x80)                *)
(* A header is a sequence of tokens [t, c, n]:                             *)
(*   lit  a token character written literally                              *)
(*   enc  a well-formed percent escape (pct X X) of character c                  *)
(*   raw  the character itself, unescaped                                  *)
(*   bad  a malformed escape (c = g1: pct G 1, 1g: pct 1 G, t1: pct 4 at   *)
(*        the end, t0: a lone pct at the end)                                         *)
(* ToHeader / FromHeader below transcribe the contract of the statement:   *)
(* percent-encode outside the token set, ';metadata' verbatim, skip empty  *)
(* and invalid members, keep a member iff its decoded key and value are    *)
(* valid, 180 members / 4096 bytes per member / 8192 bytes in total.       *)
(* Where the statement is silent the result carries a wildcard ("?": zero  *)
(* or one arbitrary valid entry) or alternatives.  A key that occurs in    *)
(* more than one valid member is a band of its own (Pat / Allowed below):  *)
(* which occurrence survives, how many and where is open - every OTHER     *)
(* valid member is kept exactly once, in header order.                     *)
(***************************************************************************)
EXTENDS Naturals, Sequences, FiniteSets, TLC, Json, SequencesExt

CONSTANTS Dev,     \* subset of AllDevs
          Hist,    \* BOOLEAN: record the behaviour
          Menu,    \* "ops" | "rt1" | "rt2" | "parse" | "dup" | "mix"
          MaxOps,
          AnyObj,  \* Menu "ops": operations on every object created so far (else only the newest)
          VLen     \* Menu "rt1": maximal length of generated values

AllDevs == {"metadata-nonprintable-kept"}
MaxMembers == 180
MaxMember  == 4096
MaxHeader  == 8192

TokenCh   == {"a", "b"}
Reserved  == {"eq", "cm", "sc", "pc", "pl"}
Printable == TokenCh \cup {"sp"} \cup Reserved \cup {"op"}
R(c)      == [c |-> c, n |-> 1]
Rn(c, n)  == [c |-> c, n |-> n]
Str(cs)   == [i \in 1..Len(cs) |-> R(cs[i])]          \* <<"a","sp">> -> string

IsPrintable(s) == \A i \in 1..Len(s) : s[i].c \in Printable
ValidKeyS(k) == Len(k) > 0 /\ IsPrintable(k)
ValidValS(v) == IsPrintable(v)

MinS(S) == CHOOSE x \in S : \A y \in S : x <= y
MaxS(S) == CHOOSE x \in S : \A y \in S : x >= y

(* ---- serialisation ------------------------------------------------------ *)
T(t, c, n) == [t |-> t, c |-> c, n |-> n]
Comma == T("raw", "cm", 1)
Equal == T("raw", "eq", 1)
Enc(s)  == [i \in 1..Len(s) |-> IF s[i].c \in TokenCh THEN T("lit", s[i].c, s[i].n) ELSE T("enc", s[i].c, s[i].n)]
RawS(s) == [i \in 1..Len(s) |-> T("raw", s[i].c, s[i].n)]
ScIdx(s)   == {i \in 1..Len(s) : s[i].c = "sc"}
ValPart(v) == IF ScIdx(v) = {} THEN v ELSE SubSeq(v, 1, MinS(ScIdx(v)) - 1)
MetaPart(v) == IF ScIdx(v) = {} THEN <<>> ELSE SubSeq(v, MinS(ScIdx(v)), Len(v))
MemberOf(e) == Enc(e[1]) \o <<Equal>> \o Enc(ValPart(e[2])) \o RawS(MetaPart(e[2]))
RECURSIVE JoinR(_, _, _)
JoinR(ms, lo, hi) == IF lo > hi THEN <<>> ELSE IF lo = hi THEN ms[lo]
                     ELSE LET mid == (lo + hi) \div 2 IN JoinR(ms, lo, mid) \o <<Comma>> \o JoinR(ms, mid + 1, hi)
Join(ms) == JoinR(ms, 1, Len(ms))
Members1(B) == [i \in 1..Len(B) |-> MemberOf(B[i])]
ToHeader(B) == Join(Members1(B))

(* ---- parsing ------------------------------------------------------------ *)
TokSize(t) == CASE t.t = "enc" -> 3 * t.n
                [] t.t = "bad" -> (IF t.c \in {"g1", "1g"} THEN 3 ELSE IF t.c = "t1" THEN 2 ELSE 1)
                [] OTHER -> t.n
RECURSIVE SizeR(_, _, _)
SizeR(s, lo, hi) == IF lo > hi THEN 0 ELSE IF lo = hi THEN TokSize(s[lo])
                    ELSE LET mid == (lo + hi) \div 2 IN SizeR(s, lo, mid) + SizeR(s, mid + 1, hi)
Size(s) == SizeR(s, 1, Len(s))

IsRawC(t, c) == t.t = "raw" /\ t.c = c
Blank(t) == t.t = "raw" /\ t.c \in {"sp", "tab"}
Trim(m) == LET nb == {i \in 1..Len(m) : ~Blank(m[i])} IN IF nb = {} THEN <<>> ELSE SubSeq(m, MinS(nb), MaxS(nb))

CommaIdx(h) == {i \in 1..Len(h) : IsRawC(h[i], "cm")}
Starts(h) == SetToSortSeq({1} \cup {i + 1 : i \in CommaIdx(h)}, LAMBDA x, y : x < y)
\* member j covers h[MStart(j) .. MEnd(j)]
MEnd(h, st, j) == IF j < Len(st) THEN st[j + 1] - 2 ELSE Len(h)
MembersOf(h) == LET st == Starts(h) IN [j \in 1..Len(st) |-> SubSeq(h, st[j], MEnd(h, st, j))]

Dec(ts) == [i \in 1..Len(ts) |-> Rn(ts[i].c, ts[i].n)]
Wild == <<<<Rn("?", 1)>>, <<>>>>       \* zero or one arbitrary valid entry

\* verdict for one list member: "skip" (empty), "drop", "wild" (the statement does not pin it),
\* "keep" (e = the decoded entry), "devkeep" (must be dropped; a listed deviation keeps e)
ParseMember(m0) ==
  LET m == Trim(m0) IN
  IF m = <<>> THEN [v |-> "skip", e |-> Wild]
  ELSE LET eqs == {i \in 1..Len(m) : IsRawC(m[i], "eq")} IN
  IF eqs = {} THEN [v |-> "drop", e |-> Wild]
  ELSE LET eq   == MinS(eqs)
           rawK == SubSeq(m, 1, eq - 1)
           rawV == SubSeq(m, eq + 1, Len(m))
           scs  == {i \in 1..Len(rawV) : IsRawC(rawV[i], "sc")}
           vp   == IF scs = {} THEN rawV ELSE SubSeq(rawV, 1, MinS(scs) - 1)
           meta == IF scs = {} THEN <<>> ELSE SubSeq(rawV, MinS(scs), Len(rawV))
           kt   == Trim(rawK)
           vt   == Trim(vp)
           body == kt \o vt
           dk   == Dec(kt)
           dv   == Dec(vt)
           dm   == Dec(meta)
       IN
       IF Size(rawK) + Size(rawV) > MaxMember THEN [v |-> "drop", e |-> Wild]
       \* an unescaped non-printable byte (anywhere in key or value, also at the very edge of the member)
       \* makes the member invalid under every reading: it is skipped, never "cleaned"
       ELSE IF \E i \in 1..Len(body) : body[i].t = "raw" /\ body[i].c = "np" THEN [v |-> "drop", e |-> Wild]
       ELSE IF \E i \in 1..Len(body) : body[i].t = "raw" THEN [v |-> "wild", e |-> Wild]
       ELSE IF \E i \in 1..Len(body) : body[i].t = "bad" THEN [v |-> "drop", e |-> Wild]
       ELSE IF ~ValidKeyS(dk) \/ ~ValidValS(dv) THEN [v |-> "drop", e |-> Wild]
       ELSE IF ~IsPrintable(dm)
              \* must be dropped.  The listed deviation keeps the member: verbatim, or (storage is a C
              \* string) cut at the first non-printable byte when that byte is NUL
              THEN [v |-> "devkeep", e |-> <<dk, dv \o dm>>,
                    c |-> <<dk, dv \o SubSeq(dm, 1, MinS({i \in 1..Len(dm) : dm[i].c = "np"}) - 1)>>]
       ELSE [v |-> "keep", e |-> <<dk, dv \o dm>>]

Verdicts(h) == LET ms == MembersOf(h) IN [j \in 1..Len(ms) |-> ParseMember(ms[j])]
\* the items of the verdicts vs[lo..hi] that are in `kinds`, in order
Items(vs, kinds) == LET idx == SelectSeq([j \in 1..Len(vs) |-> j], LAMBDA j : vs[j].v \in kinds)
                    IN [i \in 1..Len(idx) |-> vs[idx[i]].e]
ItemsCut(vs, kinds) == LET idx == SelectSeq([j \in 1..Len(vs) |-> j], LAMBDA j : vs[j].v \in kinds)
                       IN [i \in 1..Len(idx) |-> IF vs[idx[i]].v = "devkeep" THEN vs[idx[i]].c ELSE vs[idx[i]].e]
Prefix(s, n) == SubSeq(s, 1, IF Len(s) < n THEN Len(s) ELSE n)

\* ideal result: the kept members (and wildcards) in order, at most 180; nothing for an over-long header
FromHeaderK(h, kinds) ==
  IF Size(h) > MaxHeader THEN <<>> ELSE Prefix(Items(Verdicts(h), kinds), MaxMembers)
FromHeader(h)    == FromHeaderK(h, {"keep", "wild"})
FromHeaderDev(h) == FromHeaderK(h, {"keep", "wild", "devkeep"})
FromHeaderDevCut(h) == IF Size(h) > MaxHeader THEN <<>>
                       ELSE Prefix(ItemsCut(Verdicts(h), {"keep", "wild", "devkeep"}), MaxMembers)

\* other outcomes the statement equally allows (don't-care bands around the limits):
\*  > 180 members: nothing at all, or only what the first 180 members yield;
\*  > 8192 bytes : only the members that end within the first 8192 bytes
TrimEnd(h, lo, hi) == LET nb == {i \in lo..hi : ~Blank(h[i])} IN IF nb = {} THEN lo - 1 ELSE MaxS(nb)
EndsWithin(h) == LET st == Starts(h) IN
                 {j \in 1..Len(st) : Size(SubSeq(h, 1, TrimEnd(h, st[j], MEnd(h, st, j)))) <= MaxHeader}
FromAlts(h) ==
  LET vs == Verdicts(h) IN
  IF Size(h) > MaxHeader
    THEN LET ok == EndsWithin(h)
             n  == IF ok = {} THEN 0 ELSE MaxS(ok)
         IN {Prefix(Items(SubSeq(vs, 1, n), {"keep", "wild"}), MaxMembers)}
  ELSE IF Len(vs) > MaxMembers
    THEN {<<>>, Items(SubSeq(vs, 1, MaxMembers), {"keep", "wild"})}
  ELSE {}

\* the propagator: nothing valid -> the context keeps the baggage it had
Extract(ctxBag, r) == IF r = <<>> THEN ctxBag ELSE r

(* ---- a key repeated in the header ---------------------------------------- *)
\* The statement says the valid members are kept, in order; it does not say what a key that is stated by
\* SEVERAL valid members yields (all occurrences? the first? the last? at which position?).  That is left
\* open, and only that: an extraction result is described by the pattern
\*   u  the items whose key occurs once (wildcards included), in header order: kept exactly so
\*   d  one record per repeated key k: vals = the values its valid members state, n = how many there are;
\*      the result holds between 1 and n entries with key k, each with a value from vals, anywhere.
\* Strings are compared in normal form (adjacent runs of one class merged): "aa" = "a" "a".
RECURSIVE NormR(_, _)
NormR(s, i) == IF i > Len(s) THEN <<>>
               ELSE LET r == NormR(s, i + 1) IN
                    IF s[i].n = 0 THEN r
                    ELSE IF r # <<>> /\ r[1].c = s[i].c THEN <<Rn(s[i].c, s[i].n + r[1].n)>> \o Tail(r)
                    ELSE <<s[i]>> \o r
Norm(s) == NormR(s, 1)
Definite(items) == {i \in 1..Len(items) : items[i] # Wild}
NKeys(items) == [i \in 1..Len(items) |-> IF items[i] = Wild THEN <<>> ELSE Norm(items[i][1])]
Pat(items) ==
  LET nk   == NKeys(items)
      def  == Definite(items)
      occ(k) == {i \in def : nk[i] = k}
      dk   == {k \in {nk[i] : i \in def} : Cardinality(occ(k)) > 1}
      uidx == SelectSeq([i \in 1..Len(items) |-> i], LAMBDA i : i \notin def \/ nk[i] \notin dk)
  IN [u |-> [i \in 1..Len(uidx) |-> items[uidx[i]]],
      d |-> SetToSeq({[k |-> k, vals |-> {Norm(items[i][2]) : i \in occ(k)}, n |-> Cardinality(occ(k))] : k \in dk})]
HasDup(items) == Pat(items).d # <<>>
\* is the concrete list res (no wildcards) an allowed outcome for items (no wildcards)?
NormL(B) == [i \in 1..Len(B) |-> <<Norm(B[i][1]), Norm(B[i][2])>>]
Allowed(items, res) ==
  LET p  == Pat(items)
      dk == {p.d[i].k : i \in DOMAIN p.d}
      r  == NormL(res)
  IN /\ SelectSeq(r, LAMBDA e : e[1] \notin dk) = NormL(p.u)
     /\ \A i \in DOMAIN p.d :
          LET ix == {j \in 1..Len(r) : r[j][1] = p.d[i].k} IN
            /\ Cardinality(ix) \in 1..p.d[i].n
            /\ \A j \in ix : r[j][2] \in p.d[i].vals
\* four implementations the band must admit: every occurrence kept; the first / the last occurrence only, in
\* place; the last occurrence moved to the front (what Set does)
SameKeyLater(items, i) == \E j \in (i + 1)..Len(items) : Norm(items[j][1]) = Norm(items[i][1])
SameKeyEarlier(items, i) == \E j \in 1..(i - 1) : Norm(items[j][1]) = Norm(items[i][1])
Pick(items, keep(_)) == LET idx == SelectSeq([i \in 1..Len(items) |-> i], keep) IN [i \in 1..Len(idx) |-> items[idx[i]]]
FirstWins(items) == Pick(items, LAMBDA i : ~SameKeyEarlier(items, i))
LastWins(items)  == Pick(items, LAMBDA i : ~SameKeyLater(items, i))
LastWinsFront(items) == Pick(items, LAMBDA i : SameKeyEarlier(items, i) /\ ~SameKeyLater(items, i))
                        \o Pick(items, LAMBDA i : ~SameKeyEarlier(items, i) /\ ~SameKeyLater(items, i))
RemoveAt1(s, i) == SubSeq(s, 1, i - 1) \o SubSeq(s, i + 1, Len(s))

(* ---- Set / Delete -------------------------------------------------------- *)
HasK(B, k) == \E i \in 1..Len(B) : B[i][1] = k
WithoutK(B, k) == SelectSeq(B, LAMBDA e : e[1] # k)
SetB(B, k, v) == <<<<k, v>>>> \o WithoutK(B, k)      \* the position of the new entry is NOT promised:
                                                      \* replayers compare Set/Delete results as sets
DelB(B, k) == WithoutK(B, k)
AsSet(B) == {B[i] : i \in 1..Len(B)}

\* what the statement promises to round-trip: printable keys and values, no unescaped separator
\* after ';' (and no blank at the very end of the metadata: optional white space of the header)
Promised1(e) == /\ ValidKeyS(e[1]) /\ ValidValS(e[2])
                /\ LET m == MetaPart(e[2]) IN
                     /\ \A i \in 1..Len(m) : m[i].c # "cm"
                     /\ (m # <<>> => m[Len(m)].c # "sp")
Promised(B) == \A i \in 1..Len(B) : Promised1(B[i])

(* ---- generated families --------------------------------------------------- *)
PrCh == <<"a", "b", "sp", "eq", "cm", "sc", "pc", "pl", "op">>
SeqsUpTo(n) == UNION {[1..m -> {PrCh[i] : i \in 1..Len(PrCh)}] : m \in 0..n}
KeysRT == {Str(s) : s \in SeqsUpTo(2) \ {<<>>}}
ValsRT(n) == {v \in {Str(s) : s \in SeqsUpTo(n)} : Promised1(<<Str(<<"a">>), v>>)}

Keys1 == {Str(<<PrCh[i]>>) : i \in 1..Len(PrCh)}
Entries1 == {<<k, v>> : k \in Keys1, v \in ValsRT(1)}

\* keys of the history menu: every class, and keys RELATED to each other - "a" is a proper prefix of "ab" and "aa",
\* which have the same length and differ in the last character (and, for the concretisations where b is a in
\* the other case, are equal up to case)
KM == {Str(<<"a">>), Str(<<"sp">>), Str(<<"eq", "cm">>), Str(<<"sc">>), Str(<<"pc", "pl">>), Str(<<"op", "a">>),
       Str(<<"a", "b">>), <<Rn("a", 2)>>}
VM == {<<>>, Str(<<"b">>), Str(<<"sp", "b", "sp">>), Str(<<"eq", "cm", "pc", "pl">>), Str(<<"op">>),
       Str(<<"b", "sc", "a", "eq", "b">>), Str(<<"sc">>), Str(<<"a", "sc", "sp", "op", "sc">>)}
BadArgs == {<<Str(<<"np">>), Str(<<"b">>)>>, <<<<>>, Str(<<"b">>)>>, <<Str(<<"a">>), Str(<<"b", "np">>)>>,
            <<Str(<<"a", "np">>), <<>>>>}

\* header members (token sequences without a raw comma)
L(c)  == T("lit", c, 1)
E(c)  == T("enc", c, 1)
W(c)  == T("raw", c, 1)
B_(c) == T("bad", c, 1)
PlainK == <<L("a")>>
Mem(k, v) == k \o <<Equal>> \o v
DefiniteMembers ==
  {Mem(PlainK, <<L("b")>>), Mem(PlainK, <<>>), Mem(<<L("a"), L("b")>>, <<L("b"), L("a")>>)}
  \cup {Mem(<<E(c)>>, <<L("b")>>) : c \in Printable}                 \* escaped key character
  \cup {Mem(PlainK, <<L("b"), E(c)>>) : c \in Printable}             \* escaped value character
  \cup {Mem(<<L("a"), E(c), L("a")>>, <<E(c), E(c)>>) : c \in {"sp", "pc", "a"}}
  \cup {Mem(PlainK, <<L("b"), W("sc")>> \o m) :                     \* ;metadata, verbatim
          m \in {<<>>, <<W("a")>>, <<W("a"), W("eq"), W("b")>>, <<W("a"), W("sp"), W("op"), W("sc"), W("pc"), W("pl"), W("b")>>}}
  \cup {Mem(PlainK, <<W("sc"), W("a")>>)}                              \* empty value part with metadata
  \cup {Mem(<<>>, <<L("b")>>), Mem(<<W("sp")>>, <<L("b")>>), Mem(<<>>, <<>>)}   \* empty key
  \cup {<<L("a"), L("b")>>, <<E("sp")>>}                               \* no '='
  \cup {Mem(<<L("a"), B_(x)>>, <<L("b")>>) : x \in {"g1", "1g"}}       \* malformed escape in the key
  \cup {Mem(PlainK, <<L("b"), B_(x)>>) : x \in {"g1", "1g", "t1", "t0"}} \* ... in the value
  \cup {Mem(PlainK, <<B_("t0")>>)}
  \cup {Mem(<<L("a"), E("np")>>, <<L("b")>>), Mem(PlainK, <<E("np"), L("b")>>), Mem(PlainK, <<E("np")>>)}
  \cup {<<W(w)>> \o Mem(PlainK, <<L("b")>>) \o <<W(w)>> : w \in {"sp", "tab"}}   \* OWS around the member
  \cup {<<W("sp"), W("tab")>> \o Mem(PlainK, <<L("b"), W("sc"), W("a")>>) \o <<W("tab"), W("sp")>>}
  \cup {<<L("a"), W("sp"), Equal, W("sp"), L("b")>>}                   \* OWS around '='
  \cup {<<>>, <<W("sp")>>, <<W("tab"), W("sp")>>}                      \* empty / blank-only member
  \cup {Mem(PlainK, <<L("b"), W("sc"), W("a"), W("np")>>), Mem(PlainK, <<W("sc"), W("np"), W("b")>>)}  \* np metadata
NpMembers ==    \* raw non-printable byte at the first / last position of the member, of the key, of the value, alone
  {Mem(<<W("np"), L("a")>>, <<L("b")>>), Mem(<<L("a")>>, <<L("b"), W("np")>>), Mem(<<L("a")>>, <<W("np"), L("b")>>),
   Mem(<<W("np")>>, <<L("b")>>), Mem(<<L("a")>>, <<W("np")>>), <<W("np")>>, <<W("np"), W("np")>>,
   Mem(<<T("raw", "np", 2), L("a")>>, <<L("b"), W("sc"), W("a")>>)}
WildMembers ==
  {Mem(<<L("a"), W(c)>>, <<L("b")>>) : c \in {"op", "np", "pl"}}
  \cup {Mem(PlainK, <<L("b"), W(c), L("b")>>) : c \in {"op", "np", "pl", "eq", "sp"}}
  \cup {Mem(<<L("a"), W("sp"), L("a")>>, <<L("b")>>)}
MemberMenu == DefiniteMembers \cup NpMembers \cup WildMembers

P1 == Mem(<<T("lit", "b", 2)>>, <<L("a")>>)
P2 == Mem(<<T("lit", "b", 3)>>, <<L("b"), W("sc"), W("a")>>)
Filler(i) == Mem(<<T("lit", "a", 2 + (i \div 14)), T("lit", "b", 1 + (i % 14))>>, <<L("a")>>)
Fill(n) == [i \in 1..n |-> Filler(i)]
BigMem(k, kn, vn) == Mem(<<T("lit", k, kn)>>, <<T("lit", "b", vn)>>)

LimitHeaders ==
  \* member size: key + value = 4095 (4096 bytes with '=') is kept, 4097 is dropped; alone / between others
  {Join(<<BigMem("a", 1, vn)>>) : vn \in {4094, 4096, 5000}}
  \cup {Join(<<P1, BigMem("a", 1, vn), P2>>) : vn \in {4000, 4094, 4096}}
  \cup {Join(<<P1, Mem(<<L("a")>>, <<T("enc", "op", 1364), T("lit", "b", 2)>>)>>),        \* 4092 + 2 + 1
        Join(<<P1, Mem(<<L("a")>>, <<T("enc", "op", 1365), T("lit", "b", 1)>>), P2>>),    \* 4095 + 1 + 1 = 4097
        Join(<<Mem(<<L("a")>>, <<T("lit", "b", 4000), W("sc"), T("raw", "a", 93)>>)>>),   \* metadata counts: 4095
        Join(<<Mem(<<L("a")>>, <<T("lit", "b", 4000), W("sc"), T("raw", "a", 95)>>), P1>>)} \* 4097
  \* header size: exactly 8192 bytes is parsed, 8193 is over the limit
  \cup {Join(<<BigMem("a", 1, 4089), BigMem("a", 2, 4088), Mem(<<T("lit", "a", 3)>>, <<T("lit", "b", x)>>)>>) : x \in {3, 4, 5, 400}}
  \cup {Join(<<BigMem("a", 1, 4089), BigMem("a", 2, 4088), Mem(<<T("lit", "a", 3)>>, <<T("lit", "b", 4)>>)>>) \o <<T("raw", "sp", n)>> : n \in {1, 50}}
  \cup {Join(<<P1, P2>>) \o <<Comma, T("raw", "sp", 8192)>>}
  \* member count
  \cup {Join(Fill(n)) : n \in {179, 180, 181, 200}}
  \cup {Join(<<Mem(PlainK, <<E("np")>>)>> \o Fill(180)), Join(Fill(180) \o <<<<>>, <<>>>>), Join(<<<<L("a")>>>> \o Fill(181))}

Single(m) == m
Triple(m) == Join(<<P1, m, P2>>)
ParseHeaders == {Single(m) : m \in MemberMenu} \cup {Triple(m) : m \in MemberMenu} \cup LimitHeaders
                \cup {<<Comma>>, <<Comma, Comma, W("sp"), Comma>>, <<Comma, Equal, Comma>>}

\* ---- headers that state a key more than once (Menu "dup") ----
\* A shape is a sequence of <<key id, kind>>: three keys ("a"; "b b"; "aa" - "a" is a proper prefix of it), each
\* spelled differently at its odd and even occurrences (literal / escaped token character / blanks around / runs
\* split), kind "ok" (valid) or "bad" (same key, malformed escape in the value: the member is dropped).  The value
\* depends on the POSITION (so every occurrence states another value; position 3 an empty one, even positions
\* carry ;metadata).  All shapes up to 5 valid members over the three keys, and up to 4 members with dropped ones
\* mixed in (any number among <= 3 members, one among 4): a repeated key adjacent / far apart / first / last / three and more times / two repeated keys / a
\* dropped member between or re-stating the key - each followed by 0..3 members with keys of their own.
DKeyTok(kid, occ) ==
  CASE kid = 1 -> IF occ % 2 = 1 THEN <<L("a")>> ELSE <<E("a")>>
    [] kid = 2 -> IF occ % 2 = 1 THEN <<L("b"), E("sp"), L("b")>> ELSE <<W("sp"), L("b"), E("sp"), L("b"), W("tab")>>
    [] kid = 3 -> IF occ % 2 = 1 THEN <<T("lit", "a", 2)>> ELSE <<L("a"), E("a")>>
DValTok(p, kind) ==
  IF kind = "bad" THEN <<T("lit", "b", p), B_("g1")>>
  ELSE IF p = 3 THEN <<>>
  ELSE IF p % 2 = 0 THEN <<T("lit", "b", p), W("sc"), T("raw", "a", p)>>
  ELSE <<T("lit", "b", p)>>
OccIn(sh, p) == Cardinality({q \in 1..p : sh[q][1] = sh[p][1]})
ShapeHeader(sh) == Join([p \in 1..Len(sh) |-> Mem(DKeyTok(sh[p][1], OccIn(sh, p)), DValTok(p, sh[p][2]))])
Repeats(sh) == \E p, q \in 1..Len(sh) : p < q /\ sh[p][1] = sh[q][1]
ShapesOver(S, lo, hi) == {sh \in UNION {[1..n -> S] : n \in lo..hi} : Repeats(sh)}
OkSyms  == {<<kid, "ok">> : kid \in 1..3}
MixSyms == {<<1, "ok">>, <<1, "bad">>, <<2, "ok">>, <<2, "bad">>, <<3, "ok">>}
NBad(sh) == Cardinality({p \in 1..Len(sh) : sh[p][2] = "bad"})
DupShapes == ShapesOver(OkSyms, 2, 5) \cup {sh \in ShapesOver(MixSyms, 2, 4) : NBad(sh) >= 1 /\ (Len(sh) = 4 => NBad(sh) = 1)}
\* ... and near the limits: 179 / 180 members one of which re-states an earlier key (early, in the middle, at the
\* end; eight of them), a member of 4096 bytes and a small one with the same key, an over-sized (dropped) member
\* with the key of a valid one, a header of exactly 8192 bytes / 8193 bytes whose last member re-states the first key
FDup(i) == Mem(<<T("lit", "a", 2 + (i \div 14)), T("lit", "b", 1 + (i % 14))>>, <<L("b")>>)
DupLimitHeaders ==
  {Join(InsertAt(Fill(178), p, FDup(1))) : p \in {2, 179}}
  \cup {Join(Append(Fill(179), FDup(90))), Join(Fill(170) \o [i \in 1..8 |-> FDup(20 * i)])}
  \cup {Join(<<P1, BigMem("a", 1, 4094), Mem(PlainK, <<L("b")>>), P2, Filler(1), Filler(2)>>),
        Join(<<Mem(PlainK, <<L("b")>>), P1, BigMem("a", 1, 4096), P2, Filler(1)>>),
        Join(<<BigMem("a", 1, 4094), BigMem("a", 1, 4000), P1, P2>>),
        Join(<<BigMem("a", 1, 4080), Mem(PlainK, <<L("b")>>), BigMem("a", 2, 4080), P1, P2>>)}
  \cup {Join(<<BigMem("a", 1, 4089), BigMem("a", 2, 4088), Mem(PlainK, <<T("lit", "b", x)>>)>>) : x \in {6, 7}}
DupHeaders == {ShapeHeader(sh) : sh \in DupShapes} \cup DupLimitHeaders
\* members for Menu "mix" with keys other than "a" (most of the member menu states the key "a")
MixMembers == {Mem(DKeyTok(kid, occ), v) : kid \in 1..3, occ \in 1..2,
                                           v \in {<<L("a")>>, <<T("lit", "b", 2), W("sc"), W("a")>>, <<>>}}
              \cup {P1, P2, Filler(1), Filler(2)}

B0 == <<<<Str(<<"b", "b", "a">>), Str(<<"a", "sp">>)>>>>      \* a baggage already in the context

VARIABLES objs,     \* sequence of baggage values (every object created so far)
          last,     \* ghost: the last operation
          hdr,      \* Menu "mix": the header built so far
          devUsed, nops, hist
bvars == <<objs, last, hdr, devUsed, nops>>
vars  == <<bvars, hist>>
Ent(r) == IF Hist THEN Append(hist, r) ELSE hist

\* the record that describes one extraction to the replayer
AltSeq(h, c0) == LET ctxB == IF c0 = "b0" THEN B0 ELSE <<>>
                     S == {Extract(ctxB, r) : r \in FromAlts(h)} \ {Extract(ctxB, FromHeader(h))}
                     q == SetToSeq(S)
                 IN [i \in 1..Len(q) |-> Pat(q[i])]
HasWild(h) == \E j \in 1..Len(Verdicts(h)) : Verdicts(h)[j].v = "wild"
XRec(h, c0) == [op |-> "extract", hdr |-> h, ctx0 |-> c0, b0 |-> B0, push |-> (Menu = "dup"),
                exp |-> Pat(Extract(IF c0 = "b0" THEN B0 ELSE <<>>, FromHeader(h))),
                alt |-> AltSeq(h, c0),
                dev |-> IF FromHeaderDev(h) # FromHeader(h)
                          THEN <<[dev |-> "metadata-nonprintable-kept",
                                  res |-> Pat(Extract(IF c0 = "b0" THEN B0 ELSE <<>>, FromHeaderDev(h)))],
                                 [dev |-> "metadata-nonprintable-kept",
                                  res |-> Pat(Extract(IF c0 = "b0" THEN B0 ELSE <<>>, FromHeaderDevCut(h)))]>>
                          ELSE <<>>]

InitObjs ==
  CASE Menu = "rt1" -> {<<<<<<k, v>>>>>> : k \in KeysRT, v \in ValsRT(VLen)}
    [] Menu = "rt2" -> {<<<<e1, e2>>>> : e1 \in Entries1, e2 \in Entries1}
    [] OTHER -> {<<<<>>>>}

Init ==
  /\ devUsed = {} /\ nops = 0
  /\ IF Menu \in {"parse", "dup"}
       THEN \E h \in (IF Menu = "parse" THEN ParseHeaders ELSE DupHeaders) : \E c0 \in {"none", "b0"} :
              /\ (c0 = "b0" => ~HasWild(h) /\ Menu = "parse")
              \* Menu "dup": the extracted baggage is object #1 (abstractly: every valid member; what the real
              \* object holds for a repeated key is the band of Pat) and is operated on below
              /\ hdr = h /\ objs = (IF Menu = "dup" THEN <<FromHeader(h)>> ELSE <<>>)
              /\ last = [op |-> "extract", hdr |-> h, ctx0 |-> c0, res |-> FromHeader(h)]
              /\ hist = IF Hist THEN <<XRec(h, c0)>> ELSE <<>>
       ELSE \E o \in InitObjs :
              /\ (Menu = "rt2" => o[1][1][1] # o[1][2][1])
              /\ objs = o /\ hdr = <<>>
              /\ last = [op |-> "build", res |-> o[1]]
              /\ hist = IF Hist THEN <<[op |-> "build", exp |-> o[1]]>> ELSE <<>>

Objs == IF AnyObj THEN DOMAIN objs ELSE {Len(objs)}
More == nops < MaxOps /\ Menu = "ops"

Commit(op, o, k, v, res) ==
  /\ objs' = Append(objs, res)
  /\ last' = [op |-> op, o |-> o, src |-> objs[o], k |-> k, v |-> v, res |-> res]
  /\ nops' = nops + 1
  /\ UNCHANGED <<hdr, devUsed>>
  /\ hist' = Ent([op |-> op, o |-> o, k |-> k, v |-> v, exp |-> res])

ASet    == More /\ \E o \in Objs : \E k \in KM : \E v \in VM : Commit("set", o, k, v, SetB(objs[o], k, v))
ADelete == More /\ \E o \in Objs : \E k \in KM : Commit("del", o, k, <<>>, DelB(objs[o], k))
\* Set with an empty / non-printable key or a non-printable value: the statement promises nothing
\* about the result (it is discarded), only that no existing object changes and nothing crashes
ASetBad == More /\ \E o \in Objs : \E a \in BadArgs :
             /\ last' = [op |-> "setbad", o |-> o, src |-> objs[o], k |-> a[1], v |-> a[2], res |-> <<>>]
             /\ nops' = nops + 1 /\ UNCHANGED <<objs, hdr, devUsed>>
             /\ hist' = Ent([op |-> "setbad", o |-> o, k |-> a[1], v |-> a[2]])
\* Inject through the propagator, then Extract into a fresh context
ARoundTrip == nops < MaxOps /\ Menu \in {"ops", "rt1", "rt2", "dup"} /\ \E o \in Objs :
             /\ (Menu = "dup" => nops = 1 /\ o = Len(objs) /\ ~HasDup(objs[o]))
             /\ Promised(objs[o])
             /\ objs' = Append(objs, Extract(<<>>, FromHeader(ToHeader(objs[o]))))
             /\ last' = [op |-> "rt", o |-> o, src |-> objs[o], res |-> Extract(<<>>, FromHeader(ToHeader(objs[o])))]
             /\ nops' = nops + 1 /\ UNCHANGED <<hdr, devUsed>>
             /\ hist' = Ent([op |-> "rt", o |-> o, members |-> Members1(objs[o]),
                             exp |-> Extract(<<>>, FromHeader(ToHeader(objs[o])))])
\* Menu "mix": a header is assembled from random members of the menu, then extracted.  Members may re-state the
\* key of an earlier member (valid or dropped); only a member whose own outcome is open (wildcard) or subject
\* to a deviation never shares its key with another one (the two bands would have to be multiplied).
DKey(m0) == LET m == Trim(m0)
                eqs == {i \in 1..Len(m) : IsRawC(m[i], "eq")}
            IN IF m = <<>> \/ eqs = {} THEN <<>> ELSE Norm(Dec(Trim(SubSeq(m, 1, MinS(eqs) - 1))))
Solitary(m) == ParseMember(m).v \in {"wild", "devkeep"}
AAppendMember == Menu = "mix" /\ nops < MaxOps /\ \E m \in MemberMenu \cup MixMembers :
             /\ (nops > 0 /\ DKey(m) # <<>>) =>
                   \A j \in 1..Len(MembersOf(hdr)) :
                      (Solitary(m) \/ Solitary(MembersOf(hdr)[j])) => DKey(MembersOf(hdr)[j]) # DKey(m)
             /\ hdr' = IF nops = 0 THEN m ELSE hdr \o <<Comma>> \o m
             /\ nops' = nops + 1 /\ UNCHANGED <<objs, devUsed>>
             /\ last' = [op |-> "extract", hdr |-> hdr', res |-> FromHeader(hdr')]
             /\ hist' = IF Hist THEN <<XRec(hdr', "none")>> ELSE <<>>

\* Menu "dup": Set / Delete on the baggage that came out of the extraction (object #1) - for every key it holds
\* (also one that several members stated) and for one it does not hold.  "Delete removes the key", "Set replaces
\* an existing key" whatever baggage they are called on: NO entry with that key survives (Set: but the new one);
\* the band of Pat stays only for the OTHER repeated keys (what extraction made of them).  When no repeated key is
\* left the result is then sent through Inject + Extract.
WithoutKN(B, k) == SelectSeq(B, LAMBDA e : Norm(e[1]) # Norm(k))
XKeys(B) == {Norm(B[i][1]) : i \in 1..Len(B)} \cup {Str(<<"b">>)}
XVal == Str(<<"op", "sp", "a", "sc", "b">>)
DupOps == Menu = "dup" /\ nops = 0 /\ nops < MaxOps /\ Len(objs[1]) <= 5
XCommit(op, k, v, res) ==
  /\ objs' = Append(objs, res)
  /\ last' = [op |-> op, o |-> 1, src |-> objs[1], k |-> k, v |-> v, res |-> res]
  /\ nops' = nops + 1 /\ UNCHANGED <<hdr, devUsed>>
  /\ hist' = Ent([op |-> op, o |-> 1, k |-> k, v |-> v, exp |-> Pat(res)])
AXDelete == DupOps /\ \E k \in XKeys(objs[1]) : XCommit("xdel", k, <<>>, WithoutKN(objs[1], k))
AXSet    == DupOps /\ \E k \in XKeys(objs[1]) : XCommit("xset", k, XVal, <<<<k, XVal>>>> \o WithoutKN(objs[1], k))

Next == ASet \/ ADelete \/ ASetBad \/ ARoundTrip \/ AAppendMember \/ AXDelete \/ AXSet
Spec == Init /\ [][Next]_vars

(* ---- the property --------------------------------------------------------- *)
Newest == IF objs = <<>> THEN {} ELSE {Len(objs)}
NoDupKeys == \A o \in Newest : \A i, j \in 1..Len(objs[o]) : i # j => objs[o][i][1] # objs[o][j][1]
AllPrintable == \A o \in Newest : \A i \in 1..Len(objs[o]) : ValidKeyS(objs[o][i][1]) /\ ValidValS(objs[o][i][2])
\* Set replaces an existing key; Delete removes it (as sets: order after Set is not promised)
SetReplaces == last.op = "set" =>
                 /\ Cardinality({i \in 1..Len(last.res) : last.res[i][1] = last.k}) = 1
                 /\ <<last.k, last.v>> \in AsSet(last.res)
                 /\ AsSet(last.res) \ {<<last.k, last.v>>} = AsSet(WithoutK(last.src, last.k))
                 /\ Len(last.res) = Cardinality(AsSet(last.res))
DeleteRemoves == last.op = "del" =>
                 /\ ~HasK(last.res, last.k)
                 /\ AsSet(last.res) = AsSet(WithoutK(last.src, last.k))
                 /\ Len(last.res) = Cardinality(AsSet(last.res))
\* Inject then Extract rebuilds the same entries in the same order
RoundTrip == \A o \in Newest : Promised(objs[o]) => FromHeader(ToHeader(objs[o])) = objs[o]
RoundTripStep == last.op = "rt" => last.res = last.src
\* teeth of the promise: outside it (a ',' after ';') the round trip does NOT hold
PromiseIsTight == LET X == <<<<Str(<<"a">>), Str(<<"b", "sc", "a", "cm", "b">>)>>>> IN
                  ~Promised(X) /\ FromHeader(ToHeader(X)) # X
\* characters outside the token set never appear unescaped in the key / value part of a member
HeaderClean == \A o \in Newest : \A i \in 1..Len(objs[o]) :
                 LET e == objs[o][i]
                     m == Enc(e[1]) \o Enc(ValPart(e[2]))
                 IN \A j \in 1..Len(m) : (m[j].t = "lit" /\ m[j].c \in TokenCh) \/ m[j].t = "enc"
\* extraction: only valid members, at most 180, nothing from an over-long header
ExtractValid == last.op = "extract" =>
                 /\ Len(last.res) <= MaxMembers
                 /\ \A i \in 1..Len(last.res) :
                      last.res[i] = Wild \/ (ValidKeyS(last.res[i][1]) /\ ValidValS(last.res[i][2]))
                 /\ (Size(last.hdr) > MaxHeader => last.res = <<>>)
\* a repeated key: the band is as wide as claimed (keeping every occurrence, the first, the last in place or
\* moved to the front are all allowed) and no wider (losing any member whose key is its own, or exchanging
\* two of them, is not allowed)
NoWildIn(items) == \A i \in 1..Len(items) : items[i] # Wild
DupBand == (last.op = "extract" /\ NoWildIn(last.res)) =>
             LET it == last.res
                 own == {i \in 1..Len(it) : ~SameKeyEarlier(it, i) /\ ~SameKeyLater(it, i)}
             IN /\ Allowed(it, it) /\ Allowed(it, FirstWins(it)) /\ Allowed(it, LastWins(it)) /\ Allowed(it, LastWinsFront(it))
                /\ Len(it) <= 8 =>
                     /\ \A i \in own : ~Allowed(it, RemoveAt1(it, i))
                     /\ \A i, j \in own : i < j =>
                           ~Allowed(it, [x \in 1..Len(it) |-> IF x = i THEN it[j] ELSE IF x = j THEN it[i] ELSE it[x]])
\* Set / Delete on an extracted baggage: the key is gone (Set: listed once, with the new value), every entry with
\* another key is still there as often as before, in the same order
XOpsRemove == last.op \in {"xdel", "xset"} =>
                LET nk == Norm(last.k)
                    at == {i \in 1..Len(last.res) : Norm(last.res[i][1]) = nk}
                IN /\ (last.op = "xdel" => at = {})
                   /\ (last.op = "xset" => at = {1} /\ last.res[1] = <<last.k, last.v>>)
                   /\ SelectSeq(last.res, LAMBDA e : Norm(e[1]) # nk) = SelectSeq(last.src, LAMBDA e : Norm(e[1]) # nk)
\* generated headers with a repeated key stay within the member-count limit (which members "the first 180" are
\* when some of them share a key is not pinned)
DupWithinLimit == (last.op = "extract" /\ HasDup(last.res)) => Len(MembersOf(last.hdr)) <= MaxMembers
OriginalUntouched == [][\A i \in 1..Len(objs) : objs'[i] = objs[i]]_vars

(* ---- behaviour export ------------------------------------------------------ *)
View == bvars
Done == nops = MaxOps
EmitAll == Done => PrintT(<<"BEH", ToJson(hist)>>)
EmitDup == (Menu = "dup" /\ (nops = MaxOps \/ (nops = 1 /\ (HasDup(objs[Len(objs)]) \/ ~Promised(objs[Len(objs)]))) \/ (nops = 0 /\ Len(objs[1]) > 5)))
           => PrintT(<<"BEH", ToJson(hist)>>)
EmitMix == (Menu = "mix" /\ nops >= 1) => PrintT(<<"BEH", ToJson(hist)>>)
WitDev == (hist # <<>> /\ hist[1].op = "extract" /\ hist[1].dev # <<>>) => (PrintT(<<"BEH", ToJson(hist)>>) /\ FALSE)
=============================================================================
