\* meter identity: one view, EVERY meter selector x EVERY meter over {empty, a, b}^3 (name, version, schema url),
\* model checking + sweep export (BEHS lines); thorough tier: UnitSelAll x IUnitsAll on top
CONSTANTS
  TypeSet <- Types1   PatSet <- PatAllOnly   UnitSelSet <- UnitSelAny   MSelSet <- MSelsAll   ShapeSet <- Shape1
  INameSet <- IName1   IUnitSet <- IUnit1   MeterSet <- MetersAll   AttrSet <- Attrs1
  MaxViews = 1  MaxInst = 1  Hist = FALSE
INIT Init
NEXT Next
VIEW View
INVARIANTS ExactlyMatching OnlyViewShapes MeterIdentityExact DefaultWhenNoMatch DevNarrow EmitSweep
