\* C18, quick-tier configuration 'readers-ideal' (tools/props/C18.py generates this and the other configurations at run time)
CONSTANTS
 Dev = {}
 Hist = FALSE
 Mode = "readers"
 Keys = {}
 Vals = {}
 EKeys = {}
 SVals = {}
 Urls = {}
 TokKinds = {}
 MaxTok = 0
 SvcKinds = {"unset"}
 MaxPool = 2
 MaxProv = 0
 MaxSteps = 0
 DefUrls = {""}
 DefExtras = {{}}
 EnvUrls = {""}
 RdKinds = {}
 RdPres = {}
 RdBodies = {}
 RdSufs = {}
 RdTb = {}
 RdErr = {}
INIT Init
NEXT Next
VIEW View
INVARIANTS ExactOrDefault DevOnlyWhereBroken DocExact OtherDefault BandEitherOr NoPartial UnsetIsUnset StrictConform
