----------------------------- MODULE TraceState -----------------------------
(***************************************************************************)
(* C14 - API-level reference model of opentelemetry::trace::TraceState     *)
(*   api/include/opentelemetry/trace/trace_state.h                         *)
(*   api/include/opentelemetry/common/kv_properties.h (tokenizer, storage) *)
(*                                                                         *)
(* A TraceState is an ordered list of members <<key, value>>.  Keys and    *)
(* values are ABSTRACT: a pair <<class, n>>, the class deciding validity   *)
(* under the W3C grammar (the partition below), n the identity.  The C++   *)
(* replayer turns <<class, n>> into real strings (harness/c14_tracestate.cc*)
(* holds the table).  Every operation creates a NEW object (objs grows),   *)
(* objects are never changed: immutability is the action property          *)
(* OriginalUntouched, and the replayer re-observes every object after      *)
(* every step.                                                             *)
(*                                                                         *)
(* Key classes   valid:   s   simple key (lcalpha start, [a-z0-9_-*/])     *)
(*                        m   multi-tenant  tenant@system                  *)
(*                        b   simple key of exactly 256 characters         *)
(*                        bm  tenant of 241 + '@' + system of 14 (=256)    *)
(*               invalid: K257 Kup Kempty Kill Kat Kmt15 Kmt242 K8bit      *)
(*                        KctlFirst K8bitFirst (illegal FIRST byte)        *)
(* Value classes valid:   s simple, sp inner/leading blanks, b exactly 256,*)
(*                        x punctuation                                    *)
(*               invalid: Vtrail Vcomma Veq V257 Vempty Vctl V8bit         *)
(*                        VctlLast V8bitLast (illegal LAST byte)           *)
(* (simple keys starting with a digit are in NO class: level-1 and level-2 *)
(*  of the W3C text disagree on them - a don't-care.)                      *)
(*                                                                         *)
(* Dev = set of named deviations the checked behaviour may use (known      *)
(* findings).  Dev = {} is the property.                                   *)
(***************************************************************************)
EXTENDS Naturals, Sequences, FiniteSets, TLC, Json

CONSTANTS Dev,      \* subset of AllDevs
          Hist,     \* BOOLEAN: record the behaviour (generation runs only)
          Menu,     \* "ops": histories from canonical lists; "parse": the header family, then a round trip
          MaxOps,   \* number of steps after the initial FromHeader
          Sizes     \* sizes of the initial lists in Menu "ops"

Max == 32
AllDevs == {"set-duplicates-existing-key", "set-existing-at-max-not-updated"}

ValidKC   == {"s", "m", "b", "bm"}
InvalidKC == {"K257", "Kup", "Kempty", "Kill", "Kat", "Kmt15", "Kmt242", "K8bit", "KctlFirst", "K8bitFirst"}
ValidVC   == {"s", "sp", "b", "x"}
InvalidVC == {"Vtrail", "Vcomma", "Veq", "V257", "Vempty", "Vctl", "V8bit", "VctlLast", "V8bitLast"}
\* inside a header a trailing blank is optional white space and ',' is the separator
HeaderInvalidVC == {"Veq", "V257", "Vempty", "Vctl", "V8bit", "VctlLast", "V8bitLast"}

ValidKey(k) == k[1] \in ValidKC
ValidVal(v) == v[1] \in ValidVC
NoK == <<"none", 0>>

(* ---- the list operations the property describes ----------------------- *)
Keys(L)       == {L[i][1] : i \in 1..Len(L)}
Has(L, k)     == \E i \in 1..Len(L) : L[i][1] = k
Without(L, k) == SelectSeq(L, LAMBDA m : m[1] # k)
FirstIdx(L, k) == CHOOSE i \in 1..Len(L) : L[i][1] = k /\ \A j \in 1..(i - 1) : L[j][1] # k
FirstVal(L, k) == L[FirstIdx(L, k)][2]

\* Set: key first with the new value, every other member once in its previous order; a key not
\* present is refused (unchanged copy) at 32 members; invalid key/value -> empty default state
SetIdeal(L, k, v) ==
  IF ~ValidKey(k) \/ ~ValidVal(v) THEN <<>>
  ELSE IF ~Has(L, k) /\ Len(L) >= Max THEN L
  ELSE <<<<k, v>>>> \o Without(L, k)

\* the catalogue of deviations: what the code is known to do instead, and when
SetAlt(L, k, v) ==
  IF ValidKey(k) /\ ValidVal(v) /\ Has(L, k)
    THEN IF Len(L) < Max
           THEN <<[dev |-> "set-duplicates-existing-key", res |-> <<<<k, v>>>> \o L]>>
           ELSE <<[dev |-> "set-existing-at-max-not-updated", res |-> L]>>
    ELSE <<>>

DeleteIdeal(L, k) == IF ~ValidKey(k) THEN <<>> ELSE Without(L, k)

GetRes(L, k) == IF ValidKey(k) /\ Has(L, k) THEN <<TRUE, FirstVal(L, k)>> ELSE <<FALSE, NoK>>

(* ---- headers: a sequence of list-member tokens ------------------------- *)
\*  t = "kv"    key '=' value, ows = blanks around the member ("none","sp","tab","both")
\*  t = "empty" empty member (ows = "none") or blank-only member
\*  t = "junk"  a member made only of illegal bytes (controls that are not white space, DEL, 0x80..0xff)
\*  t = "noeq"  a member without '='
Tok(t, k, v, ows) == [t |-> t, k |-> k, v |-> v, ows |-> ows]
ToHeader(L) == [i \in 1..Len(L) |-> Tok("kv", L[i][1], L[i][2], "none")]
TokInvalid(x) == x.t \in {"noeq", "junk"} \/ (x.t = "kv" /\ (~ValidKey(x.k) \/ ~ValidVal(x.v)))
NonEmpty(h) == SelectSeq(h, LAMBDA x : x.t # "empty")
\* any invalid member, or more than 32 members -> the empty default state, never a partial list
FromHeader(h) ==
  LET ne == NonEmpty(h) IN
  IF (\E i \in 1..Len(ne) : TokInvalid(ne[i])) \/ Len(ne) > Max THEN <<>>
  ELSE [i \in 1..Len(ne) |-> <<ne[i].k, ne[i].v>>]
\* don't-care band: a valid header that is not in canonical form (empty members, blanks).  The
\* statement only demands all-or-nothing for it: the complete list, or the empty state.
Loose(h) == /\ FromHeader(h) # <<>>
            /\ (Len(NonEmpty(h)) # Len(h) \/ \E i \in 1..Len(h) : h[i].ows # "none")
FromAlt(h) == IF Loose(h) THEN <<[dev |-> "dc", res |-> <<>>]>> ELSE <<>>

(* ---- the families TLC enumerates --------------------------------------- *)
KCof(i) == CASE i % 8 = 3 -> "m" [] i % 8 = 5 -> "b" [] i % 8 = 7 -> "bm" [] OTHER -> "s"
VCof(i) == CASE i % 4 = 2 -> "sp" [] i % 8 = 4 -> "b" [] i % 8 = 0 -> "x" [] OTHER -> "s"
Base(n)  == [i \in 1..n |-> <<<<KCof(i), i>>, <<VCof(i), i>>>>]
Canon(n) == ToHeader(Base(n))
Pos(n)   == {1, (n + 1) \div 2, n} \cap (1..n)
Replace(h, p, x)  == [h EXCEPT ![p] = x]
InsertAt(h, p, x) == SubSeq(h, 1, p - 1) \o <<x>> \o SubSeq(h, p, Len(h))

ParseHeaders ==
  {Canon(n) : n \in {0, 1, 2, 3, 31, 32, 33, 34, 40}}
  \cup UNION {{Replace(Canon(n), p, [Canon(n)[p] EXCEPT !.ows = w]) : p \in Pos(n), w \in {"sp", "tab", "both"}}
               : n \in {1, 2, 31, 32}}
  \cup UNION {{InsertAt(Canon(n), p, Tok("empty", NoK, NoK, w)) : p \in Pos(n) \cup {n + 1}, w \in {"none", "sp"}}
               : n \in {0, 1, 2, 31, 32, 33}}
  \cup UNION {{Replace(Canon(n), p, Tok("noeq", NoK, NoK, "none")) : p \in Pos(n)} : n \in {1, 2, 32}}
  \cup UNION {{Replace(Canon(n), p, [Canon(n)[p] EXCEPT !.k = <<kc, 900>>]) : p \in Pos(n), kc \in InvalidKC}
               : n \in {1, 3, 32}}
  \cup UNION {{Replace(Canon(n), p, [Canon(n)[p] EXCEPT !.v = <<vc, 900>>]) : p \in Pos(n), vc \in HeaderInvalidVC}
               : n \in {1, 3, 32}}
  \cup UNION {{Replace(Canon(n), p, Tok("junk", NoK, NoK, "none")) : p \in Pos(n)} : n \in {1, 3, 32}}
  \cup UNION {{InsertAt(Canon(n), p, Tok("junk", NoK, NoK, "none")) : p \in {1, n + 1}} : n \in {0, 2, 31}}
  \cup {Replace(Canon(33), 33, [Canon(33)[33] EXCEPT !.k = <<"Kup", 900>>])}
  \cup {InsertAt(InsertAt(Canon(32), 33, Tok("empty", NoK, NoK, "none")), 34, Tok("empty", NoK, NoK, "none"))}

InitHeaders == IF Menu = "parse" THEN ParseHeaders ELSE {Canon(n) : n \in Sizes}

VARIABLES objs,      \* sequence of lists: every TraceState object created so far
          latest,    \* ghost, per object: key -> value most recently set on the way to it
          last,      \* ghost: the last operation (source list, arguments, result)
          flags,     \* ghost: which rare situations happened (witness-directed generation)
          devUsed,   \* deviations taken
          nops,
          hist       \* behaviour export, hidden by VIEW

bvars == <<objs, latest, last, flags, devUsed, nops>>
vars  == <<bvars, hist>>

LatestOf(L) == [k \in Keys(L) |-> FirstVal(L, k)]
Ent(r) == IF Hist THEN Append(hist, r) ELSE hist

Init ==
  \E h \in InitHeaders :
    /\ objs = <<FromHeader(h)>>
    /\ latest = <<LatestOf(FromHeader(h))>>
    /\ last = [op |-> "from", hdr |-> h, res |-> FromHeader(h)]
    /\ flags = {} /\ devUsed = {} /\ nops = 0
    /\ hist = IF Hist THEN <<[op |-> "from", hdr |-> h, exp |-> FromHeader(h), alt |-> FromAlt(h)]>> ELSE <<>>

\* an operation that produced a new object
Commit(op, o, k, v, res, lat, alts, dv, fl) ==
  /\ objs' = Append(objs, res)
  /\ latest' = Append(latest, lat)
  /\ last' = [op |-> op, o |-> o, src |-> objs[o], k |-> k, v |-> v, res |-> res]
  /\ flags' = flags \cup fl
  /\ devUsed' = devUsed \cup dv
  /\ nops' = nops + 1
  /\ hist' = Ent([op |-> op, o |-> o, k |-> k, v |-> v, exp |-> res, alt |-> alts, fl |-> fl])

DoSet(o, k, v) ==
  LET L     == objs[o]
      ok    == ValidKey(k) /\ ValidVal(v)
      ideal == SetIdeal(L, k, v)
      alt   == SetAlt(L, k, v)
      lat   == IF ~ok THEN <<>>
               ELSE IF ~Has(L, k) /\ Len(L) >= Max THEN latest[o]
               ELSE (k :> v) @@ latest[o]
      fl    == (IF ok /\ ~Has(L, k) /\ Len(L) >= Max THEN {"refused"} ELSE {})
               \cup (IF ok /\ Has(L, k) /\ Len(L) >= Max THEN {"exist_at_max"} ELSE {})
               \cup (IF ok /\ Has(L, k) /\ Len(L) < Max THEN {"exist_below_max"} ELSE {})
               \cup (IF ok /\ ~Has(L, k) /\ Len(L) = Max - 1 THEN {"grow_to_max"} ELSE {})
               \cup (IF ~ok /\ Len(L) > 0 THEN {"invalid_on_nonempty"} ELSE {})
               \cup (IF ok /\ Has(L, k) /\ FirstVal(L, k) = v /\ L[1][1] # k
                      THEN {IF Len(L) >= Max THEN "same_value_moved_at_max" ELSE "same_value_moved"} ELSE {})
  IN \/ Commit("set", o, k, v, ideal, lat, alt, {}, fl)
     \/ /\ alt # <<>> /\ alt[1].dev \in Dev
        /\ Commit("set", o, k, v, alt[1].res, lat, <<[dev |-> "ideal", res |-> ideal]>>, {alt[1].dev}, fl)

DoDel(o, k) ==
  LET L   == objs[o]
      lat == IF ~ValidKey(k) THEN <<>> ELSE [x \in (DOMAIN latest[o]) \ {k} |-> latest[o][x]]
      fl  == IF ValidKey(k) /\ Has(L, k) /\ Len(L) >= Max THEN {"del_at_max"} ELSE {}
  IN Commit("del", o, k, NoK, DeleteIdeal(L, k), lat, <<>>, {}, fl)

DoGet(o, k) ==
  /\ last' = [op |-> "get", o |-> o, src |-> objs[o], k |-> k, v |-> NoK, res |-> GetRes(objs[o], k)]
  /\ nops' = nops + 1
  /\ UNCHANGED <<objs, latest, flags, devUsed>>
  /\ hist' = Ent([op |-> "get", o |-> o, k |-> k, exp |-> GetRes(objs[o], k)])

NewKey(kc) == <<kc, 100 + nops>>
NewVal(vc) == <<vc, 200 + nops>>
Objs == DOMAIN objs
More == nops < MaxOps /\ Menu = "ops"

ASetExisting == More /\ \E o \in Objs : \E p \in Pos(Len(objs[o])) : \E vc \in {"s", "sp"} :
                   DoSet(o, objs[o][p][1], NewVal(vc))
\* Set of a present key with EXACTLY the value it already has (same abstract value = same bytes): the member
\* still moves to the front - "Set places the given key first", whether or not the value changes
ASetSame     == More /\ \E o \in Objs : \E p \in Pos(Len(objs[o])) : DoSet(o, objs[o][p][1], objs[o][p][2])
ASetNew      == More /\ \E o \in Objs : \E c \in {<<"s", "s">>, <<"m", "sp">>, <<"b", "b">>, <<"bm", "x">>} :
                   DoSet(o, NewKey(c[1]), NewVal(c[2]))
ASetBadKey   == More /\ \E o \in Objs : \E kc \in InvalidKC : DoSet(o, NewKey(kc), NewVal("s"))
ASetBadVal   == More /\ \E o \in Objs : \E vc \in InvalidVC : \E w \in {"new", "first"} :
                   DoSet(o, IF w = "first" /\ Len(objs[o]) > 0 THEN objs[o][1][1] ELSE NewKey("s"), NewVal(vc))
ADelete      == More /\ \E o \in Objs : \E p \in Pos(Len(objs[o])) : DoDel(o, objs[o][p][1])
ADeleteAbsent == More /\ \E o \in Objs : DoDel(o, NewKey("s"))
ADeleteBad   == More /\ \E o \in Objs : \E kc \in InvalidKC : DoDel(o, NewKey(kc))
AGetPresent  == More /\ \E o \in Objs : \E p \in Pos(Len(objs[o])) : DoGet(o, objs[o][p][1])
AGetAbsent   == More /\ \E o \in Objs : DoGet(o, NewKey("m"))
AGetBad      == More /\ \E o \in Objs : \E kc \in InvalidKC : DoGet(o, NewKey(kc))
\* ToHeader followed by FromHeader (in every Menu)
ARoundTrip   == nops < MaxOps /\ \E o \in Objs :
                   Commit("rt", o, NoK, NoK, FromHeader(ToHeader(objs[o])), latest[o], <<>>, {}, {})

Next == ASetExisting \/ ASetSame \/ ASetNew \/ ASetBadKey \/ ASetBadVal \/ ADelete \/ ADeleteAbsent \/ ADeleteBad
        \/ AGetPresent \/ AGetAbsent \/ AGetBad \/ ARoundTrip

Spec == Init /\ [][Next]_vars

(* ---- the property (every clause of C14) -------------------------------- *)
NoDup(L) == \A i, j \in 1..Len(L) : i # j => L[i][1] # L[j][1]
Others(L, k) == SelectSeq(L, LAMBDA m : m[1] # k)
Count(L, k) == Cardinality({i \in 1..Len(L) : L[i][1] = k})
IsSet == last.op = "set"
SetOk == IsSet /\ ValidKey(last.k) /\ ValidVal(last.v)

\* objects are only ever appended and never change (OriginalUntouched), so it suffices to state the
\* per-object clauses for the newest object: every object was the newest one in some earlier state
Newest == {Len(objs)}
AllValid == \A o \in Newest : \A i \in 1..Len(objs[o]) : ValidKey(objs[o][i][1]) /\ ValidVal(objs[o][i][2])
AtMost32 == \A o \in Newest : Len(objs[o]) <= Max
NoDuplicate == \A o \in Newest : NoDup(objs[o])
\* Set places the key first with the new value, keeps every other member once, in its order
SetPutsFirstKeepsRestOnce ==
  (SetOk /\ (Has(last.src, last.k) \/ Len(last.src) < Max)) =>
     /\ Len(last.res) >= 1 /\ last.res[1] = <<last.k, last.v>>
     /\ Count(last.res, last.k) = 1
     /\ Others(last.res, last.k) = Others(last.src, last.k)
\* ... also when the value passed in is the one the member already has
SameValueStillMoves == (SetOk /\ Has(last.src, last.k) /\ FirstVal(last.src, last.k) = last.v) =>
                          (last.res[1] = <<last.k, last.v>> /\ Len(last.res) = Len(last.src))
RefusedAtMax == (SetOk /\ ~Has(last.src, last.k) /\ Len(last.src) >= Max) => last.res = last.src
DeleteExact == (last.op = "del" /\ ValidKey(last.k)) =>
                 /\ ~Has(last.res, last.k)
                 /\ Others(last.res, last.k) = Others(last.src, last.k)
InvalidYieldsEmpty ==
  /\ (IsSet /\ ~SetOk) => last.res = <<>>
  /\ (last.op = "del" /\ ~ValidKey(last.k)) => last.res = <<>>
  /\ (last.op = "from" /\ ((\E i \in 1..Len(last.hdr) : TokInvalid(last.hdr[i])) \/ Len(NonEmpty(last.hdr)) > Max))
        => last.res = <<>>
\* Get returns the value most recently set (ghost `latest` is maintained independently of the lists)
GetIsLatest == \A o \in Newest :
                 /\ DOMAIN latest[o] = Keys(objs[o])
                 /\ \A k \in Keys(objs[o]) : GetRes(objs[o], k) = <<TRUE, latest[o][k]>>
GetMatchesLast == last.op = "get" => last.res = GetRes(last.src, last.k)
HeaderRoundTrip == \A o \in Newest : FromHeader(ToHeader(objs[o])) = objs[o]
\* action property: no operation changes an existing object
OriginalUntouched == [][\A i \in 1..Len(objs) : objs'[i] = objs[i]]_vars

\* with deviations enabled: every way of breaking the property goes through a named deviation
OnlyThroughDev == (NoDuplicate /\ SetPutsFirstKeepsRestOnce /\ GetIsLatest) \/ devUsed # {}

(* ---- behaviour export --------------------------------------------------- *)
View == bvars
Done == nops = MaxOps
EmitAll == Done => PrintT(<<"BEH", ToJson(hist)>>)
Wit(f) == (f \subseteq flags /\ Done) => (PrintT(<<"BEH", ToJson(hist)>>) /\ FALSE)
WitRefused      == Wit({"refused"})
WitExistAtMax   == Wit({"exist_at_max"})
WitExistBelow   == Wit({"exist_below_max"})
WitGrowRefuse   == Wit({"grow_to_max", "refused"})
WitGrowUpdate   == Wit({"grow_to_max", "exist_at_max"})
WitDelAtMaxGrow == Wit({"del_at_max", "grow_to_max"})
WitInvalid      == Wit({"invalid_on_nonempty"})
=============================================================================
