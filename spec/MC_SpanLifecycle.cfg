\* reference configuration (tools/props/C04.py generates its configurations from this shape)
CONSTANTS Keys = {1, 2}  Vals = {1, 2, 3}  Names = {1, 2}  Kinds = {1}  Ctxs = {1}  Times = {1}
          Resources = {1}  Scopes = {1}  Procs <- P_sb
          MaxStartAttrs = 2  MaxLinks = 0  MaxLinkAttrs = 0  MaxEvents = 1  MaxEvAttrs = 1  MaxOps = 5
          Ghost = FALSE  Dev = {}  Hist = FALSE
INIT Init
NEXT Next
VIEW ViewState
INVARIANTS TypeOK ExportedOncePerProcessor SnapshotEqualsState AllProcessorsIdentical RecordingIffNotEnded
           SimpleIsSynchronous FlushedAtTheEnd LastWriteWins NameIsLastUpdate EventsInCallOrder StatusIsLastSet
PROPERTY AfterEndNothingChanges
