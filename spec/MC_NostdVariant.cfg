CONSTANTS Hist = FALSE  Depth = 0  Dev = {}  Slim = FALSE
INIT Init
NEXT Next
INVARIANTS TypeOK Property
