CONSTANTS Hist = FALSE  Depth = 0  Dev = {}  Slim = FALSE  Shape = "throwing"
INIT Init
NEXT Next
INVARIANTS TypeOK Property
