---------------------- MODULE TraceContextHeaderTrace ----------------------
(***************************************************************************)
(* C09, code -> spec: validates recorded executions of the real            *)
(* HttpTraceContext against the TOKEN-level grammar of                     *)
(* TraceContextHeader.tla (Parse, Dig, HasLetter, NonZero).  The harness   *)
(* abstracts every byte of a header to one token (a 256-entry table) and   *)
(* every id byte to two nibbles; everything else is decided here.          *)
(*                                                                         *)
(* Events (one ndjson line each; every event is an execution of its own):  *)
(*  X  Extract from arbitrary bytes: toks, and the observable result       *)
(*     out ("unchanged" | "valid" | "invalid" | ...), remote, tid, sid      *)
(*     (nibbles), flags, tsok (trace state of the result = the carrier's)  *)
(*  I  Inject of a context (has, tid, sid, fl, nts = trace-state members): *)
(*     tp = tokens of the traceparent written (<<>>: none), tsw = a        *)
(*     tracestate was written, x = result of extracting what was injected  *)
(*                                                                         *)
(* Because the events are independent, an event that no rule explains is   *)
(* recorded in `bad` and skipped (that is "cut the execution out and go    *)
(* on"); `devAt` records the first event that needed each deviation;       *)
(* `kinds` counts what the grammar says about the recorded inputs.         *)
(***************************************************************************)
EXTENDS TraceContextHeader, IOUtils

TraceLog == ndJsonDeserialize(IOEnv.TRACE)

VARIABLES l, bad, devAt, nexec, kinds
tvars == <<l, bad, devAt, nexec, kinds>>

Ev == TraceLog[l]

ExactOut(x, tid, sid, flags) ==
  x.out = "valid" /\ x.remote /\ x.tid = tid /\ x.sid = sid /\ x.flags = flags /\ x.tsok
ExtractOK(toks, x) ==
  LET r == Parse(toks) IN
    CASE r.o = "reject" -> x.out = "unchanged"
      [] r.o = "accept" -> ExactOut(x, r.tid, r.sid, r.flags)
      [] r.o = "either" -> x.out = "unchanged" \/ ExactOut(x, r.tid, r.sid, r.flags)

Level1(tid, sid, fl, up) ==
  <<0, 0, Dash>> \o tid \o <<Dash>> \o sid \o <<Dash, Dig(fl \div 16, up), Dig(fl % 16, up)>>
ValidCtx(e) == e.has /\ NonZero(e.tid) /\ NonZero(e.sid)
InjIdeal(e) ==
  IF ValidCtx(e)
    THEN /\ e.tp = Level1(e.tid, e.sid, e.fl, FALSE) /\ Len(e.tp) = 55
         /\ e.tsw = (e.nts > 0)
         /\ ExactOut(e.x, e.tid, e.sid, e.fl)
    ELSE e.tp = <<>> /\ ~e.tsw /\ e.x.out = "unchanged"
InjDevF8(e) ==
  /\ DevF8 \in Dev /\ ValidCtx(e) /\ HasLetter(e.fl)
  /\ e.tp = Level1(e.tid, e.sid, e.fl, TRUE)
  /\ e.tsw = (e.nts > 0)
  /\ ExtractOK(e.tp, e.x)

Explained(e) == CASE e.e = "X" -> ExtractOK(e.toks, e)
                  [] e.e = "I" -> InjIdeal(e) \/ InjDevF8(e)
NeedsDev(e) == IF e.e = "I" /\ ~InjIdeal(e) /\ InjDevF8(e) THEN {DevF8} ELSE {}

TInit == /\ TLCSet(1, 0)
         /\ l = 1 /\ bad = <<>> /\ devAt = [d \in {} |-> 0] /\ nexec = 0
         /\ kinds = [k \in {"accept", "either", "reject", "inject", "noinject"} |-> 0]
         /\ phase = "trace" /\ sc = NoSC /\ car = EmptyCar /\ res = Rej /\ devUsed = {} /\ tl = NoTail

TStep == /\ l <= Len(TraceLog) /\ l' = l + 1 /\ nexec' = nexec + 1
         /\ IF Explained(Ev)
              THEN /\ bad' = bad
                   /\ devAt' = devAt @@ [d \in NeedsDev(Ev) |-> l]
              ELSE /\ bad' = (IF Len(bad) < 50 THEN Append(bad, l) ELSE bad)
                   /\ devAt' = devAt
         /\ LET k == IF Ev.e = "X" THEN Parse(Ev.toks).o ELSE IF ValidCtx(Ev) THEN "inject" ELSE "noinject"
            IN kinds' = [kinds EXCEPT ![k] = @ + 1]
         /\ UNCHANGED vars

TNext == TStep
TSpec == TInit /\ [][TNext]_<<vars, tvars>>

Progress == TLCSet(1, IF l > TLCGet(1) THEN l ELSE TLCGet(1))
\* POSTCONDITION: the whole log was consumed
Accepted == IF TLCGet(1) = Len(TraceLog) + 1 THEN TRUE
            ELSE PrintT(<<"REJECTED_AT", TLCGet(1)>>) /\ FALSE
Report == (l = Len(TraceLog) + 1) =>
             /\ PrintT(<<"ACCEPTED", nexec>>)
             /\ PrintT(<<"BAD", ToJson(bad)>>)
             /\ PrintT(<<"DEVUSED", ToJson(devAt)>>)
             /\ PrintT(<<"KINDS", ToJson(kinds)>>)
=============================================================================
