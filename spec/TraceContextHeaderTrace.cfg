\* template: tools/props/C09.py writes a copy with Dev = the deviations currently listed as known
CONSTANTS
  Dev = {"traceflags-upper-hex-inject"}
  TidC = {"rand"}
  SidC = {"rand"}
  TsC = {"none"}
  NFlag = 256
  RepFlags = {1}
  MaxFaults = 0
  SweepFaults = 0
  TailBases = {}
  TailPos = 0
  ShortKinds = {}
  ShortLen = 0
INIT TInit
NEXT TNext
CONSTRAINT Progress
INVARIANT Report
POSTCONDITION Accepted
CHECK_DEADLOCK FALSE
