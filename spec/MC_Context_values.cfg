\* C10 exhaustive: the growing family of contexts (immutability, shadowing), shallow stack
CONSTANTS NT = 1  NK = 2  NV = 1  NS = 1  MaxCtx = 3  MaxSet = 2  MaxDepth = 1  MaxMap = 2  MaxDrop = 3  MaxTok = 1  SampleToks = 0  WithEmpty = FALSE
          GenDepth = 0  DeepTarget = 99  Hist = FALSE  KeepFlags = FALSE  Dev = {}
INIT Init
NEXT Next
VIEW View
INVARIANTS TypeOK MostRecentBinding Shadowing StackFrames
PROPERTIES Immutable AttachMakesCurrent DetachRestores ForeignTokenNoOp TokenLifetime ScopeActivates ThreadsIsolated
