-------------------------- MODULE InstrumentNames --------------------------
(***************************************************************************)
(* C19, first clause: "An instrument is created for exactly the names of   *)
(* the form letter followed by up to 254 letters, digits, '_', '.', '-' or *)
(* '/' and units of at most 63 ASCII characters; for any other name or     *)
(* unit the meter returns an inert instrument and no metric stream ever    *)
(* appears for it."                                                        *)
(*                                                                         *)
(* A pure function over an ABSTRACT INPUT PARTITION.  An abstract string   *)
(* is a run-length sequence  << [c |-> class, n |-> count], ... >>  of     *)
(* byte classes; the classes partition all 256 byte values (see Classes).  *)
(* ValidName / ValidUnit are transcribed from the STATEMENT (not from the  *)
(* regular expressions of instrument_metadata_validator.cc).  TLC          *)
(* enumerates the partition (every case is one initial state) and prints,  *)
(* per case, the expected outcome                                          *)
(*      "stream"  a real instrument whose stream appears at a reader       *)
(*      "inert"   an inert instrument, no stream ever                      *)
(* which harness/c19_names.cc compares with the real Meter.                *)
(*                                                                         *)
(* The statement quantifies over all byte values, and the API takes        *)
(* string_views, so a case also says how the view lies in memory           *)
(* (term): "z" NUL right behind it (a C string), "good"/"bad" a            *)
(* NON-terminated view followed by two more bytes (that would keep /       *)
(* break validity) and then NUL, "exact" a view filling its heap block     *)
(* exactly.  The ideal outcome does not depend on term.                    *)
(*                                                                         *)
(* Named deviations (what the unchanged code does, CONVENTIONS 2):         *)
(*  name-validated-as-c-string / unit-validated-as-c-string : the string   *)
(*  is validated as the C string starting at data(): an embedded NUL hides *)
(*  the rest, a non-terminated view drags the following bytes in, an       *)
(*  exactly-sized block is read past its end ("undefined").                *)
(***************************************************************************)
EXTENDS Naturals, Sequences, FiniteSets, TLC, Json

CONSTANTS Part      \* which slice of the partition: "name" | "unit" | "cross" | "bytes" | "all"

AllDevs == {"name-validated-as-c-string", "unit-validated-as-c-string"}

(* ---- byte classes (a partition of 0..255; "alnum"/"asciifill" are fillers) ---- *)
Letter    == {"lower", "upper"}
NameRest  == Letter \cup {"digit", "us", "dot", "dash", "slash", "alnum"}
NonAscii  == {"high"}                                   \* 0x80..0xFF
BaseClasses == {"lower", "upper", "digit", "us", "dot", "dash", "slash",
                "nul", "ctrl", "space", "punct", "high"}
\* fillers: "alnum" = some [a-zA-Z0-9] (legal after the first char), "asciifill" = some 0x01..0x7F
Classes   == BaseClasses \cup {"alnum", "asciifill"}

R(c, n) == [c |-> c, n |-> n]
RECURSIVE Total(_)
Total(s) == IF s = <<>> THEN 0 ELSE Head(s).n + Total(Tail(s))
HasNul(s) == \E i \in 1..Len(s) : s[i].c = "nul"

(* ---- the contract, from the statement ---------------------------------- *)
ValidName(s) == /\ Total(s) \in 1..255                 \* letter + up to 254 more
                /\ s[1].c \in Letter
                /\ \A i \in 1..Len(s) : s[i].c \in NameRest
ValidUnit(s) == /\ Total(s) <= 63
                /\ \A i \in 1..Len(s) : s[i].c \notin NonAscii

(* ---- memory layout and the C-string reading (deviations) --------------- *)
TailOf(term, what) ==
  CASE term = "z"     -> <<R("nul", 1)>>
    [] term = "good"  -> <<R("lower", 2), R("nul", 1)>>
    [] term = "bad"   -> <<R(IF what = "name" THEN "punct" ELSE "high", 2), R("nul", 1)>>
    [] term = "exact" -> <<>>
Mem(s, term, what) == s \o TailOf(term, what)
CStr(m) == LET idx == {i \in 1..Len(m) : m[i].c = "nul"}
               f   == CHOOSE i \in idx : \A j \in idx : i <= j
           IN  SubSeq(m, 1, f - 1)
\* "ok" | "bad" | "undefined" (read past the end of the heap block)
AsCString(s, term, what) ==
  LET m == Mem(s, term, what) IN
  IF ~HasNul(m) THEN "undefined"
  ELSE IF what = "name" THEN (IF ValidName(CStr(m)) THEN "ok" ELSE "bad")
                        ELSE (IF ValidUnit(CStr(m)) THEN "ok" ELSE "bad")

(* ---- outcome under a set D of active deviations ------------------------- *)
Outcome(c, D) ==
  LET nv == IF "name-validated-as-c-string" \in D THEN AsCString(c.name, c.nterm, "name")
            ELSE IF ValidName(c.name) THEN "ok" ELSE "bad"
      uv == IF "unit-validated-as-c-string" \in D THEN AsCString(c.unit, c.uterm, "unit")
            ELSE IF ValidUnit(c.unit) THEN "ok" ELSE "bad"
  IN  IF nv = "bad" THEN "inert"                        \* the unit is not looked at
      ELSE IF nv = "undefined" \/ uv = "undefined" THEN "undefined"
      ELSE IF uv = "ok" THEN "stream" ELSE "inert"
Exp(c)  == Outcome(c, {})
Alts(c) == {[dev |-> D, out |-> Outcome(c, D)] : D \in {D \in (SUBSET AllDevs) \ {{}} : Outcome(c, D) # Exp(c)}}

(* ---- the partition ------------------------------------------------------ *)
Terms     == {"z", "good", "bad", "exact"}
NameLens  == {0, 1, 2, 254, 255, 256, 300}
UnitLens  == {0, 1, 2, 62, 63, 64, 300}
Positions == {"second", "mid", "last"}
Fill(c, k) == IF k = 0 THEN <<>> ELSE <<R(c, k)>>

\* first char of class `first`; one distinguished char of class `sp` ("none": filler) at `pos`
NameOf(len, first, sp, pos) ==
  IF len = 0 THEN <<>>
  ELSE IF len = 1 THEN <<R(first, 1)>>
  ELSE LET p == CASE pos = "second" -> 2 [] pos = "mid" -> (len + 2) \div 2 [] pos = "last" -> len
       IN  <<R(first, 1)>> \o Fill("alnum", p - 2) \o <<R(IF sp = "none" THEN "alnum" ELSE sp, 1)>>
           \o Fill("alnum", len - p)
\* (for units the earliest slot, "second", is index 1: a unit has no distinguished first character)
UnitOf(len, sp, pos) ==
  IF len = 0 THEN <<>>
  ELSE LET p == CASE pos = "second" -> 1 [] pos = "mid" -> (len + 1) \div 2 [] pos = "last" -> len
       IN  Fill("asciifill", p - 1) \o <<R(IF sp = "none" THEN "asciifill" ELSE sp, 1)>>
           \o Fill("asciifill", len - p)

GoodName == <<R("lower", 1), R("alnum", 5)>>
GoodUnit == <<R("asciifill", 2)>>
Case(n, nt, u, ut, sweep) == [name |-> n, nterm |-> nt, unit |-> u, uterm |-> ut, sweep |-> sweep]

NameCases == {Case(NameOf(l, f, sp, pos), t, GoodUnit, "z", "") :
                l \in NameLens, f \in BaseClasses, sp \in BaseClasses \cup {"none"}, pos \in Positions, t \in Terms}
UnitCases == {Case(GoodName, "z", UnitOf(l, sp, pos), t, "") :
                l \in UnitLens, sp \in BaseClasses \cup {"none"}, pos \in Positions, t \in Terms}
CrossCases == {Case(n, "z", u, "z", "") :
                n \in {GoodName, <<R("digit", 1), R("alnum", 3)>>, <<R("lower", 2), R("nul", 1), R("punct", 1)>>,
                       <<R("upper", 1), R("alnum", 255)>>},
                u \in {<<>>, GoodUnit, <<R("high", 1)>>, <<R("lower", 1), R("nul", 1), R("high", 1)>>,
                       <<R("asciifill", 64)>>, <<R("lower", 1), R("nul", 1), R("lower", 70)>>}}
\* byte sweeps: the harness substitutes EVERY byte of class `sweep` for the run of that class
ByteCases == {Case(<<R("lower", 1), R(c, 1), R("alnum", 1)>>, "z", GoodUnit, "z", c) : c \in BaseClasses}
        \cup {Case(<<R(c, 1), R("alnum", 2)>>, "z", <<>>, "z", c) : c \in BaseClasses}
        \cup {Case(<<R("upper", 1)>>, "z", <<R("asciifill", 1), R(c, 1)>>, "z", c) : c \in BaseClasses}

Cases == CASE Part = "name" -> NameCases [] Part = "unit" -> UnitCases
           [] Part = "cross" -> CrossCases [] Part = "bytes" -> ByteCases
           [] Part = "all" -> NameCases \cup UnitCases \cup CrossCases \cup ByteCases

VARIABLE c
Init == c \in Cases
Next == UNCHANGED c
Spec == Init /\ [][Next]_c

(* ---- checked by TLC on the whole partition ------------------------------ *)
TypeOK == /\ \A i \in 1..Len(c.name) : c.name[i].c \in Classes /\ c.name[i].n >= 1
          /\ \A i \in 1..Len(c.unit) : c.unit[i].c \in Classes /\ c.unit[i].n >= 1
\* the statement read clause by clause agrees with ValidName/ValidUnit (a second, independent
\* formulation: count the characters that are NOT allowed)
RECURSIVE BadCount(_, _)
BadCount(s, allowed) == IF s = <<>> THEN 0
                        ELSE (IF Head(s).c \in allowed THEN 0 ELSE Head(s).n) + BadCount(Tail(s), allowed)
StatementName == ValidName(c.name) <=>
                   (c.name # <<>> /\ c.name[1].c \in Letter /\ Total(c.name) - 1 <= 254 /\ BadCount(c.name, NameRest) = 0)
StatementUnit == ValidUnit(c.unit) <=> (Total(c.unit) < 64 /\ BadCount(c.unit, Classes \ NonAscii) = 0)
\* a real instrument needs both; anything else is inert; the outcome ignores the memory layout
ExactlyValid == (Exp(c) = "stream") <=> (ValidName(c.name) /\ ValidUnit(c.unit))
LayoutFree   == \A nt, ut \in Terms : Exp([c EXCEPT !.nterm = nt, !.uterm = ut]) = Exp(c)
\* the deviations are confined to the inputs their names describe
DevNarrow == \A a \in Alts(c) : \/ HasNul(c.name) \/ c.nterm # "z" \/ HasNul(c.unit) \/ c.uterm # "z"
\* the hand-written (regex-free) validators of the same file, transcribed, agree with the statement
\* wherever they are defined (name[0] of an empty view is not) - that variant cannot be compiled here
HandName(s) == /\ ~(Total(s) > 255) /\ s[1].c \in Letter
               /\ \A i \in 1..Len(s) : s[i].c \in Letter \cup {"digit", "alnum", "dash", "us", "dot", "slash"}
HandUnit(s) == ~(Total(s) > 63) /\ \A i \in 1..Len(s) : s[i].c # "high"
HandAgrees == /\ c.name # <<>> => (HandName(c.name) <=> ValidName(c.name))
              /\ HandUnit(c.unit) <=> ValidUnit(c.unit)

(* ---- export: one line per case ------------------------------------------ *)
\* vacuity tags: which boundary / deviation situations this case exhibits (the check demands that
\* every tag occurs in the enumerated partition)
Tags == {t \in {"valid255", "invalid256", "unit63", "unit64", "devname", "devunit", "nulname", "highunit"} :
          CASE t = "valid255"   -> ValidName(c.name) /\ Total(c.name) = 255
            [] t = "invalid256" -> /\ ~ValidName(c.name) /\ Total(c.name) = 256 /\ BadCount(c.name, NameRest) = 0
                                   /\ c.name[1].c \in Letter
            [] t = "unit63"     -> ValidUnit(c.unit) /\ Total(c.unit) = 63
            [] t = "unit64"     -> ~ValidUnit(c.unit) /\ Total(c.unit) = 64 /\ BadCount(c.unit, Classes \ NonAscii) = 0
            [] t = "devname"    -> \E a \in Alts(c) : a.dev = {"name-validated-as-c-string"} /\ a.out # "undefined"
            [] t = "devunit"    -> \E a \in Alts(c) : a.dev = {"unit-validated-as-c-string"} /\ a.out # "undefined"
            [] t = "nulname"    -> HasNul(c.name) /\ c.name[1].c \in Letter
            [] t = "highunit"   -> \E i \in 1..Len(c.unit) : c.unit[i].c = "high"}
Emit == PrintT(<<"BEH", ToJson([name |-> c.name, nterm |-> c.nterm, unit |-> c.unit, uterm |-> c.uterm,
                                sweep |-> c.sweep, exp |-> Exp(c), alts |-> Alts(c), tags |-> Tags])>>)
=============================================================================
