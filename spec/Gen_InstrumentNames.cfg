\* generation run: prints one BEH line (abstract case + expected outcome + deviation alternatives)
CONSTANTS Part = "all"
INIT Init
NEXT Next
INVARIANTS Emit
