-------------------------- MODULE MC_MetricsSync --------------------------
(***************************************************************************)
(* Named constant values for the TLC configurations of MetricsSync.tla     *)
(* (a .cfg file cannot contain tuples); tools/props/C06.py and C08.py      *)
(* write the .cfg files and pick from these with `Temps <- T_dc` etc.      *)
(***************************************************************************)
EXTENDS MetricsSync

\* reader sets
T_d   == <<"delta">>
T_c   == <<"cum">>
T_dc  == <<"delta", "cum">>
T_cd  == <<"cum", "delta">>
T_dd  == <<"delta", "delta">>
T_cc  == <<"cum", "cum">>
T_ddc == <<"delta", "delta", "cum">>

\* view streams: one allowed-key set per view ({0} = no filter)
F_all     == <<{0}>>
F_k1      == <<{1}>>
F_none    == <<{}>>
F_k12     == <<{1, 2}>>
F_all_k1  == <<{0}, {1}>>
F_k1_all  == <<{1}, {0}>>
F_k2_k1   == <<{2}, {1}>>

\* amounts (a .cfg file cannot contain negative numbers)
AM_1   == {1}
AM_12  == {1, 2}
AM_pm  == {1, -1}
AM_pm2 == {2, -1}

\* attribute sequences
P(k, v) == <<k, v>>
AS_two    == {<<P(1,1)>>, <<P(1,2)>>}
AS_perm   == {<<>>, <<P(1,1)>>, <<P(1,1), P(2,1)>>, <<P(2,1), P(1,1)>>}
AS_dup    == {<<P(1,1)>>, <<P(1,2), P(1,1)>>, <<P(1,1), P(1,2)>>, <<P(2,1), P(1,2)>>}
AS_three  == {<<P(1,1)>>, <<P(1,2)>>, <<P(1,3)>>}
AS_four   == {<<P(1,1)>>, <<P(1,2)>>, <<P(1,3)>>, <<P(1,4)>>}
AS_five   == {<<P(1,1)>>, <<P(1,2)>>, <<P(1,3)>>, <<P(1,4)>>, <<P(1,5)>>}
AS_filt   == {<<P(1,1), P(2,1)>>, <<P(2,2), P(1,1)>>, <<P(1,2), P(2,1)>>, <<P(2,1)>>, <<P(3,1), P(1,2), P(1,1)>>}
=============================================================================
