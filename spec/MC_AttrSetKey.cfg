CONSTANTS AKeys = {1, 2}  AVals = {1, 2}  AMaxLen = 3
INIT AInit
NEXT ANext
INVARIANTS KeyedByValue OrderIrrelevant LastWins FilterIsRestriction CanonIsMap
