---------------------------- MODULE ScopeConfig ----------------------------
(***************************************************************************)
(* C19, third clause: "A tracer, meter or logger whose scope the           *)
(* configurator disables produces no telemetry while differently named     *)
(* scopes are unaffected, and requesting the same name/version/schema/     *)
(* attributes returns the same tracer, meter or logger."                   *)
(*                                                                         *)
(* API-level reference machine of a provider (TracerProvider /             *)
(* MeterProvider / LoggerProvider, chosen by `signal`) built with a        *)
(* ScopeConfigurator: an ordered rule list (AddConditionNameEquals /       *)
(* AddCondition) and a default config; scope_configurator.h documents      *)
(* "Conditions are evaluated in order": the first matching rule decides.   *)
(*   Get(sc)   Get{Tracer,Meter,Logger}(name, version, schema[, attrs])    *)
(*   Emit(h)   produce one unit of telemetry through the h-th handle       *)
(*             obtained so far (a span / a counter increment that is then  *)
(*             collected / a log record)                                   *)
(* Observable: pointer identity between the new handle and EVERY earlier    *)
(* handle (same arguments <=> same object: an object shared by two         *)
(* different scope identities would carry the wrong scope and the wrong    *)
(* configurator decision for one of them), and whether the telemetry       *)
(* arrives at the exporter/reader under the scope of the handle.           *)
(* A field may be EMPTY (no name / version / schema url given) - the empty   *)
(* string is a value like any other for identity, and no name for rules.   *)
(* Abstract scope identities are distinct tuples; the replayer also maps   *)
(* them to concrete identities that are RELATED (concatenations of the     *)
(* fields coincide, one field a prefix of another, empty fields).          *)
(*                                                                         *)
(* Named deviation: getlogger-disabled-scope-new-object - LoggerProvider:: *)
(* GetLogger for a scope the configurator disables returns a NEW logger    *)
(* on every call.                                                          *)
(***************************************************************************)
EXTENDS Naturals, Sequences, FiniteSets, TLC, Json

CONSTANTS SignalSet,    \* subset of {"trace", "metrics", "logs"}
          MatcherSet,   \* matchers a rule may use
          ScopeSet,     \* scope identities requested
          MaxRules, MaxGets, MaxEmits,
          Dev,          \* deviations the behaviours may take (MC: {}; generation: carried as alternatives)
          Hist

AllDevs == {"getlogger-disabled-scope-new-object"}

Sc(n, v, s, a) == [name |-> n, version |-> v, schema |-> s, attr |-> a]
Mt(k, v) == [k |-> k, v |-> v]                       \* "name" = v | "ver" = v | "any" | "none"
MatchRule(m, sc) == CASE m.k = "name" -> sc.name = m.v
                      [] m.k = "ver"  -> sc.version = m.v
                      [] m.k = "any"  -> TRUE
                      [] m.k = "none" -> FALSE
Rule(m, en) == [m |-> m, en |-> en]

\* "Conditions are evaluated in order": the first matching rule decides, else the default
RECURSIVE FirstMatch(_, _, _)
FirstMatch(rs, d, sc) == IF rs = <<>> THEN d
                         ELSE IF MatchRule(Head(rs).m, sc) THEN Head(rs).en
                         ELSE FirstMatch(Tail(rs), d, sc)

VARIABLES signal, rules, dflt,      \* configuration (fixed by Init)
          objs,                     \* scope identity -> object id of the provider's registry
          nobj,                     \* objects created so far
          handles,                  \* handles returned so far: [scope, obj]
          attempts, emitted,        \* ghosts: scope of every Emit / of every telemetry item exported
          devUsed, hist
bvars == <<signal, rules, dflt, objs, nobj, handles, attempts, emitted, devUsed>>
vars  == <<bvars, hist>>
Rec(e) == hist' = IF Hist THEN Append(hist, e) ELSE hist

Enabled(sc) == FirstMatch(rules, dflt, sc)

RuleDomain == {Rule(m, en) : m \in MatcherSet, en \in BOOLEAN}
RuleLists  == UNION {[1..n -> RuleDomain] : n \in 0..MaxRules}

Init == /\ signal \in SignalSet /\ rules \in RuleLists /\ dflt \in BOOLEAN
        /\ objs = <<>> /\ nobj = 0 /\ handles = <<>> /\ attempts = <<>> /\ emitted = <<>>
        /\ devUsed = {} /\ hist = <<>>

\* the identity contract: two requests share an object iff name, version, schema and attributes agree
MustShare(a, b) == a = b
SameArgs(sc) == {h \in 1..Len(handles) : MustShare(handles[h].scope, sc)}
Earlier == 1..Len(handles)
F13(sc) == signal = "logs" /\ ~Enabled(sc)

Askable(sc) == sc.attr = "" \/ signal = "logs"    \* ABI v1: only GetLogger takes scope attributes
GetIdeal(sc) ==
  /\ Len(handles) < MaxGets /\ Askable(sc)
  /\ LET o == IF sc \in DOMAIN objs THEN objs[sc] ELSE nobj + 1 IN
     /\ objs' = IF sc \in DOMAIN objs THEN objs ELSE objs @@ (sc :> o)
     /\ nobj' = IF sc \in DOMAIN objs THEN nobj ELSE nobj + 1
     /\ handles' = Append(handles, [scope |-> sc, obj |-> o])
  /\ UNCHANGED <<signal, rules, dflt, attempts, emitted, devUsed>>
  /\ Rec([op |-> "get", scope |-> sc, cmp |-> Earlier, exp |-> SameArgs(sc),
          alts |-> IF F13(sc) /\ SameArgs(sc) # {}
                     THEN {[dev |-> {"getlogger-disabled-scope-new-object"}, same |-> {}]} ELSE {}])
\* what the unchanged LoggerProvider does for a disabled scope: a fresh object every time
GetDev(sc) ==
  /\ "getlogger-disabled-scope-new-object" \in Dev /\ F13(sc) /\ SameArgs(sc) # {}
  /\ Len(handles) < MaxGets
  /\ nobj' = nobj + 1
  /\ objs' = [objs EXCEPT ![sc] = nobj + 1]
  /\ handles' = Append(handles, [scope |-> sc, obj |-> nobj + 1])
  /\ devUsed' = devUsed \cup {"getlogger-disabled-scope-new-object"}
  /\ UNCHANGED <<signal, rules, dflt, attempts, emitted>>
  /\ Rec([op |-> "get", scope |-> sc, cmp |-> Earlier, exp |-> SameArgs(sc),
          alts |-> {[dev |-> {"getlogger-disabled-scope-new-object"}, same |-> {}]}])
Get == \E sc \in ScopeSet : GetIdeal(sc)
GetD == \E sc \in ScopeSet : GetDev(sc)

EmitVia(h) ==
  /\ Len(attempts) < MaxEmits
  /\ LET sc == handles[h].scope IN
     /\ attempts' = Append(attempts, sc)
     /\ emitted' = IF Enabled(sc) THEN Append(emitted, sc) ELSE emitted
     /\ Rec([op |-> "emit", h |-> h, scope |-> sc, exp |-> Enabled(sc)])
  /\ UNCHANGED <<signal, rules, dflt, objs, nobj, handles, devUsed>>
Emit == \E h \in 1..Len(handles) : EmitVia(h)

Next == Get \/ GetD \/ Emit
Spec == Init /\ [][Next]_vars
View == bvars

(* ---- the property ------------------------------------------------------------ *)
Range(s) == {s[j] : j \in 1..Len(s)}
\* first match wins, written declaratively
FirstMatchWins ==
  \A sc \in ScopeSet :
    LET ms == {k \in 1..Len(rules) : MatchRule(rules[k].m, sc)} IN
    Enabled(sc) = IF ms = {} THEN dflt ELSE rules[CHOOSE k \in ms : \A j \in ms : k <= j].en
\* a disabled scope produces no telemetry; every Emit through an enabled scope arrives, in order
DisabledEmitsNothingOthersUnaffected ==
  /\ \A j \in 1..Len(emitted) : Enabled(emitted[j])
  /\ emitted = SelectSeq(attempts, LAMBDA sc : Enabled(sc))
\* a rule that names a scope never changes a differently named scope
RemoveAt(s, k) == [j \in 1..(Len(s) - 1) |-> IF j < k THEN s[j] ELSE s[j + 1]]
DifferentlyNamedUnaffected ==
  \A sc \in ScopeSet : \A k \in 1..Len(rules) :
    (rules[k].m.k = "name" /\ rules[k].m.v # sc.name) => FirstMatch(RemoveAt(rules, k), dflt, sc) = Enabled(sc)
\* same name/version/schema/attributes -> same object
SameArgsSameObject ==
  devUsed = {} => \A a, b \in 1..Len(handles) : handles[a].scope = handles[b].scope => handles[a].obj = handles[b].obj
\* different name/version/schema/attributes -> a different object (with its own scope and config)
DifferentArgsDifferentObject ==
  \A a, b \in 1..Len(handles) : handles[a].scope # handles[b].scope => handles[a].obj # handles[b].obj
\* with the deviation allowed, identity can only break the way the deviation says
DevNarrow ==
  \A a, b \in 1..Len(handles) : (handles[a].scope = handles[b].scope /\ handles[a].obj # handles[b].obj)
     => (signal = "logs" /\ ~Enabled(handles[a].scope))

(* ---- behaviour export ---------------------------------------------------------- *)
\* Sweep export: for one configuration, the continuation "Get(sc); Emit" for EVERY scope at once.
\* tags: vacuity guard (every tag must occur among the replayed cases)
RuleTags(sc) ==
  LET ms == {k \in 1..Len(rules) : MatchRule(rules[k].m, sc)} IN
  {t \in {"enabled", "disabled", "default", "second", "third", "shadowed", "byname", "bycond", "unnamed", "unnamedskip"} :
     CASE t = "enabled"  -> Enabled(sc)
       [] t = "disabled" -> ~Enabled(sc)
       [] t = "default"  -> rules # <<>> /\ ms = {}
       [] t = "second"   -> 1 \notin ms /\ 2 \in ms
       [] t = "third"    -> 1 \notin ms /\ 2 \notin ms /\ 3 \in ms
       [] t = "shadowed" -> \E j, k \in ms : j < k /\ rules[j].en # rules[k].en
       [] t = "byname"   -> ms # {} /\ rules[CHOOSE k \in ms : \A j \in ms : k <= j].m.k = "name"
       [] t = "bycond"   -> ms # {} /\ rules[CHOOSE k \in ms : \A j \in ms : k <= j].m.k # "name"
       \* a scope WITHOUT name; ... whose decision is taken after a rule naming another scope was passed over
       [] t = "unnamed"  -> sc.name = ""
       [] t = "unnamedskip" -> sc.name = "" /\ \E k \in 1..Len(rules) :
                               rules[k].m.k = "name" /\ rules[k].en # Enabled(sc) /\ \A j \in ms : k < j}
Sweep == PrintT(<<"BEHS", ToJson([signal |-> signal, rules |-> rules, dflt |-> dflt,
                                  cases |-> {[scope |-> sc, enabled |-> Enabled(sc), tags |-> RuleTags(sc),
                                              shares |-> {o \in ScopeSet \ {sc} : Askable(o) /\ MustShare(o, sc)}] :
                                               sc \in {sc \in ScopeSet : Askable(sc)}}])>>)
EmitSweep == (handles = <<>>) => Sweep
Done    == Len(handles) = MaxGets /\ Len(attempts) = MaxEmits
Beh(w)  == PrintT(<<"BEH", ToJson([signal |-> signal, rules |-> rules, dflt |-> dflt, steps |-> hist, wit |-> w])>>)
EmitAll == Done => Beh("")
\* witness-directed behaviours: ONE run (workers = 1, breadth first) prints a shortest complete
\* behaviour for every rare situation the first time it is reached (register 1 = situations seen)
\* and stops - "violating" the invariant - once all have been seen
WitNames == {"SameTwice", "DisabledLogTwice", "EnabledLogTwice", "Mixed", "EmitOldHandle"}
WitCond(w) ==
  CASE w = "SameTwice"        -> \E a, b \in 1..Len(handles) : a < b /\ handles[a].scope = handles[b].scope /\ signal # "logs"
    [] w = "DisabledLogTwice" -> \E a, b \in 1..Len(handles) : a < b /\ handles[a].scope = handles[b].scope
                                   /\ ~Enabled(handles[a].scope) /\ signal = "logs"
    [] w = "EnabledLogTwice"  -> \E a, b \in 1..Len(handles) : a < b /\ handles[a].scope = handles[b].scope
                                   /\ Enabled(handles[a].scope) /\ signal = "logs"
    [] w = "Mixed"            -> \E j1, j2 \in 1..Len(attempts) : Enabled(attempts[j1]) /\ ~Enabled(attempts[j2])
    [] w = "EmitOldHandle"    -> Len(hist) >= 3 /\ hist[Len(hist)].op = "emit" /\ hist[Len(hist)].h < Len(handles)
WInit == TLCSet(1, {}) /\ Init
WitAll == Done =>
  LET new == {w \in WitNames : w \notin TLCGet(1) /\ WitCond(w)} IN
  new # {} => /\ \A w \in new : Beh(w)
              /\ TLCSet(1, TLCGet(1) \cup new)
              /\ TLCGet(1) # WitNames

(* ---- named domains for the configs -------------------------------------------- *)
SA1 == Sc("A", "1.0", "s", "")
SA2 == Sc("A", "2.0", "s", "")
SAt == Sc("A", "1.0", "t", "")
SAa == Sc("A", "1.0", "s", "a")     \* with scope attributes (only GetLogger takes them in ABI v1)
SB  == Sc("B", "1.0", "", "")
SC  == Sc("C", "", "", "")
SAe == Sc("A", "", "t", "")         \* empty version
SBs == Sc("B", "", "s", "")
\* identities WITHOUT a name (Get*("") is accepted, the providers only log) and every combination of
\* empty / given name, version and schema url: still distinguished by exactly the four fields, and a
\* rule that names a scope does not apply to the unnamed one
SN  == Sc("", "", "", "")
SNv == Sc("", "1.0", "", "")
ScopesE   == {Sc(n, v, s, "") : n \in {"", "A"}, v \in {"", "1.0"}, s \in {"", "s"}}
Scopes5   == {SA1, SA2, SAt, SB, SC}
Scopes7   == {SA1, SA2, SAt, SB, SC, SAe, SBs}
Scopes9   == Scopes7 \cup {SN, SNv}
Scopes3   == {SA1, SB, SC}
ScopesLog == {SA1, SAa, SB}
Matchers5 == {Mt("name", "A"), Mt("name", "B"), Mt("ver", "1.0"), Mt("any", ""), Mt("none", "")}
Matchers3 == {Mt("name", "A"), Mt("ver", "1.0"), Mt("any", "")}
SignalsAll == {"trace", "metrics", "logs"}
SignalLogs == {"logs"}
SignalOne  == {"trace"}
NoDev == {}
=============================================================================
