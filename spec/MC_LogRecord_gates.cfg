\* C13 exhaustive: null record and disabled logger (ScopeConfigurator) next to an enabled one
CONSTANTS NT = 1  NS = 1  PipeNames = {"sb"}  NRes = 1
          MaxRecs = 2  MaxSets = 0  MaxArgs = 1  MaxFlush = 1  MaxNull = 1  MaxAdd = 0  LgSet = {1, 3}  MaxScope = 1  MaxNest = 1
          NSev = 0  NBody = 1  NTs = 0  NId = 0  NFl = 0  NAK = 0  NAV = 0  MaxMap = 0  NEv = 0  NName = 0
          GenDepth = 0  Hist = FALSE  Dev = {}
INIT Init
NEXT Next
VIEW View
INVARIANTS TypeOK ExportedEqualsEmitted ExactlyOncePerProcessor CorrelationRule DisabledEmitsNothing
PROPERTIES NullIgnored FlushExportsAll OnlyEmitExports
