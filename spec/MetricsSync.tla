---------------------------- MODULE MetricsSync ----------------------------
(***************************************************************************)
(* Reference model of the synchronous metrics pipeline for C06 and C08     *)
(* (sum aggregation: counters and up-down counters).  It describes the     *)
(* DESIGN of                                                               *)
(*   Meter::RegisterSyncMetricStorage / Meter::Collect       (meter.cc)    *)
(*   SyncMetricStorage::Record*, ::Collect   (sync_metric_storage.{h,cc})  *)
(*   TemporalMetricStorage::buildMetrics  (temporal_metric_storage.cc)     *)
(*   AttributesHashMap::GetOrSetDefault / Set   (attributes_hashmap.h)     *)
(* one action per API operation:                                           *)
(*   AddReader    the next reader of Temps is registered (readers beyond   *)
(*                InitReaders arrive in the middle of the history)         *)
(*   ShutdownReader(q)  reader q alone is shut down (MetricReader::Shutdown *)
(*                on that reader; the provider and the other readers keep  *)
(*                running).  It stays in the provider's collector list;    *)
(*                what it is handed afterwards is nobody's business, but   *)
(*                every OTHER reader keeps every clause for ALL            *)
(*                measurements - also those recorded before the shutdown   *)
(*                and first swapped out by the reader that left            *)
(*   Create       a(nother) handle for the one instrument                  *)
(*   Add(h,s,v)   Record: for every view stream, file v under              *)
(*                Canon(s, filter) in the storage's interval table         *)
(*                (cardinality limit: size+1 >= limit -> overflow series)  *)
(*   Collect(r)   for every registered storage: swap the interval table    *)
(*                out, hand it to every reader's stash (or, single delta   *)
(*                reader, report it directly: the fast path), merge this   *)
(*                reader's stash, for a cumulative reader merge with what  *)
(*                it was told last time, remember it, report it.           *)
(* Dev = {} is the repaired design and must satisfy the property.  Each    *)
(* name in Dev switches one place to what the unchanged tree does:         *)
(*   delta-fastpath-start-at-sdk-start   fast path never remembers the     *)
(*                                       last collection time              *)
(*   dup-handle-orphans-storage          registry keyed by instrument      *)
(*                                       name: a second handle gets a new  *)
(*                                       storage which replaces the first  *)
(*   multi-view-last-wins                same registry entry for every     *)
(*                                       view: only the last is collected  *)
(*   explicit-limit-lost-after-first-interval   Collect recreates the      *)
(*                                       interval table, and buildMetrics  *)
(*                                       creates its merge tables, with    *)
(*                                       the default limit                 *)
(*   merge-overwrites-overflow-at-default-limit  Set() on a full table     *)
(*                                       REPLACES the overflow point       *)
(* Ghost variables (rec, win, given, ...) state what the property says;    *)
(* the invariants relate them to the mechanism in every reachable state.   *)
(* With Hist = TRUE every behaviour is also recorded in `hist`, in the     *)
(* event vocabulary of MetricsSyncTrace.tla, and printed by Emit*/Wit*;    *)
(* tools/lib/metrics_sync.py (a) feeds these behaviours to the monitor     *)
(* (the monitor must accept every behaviour of the model: guard against an *)
(* over-strict monitor) and (b) executes their operations on the real SDK. *)
(***************************************************************************)
EXTENDS AttrSetKey

CONSTANTS Temps,       \* sequence of reader temporalities, e.g. <<"delta", "cum">>
          InitReaders, \* how many of them are registered before the history begins (the rest arrive late)
          Filters,     \* sequence (one per view stream) of allowed-key sets; {0} = no filter
          Limit,       \* cardinality limit given to the storage (DefLimit = none given)
          DefLimit,    \* stands for kAggregationCardinalityLimit (2000)
          MaxHandles,  \* handles created for the one instrument
          AttrSeqs,    \* the attribute sequences callers use
          Amounts,     \* the amounts callers add
          MaxAdd, MaxCollect,
          MaxShutdown, \* how many readers may be shut down individually in the middle of the history
          AllOrders,   \* BOOLEAN: explore every iteration order of the (unordered) tables
          Dev, Hist

D1 == "delta-fastpath-start-at-sdk-start"
D2 == "dup-handle-orphans-storage"
D3 == "multi-view-last-wins"
D4 == "explicit-limit-lost-after-first-interval"
D6 == "merge-overwrites-overflow-at-default-limit"

Views   == 1..Len(Filters)
Readers == 1..Len(Temps)
NV      == Len(Filters)
Stores  == (1..MaxHandles) \X Views
Empty   == [x \in {} |-> 0]
Mono    == \A v \in Amounts : v >= 0

Universe == {Canon(s, Filters[vw]) : s \in AttrSeqs, vw \in Views} \cup {OVF}
RECURSIVE SeqOf(_)
SeqOf(S) == IF S = {} THEN <<>> ELSE LET x == CHOOSE y \in S : TRUE IN <<x>> \o SeqOf(S \ {x})
USeq == SeqOf(Universe)
HId(a) == CHOOSE i \in 1..Len(USeq) : USeq[i] = a
Pris == IF AllOrders
          THEN {p \in [1..Len(USeq) -> Universe] : \A i, j \in 1..Len(USeq) : i # j => p[i] # p[j]}
          ELSE {USeq}
OrdBy(S, pri) == SelectSeq(pri, LAMBDA x : x \in S)

VARIABLES nh,      \* handles created
          nr,      \* readers registered so far (1..nr collect)
          down,    \* readers shut down individually (still registered)
          store,   \* [Stores -> [delta, dlim, seen, unrep, last]]
          nadd, ncol,
          \* ghosts: what the property talks about
          rec,     \* [Views -> map]     recorded per stream and canonical set since SDK start
          win,     \* [Readers -> [Views -> map]]   recorded since the reader's last collection
          gtot,    \* [Readers -> [Views -> Int]]   sum of all points delivered (delta readers)
          lastEnd, \* [Readers -> [Views -> rank]]  last collection that delivered points
          colsOf,  \* [Readers -> set of ranks]
          bad,     \* clauses of the property found broken by a Collect
          devUsed, flags,
          hist

bvars == <<nh, nr, down, store, nadd, ncol, rec, win, gtot, lastEnd, colsOf, bad, devUsed, flags>>
vars  == <<bvars, hist>>

Bump(m, a, v) == IF a \in DOMAIN m THEN [m EXCEPT ![a] = @ + v] ELSE m @@ (a :> v)
RECURSIVE SumOver(_, _)
SumOver(m, S) == IF S = {} THEN 0 ELSE LET x == CHOOSE y \in S : TRUE IN m[x] + SumOver(m, S \ {x})
Tot(m) == SumOver(m, DOMAIN m)
NonZero(m) == [a \in {x \in DOMAIN m : m[x] # 0} |-> m[a]]
RECURSIVE TotList(_)
TotList(L) == IF L = <<>> THEN 0 ELSE Tot(Head(L)) + TotList(Tail(L))

(* ---- AttributesHashMap -------------------------------------------------- *)
Full(m, lim) == Cardinality(DOMAIN m) + 1 >= lim
\* GetOrSetDefault(attrs)->Aggregate(v)
TableAdd(m, lim, a, v) == IF a \in DOMAIN m THEN [m EXCEPT ![a] = @ + v]
                          ELSE IF Full(m, lim) THEN Bump(m, OVF, v)
                          ELSE m @@ (a :> v)
\* buildMetrics: Get(a) ? Set(a, merged) : Set(a, copy)
MergeEntry(m, lim, a, v, overwrite) ==
   IF a \in DOMAIN m THEN [m EXCEPT ![a] = @ + v]
   ELSE IF Full(m, lim)
          THEN IF overwrite THEN (IF OVF \in DOMAIN m THEN [m EXCEPT ![OVF] = v] ELSE m @@ (OVF :> v))
                            ELSE Bump(m, OVF, v)
   ELSE m @@ (a :> v)
RECURSIVE MergeSeq(_, _, _, _, _)
MergeSeq(m, d, ks, lim, ow) == IF ks = <<>> THEN m
                               ELSE MergeSeq(MergeEntry(m, lim, Head(ks), d[Head(ks)], ow), d, Tail(ks), lim, ow)
MergeMap(m, d, lim, pri, ow) == MergeSeq(m, d, OrdBy(DOMAIN d, pri), lim, ow)
RECURSIVE MergeList(_, _, _, _, _)
MergeList(m, L, lim, pri, ow) == IF L = <<>> THEN m
                                 ELSE MergeList(MergeMap(m, Head(L), lim, pri, ow), Tail(L), lim, pri, ow)

(* ---- registry ----------------------------------------------------------- *)
SId(h, vw) == IF D2 \in Dev THEN <<h, vw>> ELSE <<1, vw>>
RegViews == IF D3 \in Dev THEN {NV} ELSE Views
RegStore(vw) == <<(IF D2 \in Dev THEN nh ELSE 1), vw>>

\* `by`: generation runs only - the reader whose Collect swapped out the newest stashed interval table
NewStore == [delta |-> Empty, dlim |-> Limit, seen |-> {}, by |-> 0,
             unrep |-> [r \in Readers |-> <<>>],
             last  |-> [r \in Readers |-> [has |-> FALSE, m |-> Empty, ts |-> 0]]]

Init == /\ nh = 0 /\ nr = InitReaders /\ down = {} /\ nadd = 0 /\ ncol = 0
        /\ store = [s \in Stores |-> NewStore]
        /\ rec = [vw \in Views |-> Empty]
        /\ win = [r \in Readers |-> [vw \in Views |-> Empty]]
        /\ gtot = [r \in Readers |-> [vw \in Views |-> 0]]
        /\ lastEnd = [r \in Readers |-> [vw \in Views |-> 0]]
        /\ colsOf = [r \in Readers |-> {0}]
        /\ bad = {} /\ devUsed = {} /\ flags = {}
        /\ hist = <<>>

Log(e) == hist' = IF Hist THEN Append(hist, e) ELSE hist
\* rare-step flags are only collected in generation runs (they would multiply the state graph)
Fl(f) == IF Hist THEN flags \cup f ELSE flags

AddReader ==
  /\ nr < Len(Temps)
  /\ nr' = nr + 1
  /\ flags' = Fl({"grown"})
  /\ UNCHANGED <<nh, down, store, nadd, ncol, rec, win, gtot, lastEnd, colsOf, bad, devUsed>>
  /\ Log([e |-> "AddReader", t |-> Temps[nr + 1]])

\* MetricReader::Shutdown on ONE reader.  Nothing in the pipeline's design reacts to it (the collector stays
\* in MeterContext's list, so the storages keep stashing for it); the property simply stops talking about q.
ShutdownReader(q) ==
  /\ q <= nr /\ q \notin down
  /\ Cardinality(down) < MaxShutdown
  /\ down' = down \cup {q}
  \* q itself swapped out the newest interval table and it is still parked for a reader that stays
  /\ flags' = Fl(IF \E r \in (1..nr) \ (down \cup {q}), vw \in (IF nh = 0 THEN {} ELSE RegViews) :
                       Len(store[RegStore(vw)].unrep[r]) >= 1 /\ store[RegStore(vw)].by = q
                    THEN {"parked_at_shutdown"} ELSE {})
  /\ UNCHANGED <<nh, nr, store, nadd, ncol, rec, win, gtot, lastEnd, colsOf, bad, devUsed>>
  /\ Log([e |-> "ShutdownReader", r |-> q])

Create ==
  /\ nh < MaxHandles
  /\ nh' = nh + 1
  /\ devUsed' = devUsed \cup (IF D2 \in Dev /\ nh >= 1 THEN {D2} ELSE {})
  /\ flags' = Fl(IF nh >= 1 THEN {"dup"} ELSE {})
  /\ UNCHANGED <<nr, down, store, nadd, ncol, rec, win, gtot, lastEnd, colsOf, bad>>
  /\ Log([e |-> "Create", h |-> nh + 1])

Add(h, s, v) ==
  /\ nadd < MaxAdd
  /\ h \in 1..nh
  /\ nadd' = nadd + 1
  /\ LET A == [vw \in Views |-> Canon(s, Filters[vw])] IN
     /\ store' = [st \in Stores |->
                    IF \E vw \in Views : SId(h, vw) = st
                      THEN LET vw == st[2] IN [store[st] EXCEPT !.delta = TableAdd(@, store[st].dlim, A[vw], v)]
                      ELSE store[st]]
     /\ rec' = [vw \in Views |-> Bump(rec[vw], A[vw], v)]
     /\ win' = [r \in Readers |-> [vw \in Views |-> Bump(win[r][vw], A[vw], v)]]
     /\ flags' = Fl((IF \E vw \in Views : A[vw] \notin DOMAIN store[SId(h, vw)].delta
                                                  /\ Full(store[SId(h, vw)].delta, store[SId(h, vw)].dlim)
                               THEN {"fold_add"} ELSE {})
                       \cup (IF h >= 2 THEN {"add_h2"} ELSE {})
                       \cup (IF Len(s) >= 2 /\ \E i, j \in 1..Len(s) : i # j /\ s[i][1] = s[j][1] THEN {"dupkey"} ELSE {})
                       \cup (IF \E vw \in Views : Cardinality(A[vw]) < Cardinality({s[i][1] : i \in 1..Len(s)})
                               THEN {"filtered"} ELSE {}))
     /\ Log([e |-> "Add", h |-> h, attrs |-> s, v |-> v, hid |-> [vw \in Views |-> HId(A[vw])]])
  /\ UNCHANGED <<nh, nr, down, ncol, gtot, lastEnd, colsOf, bad, devUsed>>

(* ---- SyncMetricStorage::Collect + TemporalMetricStorage::buildMetrics ---- *)
TblLimit == IF D4 \in Dev THEN DefLimit ELSE Limit
CollectStore(st, r, t, pri) ==
  LET d    == st.delta
      st1  == [st EXCEPT !.delta = Empty, !.dlim = TblLimit]
      fast == nr = 1 /\ Temps[r] = "delta"
      ow   == D6 \in Dev
  IN IF fast
       \* the repaired fast path keeps its collection time in last_reported_metrics_[collector], where the
       \* general path finds it when a second reader arrives; the D1 tree never writes it (ts is kept
       \* here only to know what the start should have been)
       THEN [st    |-> [st1 EXCEPT !.last[r] = [has |-> @.has \/ D1 \notin Dev, m |-> @.m, ts |-> t]],
             emit  |-> DOMAIN d # {}, pts |-> d,
             start |-> IF D1 \in Dev THEN 0 ELSE st.last[r].ts, idealStart |-> st.last[r].ts,
             fl    |-> {"fast"}, idealPts |-> d]
       ELSE
         LET un1   == IF DOMAIN d # {} THEN [q \in Readers |-> IF q <= nr THEN Append(st.unrep[q], d) ELSE st.unrep[q]]
                                       ELSE st.unrep
             seen1 == IF DOMAIN d # {} THEN st.seen \cup (1..nr) ELSE st.seen
             by1   == IF Hist /\ DOMAIN d # {} THEN r ELSE st.by
         IN IF r \notin seen1
              THEN [st |-> [st1 EXCEPT !.unrep = un1, !.seen = seen1, !.by = by1], emit |-> FALSE, pts |-> Empty,
                    start |-> 0, idealStart |-> 0, fl |-> {"unseen"}, idealPts |-> Empty]
              ELSE
                LET lr == st.last[r]
                    M(o) == LET m0 == MergeList(Empty, un1[r], TblLimit, pri, o) IN
                            IF lr.has /\ Temps[r] = "cum" THEN MergeMap(m0, lr.m, TblLimit, pri, o) ELSE m0
                    merged == M(ow)
                    start  == IF lr.has /\ Temps[r] = "delta" THEN lr.ts ELSE 0
                    \* D1 tree, reader moved from the fast path to this one: lr.ts is where it should start
                    ideal  == IF Temps[r] = "delta" THEN lr.ts ELSE 0
                IN [st |-> [st1 EXCEPT !.unrep = [un1 EXCEPT ![r] = <<>>], !.seen = seen1, !.by = by1,
                                       !.last[r] = [has |-> TRUE, m |-> merged, ts |-> t]],
                    emit |-> TRUE, pts |-> merged, start |-> start, idealStart |-> ideal,
                    fl |-> {"general"} \cup (IF Len(un1[r]) >= 2 THEN {"stash2"} ELSE {})
                                       \cup (IF Len(un1[r]) = 0 THEN {"nonew"} ELSE {})
                                       \cup (IF lr.has /\ Temps[r] = "cum" /\ OVF \in DOMAIN lr.m THEN {"cum_merge_ovf"} ELSE {})
                                       \cup (IF DOMAIN merged = {} THEN {"empty_md"} ELSE {}),
                    idealPts |-> M(FALSE)]

\* the clauses of C06 / C08 for what reader r is handed for stream vw at collection t
Late(r) == r > InitReaders
Broken(r, vw, emitted, pts, start, t) ==
  LET W == IF Temps[r] = "delta" THEN win[r][vw] ELSE rec[vw]
      P == IF emitted THEN pts ELSE Empty
      own == DOMAIN P \ {OVF}
  IN IF r \in down THEN {}   \* a reader that was shut down: the statement is silent about what it is handed
     ELSE IF Late(r) \* a late reader: only its intervals, and not the start of its first delta one
       THEN (IF DOMAIN P # {} /\ ~(IF Temps[r] = "cum" THEN start = 0
                                    ELSE lastEnd[r][vw] = 0 \/ (start \in colsOf[r] /\ start >= lastEnd[r][vw]))
               THEN {"IntervalsAbut"} ELSE {})
     ELSE
     (IF Cardinality(DOMAIN W) < Limit /\ NonZero(P) # NonZero(W)
        THEN {IF Temps[r] = "delta" THEN "DeltaExact" ELSE "CumulativeIsRunningTotal"} ELSE {})
     \cup (IF Tot(P) # Tot(W) THEN {"TotalConserved"} ELSE {})
     \cup (IF Cardinality(DOMAIN P) > Limit THEN {"WithinLimit"} ELSE {})
     \cup (IF \E a \in own : a \notin DOMAIN W \/ (Mono /\ (P[a] < 0 \/ P[a] > W[a])) THEN {"OwnSeriesReal"} ELSE {})
     \cup (IF OVF \in DOMAIN P /\ Cardinality(DOMAIN W) < Limit THEN {"FoldOnlyWhenNeeded"} ELSE {})
     \cup (IF DOMAIN P # {} /\ ~(IF Temps[r] = "cum" THEN start = 0
                                  ELSE start \in colsOf[r] /\ start >= lastEnd[r][vw])
             THEN {"IntervalsAbut"} ELSE {})

PtsSeq(m) == LET ks == SeqOf(DOMAIN m) IN
             [i \in 1..Len(ks) |-> [a |-> IF ks[i] = OVF THEN {} ELSE ks[i], v |-> m[ks[i]], o |-> ks[i] = OVF]]

Collect(r, pri) ==
  /\ ncol < MaxCollect
  /\ r <= nr
  /\ LET t == ncol + 1
         RegNow == IF nh = 0 THEN {} ELSE RegViews          \* a collection before the instrument exists
         C == [vw \in RegNow |-> CollectStore(store[RegStore(vw)], r, t, pri)]
         emitted(vw) == vw \in RegNow /\ C[vw].emit
         pts(vw) == IF emitted(vw) THEN C[vw].pts ELSE Empty
         brk == UNION {Broken(r, vw, emitted(vw), pts(vw), IF emitted(vw) THEN C[vw].start ELSE 0, t) : vw \in Views}
     IN
     /\ ncol' = t
     /\ store' = [st \in Stores |-> IF \E vw \in RegNow : RegStore(vw) = st THEN C[st[2]].st ELSE store[st]]
     /\ win' = [win EXCEPT ![r] = [vw \in Views |-> Empty]]
     /\ gtot' = [gtot EXCEPT ![r] = [vw \in Views |-> @[vw] + Tot(pts(vw))]]
     /\ lastEnd' = [lastEnd EXCEPT ![r] = [vw \in Views |-> IF DOMAIN pts(vw) # {} THEN t ELSE @[vw]]]
     /\ colsOf' = [colsOf EXCEPT ![r] = @ \cup {t}]
     /\ bad' = bad \cup brk
     /\ devUsed' = devUsed
          \cup (IF \E vw \in RegNow : emitted(vw) /\ DOMAIN pts(vw) # {} /\ C[vw].start # C[vw].idealStart THEN {D1} ELSE {})
          \cup (IF D3 \in Dev /\ NV >= 2 THEN {D3} ELSE {})
          \cup (IF D4 \in Dev /\ \E vw \in RegNow : Cardinality(DOMAIN pts(vw)) > Limit THEN {D4} ELSE {})
          \cup (IF \E vw \in RegNow : emitted(vw) /\ C[vw].pts # C[vw].idealPts THEN {D6} ELSE {})
     /\ flags' = Fl(UNION {C[vw].fl : vw \in RegNow}
                       \cup (IF \E vw \in RegNow : OVF \in DOMAIN pts(vw) THEN {"fold_out"} ELSE {})
                       \cup (IF \E vw \in RegNow : \E a \in DOMAIN pts(vw) : pts(vw)[a] = 0 THEN {"zero"} ELSE {})
                       \cup (IF "dup" \in flags /\ "add_h2" \in flags THEN {"dup_collected"} ELSE {})
                       \cup (IF NV >= 2 /\ \E vw \in Views : DOMAIN pts(vw) # {} THEN {"multi_view"} ELSE {})
                       \cup (IF "grown" \in flags /\ r <= InitReaders /\ \E vw \in RegNow : emitted(vw) /\ DOMAIN pts(vw) # {} /\ C[vw].idealStart > 0
                               THEN {"old_reader_after_growth"} ELSE {})
                       \cup (IF Late(r) /\ \E vw \in RegNow : DOMAIN pts(vw) # {} THEN {"late_reader_points"} ELSE {})
                       \cup (IF nh = 0 THEN {"collect_before_create"} ELSE {})
                       \* a reader that stays is handed what a reader that has left swapped out before / after leaving
                       \cup (IF r \notin down /\ ~Late(r) /\ \E vw \in RegNow : LET st == store[RegStore(vw)] IN
                                   Len(st.unrep[r]) >= 1 /\ st.by \in down /\ "parked_at_shutdown" \in flags
                                   /\ "down_collect" \notin flags /\ DOMAIN pts(vw) # {}
                               THEN {IF Temps[r] = "delta"
                                       THEN (IF \E vw \in RegNow : DOMAIN store[RegStore(vw)].delta # {} THEN "surv_delta_parked_new" ELSE "surv_delta_parked")
                                       ELSE (IF \E vw \in RegNow : DOMAIN store[RegStore(vw)].delta # {} THEN "surv_cum_parked_new" ELSE "surv_cum_parked")}
                               ELSE {})
                       \* ... and that reader had collected before: its delta interval must start there
                       \cup (IF r \notin down /\ ~Late(r) /\ Temps[r] = "delta" /\ \E vw \in RegNow : LET st == store[RegStore(vw)] IN
                                   Len(st.unrep[r]) >= 1 /\ st.by \in down /\ "parked_at_shutdown" \in flags
                                   /\ DOMAIN pts(vw) # {} /\ st.last[r].has /\ st.last[r].ts > 0
                               THEN {"surv_delta_parked_later"} ELSE {})
                       \cup (IF r \in down /\ \E vw \in RegNow : DOMAIN store[RegStore(vw)].delta # {} THEN {"down_collect"} ELSE {})
                       \cup (IF r \notin down /\ ~Late(r) /\ "down_collect" \in flags /\ \E vw \in RegNow : LET st == store[RegStore(vw)] IN
                                   Len(st.unrep[r]) >= 1 /\ st.by \in down /\ DOMAIN pts(vw) # {}
                               THEN {"surv_after_down_collect"} ELSE {})
                       \cup (IF \E vw \in RegNow : emitted(vw) /\ DOMAIN pts(vw) # {} /\ C[vw].idealStart > 0 THEN {"later_interval"} ELSE {}))
     /\ Log([e |-> "Collect", r |-> r, k |-> t,
             streams |-> LET vs == SelectSeq([i \in 1..NV |-> i], LAMBDA vw : emitted(vw)) IN
                         [i \in 1..Len(vs) |-> [vw |-> vs[i], t |-> Temps[r], start |-> C[vs[i]].start,
                                                end |-> t, pts |-> PtsSeq(C[vs[i]].pts)]]])
  /\ UNCHANGED <<nh, nr, down, nadd, rec>>

DoAdd == \E h \in 1..MaxHandles, s \in AttrSeqs, v \in Amounts : Add(h, s, v)
DoCollect == \E r \in Readers, pri \in Pris : Collect(r, pri)
DoShutdown == \E q \in Readers : ShutdownReader(q)
Next == Create \/ AddReader \/ DoShutdown \/ DoAdd \/ DoCollect

Spec == Init /\ [][Next]_vars

(* ---- the property, as state invariants ---------------------------------- *)
\* what the mechanism still holds for reader r / stream vw (ideal registry: storage <<1, vw>>)
MechPending(r, vw) ==
  LET st == store[<<1, vw>>] IN
  Tot(st.delta) + (IF nr = 1 /\ Temps[r] = "delta" THEN 0 ELSE TotList(st.unrep[r]))
\* C06: for a delta reader, what it was given plus what is still waiting for it is what was recorded,
\* whatever the other readers did in between (readers are independent)
DeltaConservation ==
  (devUsed = {}) => \A r \in 1..InitReaders, vw \in Views :
       Temps[r] = "delta" => gtot[r][vw] + MechPending(r, vw) = Tot(rec[vw])
\* the ghost window equals the mechanism's pending data (every measurement falls in exactly one interval)
WindowIsPending ==
  (devUsed = {}) => \A r \in 1..InitReaders, vw \in Views : Tot(win[r][vw]) = MechPending(r, vw)
\* per-collection clauses (values exact without folding, running total, abutting intervals, limit, ...)
NothingBroken == (devUsed = {}) => bad = {}
\* the interval table itself never exceeds its limit and has at most one overflow series
TableWithinLimit ==
  (devUsed = {}) => \A s \in Stores : Cardinality(DOMAIN store[s].delta) <= Limit
\* with Dev # {}: every way of breaking the property goes through a listed deviation
OnlyListedDeviations == bad # {} => devUsed # {}

TypeOK == nh \in 0..MaxHandles /\ nr \in InitReaders..Len(Temps) /\ down \subseteq 1..nr /\ Cardinality(down) <= MaxShutdown /\ nadd \in 0..MaxAdd /\ ncol \in 0..MaxCollect

(* ---- behaviour export ---------------------------------------------------- *)
View == bvars
LastIsCollect == Len(hist) >= 1 /\ hist[Len(hist)].e = "Collect"
EmitAll == (LastIsCollect /\ ncol = MaxCollect) => PrintT(<<"BEH", ToJson(hist)>>)
EmitEvery == LastIsCollect => PrintT(<<"BEH", ToJson(hist)>>)
Wit(f) == (f \in flags /\ LastIsCollect) => (PrintT(<<"BEH", ToJson(hist)>>) /\ FALSE)
WitFast        == Wit("fast")
WitGeneral     == Wit("general")
WitStash2      == Wit("stash2")
WitNoNew       == Wit("nonew")
WitEmptyMd     == Wit("empty_md")
WitFoldOut     == Wit("fold_out")
WitCumMergeOvf == Wit("cum_merge_ovf")
WitDup         == Wit("dup_collected")
WitMultiView   == Wit("multi_view")
WitLater       == Wit("later_interval")
WitZero        == Wit("zero")
WitDupKey      == Wit("dupkey")
WitFiltered    == Wit("filtered")
WitOldAfterGrowth == Wit("old_reader_after_growth")
WitLateReader     == Wit("late_reader_points")
WitBeforeCreate   == Wit("collect_before_create")
WitSurvDeltaParked    == Wit("surv_delta_parked")       \* B collects, B is shut down, A (delta) collects
WitSurvDeltaParkedNew == Wit("surv_delta_parked_new")   \* ..., more Adds, A (delta) collects
WitSurvDeltaLater     == Wit("surv_delta_parked_later") \* A collects, ..., B collects, B is shut down, A collects
WitSurvCumParked      == Wit("surv_cum_parked")
WitSurvCumParkedNew   == Wit("surv_cum_parked_new")
WitDownCollect        == Wit("down_collect")            \* a reader collects after its own shutdown (the SDK lets it)
WitAfterDownCollect   == Wit("surv_after_down_collect")
WitBad         == (bad # {} /\ LastIsCollect) => (PrintT(<<"BEH", ToJson(hist)>>) /\ FALSE)
=============================================================================
