CONSTANTS Hist = FALSE  Depth = 0  Dev = {}  M = 4
INIT Init
NEXT Next
INVARIANTS TypeOK Property
