--------------------------- MODULE ResourceEnvTrace ---------------------------
(***************************************************************************)
(* Trace validation for C18: accepts a log of real executions iff every    *)
(* observed result is allowed by the CONTRACT layer of ResourceEnv.tla.    *)
(* One ndjson line per call, written by harness/c18_env.cc:                *)
(*   Cfg(toks, svc, pool, envurl)  a fresh process with this environment;  *)
(*                           pool = projections of GetDefault() and        *)
(*                           GetEmpty() AS OBSERVED in that process,       *)
(*                           envurl = schema URL of the resource the SDK's *)
(*                           environment detector returns there.  These    *)
(*                           are the givens S of ResourceEnv.tla: taken as *)
(*                           found (only the presence of telemetry.sdk.    *)
(*                           language/name/version is pinned); the Merge / *)
(*                           Create rules are applied to them.             *)
(*   New(attrs, url, obs)    raw resource   Create(user, url, obs, threw)  *)
(*   Merge(a, b, obs, obsA, obsB)   pool[a].Merge(pool[b]); operands re-   *)
(*                           projected after the call                      *)
(*   Audit(pool)             every resource created so far, re-projected   *)
(*   MkProv(kind, res, obs)  provider with pool[res]; obs = GetResource()  *)
(*   Emit(p, obs)            resource seen by the capturing exporter /     *)
(*                           reader for one span / log record / batch      *)
(*   Read(r, s, errno, ret, val)   reader r on abstract string s           *)
(*   End                                                                   *)
(* Dev = every deviation the spec knows; a step explained only by one is   *)
(* reported as <<"DEVAT", line, name>> and classified by the driver        *)
(* (known finding or violation).  An unexplained step stops the run:       *)
(* REJECTED_AT.                                                            *)
(***************************************************************************)
EXTENDS ResourceEnv, IOUtils

TraceLog == ndJsonDeserialize(IOEnv.TRACE)

VARIABLES l, nexec
tvars == <<vars, l, nexec>>

Ev == TraceLog[l]
Is(e) == l <= Len(TraceLog) /\ Ev.e = e /\ l' = l + 1
Idx(i) == i \in 1..Len(pool)

TInit == /\ TLCSet(1, 0)
         /\ l = 1 /\ nexec = 0
         /\ env = NoEnv /\ sdk = NoSdk /\ envalt = <<>> /\ pool = <<>> /\ provs = <<>> /\ errno = "clean" /\ dead = TRUE
         /\ last = [op |-> "none"] /\ devUsed = {} /\ nsteps = 0 /\ hist = <<>>

Keep == UNCHANGED <<last, nsteps, hist, nexec>>

TCfg == /\ Is("Cfg")
        /\ env' = [toks |-> Ev.toks, svc |-> Ev.svc]
        /\ envalt' \in EnvAlts(Ev.toks, Ev.svc)            \* the reading is resolved by what Create shows later
        /\ Len(Ev.pool) = 2                               \* GetDefault(), GetEmpty() as observed
        /\ DefaultShapeOK(Ev.pool[1])                      \* pinned: the defaults carry telemetry.sdk.language/name/version
        /\ sdk' = [dflt |-> Ev.pool[1],                     \* not pinned: their values, further keys, the schema URLs
                   envurl |-> IF "envurl" \in DOMAIN Ev THEN Ev.envurl ELSE ""]   \* (logs stored before round 4 lack it)
        /\ pool' = Ev.pool /\ provs' = <<>> /\ errno' = "clean" /\ dead' = FALSE
        /\ nexec' = nexec + 1
        /\ UNCHANGED <<last, nsteps, hist, devUsed>>

TNew == /\ Is("New") /\ ~dead
        /\ Ev.obs = R(Ev.attrs, Ev.url)
        /\ pool' = Append(pool, Ev.obs)
        /\ UNCHANGED <<env, sdk, envalt, provs, errno, dead, devUsed>> /\ Keep

TCreate == /\ Is("Create") /\ ~dead
           /\ \/ /\ Ev.threw = ""
                 /\ CreateOK(sdk, envalt, Ev.user, Ev.url, Ev.obs)
                 /\ pool' = Append(pool, Ev.obs)           \* learns the fallback service.name
                 /\ UNCHANGED <<dead, devUsed>>
              \/ /\ Ev.threw # ""                          \* Create threw: only the named deviation explains it
                 /\ LET m == CreateModel(Dev, sdk, envalt, Ev.user, Ev.url, "ANY")
                    IN m.threw /\ devUsed' = devUsed \cup {m.dev} /\ PrintT(<<"DEVAT", l, m.dev>>)
                 /\ dead' = TRUE /\ UNCHANGED pool
           /\ UNCHANGED <<env, sdk, envalt, provs, errno>> /\ Keep

TMerge == /\ Is("Merge") /\ ~dead
          /\ Idx(Ev.a) /\ Idx(Ev.b)
          /\ MergePrecedenceOK(pool[Ev.a], pool[Ev.b], Ev.obs)
          /\ Ev.obs = Merge(pool[Ev.a], pool[Ev.b])        \* (same thing, operationally)
          /\ Ev.obsA = pool[Ev.a] /\ Ev.obsB = pool[Ev.b]  \* operands unchanged
          /\ pool' = Append(pool, Ev.obs)
          /\ UNCHANGED <<env, sdk, envalt, provs, errno, dead, devUsed>> /\ Keep

TAudit == /\ Is("Audit") /\ ~dead
          /\ Ev.pool = pool                                \* nothing created earlier ever changed
          /\ UNCHANGED <<env, sdk, envalt, pool, provs, errno, dead, devUsed>> /\ Keep

TMkProv == /\ Is("MkProv") /\ ~dead
           /\ Idx(Ev.res) /\ Ev.obs = pool[Ev.res]
           /\ provs' = Append(provs, [kind |-> Ev.kind, res |-> Ev.res])
           /\ UNCHANGED <<env, sdk, envalt, pool, errno, dead, devUsed>> /\ Keep

TEmit == /\ Is("Emit") /\ ~dead
         /\ Ev.p \in 1..Len(provs)
         /\ Ev.obs = pool[provs[Ev.p].res]                 \* the item references its provider's resource
         /\ UNCHANGED <<env, sdk, envalt, pool, provs, errno, dead, devUsed>> /\ Keep

TRead == /\ Is("Read") /\ ~dead
         /\ Ev.r \in Readers /\ Ev.s \in AllStrs
         /\ LET o   == O(Ev.ret, Ev.val)
                eff == IF Ev.errno = "asis" THEN errno ELSE Ev.errno
            IN /\ \/ /\ o \in Contract(Ev.r, Ev.s)
                     /\ devUsed' = devUsed
                  \/ /\ o \notin Contract(Ev.r, Ev.s)
                     /\ \E e \in Readings(eff) :
                          LET m == Model(Dev, Ev.r, Ev.s, e)
                          IN /\ m.dev \in Dev /\ o \in DevOuts(m)
                             /\ devUsed' = devUsed \cup {m.dev}
                             /\ PrintT(<<"DEVAT", l, m.dev>>)
               /\ errno' = ErrnoAfter(Ev.r, Ev.s, eff)
               /\ dead' = (Ev.val \in {"ub", "crash"})
         /\ UNCHANGED <<env, sdk, envalt, pool, provs>> /\ Keep

TEnd == /\ Is("End")
        /\ dead' = TRUE
        /\ UNCHANGED <<env, sdk, envalt, pool, provs, errno, devUsed>> /\ Keep

TNext == TCfg \/ TNew \/ TCreate \/ TMerge \/ TAudit \/ TMkProv \/ TEmit \/ TRead \/ TEnd
TSpec == TInit /\ [][TNext]_tvars

Progress == TLCSet(1, IF l > TLCGet(1) THEN l ELSE TLCGet(1))
Accepted == IF TLCGet(1) = Len(TraceLog) + 1 THEN TRUE
            ELSE PrintT(<<"REJECTED_AT", TLCGet(1)>>) /\ FALSE
Report == (l = Len(TraceLog) + 1) => (PrintT(<<"ACCEPTED", nexec>>) /\ PrintT(<<"DEVUSED", devUsed>>))
=============================================================================
