---------------------------- MODULE NostdVariant ----------------------------
(***************************************************************************)
(* C20, variant machine: the contract of std::variant which nostd::variant *)
(* (the bundled absl variant) must follow.  Two shapes (constant Shape):   *)
(*   "basic"     std::variant<int, std::string, Tracked>   (Tracked = an   *)
(*               instance-counted class of the harness; nothing can throw) *)
(*   "throwing"  std::variant<int, Safe, Shaky>: two instance-counted      *)
(*               classes whose potentially-throwing members (converting    *)
(*               constructor from a source object, copy constructor, copy  *)
(*               and converting assignment; for Shaky also the move        *)
(*               constructor and move assignment -- Safe's are noexcept)   *)
(*               can be armed: operation parameter f = 1 = "the first      *)
(*               potentially-throwing member of an alternative called by   *)
(*               this operation throws".  Every such member throws BEFORE  *)
(*               it changes anything (strong guarantee of the alternative).*)
(*                                                                         *)
(* State: two variant variables v1, v2, each [idx, val]; idx = NPOS = the  *)
(* variant is valueless_by_exception.  Values are abstract 0..1 per        *)
(* alternative; ANY = "valid but unspecified" (a moved-from std::string:   *)
(* every observation of the VALUE is a don't-care, the index is not);      *)
(* MOVED = the moved-from marker of the classes (their move operations set *)
(* it, so it is deterministic).                                            *)
(*                                                                         *)
(* Rules transcribed from the standard ([variant.assign], [variant.mod]):  *)
(*  v = t selecting T_j:  holds T_j -> assign to the contained value       *)
(*    (rule "assign": on an exception the variant keeps its alternative,   *)
(*    the value is whatever T_j's assignment guarantees -- here unchanged);*)
(*    else if is_nothrow_constructible<T_j,T> or not                       *)
(*    is_nothrow_move_constructible<T_j> -> emplace<j>(t) (rule "direct":  *)
(*    the old value is destroyed first; on an exception the variant MIGHT  *)
(*    not hold a value: valueless -- or, for an implementation that is     *)
(*    stronger than required, unchanged: don't-care band `might`);          *)
(*    else emplace<j>(T_j(t)) / operator=(variant(t)) (rule "temp": the    *)
(*    new value is complete before the old one is destroyed: on an         *)
(*    exception NOTHING changes -- strict).                                *)
(*  copy assignment: rhs valueless -> valueless; same alternative ->       *)
(*    "assign"; else if is_nothrow_copy_constructible<T_j> or not          *)
(*    is_nothrow_move_constructible<T_j> -> "direct", else "temp".         *)
(*  move assignment: rhs valueless -> valueless; same -> "assign"; else    *)
(*    "direct" from the rvalue.     emplace<j>(args): always "direct".     *)
(*  A valueless variant: index() = npos, holds nothing, get<I> and visit   *)
(*  throw bad_variant_access, get_if = null, equal only to another         *)
(*  valueless one and less than every variant that holds a value.          *)
(* Self-aliasing sources: AliasSelf  v = get<held>(v)  (same alternative), *)
(* AliasMember  v = get<held>(v).member  where the member is a source      *)
(* object converting to alternative i: same alternative -> "assign" from   *)
(* its own member; another alternative -> only where the rule is "temp"    *)
(* (under "direct" the source would be destroyed before it is read: that   *)
(* is undefined for std::variant too and not exercised).                   *)
(*                                                                         *)
(* After every step the whole observer suite is projected for both         *)
(* variables: whether the operation threw, index(), valueless_by_exception,*)
(* holds_alternative<T>, get<I> (value, or bad_variant_access), get_if<I>, *)
(* visit (unary and binary), == != < > <= >=, and the number of live       *)
(* instances of every counted class (an alternative that is replaced is    *)
(* destroyed exactly once; a held one is not; a constructor that threw     *)
(* created nothing).                                                       *)
(***************************************************************************)
EXTENDS Integers, Sequences, FiniteSets, TLC, Json

CONSTANTS Hist, Depth, Dev,
          Slim,     \* BOOLEAN: all-paths generation only -- AssignVal always assigns value 1, Emplace value 0, the
                    \* source form of a fault-free class assignment is left to the harness, faults only where they fire
          Shape     \* "basic" | "throwing"

Throwing == Shape = "throwing"
NAlt  == 3                   \* basic: 0 int  1 std::string  2 Tracked      throwing: 0 int  1 Safe  2 Shaky
Alt   == 0..(NAlt - 1)
ValD  == 0..1
ANY   == 7
MOVED == 8
THROW == 99                  \* get<I> on the wrong alternative / visit of a valueless variant throws bad_variant_access
NPOS  == -1                  \* index() of a valueless variant (variant_npos)
V(i, x) == [idx |-> i, val |-> x]
Valueless == V(NPOS, 0)
Names == {"v1", "v2"}
Other(n) == IF n = "v1" THEN "v2" ELSE "v1"

(* ---- traits of the alternatives (what the library's rules depend on) ------ *)
IsClass(j)     == IF Throwing THEN j \in {1, 2} ELSE j = 2           \* instance-counted
Throwers       == IF Throwing THEN {1, 2} ELSE {}                     \* alternatives whose members can be armed
NothrowMove(j) == ~(Throwing /\ j = 2)                                \* is_nothrow_move_constructible (and -assignable)
NothrowCopy(j) == j = 0                                               \* is_nothrow_copy_constructible
\* is_nothrow_constructible<T_j, source>: source forms "conv" (a source object / const char* ), "lv" (const T_j&), "rv" (T_j&&)
NothrowFrom(j, how) == IF how = "rv" THEN NothrowMove(j) ELSE j = 0
ConvRule(held, j, how) == IF held = j THEN "assign"
                          ELSE IF NothrowFrom(j, how) \/ ~NothrowMove(j) THEN "direct" ELSE "temp"
CopyRule(held, j)      == IF held = j THEN "assign"
                          ELSE IF NothrowCopy(j) \/ ~NothrowMove(j) THEN "direct" ELSE "temp"
MoveRule(held, j)      == IF held = j THEN "assign" ELSE "direct"
\* the operation calls a potentially-throwing member of T_j (constructor or assignment from that source form)
Fires(j, how) == j \in Throwers /\ (how = "rv" => ~NothrowMove(j))

NWit == 20         \* number of witness conditions (section "behaviour export")
VARIABLES vv, hist,
          last,    \* ghost: [op, i, rule, threw, d, pre] of the last operation if it threw (else NoLast) (the clauses about exceptions are stated on it)
          thrown   \* ghost: an injected exception has left an operation
vars == <<vv, hist, last, thrown>>

\* the value left behind in a moved-from alternative
MovedFrom(v) == IF v.idx \in {0, NPOS} THEN v ELSE IF IsClass(v.idx) THEN V(v.idx, MOVED) ELSE V(v.idx, ANY)

(* ---- observable projection ----------------------------------------------- *)
B(x) == IF x THEN "T" ELSE "F"
\* a valueless variant compares like index -1 with a single value
EqV(v, w) == IF v.idx # w.idx THEN "F" ELSE IF ANY \in {v.val, w.val} THEN "any" ELSE B(v.val = w.val)
LtV(v, w) == IF v.idx < w.idx THEN "T" ELSE IF v.idx > w.idx THEN "F"
             ELSE IF ANY \in {v.val, w.val} THEN "any" ELSE B(v.val < w.val)
NotV(x) == IF x = "any" THEN "any" ELSE IF x = "T" THEN "F" ELSE "T"
ObsVar(v) ==
  [idx   |-> v.idx,
   vless |-> B(v.idx = NPOS),
   holds |-> [j \in 1..NAlt |-> B(v.idx = j - 1)],
   get   |-> [j \in 1..NAlt |-> IF v.idx = j - 1 THEN v.val ELSE THROW],   \* also get_if: null iff THROW
   visit |-> IF v.idx = NPOS THEN <<THROW, THROW>> ELSE <<v.idx, v.val>>]  \* visitor returns (alternative, value)
Live(s) == [j \in 1..NAlt |-> IF IsClass(j - 1) THEN Cardinality({n \in Names : s[n].idx = j - 1}) ELSE 0]
ObsOf(s, threw) ==
            [v1 |-> ObsVar(s.v1), v2 |-> ObsVar(s.v2),
             visit2 |-> IF NPOS \in {s.v1.idx, s.v2.idx} THEN <<THROW, THROW, THROW, THROW>>
                        ELSE <<s.v1.idx, s.v1.val, s.v2.idx, s.v2.val>>,
             eq |-> EqV(s.v1, s.v2), ne |-> NotV(EqV(s.v1, s.v2)),
             lt |-> LtV(s.v1, s.v2), gt |-> LtV(s.v2, s.v1),
             le |-> NotV(LtV(s.v2, s.v1)), ge |-> NotV(LtV(s.v1, s.v2)),
             live |-> Live(s), threw |-> B(threw)]

Go == ~Hist \/ Len(hist) < Depth + 1
NoLast == [op |-> "init", i |-> 0, rule |-> "na", threw |-> FALSE, d |-> "v1", pre |-> [v1 |-> V(0, 0), v2 |-> V(0, 0)]]
Step(op, d, i, x, how, f, s2, threw, rule, alts) ==
  /\ Go
  /\ vv' = s2
  /\ last' = IF threw THEN [op |-> op, i |-> i, rule |-> rule, threw |-> threw, d |-> d, pre |-> vv] ELSE NoLast
  /\ thrown' = (thrown \/ threw)
  /\ hist' = IF ~Hist THEN hist
             ELSE Append(hist, [op |-> op, d |-> d, i |-> i, x |-> x, how |-> how, f |-> f, rule |-> rule,
                                exp |-> ObsOf(s2, threw), might |-> [k \in 1..Len(alts) |-> ObsOf(alts[k], threw)]])

\* d receives a T_i built / assigned from a source of form `src` under `rule`; ok = the state when nothing throws
Place(op, d, i, x, how, src, f, rule, ok) ==
  LET fires == f = 1 /\ Fires(i, src)
      s2    == IF ~fires THEN ok ELSE IF rule = "direct" THEN [vv EXCEPT ![d] = Valueless] ELSE vv
      alts  == IF fires /\ rule = "direct" /\ vv[d] # Valueless THEN <<vv>> ELSE <<>>
  IN /\ f \in {0, 1}
     /\ (f = 1 => Throwing)
     /\ ((Slim /\ f = 1) => Fires(i, src))
     /\ Step(op, d, i, x, how, f, s2, fires, rule, alts)
NoFault(op, d, i, x, how, s2) == Step(op, d, i, x, how, 0, s2, FALSE, "na", <<>>)

Init == /\ vv = [v1 |-> V(0, 0), v2 |-> V(0, 0)]      \* default construction: first alternative, value-initialised
        /\ last = NoLast
        /\ thrown = FALSE
        /\ \A i \in 1..NWit : TLCSet(i, 0)
        /\ hist = IF Hist THEN <<[op |-> "init", d |-> "", i |-> 0, x |-> 0, how |-> "", f |-> 0, rule |-> "na",
                                  exp |-> ObsOf(vv, FALSE), might |-> <<>>]>> ELSE <<>>

\* d = <T_i of value x>   (converting assignment; how = "conv": from a source object converting to T_i / a const char*,
\* "lv": from a const T_i&, "rv": from a T_i&&, "": a form of the harness's choice -- fault-free only)
AssignVal(d, i, x, how, f) ==
  /\ (Slim => x = 1)
  /\ how \in (IF i \in Throwers THEN (IF Slim /\ f = 0 THEN {""} ELSE {"conv", "lv", "rv"}) ELSE {""})
  /\ IF how = "" THEN f = 0 /\ NoFault("AssignVal", d, i, x, how, [vv EXCEPT ![d] = V(i, x)])
     ELSE Place("AssignVal", d, i, x, how, how, f, ConvRule(vv[d].idx, i, how), [vv EXCEPT ![d] = V(i, x)])
\* d.emplace<i>(x)   returns a reference to the new value   (a class alternative is built by its converting constructor)
Emplace(d, i, x, f) ==
  /\ (Slim => x = 0)
  /\ Place("Emplace", d, i, x, "", "conv", f, "direct", [vv EXCEPT ![d] = V(i, x)])
\* d = other (how = "assign")   or   destroy d; construct d from other (how = "construct")
Copy(d, how, f) ==
  /\ d \in Names
  /\ IF how = "construct" \/ vv[Other(d)] = Valueless
     THEN f = 0 /\ NoFault("Copy", d, 0, 0, how, [vv EXCEPT ![d] = vv[Other(d)]])
     ELSE Place("Copy", d, vv[Other(d)].idx, 0, how, "lv", f, CopyRule(vv[d].idx, vv[Other(d)].idx),
                [vv EXCEPT ![d] = vv[Other(d)]])
Move(d, how, f) ==
  /\ d \in Names
  /\ IF how = "construct" \/ vv[Other(d)] = Valueless
     THEN f = 0 /\ NoFault("Move", d, 0, 0, how, [vv EXCEPT ![d] = vv[Other(d)], ![Other(d)] = MovedFrom(vv[Other(d)])])
     ELSE Place("Move", d, vv[Other(d)].idx, 0, how, "rv", f, MoveRule(vv[d].idx, vv[Other(d)].idx),
                [vv EXCEPT ![d] = vv[Other(d)], ![Other(d)] = MovedFrom(vv[Other(d)])])
\* d = d  (the variant itself).  No fault here: whether a self-assignment reaches the alternative's assignment operator
\* at all (an implementation may return early) is not observable without one, and the state is the same either way
SelfCopy(d, f) ==
  /\ d \in Names
  /\ f = 0 /\ NoFault("SelfCopy", d, 0, 0, "", vv)
Swap == TRUE /\ NoFault("Swap", "v1", 0, 0, "", [v1 |-> vv.v2, v2 |-> vv.v1])
\* d = get<held>(d)   (a const reference to the contained value itself)
AliasSelf(d, f) ==
  /\ d \in Names
  /\ ((Slim /\ ~Throwing) => d = "v1")       \* all-paths generation of the basic shape: one variable (symmetry)
  /\ vv[d] # Valueless
  /\ Place("AliasSelf", d, vv[d].idx, 0, "", "lv", f, "assign", vv)
\* d = get<held>(d).member, the member being a source object that converts to alternative i and mirrors the value
AliasMember(d, i, f) ==
  /\ Throwing
  /\ vv[d].idx \in Throwers /\ i \in Throwers
  /\ ConvRule(vv[d].idx, i, "conv") # "direct"
  /\ Place("AliasMember", d, i, 0, "", "conv", f, ConvRule(vv[d].idx, i, "conv"), [vv EXCEPT ![d] = V(i, vv[d].val)])

Faults == IF Throwing THEN {0, 1} ELSE {0}
Next == \/ \E d \in Names, i \in Alt, x \in ValD, how \in {"", "conv", "lv", "rv"}, f \in Faults : AssignVal(d, i, x, how, f)
        \/ \E d \in Names, i \in Alt, x \in ValD, f \in Faults : Emplace(d, i, x, f)
        \/ \E d \in Names, how \in {"assign", "construct"}, f \in Faults : Copy(d, how, f) \/ Move(d, how, f)
        \/ \E d \in Names, f \in Faults : SelfCopy(d, f) \/ AliasSelf(d, f)
        \/ \E d \in Names, i \in Alt, f \in Faults : AliasMember(d, i, f)
        \/ Swap

Spec == Init /\ [][Next]_vars

(* ---- the property ------------------------------------------------------ *)
TypeOK == \A n \in Names : /\ vv[n].idx \in Alt \cup {NPOS} /\ vv[n].val \in ValD \cup {ANY, MOVED}
                           /\ (vv[n].idx = NPOS => vv[n].val = 0)
\* exactly one alternative is held (none by a valueless variant); get<I> succeeds exactly for it; visitation selects it
OneAlternative == \A n \in Names : LET o == ObsVar(vv[n]) IN
                    /\ Cardinality({j \in 1..NAlt : o.holds[j] = "T"}) = (IF o.vless = "T" THEN 0 ELSE 1)
                    /\ \A j \in 1..NAlt : (o.get[j] # THROW) <=> (o.holds[j] = "T")
                    /\ (o.vless = "F" => o.visit[1] = o.idx /\ o.holds[o.idx + 1] = "T")
                    /\ (o.vless = "T" <=> o.idx = NPOS) /\ (o.vless = "T" => o.visit[1] = THROW)
\* unspecified values only where the standard leaves them: a moved-from string; the moved marker only in a class
AnyOnlyString == \A n \in Names : /\ (vv[n].val = ANY => ~Throwing /\ vv[n].idx = 1)
                                  /\ (vv[n].val = MOVED => IsClass(vv[n].idx))
OrderTotal == LET e == EqV(vv.v1, vv.v2) l == LtV(vv.v1, vv.v2) g == LtV(vv.v2, vv.v1) IN
              "any" \notin {e, l, g} => Cardinality({z \in {e, l, g} : z = "T"}) = 1
\* a variant loses its value only through an exception
ValuelessOnlyAfterThrow == (\E n \in Names : vv[n] = Valueless) => thrown
\* an exception out of an assignment to the held alternative, or out of the construction of the temporary, changes nothing
ThrowKeepsOld == (last.threw /\ last.rule \in {"assign", "temp", "na"}) => vv = last.pre
\* an exception out of a direct emplace costs at most the destination its value; the other variable is untouched
ThrowDirect == (last.threw /\ last.rule = "direct") => /\ vv[Other(last.d)] = last.pre[Other(last.d)]
                                                       /\ vv[last.d] \in {Valueless, last.pre[last.d]}
\* consequence the standard spells out: ASSIGNING an alternative whose move constructor cannot throw (converting, copy,
\* move or self-aliasing assignment -- not emplace) gives the strong guarantee: after an exception nothing has changed
NothrowMoveAssignStrong == (last.threw /\ last.op # "Emplace" /\ NothrowMove(last.i)) => vv = last.pre
Property == /\ OneAlternative /\ AnyOnlyString /\ OrderTotal /\ ValuelessOnlyAfterThrow /\ ThrowKeepsOld /\ ThrowDirect
            /\ NothrowMoveAssignStrong

(* ---- behaviour export ---------------------------------------------------- *)
EmitAll == (Hist /\ Len(hist) = Depth + 1) => PrintT(<<"BEH", ToJson([steps |-> hist])>>)
Last == hist[Len(hist)]
HasLast == Hist /\ Len(hist) > 1
Prev == hist[Len(hist) - 1]
Threw == Last.exp.threw = "T"
\* rare conditions that must be in the replay set of every run: each is reported once (per worker)
\* from the path-enumeration run itself; the check is broken if one of them is never reported
Wits == <<
  <<"MoveTracked", HasLast /\ Last.op = "Move" /\ vv[Last.d].idx = 2 /\ vv[Other(Last.d)].val = MOVED>>,
  <<"MoveString", HasLast /\ Last.op = "Move" /\ vv[Other(Last.d)].val = ANY>>,
  <<"ReplaceTracked", HasLast /\ Last.op \in {"AssignVal", "Emplace"} /\ Len(hist) > 2 /\ Prev.exp.live[3] = 2 /\ Last.exp.live[3] = 1>>,
  <<"SwapDifferent", HasLast /\ Last.op = "Swap" /\ vv.v1.idx = 2 /\ vv.v2.idx = 1>>,
  <<"CopyAny", HasLast /\ Last.op = "Copy" /\ vv[Last.d].val = ANY>>,
  <<"SameIndexAssign", HasLast /\ Last.op = "AssignVal" /\ Len(hist) > 2 /\ Prev.exp[Last.d].idx = Last.i /\ Last.i = 2>>,
  <<"AliasSelfClass", HasLast /\ Last.op = "AliasSelf" /\ IsClass(Last.i)>>,
  \* throwing shape
  <<"ConvThrowKeepsOld", HasLast /\ Last.op = "AssignVal" /\ Last.how = "conv" /\ Threw /\ Last.rule = "temp" /\ IsClass(vv[Last.d].idx)>>,
  <<"CopyInThrowKeepsOld", HasLast /\ Last.op = "AssignVal" /\ Last.how = "lv" /\ Threw /\ Last.rule = "temp">>,
  <<"ConvThrowValueless", HasLast /\ Last.op = "AssignVal" /\ Threw /\ Last.rule = "direct" /\ vv[Last.d] = Valueless>>,
  <<"AssignSameThrows", HasLast /\ Last.op = "AssignVal" /\ Threw /\ Last.rule = "assign">>,
  <<"EmplaceThrowValueless", HasLast /\ Last.op = "Emplace" /\ Threw /\ Len(hist) > 2 /\ Prev.exp[Last.d].idx > 0>>,
  <<"CopyAssignThrowKeepsOld", HasLast /\ Last.op = "Copy" /\ Threw /\ Last.rule = "temp">>,
  <<"CopyAssignThrowValueless", HasLast /\ Last.op = "Copy" /\ Threw /\ Last.rule = "direct">>,
  <<"MoveAssignThrowValueless", HasLast /\ Last.op = "Move" /\ Threw /\ Last.rule = "direct">>,
  <<"AliasMemberConverting", HasLast /\ Last.op = "AliasMember" /\ ~Threw /\ Last.rule = "temp">>,
  <<"AliasMemberConvertingThrows", HasLast /\ Last.op = "AliasMember" /\ Threw /\ Last.rule = "temp">>,
  <<"AliasMemberSame", HasLast /\ Last.op = "AliasMember" /\ Last.rule = "assign">>,
  <<"FromValueless", HasLast /\ Last.op \in {"Copy", "Move", "Swap"} /\ ~Threw /\ Len(hist) > 2
                     /\ \E n \in Names : Prev.exp[n].idx = NPOS /\ Last.exp[n].idx # NPOS>>,
  <<"ValuelessRefilled", HasLast /\ Last.op \in {"AssignVal", "Emplace"} /\ ~Threw /\ Len(hist) > 2 /\ Prev.exp[Last.d].idx = NPOS>> >>
WitAll == \A i \in 1..NWit : (Wits[i][2] /\ TLCGet(i) = 0) => (PrintT(<<"WIT", Wits[i][1]>>) /\ TLCSet(i, 1))
=============================================================================
