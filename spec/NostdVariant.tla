---------------------------- MODULE NostdVariant ----------------------------
(***************************************************************************)
(* C20, variant machine: the contract of std::variant<int, std::string,    *)
(* Tracked> (Tracked = an instance-counted class of the harness) which     *)
(* nostd::variant (the bundled absl variant) must follow.                  *)
(*                                                                         *)
(* State: two variant variables v1, v2, each [idx, val].  Values are       *)
(* abstract 0..1 per alternative; ANY = "valid but unspecified" (a         *)
(* moved-from std::string: every observation of the VALUE is a don't-care, *)
(* the index is not); MOVED = the moved-from marker of Tracked (its move   *)
(* operations set it, so it is deterministic).                             *)
(* Operations: converting assignment, emplace<I>, copy/move assignment,    *)
(* copy/move construction (the variable is destroyed and re-created from   *)
(* the other one), self copy-assignment, swap.  After every step the whole *)
(* observer suite is projected for both variables: index(),                *)
(* holds_alternative<T>, get<I> (value, or bad_variant_access for the      *)
(* wrong index), get_if<I>, visit (unary and binary), == and <, and the    *)
(* number of live Tracked instances (an alternative that is replaced is    *)
(* destroyed; a held one is not).                                          *)
(***************************************************************************)
EXTENDS Naturals, Sequences, FiniteSets, TLC, Json

CONSTANTS Hist, Depth, Dev,
          Slim      \* BOOLEAN: all-paths generation only -- AssignVal always assigns value 1, Emplace value 0

NAlt  == 3                   \* 0: int   1: std::string   2: Tracked
Alt   == 0..(NAlt - 1)
ValD  == 0..1
ANY   == 7
MOVED == 8
THROW == 99                  \* get<I> on the wrong alternative throws bad_variant_access
V(i, x) == [idx |-> i, val |-> x]
Names == {"v1", "v2"}
Other(n) == IF n = "v1" THEN "v2" ELSE "v1"

NWit == 6          \* number of witness conditions (section "behaviour export")
VARIABLES vv, hist
vars == <<vv, hist>>

\* the value left behind in a moved-from alternative
MovedFrom(v) == IF v.idx = 0 THEN v ELSE IF v.idx = 1 THEN V(1, ANY) ELSE V(2, MOVED)

(* ---- observable projection ----------------------------------------------- *)
B(x) == IF x THEN "T" ELSE "F"
EqV(v, w) == IF v.idx # w.idx THEN "F" ELSE IF ANY \in {v.val, w.val} THEN "any" ELSE B(v.val = w.val)
LtV(v, w) == IF v.idx < w.idx THEN "T" ELSE IF v.idx > w.idx THEN "F"
             ELSE IF ANY \in {v.val, w.val} THEN "any" ELSE B(v.val < w.val)
NotV(x) == IF x = "any" THEN "any" ELSE IF x = "T" THEN "F" ELSE "T"
ObsVar(v) ==
  [idx   |-> v.idx,
   holds |-> [j \in 1..NAlt |-> B(v.idx = j - 1)],
   get   |-> [j \in 1..NAlt |-> IF v.idx = j - 1 THEN v.val ELSE THROW],   \* also get_if: null iff THROW
   visit |-> <<v.idx, v.val>>]                                            \* visitor returns (alternative, value)
Live(s) == Cardinality({n \in Names : s[n].idx = 2})
ObsOf(s) == [v1 |-> ObsVar(s.v1), v2 |-> ObsVar(s.v2),
             visit2 |-> <<s.v1.idx, s.v1.val, s.v2.idx, s.v2.val>>,
             eq |-> EqV(s.v1, s.v2), ne |-> NotV(EqV(s.v1, s.v2)),
             lt |-> LtV(s.v1, s.v2), gt |-> LtV(s.v2, s.v1),
             le |-> NotV(LtV(s.v2, s.v1)), ge |-> NotV(LtV(s.v1, s.v2)),
             live |-> Live(s)]

Go == ~Hist \/ Len(hist) < Depth + 1
Step(op, d, i, x, how, s2) ==
  /\ Go
  /\ vv' = s2
  /\ hist' = IF ~Hist THEN hist
             ELSE Append(hist, [op |-> op, d |-> d, i |-> i, x |-> x, how |-> how, exp |-> ObsOf(s2)])

Init == /\ vv = [v1 |-> V(0, 0), v2 |-> V(0, 0)]      \* default construction: first alternative, value-initialised
        /\ \A i \in 1..NWit : TLCSet(i, 0)
        /\ hist = IF Hist THEN <<[op |-> "init", d |-> "", i |-> 0, x |-> 0, how |-> "", exp |-> ObsOf(vv)]>> ELSE <<>>

\* d = T_i(x)   (converting assignment; from an lvalue, an rvalue, or -- for the string -- a const char* )
AssignVal(d, i, x) == /\ (Slim => x = 1)
                      /\ Step("AssignVal", d, i, x, "", [vv EXCEPT ![d] = V(i, x)])
\* d.emplace<i>(x)   returns a reference to the new value
Emplace(d, i, x)   == /\ (Slim => x = 0)
                      /\ Step("Emplace", d, i, x, "", [vv EXCEPT ![d] = V(i, x)])
\* d = other (how = "assign")   or   destroy d; construct d from other (how = "construct")
Copy(d, how) == d \in Names /\ Step("Copy", d, 0, 0, how, [vv EXCEPT ![d] = vv[Other(d)]])
Move(d, how) == d \in Names /\ Step("Move", d, 0, 0, how, [vv EXCEPT ![d] = vv[Other(d)], ![Other(d)] = MovedFrom(vv[Other(d)])])
SelfCopy(d)  == d \in Names /\ Step("SelfCopy", d, 0, 0, "", vv)
Swap         == TRUE /\ Step("Swap", "v1", 0, 0, "", [v1 |-> vv.v2, v2 |-> vv.v1])

Next == \/ \E d \in Names, i \in Alt, x \in ValD : AssignVal(d, i, x) \/ Emplace(d, i, x)
        \/ \E d \in Names, how \in {"assign", "construct"} : Copy(d, how) \/ Move(d, how)
        \/ \E d \in Names : SelfCopy(d)
        \/ Swap

Spec == Init /\ [][Next]_vars

(* ---- the property ------------------------------------------------------ *)
TypeOK == \A n \in Names : vv[n].idx \in Alt /\ vv[n].val \in ValD \cup {ANY, MOVED}
\* exactly one alternative is held; get<I> succeeds exactly for it; visitation selects it
OneAlternative == \A n \in Names : LET o == ObsVar(vv[n]) IN
                    /\ Cardinality({j \in 1..NAlt : o.holds[j] = "T"}) = 1
                    /\ \A j \in 1..NAlt : (o.get[j] # THROW) <=> (o.holds[j] = "T")
                    /\ o.visit[1] = o.idx /\ o.holds[o.idx + 1] = "T"
\* unspecified values only where the standard leaves them: a moved-from string; the moved marker only in Tracked
AnyOnlyString == \A n \in Names : (vv[n].val = ANY => vv[n].idx = 1) /\ (vv[n].val = MOVED => vv[n].idx = 2)
OrderTotal == LET e == EqV(vv.v1, vv.v2) l == LtV(vv.v1, vv.v2) g == LtV(vv.v2, vv.v1) IN
              "any" \notin {e, l, g} => Cardinality({z \in {e, l, g} : z = "T"}) = 1
Property == OneAlternative /\ AnyOnlyString /\ OrderTotal

(* ---- behaviour export ---------------------------------------------------- *)
EmitAll == (Hist /\ Len(hist) = Depth + 1) => PrintT(<<"BEH", ToJson([steps |-> hist])>>)
Last == hist[Len(hist)]
HasLast == Hist /\ Len(hist) > 1
\* rare conditions that must be in the replay set of every run: each is reported once (per worker)
\* from the path-enumeration run itself; the check is broken if one of them is never reported
Wits == <<
  <<"MoveTracked", HasLast /\ Last.op = "Move" /\ vv[Last.d].idx = 2 /\ vv[Other(Last.d)].val = MOVED>>,
  <<"MoveString", HasLast /\ Last.op = "Move" /\ vv[Other(Last.d)].val = ANY>>,
  <<"ReplaceTracked", HasLast /\ Last.op \in {"AssignVal", "Emplace"} /\ Len(hist) > 2 /\ hist[Len(hist) - 1].exp.live = 2 /\ Last.exp.live = 1>>,
  <<"SwapDifferent", HasLast /\ Last.op = "Swap" /\ vv.v1.idx = 2 /\ vv.v2.idx = 1>>,
  <<"CopyAny", HasLast /\ Last.op = "Copy" /\ vv[Last.d].val = ANY>>,
  <<"SameIndexAssign", HasLast /\ Last.op = "AssignVal" /\ Len(hist) > 2 /\ hist[Len(hist) - 1].exp[Last.d].idx = Last.i /\ Last.i = 2>> >>
WitAll == \A i \in 1..NWit : (Wits[i][2] /\ TLCGet(i) = 0) => (PrintT(<<"WIT", Wits[i][1]>>) /\ TLCSet(i, 1))
=============================================================================
