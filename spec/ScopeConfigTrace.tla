------------------------- MODULE ScopeConfigTrace -------------------------
(***************************************************************************)
(* Trace validation (code -> spec) for the third clause of C19: a log of   *)
(* a REAL provider driven with a random history (harness/c19_scopes.cc,    *)
(* mode `record`) is accepted iff it is a behaviour of ScopeConfig.tla.    *)
(* Events (one ndjson line each):                                          *)
(*   Cfg(signal, rules, dflt)   new execution: provider built with this    *)
(*                              configurator                               *)
(*   Get(scope, eq)             Get{Tracer,Meter,Logger}(scope); eq = the  *)
(*                              earlier handles (1-based) that are the     *)
(*                              SAME object as the one returned            *)
(*   Emit(h, appeared)          telemetry through handle h; appeared =     *)
(*                              "yes" (exactly one item under the scope    *)
(*                              of h) | "no" | "wrongscope" | "many"       *)
(* Dev = the deviations currently listed as known; devUsed is printed at   *)
(* acceptance.                                                             *)
(***************************************************************************)
EXTENDS ScopeConfig, IOUtils

TraceLog == ndJsonDeserialize(IOEnv.TRACE)

VARIABLES l, nexec
tvars == <<vars, l, nexec>>

Ev == TraceLog[l]
Is(e) == l <= Len(TraceLog) /\ Ev.e = e /\ l' = l + 1
SeqSet(s) == {s[j] : j \in 1..Len(s)}

TInit == /\ TLCSet(1, 0)
         /\ l = 1 /\ nexec = 0
         /\ signal = "" /\ rules = <<>> /\ dflt = TRUE
         /\ objs = <<>> /\ nobj = 0 /\ handles = <<>> /\ attempts = <<>> /\ emitted = <<>>
         /\ devUsed = {} /\ hist = <<>>

TCfg == /\ Is("Cfg")
        /\ signal' = Ev.signal /\ rules' = Ev.rules /\ dflt' = Ev.dflt
        /\ objs' = <<>> /\ nobj' = 0 /\ handles' = <<>> /\ attempts' = <<>> /\ emitted' = <<>>
        /\ nexec' = nexec + 1
        /\ UNCHANGED <<devUsed, hist>>

\* the same object as EXACTLY the earlier handles requested with these arguments
TGetIdeal == /\ Is("Get")
             /\ SeqSet(Ev.eq) = SameArgs(Ev.scope)
             /\ GetIdeal(Ev.scope)
             /\ UNCHANGED nexec
\* the listed deviation: a disabled logger scope gets a fresh object (equal to none of them)
TGetDev == /\ Is("Get")
           /\ SeqSet(Ev.eq) = {}
           /\ GetDev(Ev.scope)
           /\ PrintT(<<"DEVAT", l>>)
           /\ UNCHANGED nexec
TEmit == /\ Is("Emit")
         /\ Ev.h \in 1..Len(handles)
         /\ Ev.appeared = (IF Enabled(handles[Ev.h].scope) THEN "yes" ELSE "no")
         /\ EmitVia(Ev.h)
         /\ UNCHANGED nexec

TNext == TCfg \/ TGetIdeal \/ TGetDev \/ TEmit
TSpec == TInit /\ [][TNext]_tvars

Progress == TLCSet(1, IF l > TLCGet(1) THEN l ELSE TLCGet(1))
Accepted == IF TLCGet(1) = Len(TraceLog) + 1 THEN TRUE
            ELSE PrintT(<<"REJECTED_AT", TLCGet(1)>>) /\ FALSE
Report == (l = Len(TraceLog) + 1) => (PrintT(<<"ACCEPTED", nexec>>) /\ PrintT(<<"DEVUSED", devUsed>>))
\* the property, on every validated prefix
TraceInv == DisabledEmitsNothingOthersUnaffected /\ DevNarrow /\ SameArgsSameObject /\ DifferentArgsDifferentObject
=============================================================================
