\* prints every case of the decision table with the expected result (and the deviation alternative)
CONSTANTS Mode = "table" Dev = {"tracer-keeps-parent-sampled-flag"} Hist = TRUE NMid = 1 NIds = 1 Top = 1
INIT Init
NEXT Next
INVARIANTS EmitCase DevIsNarrow
