\* every pair of strings with the whole observer suite (Depth = 0); Depth = 1, BLen = 0: every substr(pos, n)
CONSTANTS MaxLen = 3  Hist = TRUE  Depth = 0  Dev = {}  Laws = FALSE  BLen = 3
INIT Init
NEXT Next
INVARIANTS EmitAll WitAll
