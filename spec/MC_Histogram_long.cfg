\* direct 2 objects, ranks 0..4, LONG boundary lists (17-18 entries, value-equal boundary first / last / middle), <=2 Aggregate, <=2 other
\* (tools/props/C07.py generates the same text; thorough tier uses larger constants)
CONSTANTS MaxRank = 4
  BoundSets = {{65, 69, 70, 71, 72, 73, 74, 75, 76, 77, 78, 79, 80, 81, 82, 83, 84}, {48, 49, 50, 51, 52, 53, 54, 55, 56, 57, 58, 59, 60, 61, 62, 63, 67}, {56, 57, 58, 59, 60, 61, 62, 63, 65, 67, 69, 70, 71, 72, 73, 74, 75, 76}} BOff = 64
  Tables = {"D_small"}
  MMChoices = {TRUE}
  Mode = "direct" NSlots = 2 NKeys = 1 ReaderCfgs = {1}
  MaxAgg = 2 MaxOps = 2 Balanced = FALSE Hist = FALSE
  Dev = {}
INIT Init
NEXT Next
VIEW View
CONSTRAINT Bound
INVARIANTS TypeOK BucketsPartition BucketRule EveryValueInOneBucket SumExact MinMaxExact PointIsSummary ReadersAgree MergeIsHomomorphism DiffIsInverse DiffAltOnlyAfterDiff
