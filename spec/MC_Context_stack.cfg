\* C10 exhaustive: every attach/detach order on two interleaved threads, depth <= 3
CONSTANTS NT = 2  NK = 1  NV = 1  NS = 1  MaxCtx = 1  MaxSet = 1  MaxDepth = 3  MaxMap = 1  MaxDrop = 0  MaxTok = 4  SampleToks = 0  WithEmpty = FALSE
          GenDepth = 0  DeepTarget = 99  Hist = FALSE  KeepFlags = FALSE  Dev = {}
INIT Init
NEXT Next
VIEW View
INVARIANTS TypeOK MostRecentBinding Shadowing StackFrames
PROPERTIES Immutable AttachMakesCurrent DetachRestores ForeignTokenNoOp TokenLifetime ScopeActivates ThreadsIsolated
