CONSTANTS NProd = 1 NRec = 2 QMax = 2 BMax = 1 NFlush = 1 NShut = 1 Budget = 99 Variant = "span" Dev = {} Hist = FALSE defaultInitValue = 0
SPECIFICATION Spec
INVARIANTS Safety BatchBound
