---------------------------- MODULE BaggageTrace ----------------------------
(***************************************************************************)
(* C15, code -> spec: accepts a log of calls made on real Baggage objects  *)
(* and the real BaggagePropagator (harness/c15_baggage.cc record) iff it   *)
(* is a behaviour of Baggage.tla.  Strings are logged in the spec's        *)
(* vocabulary (runs [c, n] over the character classes).                    *)
(*   Cfg                       new execution; object #1 is the empty one   *)
(*   Set(o, k, v, res)         objs[o].Set(k, v) returned the entries res  *)
(*   SetBad(o, k, v)           Set with an empty / non-printable argument  *)
(*   Del(o, k, res)            objs[o].Delete(k)                           *)
(*   Rt(o, res)                Inject objs[o], Extract into a fresh        *)
(*                             context: res = the extracted entries        *)
(*   Obs(o, list, gets)        re-observation of an object: its entries    *)
(*                             and whether GetValue agrees with them       *)
(*   End(objects)                                                          *)
(* The order of the entries after Set/Delete is not promised: results are  *)
(* compared as sets (without duplicates); the OBSERVED order becomes the   *)
(* state, and Rt / Obs must reproduce it exactly.                          *)
(***************************************************************************)
EXTENDS Baggage, IOUtils

TraceLog == ndJsonDeserialize(IOEnv.TRACE)

VARIABLES l, nexec
tvars == <<vars, l, nexec>>

Ev == TraceLog[l]
Is(e) == l <= Len(TraceLog) /\ Ev.e = e /\ l' = l + 1
Ghosts == UNCHANGED <<last, hdr, devUsed, nops, hist>>
NoDupL(B) == Len(B) = Cardinality({B[i][1] : i \in 1..Len(B)})

TInit == /\ TLCSet(1, 0) /\ l = 1 /\ nexec = 0
         /\ objs = <<>> /\ last = [op |-> "none"] /\ hdr = <<>> /\ devUsed = {} /\ nops = 0 /\ hist = <<>>

TCfg == /\ Is("Cfg") /\ objs' = <<<<>>>> /\ nexec' = nexec + 1 /\ Ghosts

TSet == /\ Is("Set") /\ Ev.o \in DOMAIN objs
        /\ ValidKeyS(Ev.k) /\ ValidValS(Ev.v)
        /\ NoDupL(Ev.res)
        /\ AsSet(Ev.res) = AsSet(SetB(objs[Ev.o], Ev.k, Ev.v))
        /\ objs' = Append(objs, Ev.res) /\ UNCHANGED nexec /\ Ghosts

\* nothing is promised about the result (it is not kept); the call must just return
TSetBad == /\ Is("SetBad") /\ Ev.o \in DOMAIN objs
           /\ ~(ValidKeyS(Ev.k) /\ ValidValS(Ev.v))
           /\ UNCHANGED <<objs, nexec>> /\ Ghosts

TDel == /\ Is("Del") /\ Ev.o \in DOMAIN objs
        /\ NoDupL(Ev.res)
        /\ AsSet(Ev.res) = AsSet(DelB(objs[Ev.o], Ev.k))
        /\ objs' = Append(objs, Ev.res) /\ UNCHANGED nexec /\ Ghosts

\* the round trip through the propagator: same entries, same order (for what the statement promises)
TRt == /\ Is("Rt") /\ Ev.o \in DOMAIN objs
       /\ Promised(objs[Ev.o])
       /\ Ev.res = Extract(<<>>, FromHeader(ToHeader(objs[Ev.o])))
       /\ Ev.res = objs[Ev.o] /\ Ev.other
       /\ objs' = Append(objs, Ev.res) /\ UNCHANGED nexec /\ Ghosts

TObs == /\ Is("Obs") /\ Ev.o \in DOMAIN objs
        /\ Ev.list = objs[Ev.o] /\ Ev.gets
        /\ UNCHANGED <<objs, nexec>> /\ Ghosts

TEnd == /\ Is("End") /\ Ev.objects = Len(objs)
        /\ UNCHANGED <<objs, nexec>> /\ Ghosts

TNext == TCfg \/ TSet \/ TSetBad \/ TDel \/ TRt \/ TObs \/ TEnd

Progress == TLCSet(1, IF l > TLCGet(1) THEN l ELSE TLCGet(1))
Accepted == IF TLCGet(1) = Len(TraceLog) + 1 THEN TRUE
            ELSE PrintT(<<"REJECTED_AT", TLCGet(1)>>) /\ FALSE
Report == (l = Len(TraceLog) + 1) => /\ PrintT(<<"ACCEPTED", nexec>>)
                                     /\ PrintT(<<"DEVUSED", ToJson(devUsed)>>)
=============================================================================
