\* C18, behaviour export: every resource behaviour of depth 2 (BEH lines)
CONSTANTS
 Dev = {}
 Hist = TRUE
 Mode = "machine"
 Keys = {"k1"}
 Vals = {"s1", "i1"}
 EKeys = {"service.name"}
 SVals = {"s2"}
 Urls = {"u1"}
 TokKinds = {"kv"}
 MaxTok = 1
 SvcKinds = {"unset", "set"}
 MaxPool = 4
 MaxProv = 1
 MaxSteps = 2
 DefUrls = {""}
 DefExtras = {{}}
 EnvUrls = {""}
 RdKinds = {}
 RdPres = {}
 RdBodies = {}
 RdSufs = {}
 RdTb = {}
 RdErr = {}
INIT Init
NEXT Next
VIEW View
INVARIANTS EmitAll
