--------------------------- MODULE PeriodicReader ---------------------------
(***************************************************************************)
(* Level B (implementation-shaped) model of                               *)
(*   sdk/src/metrics/export/periodic_exporting_metric_reader.cc           *)
(*   (+ MetricReader::Shutdown/ForceFlush, MeterContext latch/flush lock) *)
(* Worker loop, per-cycle collect thread with promise/future and the      *)
(* export-timeout timer (cancel flag), OnForceFlush ticket loop,          *)
(* OnShutDown.  One label per visible synchronisation operation.          *)
(*                                                                         *)
(* Dev "ticket-published-after-cancelled-export" (F3): the worker         *)
(* publishes the ForceFlush ticket after every cycle, also when that      *)
(* cycle's export was cancelled for timeout, and ForceFlush then returns  *)
(* true.  With Dev = {} (the repaired code) a cancelled cycle also        *)
(* records its ticket in cancelledSeq and a ForceFlush whose ticket is    *)
(* not above cancelledSeq returns false (it still terminates).            *)
(***************************************************************************)
EXTENDS Integers, Sequences, FiniteSets, TLC

CONSTANTS NAdd, NFlush, NShut, Budget, Dev

Flushers == 11..(10 + NFlush)
Shuts    == 21..(20 + NShut)
Inf      == 99

(* --algorithm PeriodicReader {
variables
  pending = 0, notified = 0, cancelledSeq = 0, forceWake = FALSE, shutdown = FALSE, latch = FALSE,
  ffm = -1, ctxLock = -1,
  wWaiting = FALSE, wSignalled = FALSE, fWaiting = {}, fSignalled = {},
  collGo = FALSE, collDone = FALSE, promiseReady = FALSE, cancel = FALSE, workerDone = FALSE,
  recorded = 0,
  \* ghosts
  inExport = FALSE, overlap = FALSE, lateExport = FALSE, sdReturned = FALSE, expSD = 0,
  exportedCycle = FALSE,
  ffSnap = [f \in Flushers |-> 0], ffExported = [f \in Flushers |-> FALSE], ffOK = [f \in Flushers |-> FALSE],
  ffRes = [f \in Flushers |-> "none"];

macro NotifyWorker() { if (wWaiting) { wSignalled := TRUE; } }

\* ---- DoBackgroundWork / CollectAndExportOnce ------------------------------------------------
fair process (worker = 0)
  variables t = 0, ns = 0;
{
 C_ticket: t := pending;
 C_spawn:  cancel := FALSE; promiseReady := FALSE; collDone := FALSE; exportedCycle := FALSE; collGo := TRUE;
 C_wait:   either { await promiseReady; }           \* receiver.wait_for(...) == ready
           or     { cancel := TRUE; };               \* ... == timeout: cancel_export_for_timeout := true
 C_join:   await collDone;                            \* task_thread->join()
 N_cancel: if (Dev = {} /\ cancel) { cancelledSeq := t; };   \* repaired code only
 N_load:   ns := notified;
 N_loop:   while (t > ns) {
             if (notified = ns) { notified := t; } else { ns := notified; };
 N_notify:   fSignalled := fSignalled \cup fWaiting; fWaiting := {};
           };
 W_pred:   if (forceWake) {
 W_clear:    forceWake := FALSE; goto W_chk;
           };
 W_pred2:  if (shutdown) { goto W_chk; };
 W_block:  wWaiting := TRUE; wSignalled := FALSE;
 W_wake:   either { await wSignalled; wWaiting := FALSE; wSignalled := FALSE; goto W_pred; }
           or     { wWaiting := FALSE; wSignalled := FALSE; };      \* export interval elapsed
 W_chk:    if (~shutdown) { goto C_ticket; };
 W_exit:   workerDone := TRUE;
}

\* ---- the per-cycle collect thread ---------------------------------------------------------------
fair process (collector = 1)
  variables snap = 0;
{
 K_start:   await collGo \/ workerDone;
            if (~collGo) { goto K_end; } else { collGo := FALSE; };
 K_produce: snap := recorded;                         \* MetricReader::Collect -> Produce()
 K_cb:      if (cancel) { goto K_set; };              \* cancelled: Export is skipped
 K_export:  overlap := overlap \/ inExport; inExport := TRUE;
            lateExport := lateExport \/ sdReturned;
            exportedCycle := TRUE;
            ffExported := [f \in Flushers |-> ffExported[f] \/ (ffRes[f] = "called" /\ snap >= ffSnap[f])];
 K_expend:  inExport := FALSE;
 K_set:     promiseReady := TRUE;                     \* sender.set_value()
 K_done:    collDone := TRUE; goto K_start;
 K_end:     skip;
}

fair process (recorder = 2)
  variables i = 0;
{
 R_loop: while (i < NAdd) { recorded := recorded + 1; i := i + 1; };
}

\* ---- MeterContext::ForceFlush -> MetricReader::ForceFlush -> OnForceFlush --------------------------
fair process (flush \in Flushers)
  variables my = 0, lp = 0, budget = Budget, res = FALSE, timedout = FALSE;
{
 F_call:   ffSnap[self] := recorded; ffRes[self] := "called";
 F_ctx:    await ctxLock = -1; ctxLock := self;       \* forceflush_lock_ (spin lock)
 F_lock:   await ffm = -1; ffm := self;
 F_ticket: pending := pending + 1; my := pending;
 F_loop:   while (~res /\ budget # 0) {
             timedout := FALSE;
 BC1:        if (shutdown) { res := TRUE; goto F_eval; };
 BC2:        lp := pending;
 BC3:        if (lp > notified) {
 BC4:          forceWake := TRUE;
 BC5:          NotifyWorker();
             };
 BC6:        if (notified >= my) { res := TRUE; goto F_eval; };
 BC7:        if (timedout) { goto F_eval; };
 F_block:    ffm := -1; fWaiting := fWaiting \cup {self}; fSignalled := fSignalled \ {self};
 F_wake:     either { await self \in fSignalled; fSignalled := fSignalled \ {self}; }
             or     { fWaiting := fWaiting \ {self}; fSignalled := fSignalled \ {self}; timedout := TRUE; };
 F_relock:   await ffm = -1; ffm := self;
             goto BC1;
 F_eval:     if (timedout /\ budget # Inf) { budget := budget - 1; };
           };
 F_expff:  if (res /\ (budget # 0)) {
             ffOK[self] := TRUE;                      \* exporter_->ForceFlush(...) invoked
             either { skip; } or { res := FALSE; };    \* its result
           } else { res := FALSE; };
 F_ret:    ffRes[self] := IF res /\ notified >= my /\ (Dev # {} \/ cancelledSeq < my) THEN "true" ELSE "false";
           ffm := -1;
 F_unctx:  ctxLock := -1;
}

\* ---- MeterContext::Shutdown -> MetricReader::Shutdown -> OnShutDown ------------------------------------
fair process (shut \in Shuts)
{
 S_latch:  if (latch) { goto S_done; } else { latch := TRUE; };
 S_set:    shutdown := TRUE;
 S_notify: NotifyWorker();                             \* cv_.notify_all()
 S_join:   await workerDone;
 S_exp:    expSD := expSD + 1;
 S_ret:    sdReturned := TRUE;
 S_done:   skip;
}
} *)
\* BEGIN TRANSLATION
VARIABLES pc, pending, notified, cancelledSeq, forceWake, shutdown, latch, 
          ffm, ctxLock, wWaiting, wSignalled, fWaiting, fSignalled, collGo, 
          collDone, promiseReady, cancel, workerDone, recorded, inExport, 
          overlap, lateExport, sdReturned, expSD, exportedCycle, ffSnap, 
          ffExported, ffOK, ffRes, t, ns, snap, i, my, lp, budget, res, 
          timedout

vars == << pc, pending, notified, cancelledSeq, forceWake, shutdown, latch, 
           ffm, ctxLock, wWaiting, wSignalled, fWaiting, fSignalled, collGo, 
           collDone, promiseReady, cancel, workerDone, recorded, inExport, 
           overlap, lateExport, sdReturned, expSD, exportedCycle, ffSnap, 
           ffExported, ffOK, ffRes, t, ns, snap, i, my, lp, budget, res, 
           timedout >>

ProcSet == {0} \cup {1} \cup {2} \cup (Flushers) \cup (Shuts)

Init == (* Global variables *)
        /\ pending = 0
        /\ notified = 0
        /\ cancelledSeq = 0
        /\ forceWake = FALSE
        /\ shutdown = FALSE
        /\ latch = FALSE
        /\ ffm = -1
        /\ ctxLock = -1
        /\ wWaiting = FALSE
        /\ wSignalled = FALSE
        /\ fWaiting = {}
        /\ fSignalled = {}
        /\ collGo = FALSE
        /\ collDone = FALSE
        /\ promiseReady = FALSE
        /\ cancel = FALSE
        /\ workerDone = FALSE
        /\ recorded = 0
        /\ inExport = FALSE
        /\ overlap = FALSE
        /\ lateExport = FALSE
        /\ sdReturned = FALSE
        /\ expSD = 0
        /\ exportedCycle = FALSE
        /\ ffSnap = [f \in Flushers |-> 0]
        /\ ffExported = [f \in Flushers |-> FALSE]
        /\ ffOK = [f \in Flushers |-> FALSE]
        /\ ffRes = [f \in Flushers |-> "none"]
        (* Process worker *)
        /\ t = 0
        /\ ns = 0
        (* Process collector *)
        /\ snap = 0
        (* Process recorder *)
        /\ i = 0
        (* Process flush *)
        /\ my = [self \in Flushers |-> 0]
        /\ lp = [self \in Flushers |-> 0]
        /\ budget = [self \in Flushers |-> Budget]
        /\ res = [self \in Flushers |-> FALSE]
        /\ timedout = [self \in Flushers |-> FALSE]
        /\ pc = [self \in ProcSet |-> CASE self = 0 -> "C_ticket"
                                        [] self = 1 -> "K_start"
                                        [] self = 2 -> "R_loop"
                                        [] self \in Flushers -> "F_call"
                                        [] self \in Shuts -> "S_latch"]

C_ticket == /\ pc[0] = "C_ticket"
            /\ t' = pending
            /\ pc' = [pc EXCEPT ![0] = "C_spawn"]
            /\ UNCHANGED << pending, notified, cancelledSeq, forceWake, 
                            shutdown, latch, ffm, ctxLock, wWaiting, 
                            wSignalled, fWaiting, fSignalled, collGo, collDone, 
                            promiseReady, cancel, workerDone, recorded, 
                            inExport, overlap, lateExport, sdReturned, expSD, 
                            exportedCycle, ffSnap, ffExported, ffOK, ffRes, ns, 
                            snap, i, my, lp, budget, res, timedout >>

C_spawn == /\ pc[0] = "C_spawn"
           /\ cancel' = FALSE
           /\ promiseReady' = FALSE
           /\ collDone' = FALSE
           /\ exportedCycle' = FALSE
           /\ collGo' = TRUE
           /\ pc' = [pc EXCEPT ![0] = "C_wait"]
           /\ UNCHANGED << pending, notified, cancelledSeq, forceWake, 
                           shutdown, latch, ffm, ctxLock, wWaiting, wSignalled, 
                           fWaiting, fSignalled, workerDone, recorded, 
                           inExport, overlap, lateExport, sdReturned, expSD, 
                           ffSnap, ffExported, ffOK, ffRes, t, ns, snap, i, my, 
                           lp, budget, res, timedout >>

C_wait == /\ pc[0] = "C_wait"
          /\ \/ /\ promiseReady
                /\ UNCHANGED cancel
             \/ /\ cancel' = TRUE
          /\ pc' = [pc EXCEPT ![0] = "C_join"]
          /\ UNCHANGED << pending, notified, cancelledSeq, forceWake, shutdown, 
                          latch, ffm, ctxLock, wWaiting, wSignalled, fWaiting, 
                          fSignalled, collGo, collDone, promiseReady, 
                          workerDone, recorded, inExport, overlap, lateExport, 
                          sdReturned, expSD, exportedCycle, ffSnap, ffExported, 
                          ffOK, ffRes, t, ns, snap, i, my, lp, budget, res, 
                          timedout >>

C_join == /\ pc[0] = "C_join"
          /\ collDone
          /\ pc' = [pc EXCEPT ![0] = "N_cancel"]
          /\ UNCHANGED << pending, notified, cancelledSeq, forceWake, shutdown, 
                          latch, ffm, ctxLock, wWaiting, wSignalled, fWaiting, 
                          fSignalled, collGo, collDone, promiseReady, cancel, 
                          workerDone, recorded, inExport, overlap, lateExport, 
                          sdReturned, expSD, exportedCycle, ffSnap, ffExported, 
                          ffOK, ffRes, t, ns, snap, i, my, lp, budget, res, 
                          timedout >>

N_cancel == /\ pc[0] = "N_cancel"
            /\ IF Dev = {} /\ cancel
                  THEN /\ cancelledSeq' = t
                  ELSE /\ TRUE
                       /\ UNCHANGED cancelledSeq
            /\ pc' = [pc EXCEPT ![0] = "N_load"]
            /\ UNCHANGED << pending, notified, forceWake, shutdown, latch, ffm, 
                            ctxLock, wWaiting, wSignalled, fWaiting, 
                            fSignalled, collGo, collDone, promiseReady, cancel, 
                            workerDone, recorded, inExport, overlap, 
                            lateExport, sdReturned, expSD, exportedCycle, 
                            ffSnap, ffExported, ffOK, ffRes, t, ns, snap, i, 
                            my, lp, budget, res, timedout >>

N_load == /\ pc[0] = "N_load"
          /\ ns' = notified
          /\ pc' = [pc EXCEPT ![0] = "N_loop"]
          /\ UNCHANGED << pending, notified, cancelledSeq, forceWake, shutdown, 
                          latch, ffm, ctxLock, wWaiting, wSignalled, fWaiting, 
                          fSignalled, collGo, collDone, promiseReady, cancel, 
                          workerDone, recorded, inExport, overlap, lateExport, 
                          sdReturned, expSD, exportedCycle, ffSnap, ffExported, 
                          ffOK, ffRes, t, snap, i, my, lp, budget, res, 
                          timedout >>

N_loop == /\ pc[0] = "N_loop"
          /\ IF t > ns
                THEN /\ IF notified = ns
                           THEN /\ notified' = t
                                /\ ns' = ns
                           ELSE /\ ns' = notified
                                /\ UNCHANGED notified
                     /\ pc' = [pc EXCEPT ![0] = "N_notify"]
                ELSE /\ pc' = [pc EXCEPT ![0] = "W_pred"]
                     /\ UNCHANGED << notified, ns >>
          /\ UNCHANGED << pending, cancelledSeq, forceWake, shutdown, latch, 
                          ffm, ctxLock, wWaiting, wSignalled, fWaiting, 
                          fSignalled, collGo, collDone, promiseReady, cancel, 
                          workerDone, recorded, inExport, overlap, lateExport, 
                          sdReturned, expSD, exportedCycle, ffSnap, ffExported, 
                          ffOK, ffRes, t, snap, i, my, lp, budget, res, 
                          timedout >>

N_notify == /\ pc[0] = "N_notify"
            /\ fSignalled' = (fSignalled \cup fWaiting)
            /\ fWaiting' = {}
            /\ pc' = [pc EXCEPT ![0] = "N_loop"]
            /\ UNCHANGED << pending, notified, cancelledSeq, forceWake, 
                            shutdown, latch, ffm, ctxLock, wWaiting, 
                            wSignalled, collGo, collDone, promiseReady, cancel, 
                            workerDone, recorded, inExport, overlap, 
                            lateExport, sdReturned, expSD, exportedCycle, 
                            ffSnap, ffExported, ffOK, ffRes, t, ns, snap, i, 
                            my, lp, budget, res, timedout >>

W_pred == /\ pc[0] = "W_pred"
          /\ IF forceWake
                THEN /\ pc' = [pc EXCEPT ![0] = "W_clear"]
                ELSE /\ pc' = [pc EXCEPT ![0] = "W_pred2"]
          /\ UNCHANGED << pending, notified, cancelledSeq, forceWake, shutdown, 
                          latch, ffm, ctxLock, wWaiting, wSignalled, fWaiting, 
                          fSignalled, collGo, collDone, promiseReady, cancel, 
                          workerDone, recorded, inExport, overlap, lateExport, 
                          sdReturned, expSD, exportedCycle, ffSnap, ffExported, 
                          ffOK, ffRes, t, ns, snap, i, my, lp, budget, res, 
                          timedout >>

W_clear == /\ pc[0] = "W_clear"
           /\ forceWake' = FALSE
           /\ pc' = [pc EXCEPT ![0] = "W_chk"]
           /\ UNCHANGED << pending, notified, cancelledSeq, shutdown, latch, 
                           ffm, ctxLock, wWaiting, wSignalled, fWaiting, 
                           fSignalled, collGo, collDone, promiseReady, cancel, 
                           workerDone, recorded, inExport, overlap, lateExport, 
                           sdReturned, expSD, exportedCycle, ffSnap, 
                           ffExported, ffOK, ffRes, t, ns, snap, i, my, lp, 
                           budget, res, timedout >>

W_pred2 == /\ pc[0] = "W_pred2"
           /\ IF shutdown
                 THEN /\ pc' = [pc EXCEPT ![0] = "W_chk"]
                 ELSE /\ pc' = [pc EXCEPT ![0] = "W_block"]
           /\ UNCHANGED << pending, notified, cancelledSeq, forceWake, 
                           shutdown, latch, ffm, ctxLock, wWaiting, wSignalled, 
                           fWaiting, fSignalled, collGo, collDone, 
                           promiseReady, cancel, workerDone, recorded, 
                           inExport, overlap, lateExport, sdReturned, expSD, 
                           exportedCycle, ffSnap, ffExported, ffOK, ffRes, t, 
                           ns, snap, i, my, lp, budget, res, timedout >>

W_block == /\ pc[0] = "W_block"
           /\ wWaiting' = TRUE
           /\ wSignalled' = FALSE
           /\ pc' = [pc EXCEPT ![0] = "W_wake"]
           /\ UNCHANGED << pending, notified, cancelledSeq, forceWake, 
                           shutdown, latch, ffm, ctxLock, fWaiting, fSignalled, 
                           collGo, collDone, promiseReady, cancel, workerDone, 
                           recorded, inExport, overlap, lateExport, sdReturned, 
                           expSD, exportedCycle, ffSnap, ffExported, ffOK, 
                           ffRes, t, ns, snap, i, my, lp, budget, res, 
                           timedout >>

W_wake == /\ pc[0] = "W_wake"
          /\ \/ /\ wSignalled
                /\ wWaiting' = FALSE
                /\ wSignalled' = FALSE
                /\ pc' = [pc EXCEPT ![0] = "W_pred"]
             \/ /\ wWaiting' = FALSE
                /\ wSignalled' = FALSE
                /\ pc' = [pc EXCEPT ![0] = "W_chk"]
          /\ UNCHANGED << pending, notified, cancelledSeq, forceWake, shutdown, 
                          latch, ffm, ctxLock, fWaiting, fSignalled, collGo, 
                          collDone, promiseReady, cancel, workerDone, recorded, 
                          inExport, overlap, lateExport, sdReturned, expSD, 
                          exportedCycle, ffSnap, ffExported, ffOK, ffRes, t, 
                          ns, snap, i, my, lp, budget, res, timedout >>

W_chk == /\ pc[0] = "W_chk"
         /\ IF ~shutdown
               THEN /\ pc' = [pc EXCEPT ![0] = "C_ticket"]
               ELSE /\ pc' = [pc EXCEPT ![0] = "W_exit"]
         /\ UNCHANGED << pending, notified, cancelledSeq, forceWake, shutdown, 
                         latch, ffm, ctxLock, wWaiting, wSignalled, fWaiting, 
                         fSignalled, collGo, collDone, promiseReady, cancel, 
                         workerDone, recorded, inExport, overlap, lateExport, 
                         sdReturned, expSD, exportedCycle, ffSnap, ffExported, 
                         ffOK, ffRes, t, ns, snap, i, my, lp, budget, res, 
                         timedout >>

W_exit == /\ pc[0] = "W_exit"
          /\ workerDone' = TRUE
          /\ pc' = [pc EXCEPT ![0] = "Done"]
          /\ UNCHANGED << pending, notified, cancelledSeq, forceWake, shutdown, 
                          latch, ffm, ctxLock, wWaiting, wSignalled, fWaiting, 
                          fSignalled, collGo, collDone, promiseReady, cancel, 
                          recorded, inExport, overlap, lateExport, sdReturned, 
                          expSD, exportedCycle, ffSnap, ffExported, ffOK, 
                          ffRes, t, ns, snap, i, my, lp, budget, res, timedout >>

worker == C_ticket \/ C_spawn \/ C_wait \/ C_join \/ N_cancel \/ N_load
             \/ N_loop \/ N_notify \/ W_pred \/ W_clear \/ W_pred2
             \/ W_block \/ W_wake \/ W_chk \/ W_exit

K_start == /\ pc[1] = "K_start"
           /\ collGo \/ workerDone
           /\ IF ~collGo
                 THEN /\ pc' = [pc EXCEPT ![1] = "K_end"]
                      /\ UNCHANGED collGo
                 ELSE /\ collGo' = FALSE
                      /\ pc' = [pc EXCEPT ![1] = "K_produce"]
           /\ UNCHANGED << pending, notified, cancelledSeq, forceWake, 
                           shutdown, latch, ffm, ctxLock, wWaiting, wSignalled, 
                           fWaiting, fSignalled, collDone, promiseReady, 
                           cancel, workerDone, recorded, inExport, overlap, 
                           lateExport, sdReturned, expSD, exportedCycle, 
                           ffSnap, ffExported, ffOK, ffRes, t, ns, snap, i, my, 
                           lp, budget, res, timedout >>

K_produce == /\ pc[1] = "K_produce"
             /\ snap' = recorded
             /\ pc' = [pc EXCEPT ![1] = "K_cb"]
             /\ UNCHANGED << pending, notified, cancelledSeq, forceWake, 
                             shutdown, latch, ffm, ctxLock, wWaiting, 
                             wSignalled, fWaiting, fSignalled, collGo, 
                             collDone, promiseReady, cancel, workerDone, 
                             recorded, inExport, overlap, lateExport, 
                             sdReturned, expSD, exportedCycle, ffSnap, 
                             ffExported, ffOK, ffRes, t, ns, i, my, lp, budget, 
                             res, timedout >>

K_cb == /\ pc[1] = "K_cb"
        /\ IF cancel
              THEN /\ pc' = [pc EXCEPT ![1] = "K_set"]
              ELSE /\ pc' = [pc EXCEPT ![1] = "K_export"]
        /\ UNCHANGED << pending, notified, cancelledSeq, forceWake, shutdown, 
                        latch, ffm, ctxLock, wWaiting, wSignalled, fWaiting, 
                        fSignalled, collGo, collDone, promiseReady, cancel, 
                        workerDone, recorded, inExport, overlap, lateExport, 
                        sdReturned, expSD, exportedCycle, ffSnap, ffExported, 
                        ffOK, ffRes, t, ns, snap, i, my, lp, budget, res, 
                        timedout >>

K_export == /\ pc[1] = "K_export"
            /\ overlap' = (overlap \/ inExport)
            /\ inExport' = TRUE
            /\ lateExport' = (lateExport \/ sdReturned)
            /\ exportedCycle' = TRUE
            /\ ffExported' = [f \in Flushers |-> ffExported[f] \/ (ffRes[f] = "called" /\ snap >= ffSnap[f])]
            /\ pc' = [pc EXCEPT ![1] = "K_expend"]
            /\ UNCHANGED << pending, notified, cancelledSeq, forceWake, 
                            shutdown, latch, ffm, ctxLock, wWaiting, 
                            wSignalled, fWaiting, fSignalled, collGo, collDone, 
                            promiseReady, cancel, workerDone, recorded, 
                            sdReturned, expSD, ffSnap, ffOK, ffRes, t, ns, 
                            snap, i, my, lp, budget, res, timedout >>

K_expend == /\ pc[1] = "K_expend"
            /\ inExport' = FALSE
            /\ pc' = [pc EXCEPT ![1] = "K_set"]
            /\ UNCHANGED << pending, notified, cancelledSeq, forceWake, 
                            shutdown, latch, ffm, ctxLock, wWaiting, 
                            wSignalled, fWaiting, fSignalled, collGo, collDone, 
                            promiseReady, cancel, workerDone, recorded, 
                            overlap, lateExport, sdReturned, expSD, 
                            exportedCycle, ffSnap, ffExported, ffOK, ffRes, t, 
                            ns, snap, i, my, lp, budget, res, timedout >>

K_set == /\ pc[1] = "K_set"
         /\ promiseReady' = TRUE
         /\ pc' = [pc EXCEPT ![1] = "K_done"]
         /\ UNCHANGED << pending, notified, cancelledSeq, forceWake, shutdown, 
                         latch, ffm, ctxLock, wWaiting, wSignalled, fWaiting, 
                         fSignalled, collGo, collDone, cancel, workerDone, 
                         recorded, inExport, overlap, lateExport, sdReturned, 
                         expSD, exportedCycle, ffSnap, ffExported, ffOK, ffRes, 
                         t, ns, snap, i, my, lp, budget, res, timedout >>

K_done == /\ pc[1] = "K_done"
          /\ collDone' = TRUE
          /\ pc' = [pc EXCEPT ![1] = "K_start"]
          /\ UNCHANGED << pending, notified, cancelledSeq, forceWake, shutdown, 
                          latch, ffm, ctxLock, wWaiting, wSignalled, fWaiting, 
                          fSignalled, collGo, promiseReady, cancel, workerDone, 
                          recorded, inExport, overlap, lateExport, sdReturned, 
                          expSD, exportedCycle, ffSnap, ffExported, ffOK, 
                          ffRes, t, ns, snap, i, my, lp, budget, res, timedout >>

K_end == /\ pc[1] = "K_end"
         /\ TRUE
         /\ pc' = [pc EXCEPT ![1] = "Done"]
         /\ UNCHANGED << pending, notified, cancelledSeq, forceWake, shutdown, 
                         latch, ffm, ctxLock, wWaiting, wSignalled, fWaiting, 
                         fSignalled, collGo, collDone, promiseReady, cancel, 
                         workerDone, recorded, inExport, overlap, lateExport, 
                         sdReturned, expSD, exportedCycle, ffSnap, ffExported, 
                         ffOK, ffRes, t, ns, snap, i, my, lp, budget, res, 
                         timedout >>

collector == K_start \/ K_produce \/ K_cb \/ K_export \/ K_expend \/ K_set
                \/ K_done \/ K_end

R_loop == /\ pc[2] = "R_loop"
          /\ IF i < NAdd
                THEN /\ recorded' = recorded + 1
                     /\ i' = i + 1
                     /\ pc' = [pc EXCEPT ![2] = "R_loop"]
                ELSE /\ pc' = [pc EXCEPT ![2] = "Done"]
                     /\ UNCHANGED << recorded, i >>
          /\ UNCHANGED << pending, notified, cancelledSeq, forceWake, shutdown, 
                          latch, ffm, ctxLock, wWaiting, wSignalled, fWaiting, 
                          fSignalled, collGo, collDone, promiseReady, cancel, 
                          workerDone, inExport, overlap, lateExport, 
                          sdReturned, expSD, exportedCycle, ffSnap, ffExported, 
                          ffOK, ffRes, t, ns, snap, my, lp, budget, res, 
                          timedout >>

recorder == R_loop

F_call(self) == /\ pc[self] = "F_call"
                /\ ffSnap' = [ffSnap EXCEPT ![self] = recorded]
                /\ ffRes' = [ffRes EXCEPT ![self] = "called"]
                /\ pc' = [pc EXCEPT ![self] = "F_ctx"]
                /\ UNCHANGED << pending, notified, cancelledSeq, forceWake, 
                                shutdown, latch, ffm, ctxLock, wWaiting, 
                                wSignalled, fWaiting, fSignalled, collGo, 
                                collDone, promiseReady, cancel, workerDone, 
                                recorded, inExport, overlap, lateExport, 
                                sdReturned, expSD, exportedCycle, ffExported, 
                                ffOK, t, ns, snap, i, my, lp, budget, res, 
                                timedout >>

F_ctx(self) == /\ pc[self] = "F_ctx"
               /\ ctxLock = -1
               /\ ctxLock' = self
               /\ pc' = [pc EXCEPT ![self] = "F_lock"]
               /\ UNCHANGED << pending, notified, cancelledSeq, forceWake, 
                               shutdown, latch, ffm, wWaiting, wSignalled, 
                               fWaiting, fSignalled, collGo, collDone, 
                               promiseReady, cancel, workerDone, recorded, 
                               inExport, overlap, lateExport, sdReturned, 
                               expSD, exportedCycle, ffSnap, ffExported, ffOK, 
                               ffRes, t, ns, snap, i, my, lp, budget, res, 
                               timedout >>

F_lock(self) == /\ pc[self] = "F_lock"
                /\ ffm = -1
                /\ ffm' = self
                /\ pc' = [pc EXCEPT ![self] = "F_ticket"]
                /\ UNCHANGED << pending, notified, cancelledSeq, forceWake, 
                                shutdown, latch, ctxLock, wWaiting, wSignalled, 
                                fWaiting, fSignalled, collGo, collDone, 
                                promiseReady, cancel, workerDone, recorded, 
                                inExport, overlap, lateExport, sdReturned, 
                                expSD, exportedCycle, ffSnap, ffExported, ffOK, 
                                ffRes, t, ns, snap, i, my, lp, budget, res, 
                                timedout >>

F_ticket(self) == /\ pc[self] = "F_ticket"
                  /\ pending' = pending + 1
                  /\ my' = [my EXCEPT ![self] = pending']
                  /\ pc' = [pc EXCEPT ![self] = "F_loop"]
                  /\ UNCHANGED << notified, cancelledSeq, forceWake, shutdown, 
                                  latch, ffm, ctxLock, wWaiting, wSignalled, 
                                  fWaiting, fSignalled, collGo, collDone, 
                                  promiseReady, cancel, workerDone, recorded, 
                                  inExport, overlap, lateExport, sdReturned, 
                                  expSD, exportedCycle, ffSnap, ffExported, 
                                  ffOK, ffRes, t, ns, snap, i, lp, budget, res, 
                                  timedout >>

F_loop(self) == /\ pc[self] = "F_loop"
                /\ IF ~res[self] /\ budget[self] # 0
                      THEN /\ timedout' = [timedout EXCEPT ![self] = FALSE]
                           /\ pc' = [pc EXCEPT ![self] = "BC1"]
                      ELSE /\ pc' = [pc EXCEPT ![self] = "F_expff"]
                           /\ UNCHANGED timedout
                /\ UNCHANGED << pending, notified, cancelledSeq, forceWake, 
                                shutdown, latch, ffm, ctxLock, wWaiting, 
                                wSignalled, fWaiting, fSignalled, collGo, 
                                collDone, promiseReady, cancel, workerDone, 
                                recorded, inExport, overlap, lateExport, 
                                sdReturned, expSD, exportedCycle, ffSnap, 
                                ffExported, ffOK, ffRes, t, ns, snap, i, my, 
                                lp, budget, res >>

BC1(self) == /\ pc[self] = "BC1"
             /\ IF shutdown
                   THEN /\ res' = [res EXCEPT ![self] = TRUE]
                        /\ pc' = [pc EXCEPT ![self] = "F_eval"]
                   ELSE /\ pc' = [pc EXCEPT ![self] = "BC2"]
                        /\ res' = res
             /\ UNCHANGED << pending, notified, cancelledSeq, forceWake, 
                             shutdown, latch, ffm, ctxLock, wWaiting, 
                             wSignalled, fWaiting, fSignalled, collGo, 
                             collDone, promiseReady, cancel, workerDone, 
                             recorded, inExport, overlap, lateExport, 
                             sdReturned, expSD, exportedCycle, ffSnap, 
                             ffExported, ffOK, ffRes, t, ns, snap, i, my, lp, 
                             budget, timedout >>

BC2(self) == /\ pc[self] = "BC2"
             /\ lp' = [lp EXCEPT ![self] = pending]
             /\ pc' = [pc EXCEPT ![self] = "BC3"]
             /\ UNCHANGED << pending, notified, cancelledSeq, forceWake, 
                             shutdown, latch, ffm, ctxLock, wWaiting, 
                             wSignalled, fWaiting, fSignalled, collGo, 
                             collDone, promiseReady, cancel, workerDone, 
                             recorded, inExport, overlap, lateExport, 
                             sdReturned, expSD, exportedCycle, ffSnap, 
                             ffExported, ffOK, ffRes, t, ns, snap, i, my, 
                             budget, res, timedout >>

BC3(self) == /\ pc[self] = "BC3"
             /\ IF lp[self] > notified
                   THEN /\ pc' = [pc EXCEPT ![self] = "BC4"]
                   ELSE /\ pc' = [pc EXCEPT ![self] = "BC6"]
             /\ UNCHANGED << pending, notified, cancelledSeq, forceWake, 
                             shutdown, latch, ffm, ctxLock, wWaiting, 
                             wSignalled, fWaiting, fSignalled, collGo, 
                             collDone, promiseReady, cancel, workerDone, 
                             recorded, inExport, overlap, lateExport, 
                             sdReturned, expSD, exportedCycle, ffSnap, 
                             ffExported, ffOK, ffRes, t, ns, snap, i, my, lp, 
                             budget, res, timedout >>

BC4(self) == /\ pc[self] = "BC4"
             /\ forceWake' = TRUE
             /\ pc' = [pc EXCEPT ![self] = "BC5"]
             /\ UNCHANGED << pending, notified, cancelledSeq, shutdown, latch, 
                             ffm, ctxLock, wWaiting, wSignalled, fWaiting, 
                             fSignalled, collGo, collDone, promiseReady, 
                             cancel, workerDone, recorded, inExport, overlap, 
                             lateExport, sdReturned, expSD, exportedCycle, 
                             ffSnap, ffExported, ffOK, ffRes, t, ns, snap, i, 
                             my, lp, budget, res, timedout >>

BC5(self) == /\ pc[self] = "BC5"
             /\ IF wWaiting
                   THEN /\ wSignalled' = TRUE
                   ELSE /\ TRUE
                        /\ UNCHANGED wSignalled
             /\ pc' = [pc EXCEPT ![self] = "BC6"]
             /\ UNCHANGED << pending, notified, cancelledSeq, forceWake, 
                             shutdown, latch, ffm, ctxLock, wWaiting, fWaiting, 
                             fSignalled, collGo, collDone, promiseReady, 
                             cancel, workerDone, recorded, inExport, overlap, 
                             lateExport, sdReturned, expSD, exportedCycle, 
                             ffSnap, ffExported, ffOK, ffRes, t, ns, snap, i, 
                             my, lp, budget, res, timedout >>

BC6(self) == /\ pc[self] = "BC6"
             /\ IF notified >= my[self]
                   THEN /\ res' = [res EXCEPT ![self] = TRUE]
                        /\ pc' = [pc EXCEPT ![self] = "F_eval"]
                   ELSE /\ pc' = [pc EXCEPT ![self] = "BC7"]
                        /\ res' = res
             /\ UNCHANGED << pending, notified, cancelledSeq, forceWake, 
                             shutdown, latch, ffm, ctxLock, wWaiting, 
                             wSignalled, fWaiting, fSignalled, collGo, 
                             collDone, promiseReady, cancel, workerDone, 
                             recorded, inExport, overlap, lateExport, 
                             sdReturned, expSD, exportedCycle, ffSnap, 
                             ffExported, ffOK, ffRes, t, ns, snap, i, my, lp, 
                             budget, timedout >>

BC7(self) == /\ pc[self] = "BC7"
             /\ IF timedout[self]
                   THEN /\ pc' = [pc EXCEPT ![self] = "F_eval"]
                   ELSE /\ pc' = [pc EXCEPT ![self] = "F_block"]
             /\ UNCHANGED << pending, notified, cancelledSeq, forceWake, 
                             shutdown, latch, ffm, ctxLock, wWaiting, 
                             wSignalled, fWaiting, fSignalled, collGo, 
                             collDone, promiseReady, cancel, workerDone, 
                             recorded, inExport, overlap, lateExport, 
                             sdReturned, expSD, exportedCycle, ffSnap, 
                             ffExported, ffOK, ffRes, t, ns, snap, i, my, lp, 
                             budget, res, timedout >>

F_block(self) == /\ pc[self] = "F_block"
                 /\ ffm' = -1
                 /\ fWaiting' = (fWaiting \cup {self})
                 /\ fSignalled' = fSignalled \ {self}
                 /\ pc' = [pc EXCEPT ![self] = "F_wake"]
                 /\ UNCHANGED << pending, notified, cancelledSeq, forceWake, 
                                 shutdown, latch, ctxLock, wWaiting, 
                                 wSignalled, collGo, collDone, promiseReady, 
                                 cancel, workerDone, recorded, inExport, 
                                 overlap, lateExport, sdReturned, expSD, 
                                 exportedCycle, ffSnap, ffExported, ffOK, 
                                 ffRes, t, ns, snap, i, my, lp, budget, res, 
                                 timedout >>

F_wake(self) == /\ pc[self] = "F_wake"
                /\ \/ /\ self \in fSignalled
                      /\ fSignalled' = fSignalled \ {self}
                      /\ UNCHANGED <<fWaiting, timedout>>
                   \/ /\ fWaiting' = fWaiting \ {self}
                      /\ fSignalled' = fSignalled \ {self}
                      /\ timedout' = [timedout EXCEPT ![self] = TRUE]
                /\ pc' = [pc EXCEPT ![self] = "F_relock"]
                /\ UNCHANGED << pending, notified, cancelledSeq, forceWake, 
                                shutdown, latch, ffm, ctxLock, wWaiting, 
                                wSignalled, collGo, collDone, promiseReady, 
                                cancel, workerDone, recorded, inExport, 
                                overlap, lateExport, sdReturned, expSD, 
                                exportedCycle, ffSnap, ffExported, ffOK, ffRes, 
                                t, ns, snap, i, my, lp, budget, res >>

F_relock(self) == /\ pc[self] = "F_relock"
                  /\ ffm = -1
                  /\ ffm' = self
                  /\ pc' = [pc EXCEPT ![self] = "BC1"]
                  /\ UNCHANGED << pending, notified, cancelledSeq, forceWake, 
                                  shutdown, latch, ctxLock, wWaiting, 
                                  wSignalled, fWaiting, fSignalled, collGo, 
                                  collDone, promiseReady, cancel, workerDone, 
                                  recorded, inExport, overlap, lateExport, 
                                  sdReturned, expSD, exportedCycle, ffSnap, 
                                  ffExported, ffOK, ffRes, t, ns, snap, i, my, 
                                  lp, budget, res, timedout >>

F_eval(self) == /\ pc[self] = "F_eval"
                /\ IF timedout[self] /\ budget[self] # Inf
                      THEN /\ budget' = [budget EXCEPT ![self] = budget[self] - 1]
                      ELSE /\ TRUE
                           /\ UNCHANGED budget
                /\ pc' = [pc EXCEPT ![self] = "F_loop"]
                /\ UNCHANGED << pending, notified, cancelledSeq, forceWake, 
                                shutdown, latch, ffm, ctxLock, wWaiting, 
                                wSignalled, fWaiting, fSignalled, collGo, 
                                collDone, promiseReady, cancel, workerDone, 
                                recorded, inExport, overlap, lateExport, 
                                sdReturned, expSD, exportedCycle, ffSnap, 
                                ffExported, ffOK, ffRes, t, ns, snap, i, my, 
                                lp, res, timedout >>

F_expff(self) == /\ pc[self] = "F_expff"
                 /\ IF res[self] /\ (budget[self] # 0)
                       THEN /\ ffOK' = [ffOK EXCEPT ![self] = TRUE]
                            /\ \/ /\ TRUE
                                  /\ res' = res
                               \/ /\ res' = [res EXCEPT ![self] = FALSE]
                       ELSE /\ res' = [res EXCEPT ![self] = FALSE]
                            /\ ffOK' = ffOK
                 /\ pc' = [pc EXCEPT ![self] = "F_ret"]
                 /\ UNCHANGED << pending, notified, cancelledSeq, forceWake, 
                                 shutdown, latch, ffm, ctxLock, wWaiting, 
                                 wSignalled, fWaiting, fSignalled, collGo, 
                                 collDone, promiseReady, cancel, workerDone, 
                                 recorded, inExport, overlap, lateExport, 
                                 sdReturned, expSD, exportedCycle, ffSnap, 
                                 ffExported, ffRes, t, ns, snap, i, my, lp, 
                                 budget, timedout >>

F_ret(self) == /\ pc[self] = "F_ret"
               /\ ffRes' = [ffRes EXCEPT ![self] = IF res[self] /\ notified >= my[self] /\ (Dev # {} \/ cancelledSeq < my[self]) THEN "true" ELSE "false"]
               /\ ffm' = -1
               /\ pc' = [pc EXCEPT ![self] = "F_unctx"]
               /\ UNCHANGED << pending, notified, cancelledSeq, forceWake, 
                               shutdown, latch, ctxLock, wWaiting, wSignalled, 
                               fWaiting, fSignalled, collGo, collDone, 
                               promiseReady, cancel, workerDone, recorded, 
                               inExport, overlap, lateExport, sdReturned, 
                               expSD, exportedCycle, ffSnap, ffExported, ffOK, 
                               t, ns, snap, i, my, lp, budget, res, timedout >>

F_unctx(self) == /\ pc[self] = "F_unctx"
                 /\ ctxLock' = -1
                 /\ pc' = [pc EXCEPT ![self] = "Done"]
                 /\ UNCHANGED << pending, notified, cancelledSeq, forceWake, 
                                 shutdown, latch, ffm, wWaiting, wSignalled, 
                                 fWaiting, fSignalled, collGo, collDone, 
                                 promiseReady, cancel, workerDone, recorded, 
                                 inExport, overlap, lateExport, sdReturned, 
                                 expSD, exportedCycle, ffSnap, ffExported, 
                                 ffOK, ffRes, t, ns, snap, i, my, lp, budget, 
                                 res, timedout >>

flush(self) == F_call(self) \/ F_ctx(self) \/ F_lock(self)
                  \/ F_ticket(self) \/ F_loop(self) \/ BC1(self)
                  \/ BC2(self) \/ BC3(self) \/ BC4(self) \/ BC5(self)
                  \/ BC6(self) \/ BC7(self) \/ F_block(self)
                  \/ F_wake(self) \/ F_relock(self) \/ F_eval(self)
                  \/ F_expff(self) \/ F_ret(self) \/ F_unctx(self)

S_latch(self) == /\ pc[self] = "S_latch"
                 /\ IF latch
                       THEN /\ pc' = [pc EXCEPT ![self] = "S_done"]
                            /\ latch' = latch
                       ELSE /\ latch' = TRUE
                            /\ pc' = [pc EXCEPT ![self] = "S_set"]
                 /\ UNCHANGED << pending, notified, cancelledSeq, forceWake, 
                                 shutdown, ffm, ctxLock, wWaiting, wSignalled, 
                                 fWaiting, fSignalled, collGo, collDone, 
                                 promiseReady, cancel, workerDone, recorded, 
                                 inExport, overlap, lateExport, sdReturned, 
                                 expSD, exportedCycle, ffSnap, ffExported, 
                                 ffOK, ffRes, t, ns, snap, i, my, lp, budget, 
                                 res, timedout >>

S_set(self) == /\ pc[self] = "S_set"
               /\ shutdown' = TRUE
               /\ pc' = [pc EXCEPT ![self] = "S_notify"]
               /\ UNCHANGED << pending, notified, cancelledSeq, forceWake, 
                               latch, ffm, ctxLock, wWaiting, wSignalled, 
                               fWaiting, fSignalled, collGo, collDone, 
                               promiseReady, cancel, workerDone, recorded, 
                               inExport, overlap, lateExport, sdReturned, 
                               expSD, exportedCycle, ffSnap, ffExported, ffOK, 
                               ffRes, t, ns, snap, i, my, lp, budget, res, 
                               timedout >>

S_notify(self) == /\ pc[self] = "S_notify"
                  /\ IF wWaiting
                        THEN /\ wSignalled' = TRUE
                        ELSE /\ TRUE
                             /\ UNCHANGED wSignalled
                  /\ pc' = [pc EXCEPT ![self] = "S_join"]
                  /\ UNCHANGED << pending, notified, cancelledSeq, forceWake, 
                                  shutdown, latch, ffm, ctxLock, wWaiting, 
                                  fWaiting, fSignalled, collGo, collDone, 
                                  promiseReady, cancel, workerDone, recorded, 
                                  inExport, overlap, lateExport, sdReturned, 
                                  expSD, exportedCycle, ffSnap, ffExported, 
                                  ffOK, ffRes, t, ns, snap, i, my, lp, budget, 
                                  res, timedout >>

S_join(self) == /\ pc[self] = "S_join"
                /\ workerDone
                /\ pc' = [pc EXCEPT ![self] = "S_exp"]
                /\ UNCHANGED << pending, notified, cancelledSeq, forceWake, 
                                shutdown, latch, ffm, ctxLock, wWaiting, 
                                wSignalled, fWaiting, fSignalled, collGo, 
                                collDone, promiseReady, cancel, workerDone, 
                                recorded, inExport, overlap, lateExport, 
                                sdReturned, expSD, exportedCycle, ffSnap, 
                                ffExported, ffOK, ffRes, t, ns, snap, i, my, 
                                lp, budget, res, timedout >>

S_exp(self) == /\ pc[self] = "S_exp"
               /\ expSD' = expSD + 1
               /\ pc' = [pc EXCEPT ![self] = "S_ret"]
               /\ UNCHANGED << pending, notified, cancelledSeq, forceWake, 
                               shutdown, latch, ffm, ctxLock, wWaiting, 
                               wSignalled, fWaiting, fSignalled, collGo, 
                               collDone, promiseReady, cancel, workerDone, 
                               recorded, inExport, overlap, lateExport, 
                               sdReturned, exportedCycle, ffSnap, ffExported, 
                               ffOK, ffRes, t, ns, snap, i, my, lp, budget, 
                               res, timedout >>

S_ret(self) == /\ pc[self] = "S_ret"
               /\ sdReturned' = TRUE
               /\ pc' = [pc EXCEPT ![self] = "S_done"]
               /\ UNCHANGED << pending, notified, cancelledSeq, forceWake, 
                               shutdown, latch, ffm, ctxLock, wWaiting, 
                               wSignalled, fWaiting, fSignalled, collGo, 
                               collDone, promiseReady, cancel, workerDone, 
                               recorded, inExport, overlap, lateExport, expSD, 
                               exportedCycle, ffSnap, ffExported, ffOK, ffRes, 
                               t, ns, snap, i, my, lp, budget, res, timedout >>

S_done(self) == /\ pc[self] = "S_done"
                /\ TRUE
                /\ pc' = [pc EXCEPT ![self] = "Done"]
                /\ UNCHANGED << pending, notified, cancelledSeq, forceWake, 
                                shutdown, latch, ffm, ctxLock, wWaiting, 
                                wSignalled, fWaiting, fSignalled, collGo, 
                                collDone, promiseReady, cancel, workerDone, 
                                recorded, inExport, overlap, lateExport, 
                                sdReturned, expSD, exportedCycle, ffSnap, 
                                ffExported, ffOK, ffRes, t, ns, snap, i, my, 
                                lp, budget, res, timedout >>

shut(self) == S_latch(self) \/ S_set(self) \/ S_notify(self)
                 \/ S_join(self) \/ S_exp(self) \/ S_ret(self)
                 \/ S_done(self)

(* Allow infinite stuttering to prevent deadlock on termination. *)
Terminating == /\ \A self \in ProcSet: pc[self] = "Done"
               /\ UNCHANGED vars

Next == worker \/ collector \/ recorder
           \/ (\E self \in Flushers: flush(self))
           \/ (\E self \in Shuts: shut(self))
           \/ Terminating

Spec == /\ Init /\ [][Next]_vars
        /\ WF_vars(worker)
        /\ WF_vars(collector)
        /\ WF_vars(recorder)
        /\ \A self \in Flushers : WF_vars(flush(self))
        /\ \A self \in Shuts : WF_vars(shut(self))

Termination == <>(\A self \in ProcSet: pc[self] = "Done")

\* END TRANSLATION

NoOverlap == ~overlap
NoExportAfterShutdown == ~lateExport
\* the statement does not order the exporter's ForceFlush after the Export (a ForceFlush racing Shutdown
\* flushes the exporter first), so only "both happened before the call returned true" is required
FlushTrueImpliesExported == \A f \in Flushers : ffRes[f] = "true" => (ffOK[f] /\ ffExported[f])
ShutdownOnce == expSD <= 1
Safety == NoOverlap /\ NoExportAfterShutdown /\ ShutdownOnce
FlushersDone == \A f \in Flushers : pc[f] = "Done"
ShutsDone == \A s \in Shuts : pc[s] = "Done"
Termination2 == <>(FlushersDone /\ ShutsDone)
=============================================================================
