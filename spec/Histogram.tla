----------------------------- MODULE Histogram -----------------------------
(***************************************************************************)
(* C07 - histogram points are exact summaries; merging intervals is        *)
(* lossless.                                                               *)
(*                                                                         *)
(* Values and boundaries are RANKS 0..MaxRank of a totally ordered set;    *)
(* rank 0 is the value zero in every concretisation table.  A boundary     *)
(* list is a set of ranks (sorted, duplicate free; may be empty).          *)
(*                                                                         *)
(* Property level:   PointOf(bag, ...) - the summary the statement demands *)
(*                   for the multiset `bag` of recorded ranks.             *)
(* Design level:     the point algebra EmptyP / AggP / MergeP / DiffP an   *)
(*                   implementation computes incrementally.  TLC checks in *)
(*                   every reachable state that the algebra yields exactly *)
(*                   the property-level summary (bucket rule, partition,   *)
(*                   min/max, Merge is a homomorphism, Diff its inverse).  *)
(*                                                                         *)
(* LONG boundary lists: a boundary list may also contain "filler"          *)
(* integers outside 0..MaxRank - negative ones lie below every value,      *)
(* ones beyond MaxRank above every value.  The rule InBucket and all       *)
(* invariants are untouched (values stay ranks); the list just gets 17,    *)
(* 32, 100+ entries with the value-equal boundaries at its first, middle   *)
(* or last positions, and the expected counts vector gets as long.         *)
(*                                                                         *)
(* Two scenarios (constant Mode):                                          *)
(*  "direct": NSlots aggregation objects; New / Aggregate / Merge / Diff   *)
(*  "pipe"  : one instrument, NKeys attribute sets, readers with delta or  *)
(*            cumulative temporality; Record / Collect                      *)
(*                                                                         *)
(* Concretisation tables (harness/c07_hist.cc holds the concrete numbers;  *)
(* the abstract facts the expectations depend on are stated here):         *)
(*   D_*  double instrument, I_* int64 instrument.                         *)
(*   BelowDblMin(tab): highest rank whose concrete double is smaller than  *)
(*       numeric_limits<double>::min() (rank 0 = 0.0 always is).           *)
(*   RoundsTo(tab, r): the rank whose concrete value equals                *)
(*       (double)value(r) - differs from r only for int64 values beyond    *)
(*       2^53 (I_huge: rank 4 = 2^53+1 converts to 2^53 = rank 3).         *)
(*   ValRanks(tab): ranks that can be recorded (I_frac: boundaries are     *)
(*       fractional, only even ranks are integers).                        *)
(*                                                                         *)
(* Named deviations (what the current code does differently; Dev = {} is   *)
(* the ideal):                                                             *)
(*   "double-max-sentinel-dbl-min"  max starts at DBL_MIN (smallest        *)
(*        positive normal) instead of -inf: max = DBL_MIN when every       *)
(*        recorded double is below 2.2e-308 (e.g. all 0.0)                 *)
(*   "long-value-rounded-onto-boundary"  an int64 value is converted to    *)
(*        double before it is compared with the boundaries                 *)
(*   "diff-sum-not-computed"  the point returned by Diff has sum 0         *)
(* They only change the EXPECTATION alternatives (alts) handed to the      *)
(* replayer, never the ideal expectation (exp) nor the invariants.         *)
(***************************************************************************)
EXTENDS Integers, Sequences, FiniteSets, TLC, Json

CONSTANTS MaxRank,     \* ranks are 0..MaxRank
          BoundSets,   \* set of boundary lists explored (each a set of ranks, written as rank + BOff
                       \* because a cfg file cannot hold negative numbers)
          BOff,        \* offset of the boundary codes in BoundSets (0: plain ranks)
          Tables,      \* set of concretisation table names explored
          MMChoices,   \* subset of BOOLEAN: record_min_max settings explored
          Mode,        \* "direct" | "pipe"
          NSlots,      \* direct: aggregation objects 1..NSlots
          NKeys,       \* pipe: attribute sets 1..NKeys
          ReaderCfgs,  \* pipe: set of reader configurations, coded 1 = <<delta>>, 2 = <<cumulative>>,
                       \* 11 = <<d,d>>, 12 = <<d,c>>, 21 = <<c,d>>, 22 = <<c,c>> (cfg files cannot hold tuples)
          MaxAgg,      \* bound on Aggregate/Record steps
          MaxOps,      \* bound on all other steps
          Balanced,    \* BOOLEAN: generation runs first pick the kind of the next step (uniform op mix)
          Dev,         \* deviation names for which alternatives are emitted
          Hist         \* BOOLEAN: record the behaviour (generation runs only)

Ranks == 0..MaxRank
AllDevs == {"double-max-sentinel-dbl-min", "long-value-rounded-onto-boundary", "diff-sum-not-computed"}

VARIABLES tab, B, bs, bk, mm, temp,   \* configuration, chosen in Init (bs = B as an ascending sequence,
                                  \* bk = the bucket of every rank by the statement's rule InBucket)
          obj,                \* direct: [slot -> object]
          rd,                 \* pipe: [reader -> [key -> [since, seen, acc, cum]]]
          nagg, nops, turn,
          hist

cvars == <<tab, B, bs, bk, mm, temp>>
bvars == <<tab, B, bs, bk, mm, temp, obj, rd, nagg, nops, turn>>
vars  == <<bvars, hist>>

(* ---- abstract facts of the concretisation tables ---------------------- *)
Kind(t) == IF t \in {"D_small", "D_tiny", "D_huge", "D_frac", "D_default"} THEN "double" ELSE "long"
ValRanks(t) == IF t = "I_frac" THEN {r \in Ranks : r % 2 = 0} ELSE Ranks
BelowDblMin(t) == IF t = "D_tiny" THEN MaxRank ELSE 0
RoundsTo(t, r) == IF t = "I_huge" /\ r = 4 THEN 3 ELSE r

(* ---- multisets of ranks ------------------------------------------------ *)
Zero == [r \in Ranks |-> 0]
BAdd(b, v) == [b EXCEPT ![v] = @ + 1]
BUnion(a, b) == [r \in Ranks |-> a[r] + b[r]]
BLeq(a, b) == \A r \in Ranks : a[r] <= b[r]
BMinus(b, a) == [r \in Ranks |-> b[r] - a[r]]
RECURSIVE SumUpTo(_, _)
SumUpTo(f, n) == IF n < 0 THEN 0 ELSE f[n] + SumUpTo(f, n - 1)
BSize(b) == SumUpTo(b, MaxRank)
RECURSIVE FirstFrom(_, _)
FirstFrom(b, r) == IF b[r] > 0 THEN r ELSE FirstFrom(b, r + 1)
RECURSIVE LastFrom(_, _)
LastFrom(b, r) == IF b[r] > 0 THEN r ELSE LastFrom(b, r - 1)
BMin(b) == FirstFrom(b, 0)            \* only used on non-empty multisets
BMax(b) == LastFrom(b, MaxRank)
BSeq(b) == [i \in 1..(MaxRank + 1) |-> b[i - 1]]
RECURSIVE SumSeq(_)
SumSeq(s) == IF s = <<>> THEN 0 ELSE Head(s) + SumSeq(Tail(s))

(* ---- boundaries -------------------------------------------------------- *)
RECURSIVE AscSeq(_)
AscSeq(S) == IF S = {} THEN <<>>
              ELSE LET m == CHOOSE x \in S : \A y \in S : x <= y IN <<m>> \o AscSeq(S \ {m})
Bs == bs
NB == Len(bs)
\* the statement: bucket i (1-based here) holds boundary[i-1] < v <= boundary[i]; the last one
\* everything above the top boundary
InBucket(v, i) == /\ (i = 1 \/ Bs[i - 1] < v)
                  /\ (i = NB + 1 \/ v <= Bs[i])
\* design-level formulation used by the algebra: number of boundaries strictly below v
BucketOf(v) == Cardinality({b \in B : b < v}) + 1

(* ---- property level: the summary of a multiset ------------------------- *)
\* S: set of deviations assumed present (only alternatives use S # {})
EffRank(v, S) == IF S = {} THEN v
                 ELSE IF "long-value-rounded-onto-boundary" \in S /\ Kind(tab) = "long" THEN RoundsTo(tab, v) ELSE v
RECURSIVE CntIn(_, _, _, _)
CntIn(bag, S, i, n) == IF n < 0 THEN 0
                       ELSE (IF bk[EffRank(n, S)] = i THEN bag[n] ELSE 0) + CntIn(bag, S, i, n - 1)
CountsOf(bag, S) == [i \in 1..(NB + 1) |-> CntIn(bag, S, i, MaxRank)]
\* JSON-friendly observable projection. sum is the multiset (per-rank multiplicities) whose exact
\* concrete sum the replayer computes; min/max = -1: not compared; max = -2: the DBL_MIN sentinel
PointOf(bag, sbag, mmOn, S) ==
  LET n == BSize(bag)
      on == mmOn /\ n > 0 IN
  [counts |-> CountsOf(bag, S), count |-> n, sum |-> BSeq(sbag), mm |-> on,
   min |-> IF on THEN BMin(bag) ELSE -1,
   max |-> IF ~on THEN -1
           ELSE IF "double-max-sentinel-dbl-min" \in S /\ Kind(tab) = "double" /\ BMax(bag) <= BelowDblMin(tab)
                  THEN -2 ELSE BMax(bag)]

(* ---- design level: the point algebra ----------------------------------- *)
NoMin == MaxRank + 1
NoMax == -1
EmptyP(mmOn) == [counts |-> [i \in 1..(NB + 1) |-> 0], count |-> 0, bag |-> Zero,
                 min |-> NoMin, max |-> NoMax, mmv |-> mmOn]
AggP(p, v) == [p EXCEPT !.counts[BucketOf(v)] = @ + 1, !.count = @ + 1, !.bag = BAdd(@, v),
                        !.min = IF v < @ THEN v ELSE @, !.max = IF v > @ THEN v ELSE @]
MergeP(p, q) == [counts |-> [i \in 1..(NB + 1) |-> p.counts[i] + q.counts[i]],
                 count |-> p.count + q.count, bag |-> BUnion(p.bag, q.bag),
                 min |-> IF p.min < q.min THEN p.min ELSE q.min,
                 max |-> IF p.max > q.max THEN p.max ELSE q.max,
                 mmv |-> p.mmv /\ q.mmv]
\* q is a later cumulative snapshot of p; min/max of the difference are unknowable
DiffP(p, q) == [counts |-> [i \in 1..(NB + 1) |-> q.counts[i] - p.counts[i]],
                count |-> q.count - p.count, bag |-> BMinus(q.bag, p.bag),
                min |-> NoMin, max |-> NoMax, mmv |-> FALSE]
ViewP(p) == LET on == p.mmv /\ p.count > 0 IN
            [counts |-> p.counts, count |-> p.count, sum |-> BSeq(p.bag), mm |-> on,
             min |-> IF on THEN p.min ELSE -1, max |-> IF on THEN p.max ELSE -1]

(* ---- expectations handed to the replayer ------------------------------- *)
\* o: [bag (truth), sd (what the sum covers under diff-sum-not-computed), mmv]
ExpOf(o) == PointOf(o.bag, o.bag, o.mmv, {})
AltOf(o, S) == PointOf(o.bag, IF "diff-sum-not-computed" \in S THEN o.sd ELSE o.bag, o.mmv, S)
AltsOf(o) == LET e == ExpOf(o) IN
             {a \in {[devs |-> S, n |-> Cardinality(S), pt |-> AltOf(o, S)] : S \in (SUBSET Dev) \ {{}}} : a.pt # e}

(* ---- state -------------------------------------------------------------- *)
Slots == 1..NSlots
MaxBag == 48     \* repeated self-merges double a multiset; keeps concrete int64 sums far from overflow
Keys  == 1..NKeys
Readers == 1..Len(temp)
NoObj == [live |-> FALSE, bag |-> Zero, sd |-> Zero, mmv |-> FALSE, pt |-> EmptyP(FALSE)]
Fresh == [live |-> TRUE, bag |-> Zero, sd |-> Zero, mmv |-> mm, pt |-> EmptyP(mm)]
Cell0 == [since |-> Zero, seen |-> Zero, acc |-> EmptyP(mm), cum |-> EmptyP(mm)]

TChar(d) == IF d = 1 THEN "d" ELSE "c"
RC(c) == IF c < 10 THEN <<TChar(c)>> ELSE <<TChar(c \div 10), TChar(c % 10)>>

Init ==
  /\ tab \in Tables /\ B \in {{c - BOff : c \in S} : S \in BoundSets} /\ bs = AscSeq(B) /\ mm \in MMChoices
  /\ bk = [v \in Ranks |-> CHOOSE i \in 1..(Len(bs) + 1) : InBucket(v, i)]
  /\ temp \in (IF Mode = "pipe" THEN {RC(c) : c \in ReaderCfgs} ELSE {<<>>})
  /\ obj = [s \in Slots |-> NoObj]
  /\ rd = [r \in Readers |-> [k \in Keys |-> Cell0]]
  /\ nagg = 0 /\ nops = 0
  /\ turn = IF Balanced THEN "pick" ELSE "any"
  /\ hist = IF Hist THEN <<[op |-> "cfg", mode |-> Mode, tab |-> tab, kind |-> Kind(tab), bounds |-> Bs,
                            mm |-> mm, readers |-> temp]>>
            ELSE <<>>

Rec(e) == hist' = IF Hist THEN Append(hist, e) ELSE hist
Turn(kinds) == turn = "any" \/ turn \in kinds
Done == turn' = IF Balanced THEN "pick" ELSE turn
\* model checking bounds Aggregate/Record steps and the other steps separately; generation runs
\* (Balanced) bound their sum, so that a picked kind is never disabled by a bound
Total == MaxAgg + MaxOps
CanAgg == IF Balanced THEN nagg + nops < Total ELSE nagg < MaxAgg
CanOp  == IF Balanced THEN nagg + nops < Total ELSE nops < MaxOps

DirectKinds == {"agg1", "agg2", "merge", "diff", "new"}
PipeKinds   == {"rec1", "rec2", "col"}
PickOK(t) == CASE t = "new" -> \E s \in 1..NSlots : ~obj[s].live
                 [] t \in {"agg1", "agg2", "merge", "diff"} -> \E s \in 1..NSlots : obj[s].live
                 [] OTHER -> TRUE
Pick(t) == /\ Balanced /\ turn = "pick" /\ nagg + nops < Total /\ PickOK(t) /\ turn' = t
           /\ UNCHANGED <<cvars, obj, rd, nagg, nops, hist>>

(* ---- direct scenario ----------------------------------------------------- *)
DNew(s) ==
  /\ Mode = "direct" /\ Turn({"new"}) /\ CanOp
  /\ ~obj[s].live
  /\ obj' = [obj EXCEPT ![s] = Fresh]
  /\ nops' = nops + 1 /\ Done /\ UNCHANGED <<cvars, rd, nagg>>
  /\ Rec([op |-> "new", s |-> s, exp |-> ExpOf(obj'[s]), alts |-> AltsOf(obj'[s])])

DAgg(s, v) ==
  /\ Mode = "direct" /\ Turn({"agg1", "agg2"}) /\ CanAgg
  /\ obj[s].live /\ v \in ValRanks(tab)
  /\ obj' = [obj EXCEPT ![s] = [@ EXCEPT !.bag = BAdd(@, v), !.sd = BAdd(@, v), !.pt = AggP(@, v)]]
  /\ nagg' = nagg + 1 /\ Done /\ UNCHANGED <<cvars, rd, nops>>
  /\ Rec([op |-> "agg", s |-> s, v |-> v, exp |-> ExpOf(obj'[s]), alts |-> AltsOf(obj'[s])])

\* d := a.Merge(b)   (d may be a or b: the result replaces that object afterwards)
DMerge(d, a, b) ==
  /\ Mode = "direct" /\ Turn({"merge"}) /\ CanOp
  /\ obj[a].live /\ obj[b].live
  /\ BSize(obj[a].bag) + BSize(obj[b].bag) <= MaxBag
  /\ obj' = [obj EXCEPT ![d] = [live |-> TRUE, bag |-> BUnion(obj[a].bag, obj[b].bag),
                                sd |-> BUnion(obj[a].sd, obj[b].sd), mmv |-> obj[a].mmv /\ obj[b].mmv,
                                pt |-> MergeP(obj[a].pt, obj[b].pt)]]
  /\ nops' = nops + 1 /\ Done /\ UNCHANGED <<cvars, rd, nagg>>
  /\ Rec([op |-> "merge", d |-> d, a |-> a, b |-> b, exp |-> ExpOf(obj'[d]), alts |-> AltsOf(obj'[d])])

\* d := a.Diff(b), b being a later cumulative snapshot of a
DDiff(d, a, b) ==
  /\ Mode = "direct" /\ Turn({"diff"}) /\ CanOp
  /\ obj[a].live /\ obj[b].live /\ BLeq(obj[a].bag, obj[b].bag)
  /\ obj' = [obj EXCEPT ![d] = [live |-> TRUE, bag |-> BMinus(obj[b].bag, obj[a].bag),
                                sd |-> Zero, mmv |-> FALSE, pt |-> DiffP(obj[a].pt, obj[b].pt)]]
  /\ nops' = nops + 1 /\ Done /\ UNCHANGED <<cvars, rd, nagg>>
  /\ Rec([op |-> "diff", d |-> d, a |-> a, b |-> b, exp |-> ExpOf(obj'[d]), alts |-> AltsOf(obj'[d])])

(* ---- pipeline scenario --------------------------------------------------- *)
PRecord(k, v) ==
  /\ Mode = "pipe" /\ Turn({"rec1", "rec2"}) /\ CanAgg
  /\ v \in ValRanks(tab)
  /\ rd' = [r \in Readers |-> [rd[r] EXCEPT ![k] = [@ EXCEPT !.since = BAdd(@, v), !.acc = AggP(@, v)]]]
  /\ nagg' = nagg + 1 /\ Done /\ UNCHANGED <<cvars, obj, nops>>
  /\ Rec([op |-> "rec", k |-> k, v |-> v])

\* what reader r must be shown for key k by a collection now
Reported(r, k) == IF temp[r] = "d" THEN rd[r][k].since ELSE BUnion(rd[r][k].seen, rd[r][k].since)
PCollect(r) ==
  /\ Mode = "pipe" /\ Turn({"col"}) /\ CanOp
  /\ LET rep == [k \in Keys |-> [bag |-> Reported(r, k), sd |-> Reported(r, k), mmv |-> mm]] IN
     Rec([op |-> "collect", r |-> r,
          pts |-> [k \in Keys |-> [must |-> BSize(rep[k].bag) > 0, exp |-> ExpOf(rep[k]), alts |-> AltsOf(rep[k])]]])
  /\ rd' = [rd EXCEPT ![r] = [k \in Keys |-> [since |-> Zero, seen |-> BUnion(rd[r][k].seen, rd[r][k].since),
                                              acc |-> EmptyP(mm), cum |-> MergeP(rd[r][k].cum, rd[r][k].acc)]]]
  /\ nops' = nops + 1 /\ Done /\ UNCHANGED <<cvars, obj, nagg>>

DNewA   == \E s \in Slots : DNew(s)
DAggA   == \E s \in Slots, v \in Ranks : DAgg(s, v)
DMergeA == \E d, a, b \in Slots : DMerge(d, a, b)
DDiffA  == \E d, a, b \in Slots : DDiff(d, a, b)
PRecordA  == \E k \in Keys, v \in Ranks : PRecord(k, v)
PCollectA == \E r \in Readers : PCollect(r)
PickA == \E t \in (IF Mode = "direct" THEN DirectKinds ELSE PipeKinds) : Pick(t)

Next == DNewA \/ DAggA \/ DMergeA \/ DDiffA \/ PRecordA \/ PCollectA \/ PickA
Spec == Init /\ [][Next]_vars

(* ---- the property (C07), evaluated in every reachable state ------------- *)
\* every point the state holds, with the multiset it has to summarise and whether min/max apply:
\* the objects (direct); per reader and key the running interval point, the cumulative point, and
\* the point a cumulative reader is shown next = merge of what it saw before and the new interval
ForAllPoints(P(_, _, _)) ==
  /\ \A s \in Slots : obj[s].live => P(obj[s].pt, obj[s].bag, obj[s].mmv)
  /\ \A r \in Readers, k \in Keys :
        /\ P(rd[r][k].acc, rd[r][k].since, mm)
        /\ P(rd[r][k].cum, rd[r][k].seen, mm)
        /\ P(MergeP(rd[r][k].cum, rd[r][k].acc), BUnion(rd[r][k].seen, rd[r][k].since), mm)

TypeOK == /\ B \subseteq Int /\ tab \in Tables /\ mm \in BOOLEAN
          /\ Len(bs) = Cardinality(B) /\ \A i \in 1..Len(bs) : bs[i] \in B /\ (i > 1 => bs[i - 1] < bs[i])
          /\ ForAllPoints(LAMBDA p, bag, mmv : Len(p.counts) = NB + 1)
BucketsPartition == ForAllPoints(LAMBDA p, bag, mmv : SumSeq(p.counts) = p.count /\ p.count = BSize(bag))
BucketRule == ForAllPoints(LAMBDA p, bag, mmv : \A i \in 1..(NB + 1) :
                  p.counts[i] = SumUpTo([r \in Ranks |-> IF InBucket(r, i) THEN bag[r] ELSE 0], MaxRank))
EveryValueInOneBucket == \A v \in Ranks : /\ Cardinality({i \in 1..(NB + 1) : InBucket(v, i)}) = 1
                                          /\ InBucket(v, bk[v]) /\ bk[v] = BucketOf(v)
SumExact == ForAllPoints(LAMBDA p, bag, mmv : p.bag = bag)
MinMaxExact == ForAllPoints(LAMBDA p, bag, mmv : (mmv /\ p.count > 0) =>
                              (p.mmv /\ p.min = BMin(bag) /\ p.max = BMax(bag)))
PointIsSummary == ForAllPoints(LAMBDA p, bag, mmv : ViewP(p) = PointOf(bag, bag, mmv, {}))
\* merging ANY two objects = summarising the union of their multisets; Diff undoes it
Live == {s \in Slots : obj[s].live}
MergeIsHomomorphism ==
  \A a, b \in Live : ViewP(MergeP(obj[a].pt, obj[b].pt)) =
                        PointOf(BUnion(obj[a].bag, obj[b].bag), BUnion(obj[a].bag, obj[b].bag), obj[a].mmv /\ obj[b].mmv, {})
DiffIsInverse ==
  \A a, b \in Live :
     /\ ViewP(DiffP(obj[a].pt, MergeP(obj[a].pt, obj[b].pt))) = PointOf(obj[b].bag, obj[b].bag, FALSE, {})
     /\ BLeq(obj[a].bag, obj[b].bag) =>
           ViewP(DiffP(obj[a].pt, obj[b].pt)) = PointOf(BMinus(obj[b].bag, obj[a].bag), BMinus(obj[b].bag, obj[a].bag), FALSE, {})
\* pipeline: what a reader has been shown plus what it has not yet been shown is the same for all readers
ReadersAgree == \A r, q \in Readers, k \in Keys :
                   BUnion(rd[r][k].seen, rd[r][k].since) = BUnion(rd[q][k].seen, rd[q][k].since)
\* a deviation alternative exists only in its own narrow situation
DevsAreNarrow ==
  ForAllPoints(LAMBDA p, bag, mmv :
    LET o == [bag |-> bag, sd |-> bag, mmv |-> mmv] IN
    /\ AltOf(o, {"double-max-sentinel-dbl-min"}) # ExpOf(o)
         => (Kind(tab) = "double" /\ mmv /\ BSize(bag) > 0 /\ BMax(bag) <= BelowDblMin(tab))
    /\ AltOf(o, {"long-value-rounded-onto-boundary"}) # ExpOf(o)
         => (Kind(tab) = "long" /\ \E r \in Ranks : bag[r] > 0 /\ RoundsTo(tab, r) # r /\ RoundsTo(tab, r) \in B)
    /\ AltOf(o, {"diff-sum-not-computed"}) = ExpOf(o))    \* sd = bag: never differs unless a Diff happened
DiffAltOnlyAfterDiff == \A s \in Slots : obj[s].live /\ obj[s].sd # obj[s].bag => nops > 0

Bound == nagg <= MaxAgg /\ nops <= MaxOps

(* ---- behaviour export ----------------------------------------------------- *)
View == bvars
Finished == nagg + nops = Total /\ (turn \in {"pick", "any"})
EmitAll == Finished => PrintT(<<"BEH", ToJson(hist)>>)
\* every behaviour whose length is exactly D steps (BFS to a small depth)
EmitAtDepth == (Len(hist) = Total + 1) => PrintT(<<"BEH", ToJson(hist)>>)
FullView == vars
TotalBound == nagg + nops <= Total
LastAlts == IF Len(hist) < 2 THEN {}
            ELSE LET e == hist[Len(hist)] IN
                 IF e.op = "collect" THEN UNION {{a.devs : a \in e.pts[k].alts} : k \in Keys}
                 ELSE IF e.op = "rec" THEN {} ELSE {a.devs : a \in e.alts}
Wit(c) == c => (PrintT(<<"BEH", ToJson(hist)>>) /\ FALSE)
\* witnesses: a shortest behaviour whose last step offers exactly this deviation
WitSentinel == Wit({"double-max-sentinel-dbl-min"} \in LastAlts)
WitRounded  == Wit({"long-value-rounded-onto-boundary"} \in LastAlts)
WitDiffSum  == Wit({"diff-sum-not-computed"} \in LastAlts)
LastOp == IF Len(hist) < 2 THEN "none" ELSE hist[Len(hist)].op
WitDiffRounded == Wit(LastOp = "diff" /\ {"diff-sum-not-computed"} \in LastAlts
                      /\ {"long-value-rounded-onto-boundary"} \in LastAlts)
\* witnesses for rare shapes
WitMergeOfDiff == Wit(LastOp = "merge" /\ \E s \in Slots : obj[s].live /\ ~obj[s].mmv /\ mm /\ BSize(obj[s].bag) > 1)
WitBoundaryEqual == Wit(LastOp = "agg" /\ hist[Len(hist)].v \in B /\ NB >= 2)
\* a value equal to a boundary of a long list (>= 17 boundaries), summarised / merged / collected
WitLongEqualAgg == Wit(LastOp = "agg" /\ hist[Len(hist)].v \in B /\ NB >= 17)
WitLongEqualMerge == Wit(LastOp = "merge" /\ NB >= 17 /\ hist[Len(hist)].a # hist[Len(hist)].b
                         /\ \E v \in B \cap Ranks : obj[hist[Len(hist)].d].bag[v] >= 2)
WitLongEqualCollect == Wit(LastOp = "collect" /\ NB >= 17 /\ nops >= 2
                           /\ \E r \in Readers, k \in Keys, v \in B \cap Ranks : temp[r] = "c" /\ rd[r][k].seen[v] >= 2)
WitCumSecondInterval == Wit(LastOp = "collect" /\ \E r \in Readers, k \in Keys :
                               temp[r] = "c" /\ BSize(rd[r][k].seen) >= 3 /\ rd[r][k].cum.count >= 3
                               /\ \E q \in Readers : q # r /\ BSize(rd[q][k].since) > 0)
WitEmptyDelta == Wit(LastOp = "collect" /\ \E k \in Keys : ~hist[Len(hist)].pts[k].must /\
                        \E j \in Keys : hist[Len(hist)].pts[j].must)
=============================================================================
