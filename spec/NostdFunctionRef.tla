-------------------------- MODULE NostdFunctionRef --------------------------
(***************************************************************************)
(* C20, function_ref machine: a nostd::function_ref<int(int,int)> is a     *)
(* non-owning REFERENCE to a callable; invoking it has exactly the result  *)
(* and the side effect of calling the bound callable directly.             *)
(*                                                                         *)
(* Callables: "L" a lambda with state (an accumulator acc, 0..M-1):        *)
(*               L(x,y): acc := (acc + x) % M; return 10*acc + y           *)
(*            "F" a plain function with a global call counter cnt:         *)
(*               F(x,y): cnt := (cnt + 1) % M; return 100 + 3*x + y        *)
(* State: two reference variables r1, r2 ("unset" no object, "null" bound  *)
(* to nullptr, "L", "F"), acc, cnt.  Operations: bind (construct from the  *)
(* callable / from nullptr), copy-construct from the other variable,       *)
(* invoke through a reference, call the callable directly.  Because the    *)
(* reference does not own or copy the callable, direct calls and calls     *)
(* through any reference act on the SAME accumulator.                      *)
(* Invoking a null function_ref is undefined: not exercised (bool() is).   *)
(***************************************************************************)
EXTENDS Naturals, Sequences, FiniteSets, TLC, Json

CONSTANTS Hist, Depth, Dev, M

Names  == {"r1", "r2"}
Other(n) == IF n = "r1" THEN "r2" ELSE "r1"
Target == {"null", "L", "F"}
Args   == {<<1, 0>>, <<2, 1>>}

NWit == 4          \* number of witness conditions (section "behaviour export")
VARIABLES ref, acc, cnt, hist
vars == <<ref, acc, cnt, hist>>

\* result and effect of calling callable t with (x, y) in state (acc, cnt)
AccAfter(t, x) == IF t = "L" THEN (acc + x) % M ELSE acc
CntAfter(t)    == IF t = "F" THEN (cnt + 1) % M ELSE cnt
Result(t, x, y) == IF t = "L" THEN 10 * AccAfter(t, x) + y ELSE 100 + 3 * x + y

B(x) == IF x THEN "T" ELSE "F"
\* projection: bool(r) for both references ("-" = no object), the accumulator and the counter as
\* the harness reads them directly, the value returned by this step's call (99 = no call)
ObsOf(r, a, c, ret) == [b1 |-> IF r.r1 = "unset" THEN "-" ELSE B(r.r1 \in {"L", "F"}),
                        b2 |-> IF r.r2 = "unset" THEN "-" ELSE B(r.r2 \in {"L", "F"}),
                        acc |-> a, cnt |-> c, ret |-> ret]

Go == ~Hist \/ Len(hist) < Depth + 1
Step(op, d, t, x, y, r2, a2, c2, ret) ==
  /\ Go
  /\ ref' = r2 /\ acc' = a2 /\ cnt' = c2
  /\ hist' = IF ~Hist THEN hist
             ELSE Append(hist, [op |-> op, d |-> d, t |-> t, x |-> x, y |-> y, exp |-> ObsOf(r2, a2, c2, ret)])

Init == /\ ref = [r1 |-> "unset", r2 |-> "unset"] /\ acc = 0 /\ cnt = 0
        /\ \A i \in 1..NWit : TLCSet(i, 0)
        /\ hist = IF Hist THEN <<[op |-> "init", d |-> "", t |-> "", x |-> 0, y |-> 0, exp |-> ObsOf(ref, acc, cnt, 99)]>> ELSE <<>>

\* function_ref<int(int,int)> d(t)  -- (re)binding constructs a new reference object in the variable
Bind(d, t) == d \in Names /\ Step("Bind", d, t, 0, 0, [ref EXCEPT ![d] = t], acc, cnt, 99)
\* function_ref<int(int,int)> d(other)  -- copy construction
CopyRef(d) == /\ ref[Other(d)] # "unset"
              /\ Step("CopyRef", d, ref[Other(d)], 0, 0, [ref EXCEPT ![d] = ref[Other(d)]], acc, cnt, 99)
\* d(x, y)
Invoke(d, x, y) == /\ ref[d] \in {"L", "F"}
                   /\ Step("Invoke", d, ref[d], x, y, ref, AccAfter(ref[d], x), CntAfter(ref[d]), Result(ref[d], x, y))
\* t(x, y) called directly
Direct(t, x, y) == /\ t \in {"L", "F"}
                   /\ Step("Direct", "", t, x, y, ref, AccAfter(t, x), CntAfter(t), Result(t, x, y))

Next == \/ \E d \in Names, t \in Target : Bind(d, t)
        \/ \E d \in Names : CopyRef(d)
        \/ \E d \in Names, a \in Args : Invoke(d, a[1], a[2])
        \/ \E t \in {"L", "F"}, a \in Args : Direct(t, a[1], a[2])

Spec == Init /\ [][Next]_vars

(* ---- the property ------------------------------------------------------ *)
TypeOK == ref.r1 \in Target \cup {"unset"} /\ ref.r2 \in Target \cup {"unset"} /\ acc \in 0..(M - 1) /\ cnt \in 0..(M - 1)
\* Invoke(d, ..) and Direct(ref[d], ..) are the same state function (both are defined through
\* AccAfter/CntAfter/Result); what TLC checks on top: a call touches only its own callable's state,
\* and results identify the callable and the accumulator they were computed from
EffectLocal == \A t \in {"L", "F"}, a \in Args :
                 /\ (t = "L" => CntAfter(t) = cnt) /\ (t = "F" => AccAfter(t, a[1]) = acc)
                 /\ (t = "L" => Result(t, a[1], a[2]) < 100 /\ Result(t, a[1], a[2]) \div 10 = AccAfter(t, a[1]))
                 /\ (t = "F" => Result(t, a[1], a[2]) >= 100)
Property == EffectLocal

(* ---- behaviour export ---------------------------------------------------- *)
EmitAll == (Hist /\ Len(hist) = Depth + 1) => PrintT(<<"BEH", ToJson([steps |-> hist])>>)
Last == hist[Len(hist)]
HasLast == Hist /\ Len(hist) > 1
\* rare conditions that must be in the replay set of every run: each is reported once (per worker)
\* from the path-enumeration run itself; the check is broken if one of them is never reported
Wits == <<
  <<"SharedState", HasLast /\ Last.op = "Invoke" /\ Last.t = "L" /\ Len(hist) >= 5 /\ hist[Len(hist) - 1].op = "Direct" /\ hist[Len(hist) - 1].t = "L" /\ hist[Len(hist) - 2].op = "Invoke" /\ hist[Len(hist) - 2].t = "L">>,
  <<"CopyThenCall", HasLast /\ Last.op = "Invoke" /\ Len(hist) >= 3 /\ hist[Len(hist) - 1].op = "CopyRef" /\ hist[Len(hist) - 1].d = Last.d>>,
  <<"Rebind", HasLast /\ Last.op = "Invoke" /\ Last.t = "F" /\ Len(hist) >= 5 /\ hist[Len(hist) - 1].op = "Bind" /\ hist[Len(hist) - 1].d = Last.d /\ \E i \in 2..(Len(hist) - 2) : hist[i].op = "Invoke" /\ hist[i].d = Last.d /\ hist[i].t = "L">>,
  <<"NullAfterBound", HasLast /\ Last.op = "Bind" /\ Last.t = "null" /\ \E i \in 2..(Len(hist) - 1) : hist[i].op = "Invoke" /\ hist[i].d = Last.d>> >>
WitAll == \A i \in 1..NWit : (Wits[i][2] /\ TLCGet(i) = 0) => (PrintT(<<"WIT", Wits[i][1]>>) /\ TLCSet(i, 1))
=============================================================================
