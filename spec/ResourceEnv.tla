----------------------------- MODULE ResourceEnv -----------------------------
(***************************************************************************)
(* C18 - resources merge with documented precedence; environment settings  *)
(* parse totally; every telemetry item references its provider's resource. *)
(*                                                                         *)
(* Anchors: sdk/src/resource/resource.cc, resource_detector.cc,            *)
(*          sdk/src/common/env_variables.cc, disabled.cc,                  *)
(*          sdk/src/{trace,logs,metrics}/provider.cc                       *)
(*                                                                         *)
(* The module has three layers.                                            *)
(*  1. CONTRACT (what the property statement demands, nothing more):       *)
(*     Contract(reader, string) = the SET of outcomes the statement allows *)
(*     for an abstract string (singleton for a documented syntax, the      *)
(*     default for any other string, a two-element don't-care band where   *)
(*     the statement is silent); MergePrecedenceOK / CreateOK / EnvAlts    *)
(*     for resources.                                                      *)
(*  2. MODEL: an operational reference of the readers (strtoull-like scan, *)
(*     digit accumulation, unit table) and of Merge (copy other, insert    *)
(*     this).  With Dev = {} it is an ideal implementation; each named     *)
(*     deviation in Dev switches one branch to what the C++ does today.    *)
(*     TLC checks over the WHOLE abstract partition that the model meets   *)
(*     the contract except exactly at the named deviations.                *)
(*  3. MACHINE: a process as a state machine (environment fixed at start,  *)
(*     the givens of the SDK build - default resource, schema URLs - as a  *)
(*     parameter `sdk`, never assumed; pool of resources, providers,       *)
(*     errno) used to export behaviours                                    *)
(*     (hist/VIEW idiom) that the C++ harness replays; the resulting logs  *)
(*     are validated by ResourceEnvTrace.tla against layer 1.              *)
(*                                                                         *)
(* Abstract string = [pre, body, suf, tb]:                                 *)
(*   pre  in none | blank | plus | minus                                   *)
(*   body in d0..d10 (digit runs ordered by magnitude, see Rank) | none |  *)
(*           true | false (any letter case) | word | frac | hugeexp        *)
(*   suf  in none | ns us ms s m h | junk          tb = trailing blank     *)
(* Digit classes (value ranges; boundaries chosen where ANY reader's       *)
(* verdict changes; duration capacities assume system_clock::duration =    *)
(* 64-bit nanoseconds, asserted by the harness):                           *)
(*   d0 0           d1 1..2562047 (fits every unit)                        *)
(*   d2 ..153722867 (hours overflow)   d3 ..2^32-2 (minutes overflow)      *)
(*   d4 2^32-1      d5 2^32..9223372036 (beyond 32 bits)                   *)
(*   d6 ..9223372036854 (seconds overflow)  d7 ..9223372036854775 (ms)     *)
(*   d8 ..2^63-1 (us overflow; ns fits)     d9 2^63..2^64-2^32             *)
(*   d9w 2^64-2^32+1..2^64-1                d10 >= 2^64 (20..30 digits)    *)
(***************************************************************************)
EXTENDS Naturals, Sequences, FiniteSets, TLC, Json

CONSTANTS Dev,       \* deviation names in force ({} = ideal)
          Hist,      \* BOOLEAN: record the behaviour in hist (generation runs)
          Mode,      \* "machine" | "readers" | "pairs" | "envs"
          Keys,      \* attribute keys used by New/Create and the partition modes
          Vals,      \* attribute values (opaque names; concretised by the harness)
          EKeys,     \* keys used in OTEL_RESOURCE_ATTRIBUTES tokens
          SVals,     \* values usable in the environment (strings)
          Urls,      \* non-empty schema URLs
          TokKinds,  \* token kinds of OTEL_RESOURCE_ATTRIBUTES explored
          MaxTok,    \* max tokens in the list
          SvcKinds,  \* OTEL_SERVICE_NAME classes explored: subset of {"unset", "empty", "set"}
          MaxPool, MaxProv, MaxSteps,
          DefUrls,   \* schema URLs the SDK default resource may carry in the model ("" and/or non-empty)
          DefExtras, \* sets of keys it may carry beyond telemetry.sdk.language/name/version
          EnvUrls,   \* schema URLs the resource read from the environment may carry in the model
          RdKinds,   \* readers exercised by the machine
          RdPres, RdBodies, RdSufs, RdTb, RdErr  \* string partition explored by the machine

AllDevs == {"uint-stale-erange", "float-stale-erange", "uint-negative-wraps",
            "duration-digits-overflow", "duration-unit-overflow", "create-nonstring-exe-name-throws"}

(* ======================= 1a. abstract strings ========================== *)
Units == {"ns", "us", "ms", "s", "m", "h"}
Pres  == {"none", "blank", "plus", "minus"}
Digs  == {"d0", "d1", "d2", "d3", "d4", "d5", "d6", "d7", "d8", "d9", "d9w", "d10"}
Bods  == Digs \cup {"none", "true", "false", "word", "frac", "hugeexp"}
Sufs  == Units \cup {"none", "junk"}
Unset == [pre |-> "unset", body |-> "none", suf |-> "none", tb |-> FALSE]
Strs  == [pre : Pres, body : Bods, suf : Sufs, tb : BOOLEAN]
AllStrs == Strs \cup {Unset}
Readers == {"bool", "uint", "dur", "float", "str", "disabled", "install_t", "install_l", "install_m"}

IsDig(b) == b \in Digs
Rank(b) == CASE b = "d0" -> 0 [] b = "d1" -> 1 [] b = "d2" -> 2 [] b = "d3" -> 3 [] b = "d4" -> 4
             [] b = "d5" -> 5 [] b = "d6" -> 6 [] b = "d7" -> 7 [] b = "d8" -> 8 [] b = "d9" -> 9
             [] b = "d9w" -> 9 [] b = "d10" -> 10 [] OTHER -> 99
\* largest digit class whose every value, multiplied by the unit, fits the 64-bit nanosecond count
Cap(u) == CASE u = "h" -> 1 [] u = "m" -> 2 [] u = "s" -> 5 [] u = "ms" -> 6 [] u = "us" -> 7 [] u = "ns" -> 8
Fits(b, u) == Rank(b) <= Cap(u)
InU32(b)   == IsDig(b) /\ Rank(b) <= 4
Plain(s)   == s.pre = "none" /\ s.suf = "none" /\ ~s.tb
Empty(s)   == s # Unset /\ Plain(s) /\ s.body = "none"
BoolWord(s) == s.body \in {"true", "false"}
FBody(b)   == IsDig(b) \/ b = "frac"
O(r, v)    == [ret |-> r, val |-> v]
(* outcome vocabulary (what the harness projects a real call to):
   ret  "T" | "F" (return value)  | "na" (no return value / process died)
   val  bool: "true" "false"     uint: "exact" "zero" "other"
        dur: "<unit>" = exactly N of that unit, "zero", "keep" (out-parameter untouched), "other"
        float: "exact" "negexact" "zero" "other"      str: "same" "empty" "keep" "other"
        disabled: "true" "false"    install_*: "yes" "no"
        "ub" (UBSan signed overflow killed the process)  "crash" (any other abnormal end) *)

(* ======================= 1b. the contract ============================== *)
UVal(b)  == IF b = "d0" THEN "zero" ELSE "exact"
UDef     == {O("F", "zero"), O("T", "zero")}     \* value 0; the statement does not pin the flag of an
                                                 \* existing-but-invalid variable (the header says "true
                                                 \* if the variable exists", the uint reader says false)
CBool(s) ==
  IF s = Unset THEN {O("F", "false")}
  ELSE IF Empty(s) THEN {O("F", "false"), O("T", "false")}
  ELSE IF BoolWord(s) /\ Plain(s) THEN {O("T", s.body)}
  ELSE IF BoolWord(s) /\ s.pre \in {"none", "blank"} /\ s.suf = "none"          \* blank-decorated: don't care
         THEN {O("T", s.body), O("T", "false"), O("F", "false")}
  ELSE {O("T", "false"), O("F", "false")}

CUint(s) ==
  IF s = Unset THEN {O("F", "zero")}
  ELSE IF Empty(s) THEN UDef
  ELSE IF InU32(s.body) /\ Plain(s) THEN {O("T", UVal(s.body))}
  ELSE IF InU32(s.body) /\ s.suf = "none" /\ s.pre \in {"none", "blank", "plus"}  \* blank / '+' prefix, trailing
         THEN {O("T", UVal(s.body))} \cup UDef                                  \* blank: don't care
  ELSE UDef      \* includes "-0" (value 0 either way); "-5", overflow, junk: the default

DDef == {O("F", "keep"), O("F", "zero")}          \* "unset": false, out-parameter untouched or zero
EffUnits(s) == IF s.suf = "none" THEN {"s", "ms"} ELSE {s.suf}   \* unit-less: the code says seconds, the
                                                                \* OTel spec milliseconds: don't care
DurShape(s) == IsDig(s.body) /\ s.suf \in (Units \cup {"none"})
CDur(s) ==
  IF s = Unset \/ Empty(s) THEN DDef
  ELSE IF DurShape(s) /\ s.pre \in {"none", "blank", "plus"} THEN
         LET exact   == IF s.body = "d0" THEN {O("T", "zero")}
                        ELSE {O("T", u) : u \in {x \in EffUnits(s) : Fits(s.body, x)}}
             strict  == s.pre = "none" /\ ~s.tb
             needDef == ~strict \/ s.body = "d0" \/ \E u \in EffUnits(s) : ~Fits(s.body, u)
         IN exact \cup (IF needDef THEN DDef ELSE {})
  ELSE IF DurShape(s) /\ s.pre = "minus" /\ s.body = "d0" THEN {O("T", "zero")} \cup DDef
  ELSE DDef

FDef == {O("F", "zero"), O("T", "zero")}
FVal(s) == IF s.body = "d0" THEN "zero" ELSE IF s.pre = "minus" THEN "negexact" ELSE "exact"
CFloat(s) ==
  IF s = Unset THEN {O("F", "zero")}
  ELSE IF Empty(s) THEN FDef
  ELSE IF FBody(s.body) /\ Plain(s) THEN {O("T", FVal(s))}
  ELSE IF FBody(s.body) /\ s.suf = "none" THEN {O("T", FVal(s))} \cup FDef       \* sign / blank decoration
  ELSE FDef

CStr(s) == IF s = Unset \/ Empty(s) THEN {O("F", "empty"), O("F", "keep")} ELSE {O("T", "same")}
CDisabled(s) == {O("na", o.val) : o \in CBool(s)}
CInstall(s)  == {O("na", IF o.val = "true" THEN "no" ELSE "yes") : o \in CBool(s)}

Contract(r, s) == CASE r = "bool" -> CBool(s) [] r = "uint" -> CUint(s) [] r = "dur" -> CDur(s)
                    [] r = "float" -> CFloat(s) [] r = "str" -> CStr(s) [] r = "disabled" -> CDisabled(s)
                    [] OTHER -> CInstall(s)

(* The statement's three cases, stated independently of Contract so that TLC cross-checks them. *)
Documented(r, s) ==
  /\ s # Unset
  /\ CASE r \in {"bool", "disabled", "install_t", "install_l", "install_m"} -> Plain(s) /\ BoolWord(s)
       [] r = "uint"  -> Plain(s) /\ InU32(s.body)
       [] r = "dur"   -> /\ s.pre = "none" /\ ~s.tb /\ DurShape(s) /\ s.body # "d0"
                         /\ \A u \in EffUnits(s) : Fits(s.body, u)
       [] r = "float" -> Plain(s) /\ FBody(s.body)
       [] r = "str"   -> ~Empty(s)
DontCare(r, s) ==
  /\ s # Unset /\ ~Documented(r, s)
  /\ CASE r \in {"bool", "disabled", "install_t", "install_l", "install_m"} ->
            BoolWord(s) /\ s.pre \in {"none", "blank"} /\ s.suf = "none"
       [] r = "uint"  -> InU32(s.body) /\ s.suf = "none" /\ s.pre \in {"none", "blank", "plus"}
       [] r = "dur"   -> DurShape(s) /\ (s.pre \in {"none", "blank", "plus"} \/ s.body = "d0")
                         /\ (s.body = "d0" \/ \E u \in EffUnits(s) : Fits(s.body, u))
       [] r = "float" -> FBody(s.body) /\ s.suf = "none"
       [] r = "str"   -> FALSE
ExactVals(r, s) ==
  CASE r = "bool" \/ r = "disabled" -> {s.body}
    [] r \in {"install_t", "install_l", "install_m"} -> {IF s.body = "true" THEN "no" ELSE "yes"}
    [] r = "uint"  -> {UVal(s.body)}
    [] r = "dur"   -> IF s.body = "d0" THEN {"zero"} ELSE {u \in EffUnits(s) : Fits(s.body, u)}
    [] r = "float" -> {FVal(s)}
    [] r = "str"   -> {"same"}
DefaultVals(r) ==
  CASE r = "bool" \/ r = "disabled" -> {"false"}
    [] r \in {"install_t", "install_l", "install_m"} -> {"yes"}
    [] r = "uint" \/ r = "float" -> {"zero"}
    [] r = "dur"  -> {"keep", "zero"}
    [] r = "str"  -> {"empty", "keep"}

(* ======================= 2a. operational reader model ================== *)
\* every reader: [out |-> outcome, dev |-> name of the deviation taken | "none"]
M(o, d) == [out |-> o, dev |-> d]
UB == O("na", "ub")

MBool(D, s) ==
  IF s = Unset \/ Empty(s) THEN M(O("F", "false"), "none")
  ELSE IF Plain(s) /\ BoolWord(s) THEN M(O("T", s.body), "none")           \* strcasecmp on the whole value
  ELSE M(O("T", "false"), "none")

\* strtoull-like: skip blanks, optional sign, digit run; ERANGE beyond 2^64-1; then range and end check
MUint(D, s, e) ==
  IF s = Unset \/ Empty(s) THEN M(O("F", "zero"), "none")
  ELSE LET conv  == IsDig(s.body)
           range == conv /\ s.body = "d10"
           atEnd == conv /\ s.suf = "none" /\ ~s.tb
           good  == atEnd /\ ~range /\ (IF s.pre = "minus" THEN s.body = "d0" ELSE Rank(s.body) <= 4)
       IN IF e = "erange" /\ "uint-stale-erange" \in D /\ good /\ s.pre = "none"
            THEN M(O("F", "zero"), "uint-stale-erange")         \* `if (errno == ERANGE)` without errno = 0 first
          ELSE IF e = "erange" /\ "uint-stale-erange" \in D /\ good
            THEN M(O("F", "zero"), "none")                      \* same branch, but inside the don't-care band
          ELSE IF good THEN M(O("T", UVal(s.body)), "none")
          ELSE IF atEnd /\ s.pre = "minus" /\ s.body = "d9w" /\ "uint-negative-wraps" \in D /\ e # "erange"
            THEN M(O("T", "other"), "uint-negative-wraps")      \* strtoull negates modulo 2^64 into 1..2^32-1
          ELSE M(O("F", "zero"), "none")

\* strtof-like
MFloat(D, s, e) ==
  IF s = Unset \/ Empty(s) THEN M(O("F", "zero"), "none")
  ELSE LET conv == FBody(s.body) \/ s.body = "hugeexp"
           good == conv /\ s.body # "hugeexp" /\ s.suf = "none" /\ ~s.tb
       IN IF e = "erange" /\ "float-stale-erange" \in D /\ good /\ s.pre = "none"
            THEN M(O("F", "zero"), "float-stale-erange")
          ELSE IF e = "erange" /\ "float-stale-erange" \in D /\ good
            THEN M(O("F", "zero"), "none")
          ELSE IF good THEN M(O("T", FVal(s)), "none")
          ELSE M(O("F", "zero"), "none")

\* GetTimeoutFromString: skip blanks, accumulate digits in a signed 64-bit count, reject 0, unit table
MDur(D, s) ==
  IF s = Unset \/ Empty(s) THEN M(O("F", "zero"), "none")
  ELSE IF ~(s.pre \in {"none", "blank"} /\ IsDig(s.body)) THEN M(O("F", "keep"), "none")
  ELSE IF Rank(s.body) >= 9 THEN
         IF "duration-digits-overflow" \in D THEN M(UB, "duration-digits-overflow")   \* result*10+d overflows
         ELSE M(O("F", "keep"), "none")
  ELSE IF s.body = "d0" \/ s.suf = "junk" \/ s.tb THEN M(O("F", "keep"), "none")
  ELSE LET u == IF s.suf = "none" THEN "s" ELSE s.suf IN
       IF Fits(s.body, u) THEN M(O("T", u), "none")
       ELSE IF "duration-unit-overflow" \in D THEN M(UB, "duration-unit-overflow")    \* duration_cast overflows
       ELSE M(O("F", "keep"), "none")

MStr(D, s) == IF s = Unset \/ Empty(s) THEN M(O("F", "empty"), "none") ELSE M(O("T", "same"), "none")

Model(D, r, s, e) ==
  CASE r = "bool" -> MBool(D, s) [] r = "uint" -> MUint(D, s, e) [] r = "float" -> MFloat(D, s, e)
    [] r = "dur" -> MDur(D, s) [] r = "str" -> MStr(D, s)
    [] r = "disabled" -> M(O("na", MBool(D, s).out.val), "none")
    [] OTHER -> M(O("na", IF MBool(D, s).out.val = "true" THEN "no" ELSE "yes"), "none")

\* what a deviating real call may look like (sanitizer build: dies; plain build: wrapped value)
DevOuts(m) == IF m.out = UB THEN {UB, O("T", "other")} ELSE {m.out}
\* errno as left for the next call.  It only decides whether a stale-errno deviation may explain a later
\* call, so it over-approximates "may hold ERANGE": the uint/float readers return early (errno untouched)
\* for an unset/empty variable; otherwise today's code leaves 0, but an implementation that saves and
\* restores errno would leave what it found - "maybe" covers both.  "maybe" is read as either.
ErrnoAfter(r, s, e) ==
  IF r \in {"uint", "float"} /\ ~(s = Unset \/ Empty(s)) THEN (IF e = "clean" THEN "clean" ELSE "maybe") ELSE e
Readings(e) == IF e = "maybe" THEN {"clean", "erange"} ELSE {e}

(* ======================= 1c / 2b. resources ============================ *)
SvcKey == "service.name"
EmptyRes == [attrs |-> <<>>, url |-> ""]
R(a, u) == [attrs |-> a, url |-> u]
(* The GIVENS of the SDK build under test: S = [dflt, envurl].
     S.dflt    the SDK default resource (Resource::GetDefault()): attributes AND schema URL
     S.envurl  the schema URL of the resource the SDK reads from the environment
   The statement pins only that the defaults carry telemetry.sdk.language / name / version
   (DefaultShapeOK); the VALUES of those attributes, further default attributes and both schema URLs are
   whatever the SDK says.  So they are parameters: the model explores every S of Sdks (constants DefUrls,
   DefExtras, EnvUrls), trace validation takes S from what the harness observed in the running process
   (Cfg event) - and the Merge / Create rules of the statement are applied to THAT. *)
SdkKeys == {"telemetry.sdk.language", "telemetry.sdk.name", "telemetry.sdk.version"}
DefaultShapeOK(d) == SdkKeys \subseteq DOMAIN d.attrs
MkDefault(extra, u) ==
  R([k \in SdkKeys \cup extra |->
        CASE k = "telemetry.sdk.language" -> "dflt_lang" [] k = "telemetry.sdk.name" -> "dflt_name"
          [] k = "telemetry.sdk.version" -> "dflt_ver" [] OTHER -> "dflt_x"], u)
Sdks == {[dflt |-> MkDefault(x, u), envurl |-> eu] : x \in DefExtras, u \in DefUrls, eu \in EnvUrls}
NoSdk == [dflt |-> MkDefault({}, ""), envurl |-> ""]       \* (modes that have no default resource)
Over(a, b) == [k \in DOMAIN a \cup DOMAIN b |-> IF k \in DOMAIN b THEN b[k] ELSE a[k]]   \* b over a

\* contract of a.Merge(b) = m
MergePrecedenceOK(a, b, m) ==
  /\ DOMAIN m.attrs = DOMAIN a.attrs \cup DOMAIN b.attrs
  /\ \A k \in DOMAIN b.attrs : m.attrs[k] = b.attrs[k]
  /\ \A k \in DOMAIN a.attrs \ DOMAIN b.attrs : m.attrs[k] = a.attrs[k]
  /\ m.url = IF b.url # "" THEN b.url ELSE a.url

\* operational: copy other, then insert this (insert keeps existing keys)
RECURSIVE InsertAll(_, _, _)
InsertAll(m, src, ks) ==
  IF ks = {} THEN m
  ELSE LET k == CHOOSE x \in ks : TRUE
       IN InsertAll(IF k \in DOMAIN m THEN m ELSE m @@ (k :> src[k]), src, ks \ {k})
Merge(a, b) == [attrs |-> InsertAll(b.attrs, a.attrs, DOMAIN a.attrs),
                url |-> IF b.url = "" THEN a.url ELSE b.url]

(* OTEL_RESOURCE_ATTRIBUTES as a token list.  Token kinds:
     kv       "k=v"                 noeq   "junk" (no '=')        empty  "" (",," / trailing ',')
     emptykey "=v"                  padkv  " k = v " (blanks)     valeq  "k=a=b"     emptyval "k="
   Pinned by the statement ("key=value lists ... return the exact value"): every member key=value with a
   non-empty key yields exactly that pair, the value being all the rest of the member - including the empty value ("k=", kind emptyval or kv with value s_empty) and values /
   keys that contain LF, CR, TAB, control, non-ASCII or invalid-UTF-8 bytes or spaces INSIDE (values and
   keys are opaque names here; the harness table maps s_lf, s_cr, s_tab, s_ctl, s_utf, s_bin, s_sp, ~k_lf,
   ~k_tab, ... to such texts), in any position of the list.  Left open (the statement is silent; the OTel
   specification and the code differ): which occurrence of a repeated key wins; blanks at the EDGES of a
   key or value (padkv: kept literally, trimmed, or skipped); a value that itself contains '=' (valeq:
   split at the first '=', or skipped); members without '=' / with an empty key / empty members (skipped,
   kept in the most literal reading, or the whole variable counts as unset).  Never allowed: a pair that
   no member denotes (hence no truncated or partial value). *)
Tok(t, k, v) == [t |-> t, k |-> k, v |-> v, rawk |-> "~rawk", rawv |-> "~rawv"]
Contrib(tk) ==
  CASE tk.t = "kv"       -> {(tk.k :> tk.v)}
    [] tk.t = "noeq"     -> {<<>>}
    [] tk.t = "empty"    -> {<<>>}
    [] tk.t = "emptykey" -> {<<>>, ("" :> tk.v)}
    [] tk.t = "padkv"    -> {<<>>, (tk.k :> tk.v), (tk.rawk :> tk.rawv)}
    [] tk.t = "valeq"    -> {<<>>, (tk.k :> tk.rawv)}
    [] tk.t = "emptyval" -> {(tk.k :> "s_empty")}          \* "k=" IS key=value: the value is the empty string
RECURSIVE ListAlts(_)
ListAlts(ts) ==
  IF ts = <<>> THEN {<<>>}
  ELSE LET rest == ListAlts(SubSeq(ts, 1, Len(ts) - 1))
           c    == Contrib(ts[Len(ts)])
       IN {Over(m, x) : m \in rest, x \in c} \cup {Over(x, m) : m \in rest, x \in c}
Malformed(ts) == \E i \in 1..Len(ts) : ts[i].t \notin {"kv", "emptyval"}
TokVal(tk) == IF tk.t = "emptyval" THEN "s_empty" ELSE tk.v
\* svc = [c |-> "unset" | "empty" | "set", v |-> value]
EnvAlts(ts, svc) ==
  LET lists == ListAlts(ts) \cup (IF Malformed(ts) THEN {<<>>} ELSE {})
  IN UNION { CASE svc.c = "unset" -> {m}
               [] svc.c = "empty" -> {m, Over(m, (SvcKey :> "s_empty"))}      \* empty = unset, or literally ""
               [] OTHER -> {Over(m, (SvcKey :> svc.v))} \cup (IF SvcKey \in DOMAIN m THEN {m} ELSE {})
             : m \in lists }

\* Resource::Create(user, url) with environment map e under the givens S; fb = the fallback service.name
CreateRes(S, e, user, url, fb) ==
  LET r == Merge(Merge(S.dflt, R(e, S.envurl)), R(user, url))
  IN IF SvcKey \in DOMAIN r.attrs THEN r ELSE [r EXCEPT !.attrs = @ @@ (SvcKey :> fb)]
\* Model of Create with its one known deviation: the service.name fallback reads
\* process.executable.name with get<std::string>, which throws for any other value type.
ExeKey == "process.executable.name"
NonStr == {"i1", "i2", "n1", "u1", "q1", "b1", "b0", "d1", "vs1", "vi1", "vb1", "vd1"}   \* non-string values of the table
CreateThrows(S, e, user) ==
  LET a == Over(Over(S.dflt.attrs, e), user)
  IN SvcKey \notin DOMAIN a /\ ExeKey \in DOMAIN a /\ a[ExeKey] \in NonStr
CreateModel(D, S, e, user, url, fb) ==
  IF "create-nonstring-exe-name-throws" \in D /\ CreateThrows(S, e, user)
    THEN [threw |-> TRUE, res |-> EmptyRes, dev |-> "create-nonstring-exe-name-throws"]
    ELSE [threw |-> FALSE, res |-> CreateRes(S, e, user, url, fb), dev |-> "none"]
\* contract of Create, stated declaratively: defaults < environment < caller, for the attributes as the
\* statement says, for the schema URL by the documented Merge rule applied along the same chain ("the
\* later one's unless it is empty") - the statement pins neither the default's nor the environment's URL
CreateUrl(S, url) == IF url # "" THEN url ELSE IF S.envurl # "" THEN S.envurl ELSE S.dflt.url
CreateOK(S, e, user, url, r) ==
  /\ DOMAIN r.attrs = DOMAIN user \cup DOMAIN e \cup DOMAIN S.dflt.attrs \cup {SvcKey}       \* first: guards the lookups
  /\ \A k \in DOMAIN user : r.attrs[k] = user[k]                                       \* the caller wins
  /\ \A k \in DOMAIN e \ DOMAIN user : r.attrs[k] = e[k]                               \* then the environment
  /\ \A k \in DOMAIN S.dflt.attrs \ (DOMAIN e \cup DOMAIN user) : r.attrs[k] = S.dflt.attrs[k]   \* then the defaults
  /\ SvcKey \in DOMAIN r.attrs                                                         \* always a service.name
  /\ r.url = CreateUrl(S, url)

PMaps(K, V) == UNION {[D -> V] : D \in SUBSET K}
AllRes == {R(a, u) : a \in PMaps(Keys, Vals), u \in Urls \cup {""}}
TokSet == {Tok(t, k, v) : t \in TokKinds, k \in EKeys, v \in SVals}
NormTok(tk) == IF tk.t \in {"noeq", "empty"} THEN Tok(tk.t, "-", "-")
               ELSE IF tk.t = "emptykey" THEN Tok(tk.t, "-", tk.v)
               ELSE IF tk.t \in {"valeq", "emptyval"} THEN Tok(tk.t, tk.k, "-") ELSE tk
Toks == {NormTok(tk) : tk \in TokSet}
TokLists == UNION {[1..n -> Toks] : n \in 0..MaxTok}
Svcs == {[c |-> c, v |-> "-"] : c \in SvcKinds \cap {"unset", "empty"}}
        \cup (IF "set" \in SvcKinds THEN {[c |-> "set", v |-> v] : v \in SVals \ {"s_empty"}} ELSE {})

(* ======================= 3. the process machine ======================== *)
VARIABLES env,      \* [toks, svc]: the environment the process was started with
          sdk,      \* [dflt, envurl]: the givens of the SDK build (see Sdks); never changes
          envalt,   \* the reading of it (one of EnvAlts) this behaviour assumes
          pool,     \* resources created so far (1 = GetDefault(), 2 = GetEmpty())
          provs,    \* providers: [kind, res]
          errno,    \* "clean" | "erange" | "maybe": errno before the next call
          dead,     \* the process was killed by undefined behaviour
          last,     \* the last step with its result (partition modes: the case under test)
          devUsed, nsteps,
          hist      \* behaviour export (hidden by VIEW)
bvars == <<env, sdk, envalt, pool, provs, errno, dead, last, devUsed, nsteps>>
vars  == <<bvars, hist>>
View  == bvars

Rec(e) == hist' = IF Hist THEN Append(hist, e) ELSE hist
NoEnv == [toks |-> <<>>, svc |-> [c |-> "unset", v |-> "-"]]

\* (hist: `assumes` is the S this behaviour was generated under, and every `exp` is the model's result
\*  under it - informative only: the harness cannot choose the SDK's givens, it observes them, and the
\*  log of the replay is judged by ResourceEnvTrace with the OBSERVED S)
InitMachine ==
  /\ env \in {[toks |-> t, svc |-> s] : t \in TokLists, s \in Svcs}
  /\ sdk \in Sdks
  /\ envalt \in EnvAlts(env.toks, env.svc)
  /\ pool = <<sdk.dflt, EmptyRes>> /\ provs = <<>> /\ errno = "clean" /\ dead = FALSE
  /\ last = [op |-> "Cfg"] /\ devUsed = {} /\ nsteps = 0
  /\ hist = IF Hist THEN <<[op |-> "Cfg", toks |-> env.toks, svc |-> env.svc, assumes |-> sdk]>> ELSE <<>>
InitCaseS(c, S) ==
  /\ env = NoEnv /\ sdk = S /\ envalt = <<>> /\ pool = <<>> /\ provs = <<>> /\ errno = "clean" /\ dead = FALSE
  /\ devUsed = {} /\ nsteps = 0 /\ hist = <<>> /\ last = c
InitCase(c) == InitCaseS(c, NoSdk)
Init ==
  CASE Mode = "machine" -> InitMachine
    [] Mode = "readers" -> \E r \in Readers, s \in AllStrs, e \in {"clean", "erange"} :
                              InitCase([op |-> "Case", r |-> r, s |-> s, e |-> e])
    [] Mode = "pairs"   -> \E a \in AllRes, b \in AllRes, c \in AllRes :
                              InitCase([op |-> "Case", a |-> a, b |-> b, c |-> c])
    [] Mode = "envs"    -> \E t \in TokLists, s \in Svcs, u \in PMaps(Keys, Vals), url \in Urls \cup {""}, S \in Sdks :
                              InitCaseS([op |-> "Case", toks |-> t, svc |-> s, user |-> u, url |-> url], S)

Live == Mode = "machine" /\ ~dead /\ nsteps < MaxSteps
Step == nsteps' = nsteps + 1

New(a, u) ==
  /\ Live /\ Len(pool) < MaxPool
  /\ pool' = Append(pool, R(a, u)) /\ Step
  /\ last' = [op |-> "New", res |-> R(a, u)]
  /\ UNCHANGED <<env, sdk, envalt, provs, errno, dead, devUsed>>
  /\ Rec([op |-> "New", attrs |-> a, url |-> u, exp |-> R(a, u)])
Create(a, u) ==
  /\ Live /\ Len(pool) < MaxPool
  /\ LET m == CreateModel(Dev, sdk, envalt, a, u, "ANY")
         r == CreateRes(sdk, envalt, a, u, "ANY") IN
     /\ pool' = IF m.threw THEN pool ELSE Append(pool, r)
     /\ Step
     /\ dead' = m.threw                      \* the behaviour ends where the code deviates
     /\ devUsed' = IF m.threw THEN devUsed \cup {m.dev} ELSE devUsed
     /\ last' = [op |-> "Create", user |-> a, url |-> u, res |-> r, threw |-> m.threw, dev |-> m.dev]
     /\ Rec([op |-> "Create", user |-> a, url |-> u, exp |-> r,
             dev |-> CreateModel(AllDevs, sdk, envalt, a, u, "ANY").dev])
  /\ UNCHANGED <<env, sdk, envalt, provs, errno>>
MergeStep(i, j) ==
  /\ Live /\ Len(pool) < MaxPool
  /\ LET r == Merge(pool[i], pool[j]) IN
     /\ pool' = Append(pool, r) /\ Step
     /\ last' = [op |-> "Merge", a |-> i, b |-> j, res |-> r]
     /\ Rec([op |-> "Merge", a |-> i, b |-> j, exp |-> r])
  /\ UNCHANGED <<env, sdk, envalt, provs, errno, dead, devUsed>>
MkProv(kind, i) ==
  /\ Live /\ Len(provs) < MaxProv
  /\ provs' = Append(provs, [kind |-> kind, res |-> i]) /\ Step
  /\ last' = [op |-> "MkProv", kind |-> kind, res |-> i]
  /\ UNCHANGED <<env, sdk, envalt, pool, errno, dead, devUsed>>
  /\ Rec([op |-> "MkProv", kind |-> kind, res |-> i, exp |-> pool[i]])
\* a span / log record / metric batch produced through provider p: the exporter sees p's resource
Emit(p) ==
  /\ Live /\ Step
  /\ last' = [op |-> "Emit", p |-> p, seen |-> pool[provs[p].res]]
  /\ UNCHANGED <<env, sdk, envalt, pool, provs, errno, dead, devUsed>>
  /\ Rec([op |-> "Emit", p |-> p, exp |-> pool[provs[p].res]])
\* set the variable to s, (e = erange/clean: foreign code leaves that errno; asis: untouched), call reader r
Read(r, s, e) ==
  /\ Live /\ Step
  /\ LET eff == IF e = "asis" THEN errno ELSE e
         ee  == IF eff = "maybe" THEN "erange" ELSE eff      \* the generator commits to one reading
         m   == Model(Dev, r, s, ee)
         mAll == Model(AllDevs, r, s, ee)
     IN /\ last' = [op |-> "Read", r |-> r, s |-> s, e |-> eff, out |-> m.out, dev |-> m.dev, ea |-> e,
                     \* one step of memory: the call before was a uint read that strtoull itself ranges out
                     afterRange |-> (last.op = "Read" /\ last.r = "uint" /\ last.s # Unset /\ last.s.body = "d10" /\ Plain(last.s))]
        /\ devUsed' = IF m.dev = "none" THEN devUsed ELSE devUsed \cup {m.dev}
        /\ dead' = (m.out = UB)
        /\ errno' = ErrnoAfter(r, s, eff)
        /\ Rec([op |-> "Read", r |-> r, s |-> s, errno |-> e, exp |-> Contract(r, s),
                dev |-> mAll.dev, expDev |-> DevOuts(mAll)])
  /\ UNCHANGED <<env, sdk, envalt, pool, provs>>

RdStrs == {s \in Strs : s.pre \in RdPres /\ s.body \in RdBodies /\ s.suf \in RdSufs /\ s.tb \in RdTb}
          \cup (IF "unset" \in RdPres THEN {Unset} ELSE {})
DoNew    == \E a \in PMaps(Keys, Vals), u \in Urls \cup {""} : New(a, u)
DoCreate == \E a \in PMaps(Keys, Vals), u \in Urls \cup {""} : Create(a, u)
DoMerge  == \E i, j \in 1..Len(pool) : MergeStep(i, j)
DoMkProv == \E k \in {"trace", "logs", "metrics"}, i \in 1..Len(pool) : MkProv(k, i)
DoEmit   == \E p \in 1..Len(provs) : Emit(p)
DoRead   == \E r \in RdKinds, s \in RdStrs, e \in RdErr : Read(r, s, e)
Next == DoNew \/ DoCreate \/ DoMerge \/ DoMkProv \/ DoEmit \/ DoRead
Spec == Init /\ [][Next]_vars

(* ======================= properties checked by TLC ===================== *)
(* -- readers, whole partition (Mode = "readers") ------------------------ *)
CaseM == Model(Dev, last.r, last.s, last.e)
\* the model of the code meets the contract, except through a named deviation
ExactOrDefault == Mode = "readers" => (CaseM.out \in Contract(last.r, last.s) \/ CaseM.dev \in Dev)
\* ... and a deviation is only ever taken where it really breaks the contract (narrowness)
DevOnlyWhereBroken == Mode = "readers" => (CaseM.dev # "none" => CaseM.out \notin Contract(last.r, last.s))
\* the contract is the statement: documented => exact; other => default; never partial/UB; errno-free
DocExact == Mode = "readers" => (Documented(last.r, last.s) =>
               \A o \in Contract(last.r, last.s) : o.ret \in {"T", "na"} /\ o.val \in ExactVals(last.r, last.s))
OtherDefault == Mode = "readers" => ((~Documented(last.r, last.s) /\ ~DontCare(last.r, last.s)) =>
               \A o \in Contract(last.r, last.s) : o.val \in DefaultVals(last.r))
BandEitherOr == Mode = "readers" => (DontCare(last.r, last.s) =>
               \A o \in Contract(last.r, last.s) : o.val \in ExactVals(last.r, last.s) \cup DefaultVals(last.r))
NoPartial == Mode = "readers" => (Contract(last.r, last.s) # {} /\
               \A o \in Contract(last.r, last.s) : o.val \notin {"other", "ub", "crash"})
UnsetIsUnset == Mode = "readers" => (last.s = Unset => \A o \in Contract(last.r, last.s) : o.ret \in {"F", "na"})
\* strict (Dev-free) conformance: expected to be VIOLATED when Dev # {} (witness that a deviation bites)
StrictConform == Mode = "readers" => CaseM.out \in Contract(last.r, last.s)
WitDev(d) == Mode = "readers" => CaseM.dev # d
WitUintStale == WitDev("uint-stale-erange")
WitFloatStale == WitDev("float-stale-erange")
WitUintNeg == WitDev("uint-negative-wraps")
WitDurDigits == WitDev("duration-digits-overflow")
WitDurUnit == WitDev("duration-unit-overflow")

(* -- Merge, all triples (Mode = "pairs") -------------------------------- *)
MergePrecedence == Mode = "pairs" => MergePrecedenceOK(last.a, last.b, Merge(last.a, last.b))
MergeEmptyIdentity == Mode = "pairs" => (Merge(EmptyRes, last.a) = last.a /\ Merge(last.a, EmptyRes) = last.a)
MergeIdempotent == Mode = "pairs" => Merge(last.a, last.a) = last.a
MergeAssociative == Mode = "pairs" => Merge(Merge(last.a, last.b), last.c) = Merge(last.a, Merge(last.b, last.c))

(* -- Create over every environment (Mode = "envs") ---------------------- *)
CaseAlts == EnvAlts(last.toks, last.svc)
CreatePrecedence == Mode = "envs" =>
   \A e \in CaseAlts : CreateOK(sdk, e, last.user, last.url, CreateRes(sdk, e, last.user, last.url, "ANY"))
ServiceNameAlwaysPresent == Mode = "envs" =>
   \A e \in CaseAlts : SvcKey \in DOMAIN CreateRes(sdk, e, last.user, last.url, "ANY").attrs
\* the model of Create meets the contract for every reading of the environment, except through its deviation
CreateModelOK == Mode = "envs" =>
   \A e \in CaseAlts : LET m == CreateModel(Dev, sdk, e, last.user, last.url, "ANY")
                        IN IF m.threw THEN m.dev \in Dev ELSE CreateOK(sdk, e, last.user, last.url, m.res)
WitCreateThrows == Mode = "envs" => \A e \in CaseAlts : ~CreateModel(Dev, sdk, e, last.user, last.url, "ANY").threw
\* the schema URL of Create's result, spelled out once more: a non-empty caller URL always wins; the
\* default's URL survives only when neither the caller nor the environment brings one
CreateUrlChain == Mode = "envs" =>
   \A e \in CaseAlts : LET r == CreateRes(sdk, e, last.user, last.url, "ANY")
                        IN /\ last.url # "" => r.url = last.url
                           /\ (last.url = "" /\ sdk.envurl # "") => r.url = sdk.envurl
                           /\ (last.url = "" /\ sdk.envurl = "") => r.url = sdk.dflt.url
\* vacuity guards on the givens explored (expected to be VIOLATED): a default with a non-empty schema URL
\* that reaches the result; an environment URL that replaces it
WitDefaultUrlKept == Mode = "envs" => ~(sdk.dflt.url # "" /\ last.url = "" /\ sdk.envurl = "")
WitEnvUrlWins == Mode = "envs" => ~(sdk.dflt.url # "" /\ last.url = "" /\ sdk.envurl # "" /\ sdk.envurl # sdk.dflt.url)
\* a well-formed list without repeated keys has exactly one reading: its pairs (+ OTEL_SERVICE_NAME)
WellFormed(ts) == ~Malformed(ts) /\ \A i, j \in 1..Len(ts) : i # j => ts[i].k # ts[j].k
EnvExact == Mode = "envs" => (WellFormed(last.toks) /\ last.svc.c = "unset" =>
   CaseAlts = {[k \in {last.toks[i].k : i \in 1..Len(last.toks)} |->
                  TokVal(last.toks[CHOOSE i \in 1..Len(last.toks) : last.toks[i].k = k])]})
\* no reading contains a pair that no token (or OTEL_SERVICE_NAME) denotes
Denoted(ts, svc) == UNION {UNION {{<<k, x[k]>> : k \in DOMAIN x} : x \in Contrib(ts[i])} : i \in 1..Len(ts)}
                    \cup (IF svc.c = "set" THEN {<<SvcKey, svc.v>>} ELSE IF svc.c = "empty" THEN {<<SvcKey, "s_empty">>} ELSE {})
EnvNoInvention == Mode = "envs" => \A e \in CaseAlts : \A k \in DOMAIN e : <<k, e[k]>> \in Denoted(last.toks, last.svc)
EnvSomeReading == Mode = "envs" => CaseAlts # {}

(* -- the machine (Mode = "machine") ------------------------------------- *)
MMergePrecedence == (Mode = "machine" /\ last.op = "Merge") => MergePrecedenceOK(pool[last.a], pool[last.b], last.res)
\* operands (and everything else created before) are unchanged: the pool only grows
MergeLeavesOperandsUnchanged == [][Mode = "machine" => SubSeq(pool', 1, Len(pool)) = pool]_vars
MCreate == (Mode = "machine" /\ last.op = "Create") =>
              (CreateOK(sdk, envalt, last.user, last.url, last.res)
               /\ IF last.threw THEN last.dev \in Dev ELSE last.res = pool[Len(pool)])
MServiceName == (Mode = "machine" /\ last.op = "Create") => SvcKey \in DOMAIN last.res.attrs
MEmitSeesProviderResource == (Mode = "machine" /\ last.op = "Emit") => last.seen = pool[provs[last.p].res]
MRead == (Mode = "machine" /\ last.op = "Read") => (last.out \in Contract(last.r, last.s) \/ last.dev \in Dev)
MDead == (Mode = "machine" /\ dead) => devUsed # {}
\* the givens are well-formed and stay first in the pool (GetDefault() is operand 1 of the machine)
MGivens == Mode = "machine" => (DefaultShapeOK(sdk.dflt) /\ pool[1] = sdk.dflt)

(* ======================= behaviour export ============================== *)
Terminal == dead \/ nsteps = MaxSteps
EmitAll == (Hist /\ Terminal) => PrintT(<<"BEH", ToJson(hist)>>)
Wit(c) == (Hist /\ c) => (PrintT(<<"BEH", ToJson(hist)>>) /\ FALSE)      \* shortest behaviour reaching c
\* rare conditions that must be replayed on the real code on every run
CFallback == \E i \in 1..Len(pool) : SvcKey \in DOMAIN pool[i].attrs /\ pool[i].attrs[SvcKey] = "ANY"
CUserOverEnv == last.op = "Create" /\ \E k \in DOMAIN last.user \cap DOMAIN envalt : last.user[k] # envalt[k]
CEnvOverDefault == last.op = "Create" /\ \E k \in DOMAIN envalt \cap DOMAIN sdk.dflt.attrs : k \notin DOMAIN last.user
CSvcEnvBoth == last.op = "Create" /\ env.svc.c = "set" /\ \E i \in 1..Len(env.toks) : env.toks[i].t = "kv" /\ env.toks[i].k = SvcKey /\ env.toks[i].v # env.svc.v
\* vacuity guards for a full BFS export: TLC says which rare conditions the exported behaviours contain
Tag(n, c) == c => PrintT(<<"TAG", n>>)
TagAll == Tag("Fallback", CFallback) /\ Tag("UserOverEnv", CUserOverEnv) /\ Tag("EnvOverDefault", CEnvOverDefault)
          /\ Tag("SvcEnvBoth", CSvcEnvBoth)
WitFallback   == Wit(CFallback)
WitUrlKept    == Wit(last.op = "Merge" /\ pool[last.b].url = "" /\ pool[last.a].url # "")
WitUrlWins    == Wit(last.op = "Merge" /\ pool[last.b].url # "" /\ pool[last.a].url # "" /\ pool[last.a].url # pool[last.b].url)
WitOverlap    == Wit(last.op = "Merge" /\ \E k \in DOMAIN pool[last.a].attrs \cap DOMAIN pool[last.b].attrs :
                                              pool[last.a].attrs[k] # pool[last.b].attrs[k])
WitMergeOfMerged == Wit(last.op = "Merge" /\ last.a > 2 /\ last.b > 2 /\ last.a # last.b /\ Len(pool) >= 6)
WitUserOverEnv == Wit(CUserOverEnv)
WitEnvOverDefault == Wit(CEnvOverDefault)
WitSvcEnvBoth == Wit(CSvcEnvBoth)
WitRepeated   == Wit(last.op = "Create" /\ \E i, j \in 1..Len(env.toks) : i < j /\ env.toks[i].t = "kv" /\ env.toks[j].t = "kv"
                                              /\ env.toks[i].k = env.toks[j].k /\ env.toks[i].v # env.toks[j].v)
WitEmitAfterMerge == Wit(last.op = "Emit" /\ provs[last.p].res > 2 /\ Len(provs) >= 2)
WitStaleThenRead == Wit(last.op = "Read" /\ last.e = "erange" /\ nsteps >= 2)
WitDeadMachine == Wit(dead)
\* an out-of-range uint (strtoull sets ERANGE itself) directly followed by a valid one, errno untouched in between
WitRangeThenAsis == Wit(last.op = "Read" /\ last.afterRange /\ last.ea = "asis" /\ last.r \in {"uint", "float"}
                        /\ Documented(last.r, last.s))
=============================================================================
