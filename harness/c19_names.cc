// C19 / names: replays the abstract (name, unit) cases printed by TLC from spec/InstrumentNames.tla
// on the real Meter.  Per case and instance:
//   * concretise name and unit (byte classes -> seeded concrete bytes, memory layout per `term`),
//   * create an instrument of a seeded kind (6 types x integer/floating) through the public API,
//     overwrite and free the caller buffers, record, collect with a pull reader, record, collect,
//   * project:  "stream"  exactly one stream per collection, carrying exactly the given name and unit
//               "inert"   no stream in any collection
//               "other"   anything else (detail says what)
//               "crash"   the forked child running an "exact" (exactly-sized block) case died
// Input : ndjson {"id", "name":[{c,n}..], "nterm", "unit":[..], "uterm", "sweep"}
// Output: ndjson {"id","inst","out","kind","nhex","nlen"[,"byte"][,"detail"]}
#include "c19_common.h"

namespace c19
{
namespace
{
struct Outcome
{
  std::string out, detail;
};

Outcome run_case(const std::string &name, const std::string &nterm, const std::string &ntail, const std::string &unit,
                 const std::string &uterm, const std::string &utail, int type, bool dbl, bool delta)
{
  Outcome o;
  sdkm::MeterProvider mp;
  auto reader = std::make_shared<PullReader>(delta);
  mp.AddMetricReader(reader);
  auto meter = mp.GetMeter("c19.names", "1", "");
  Inst inst;
  {
    Buf nb(name, nterm, ntail), ub(unit, uterm, utail);
    std::string desc = "description";
    inst.create(*meter, type, dbl, nb.view(), desc, ub.view());
    // nb, ub are overwritten with '#' and freed here
  }
  size_t total = 0;
  bool exact   = true;
  for (int round = 0; round < 2; ++round)
  {
    inst.record(5 + round, nullptr);
    auto got = collect(*reader);
    total += got.size();
    if (got.size() != 1)
      exact = false;
    for (auto &c : got)
    {
      if (c.md.instrument_descriptor.name_ != name)
      {
        exact    = false;
        o.detail = "stream name differs: len " + std::to_string(c.md.instrument_descriptor.name_.size()) + " hex " +
                   hex_prefix(c.md.instrument_descriptor.name_);
      }
      if (c.md.instrument_descriptor.unit_ != unit)
      {
        exact    = false;
        o.detail = "stream unit differs: hex " + hex_prefix(c.md.instrument_descriptor.unit_);
      }
    }
  }
  inst.release();
  if (total == 0)
    o.out = "inert";
  else if (exact)
    o.out = "stream";
  else
  {
    o.out = "other";
    if (o.detail.empty())
      o.detail = "streams over two collections: " + std::to_string(total);
  }
  return o;
}

// run in a forked child (an over-read of an exactly-sized block is reported by ASan and kills it)
Outcome run_forked(const std::function<Outcome()> &f)
{
  int pout[2], perr[2];
  if (pipe(pout) != 0 || pipe(perr) != 0)
  {
    std::cerr << "pipe failed\n";
    exit(3);
  }
  std::cout.flush();
  pid_t pid = fork();
  if (pid == 0)
  {
    close(pout[0]);
    close(perr[0]);
    dup2(perr[1], 2);
    Outcome o     = f();
    json j        = {{"out", o.out}, {"detail", o.detail}};
    std::string s = j.dump();
    (void)!write(pout[1], s.data(), s.size());
    _exit(0);
  }
  close(pout[1]);
  close(perr[1]);
  std::string so, se;
  char b[4096];
  ssize_t n;
  while ((n = read(pout[0], b, sizeof b)) > 0)
    so.append(b, static_cast<size_t>(n));
  while ((n = read(perr[0], b, sizeof b)) > 0)
    if (se.size() < 16384)
      se.append(b, static_cast<size_t>(n));
  close(pout[0]);
  close(perr[0]);
  int status = 0;
  waitpid(pid, &status, 0);
  Outcome o;
  if (WIFEXITED(status) && WEXITSTATUS(status) == 0 && !so.empty())
  {
    json j   = json::parse(so);
    o.out    = j["out"];
    o.detail = j["detail"];
    return o;
  }
  o.out      = "crash";
  size_t pos = se.find("ERROR: ");
  o.detail   = pos == std::string::npos ? ("status " + std::to_string(status)) : se.substr(pos, 160);
  size_t adr = o.detail.find(" on address");  // keep the report kind, drop addresses (run-dependent)
  if (adr != std::string::npos)
  {
    size_t rd = o.detail.find("READ of size");
    o.detail  = o.detail.substr(0, adr) + (rd == std::string::npos ? "" : " (READ past the block)");
  }
  for (auto &ch : o.detail)
    if (ch == '\n' || ch == '"' || ch == '\\')
      ch = ' ';
  return o;
}
}  // namespace

int run_names(std::istream &in, uint64_t seed, int instances)
{
  if (!class_table_ok())
  {
    std::cerr << "byte class table does not partition 0..255\n";
    return 3;
  }
  std::string line;
  while (std::getline(in, line))
  {
    if (line.empty())
      continue;
    json c            = json::parse(line);
    long id           = c["id"];
    std::string nterm = c["nterm"], uterm = c["uterm"], sweep = c.value("sweep", "");
    std::vector<int> bytes;
    if (!sweep.empty())
      for (unsigned char b : class_bytes(sweep))
        bytes.push_back(b);
    else
      bytes.push_back(-1);
    int k = 0;
    for (int byte : bytes)
    {
      int n = sweep.empty() ? instances : 1;
      for (int inst = 0; inst < n; ++inst, ++k)
      {
        Rng rng(mix(seed, static_cast<uint64_t>(id), static_cast<uint64_t>(k)));
        std::string name = concretise_runs(c["name"], rng, sweep, byte);
        std::string unit = concretise_runs(c["unit"], rng, sweep, byte);
        // the two bytes behind a non-terminated view: would keep ("good") / break ("bad") validity
        std::string ntail, utail;
        for (int i = 0; i < 2; ++i)
        {
          ntail.push_back(static_cast<char>(class_bytes(nterm == "good" ? "lower" : "punct")[rng.below(20)]));
          utail.push_back(static_cast<char>(class_bytes(uterm == "good" ? "lower" : "high")[rng.below(20)]));
        }
        int type   = static_cast<int>(rng.below(6));
        bool dbl   = rng.below(2) == 1;
        bool delta = rng.below(2) == 1;
        auto f     = [&]() { return run_case(name, nterm, ntail, unit, uterm, utail, type, dbl, delta); };
        Outcome o  = (nterm == "exact" || uterm == "exact") ? run_forked(f) : f();
        json r     = {{"id", id},
                      {"inst", k},
                      {"out", o.out},
                      {"kind", std::string(type_name(type)) + (dbl ? "/double" : "/int")},
                      {"nlen", name.size()},
                      {"nhex", hex_prefix(name)},
                      {"uhex", hex_prefix(unit, 12)}};
        if (byte >= 0)
          r["byte"] = byte;
        if (!o.detail.empty())
          r["detail"] = o.detail;
        std::cout << r.dump() << "\n";
      }
    }
  }
  std::cout.flush();
  return 0;
}
}  // namespace c19
