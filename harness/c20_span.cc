// C20 span replayer: behaviours of spec/NostdSpan.tla on nostd::span<int>, nostd::span<int, N>,
// nostd::span<const int> (and on std::span as a cross-check of the spec; this translation unit is
// compiled with -std=gnu++20 for that purpose -- nostd/span.h does not depend on the language level).
//
// Concretisation table (trusted):
//   base of length L      -> an exact-size heap block of L ints (ASan sees any access outside it)
//   values 0,1,2          -> 0 -> 0 (zero filled), 1 -> 17, 2 -> -5
//   d1,d2 / k / c         -> std::optional<span<int>> / a span<int, N> for N = 0..3 / std::optional<span<const int>>
//   Whole/StaticWhole/ConstWhole how = "carray"    -> the block seen as int(&)[L]
//                                      "stdarray"  -> the block seen as std::array<int, L>&  (const& for ConstWhole)
//                                      "container" -> a container object with data()/size()/begin()/end() over the block
//   StaticFrom how = "ptrcount" | "range"          -> span<int, N>(y.data(), N) | span<int, N>(y.begin(), y.end())
// Projection per variable: unset / null (data() == nullptr) / window; size(); empty(); data() - base;
// the elements through operator[] and through begin()/end() (range-for); extent.
#include "c20_common.h"

#include <array>
#include <optional>
#include <span>
#include <variant>

#include "opentelemetry/nostd/span.h"

namespace nostd = opentelemetry::nostd;
using namespace c20;

namespace
{
const int kVal[3] = {0, 17, -5};
int abs_val(int x)
{
  for (int i = 0; i < 3; ++i)
    if (kVal[i] == x)
      return i;
  return 55;
}

struct Cont
{
  int *p;
  size_t n;
  int *data() { return p; }
  const int *data() const { return p; }
  size_t size() const { return n; }
  int *begin() { return p; }
  int *end() { return p + n; }
  const int *begin() const { return p; }
  const int *end() const { return p + n; }
};

struct NostdS
{
  static constexpr int world = 0;
  template <class T, size_t E = nostd::dynamic_extent>
  using S                       = nostd::span<T, E>;
  static constexpr size_t dyn = nostd::dynamic_extent;
};
struct StdS
{
  static constexpr int world = 1;
  template <class T, size_t E = std::dynamic_extent>
  using S                       = std::span<T, E>;
  static constexpr size_t dyn = std::dynamic_extent;
};

struct Fail
{
  std::string what;
};

template <class Fam, size_t L>
struct SWorld
{
  template <class T, size_t E = Fam::dyn>
  using S = typename Fam::template S<T, E>;
  int *base;
  std::optional<S<int>> d[2];
  std::optional<S<const int>> c;
  std::variant<std::monostate, S<int, 0>, S<int, 1>, S<int, 2>, S<int, 3>> k;

  SWorld()
  {
    base = static_cast<int *>(::malloc(L ? L * sizeof(int) : 1));
    for (size_t i = 0; i < L; ++i)
      base[i] = kVal[0];
  }
  ~SWorld() { ::free(base); }

  template <class F>
  static void with_n(size_t n, F &&f)
  {
    switch (n)
    {
      case 0:
        f(std::integral_constant<size_t, 0>{});
        break;
      case 1:
        f(std::integral_constant<size_t, 1>{});
        break;
      case 2:
        f(std::integral_constant<size_t, 2>{});
        break;
      case 3:
        f(std::integral_constant<size_t, 3>{});
        break;
      default:
        throw Fail{"static extent > 3"};
    }
  }

  int dyn_index(const std::string &x)
  {
    if (x == "d1")
      return 0;
    if (x == "d2")
      return 1;
    throw Fail{"not a dynamic span variable: " + x};
  }

  void apply(const json &st, Rng &rng)
  {
    std::string op = st["op"], x = st.value("x", ""), y = st.value("y", "");
    int i = st.value("i", 0), v = st.value("v", 0);
    int variant = rng.pick(4);
    if (op == "init")
    {
      // the machine starts either without any span or with d1 already viewing the whole array
      if (st["exp"]["d1"]["st"] == "win")
        d[0].emplace(base, L);
      return;
    }
    if (op == "Default")
    {
      if (x == "k")
        k = S<int, 0>();
      else
        d[dyn_index(x)].emplace();
    }
    else if (op == "PtrCount")
      d[dyn_index(x)].emplace(base + i, static_cast<size_t>(v));
    else if (op == "Range")
      d[dyn_index(x)].emplace(base + i, base + i + v);
    else if (op == "Whole" || op == "StaticWhole" || op == "ConstWhole")
    {
      std::string how = st.value("how", "");
      if (how == "carray")
      {
        if constexpr (L >= 1)
        {
          int(&arr)[L] = *reinterpret_cast<int(*)[L]>(base);
          if (op == "Whole")
            d[dyn_index(x)].emplace(arr);
          else if (op == "StaticWhole")
            k = S<int, L>(arr);
          else
          {
            const int(&carr)[L] = arr;
            c.emplace(carr);
          }
        }
        else
          throw Fail{"carray with L = 0"};
      }
      else if (how == "stdarray")
      {
        if constexpr (L >= 1)
        {
          std::array<int, L> &arr = *reinterpret_cast<std::array<int, L> *>(base);
          if (op == "Whole")
            d[dyn_index(x)].emplace(arr);
          else if (op == "StaticWhole")
            k = S<int, L>(arr);
          else
          {
            const std::array<int, L> &carr = arr;
            c.emplace(carr);
          }
        }
        else
          throw Fail{"stdarray with L = 0"};
      }
      else if (how == "container")
      {
        Cont ct{base, L};
        if (op == "Whole")
          d[dyn_index(x)].emplace(ct);
        else if (op == "StaticWhole")
          k = S<int, L>(ct);
        else
        {
          const Cont &cct = ct;
          c.emplace(cct);
        }
      }
      else
        throw Fail{"unknown how " + how};
    }
    else if (op == "StaticFrom")
    {
      auto &src = d[dyn_index(y)];
      if (!src)
        throw Fail{"StaticFrom an unset span"};
      std::string how = st.value("how", "ptrcount");
      with_n(src->size(), [&](auto N) {
        constexpr size_t n = decltype(N)::value;
        if constexpr (n <= L)
        {
          if (how == "ptrcount")
            k = S<int, n>(src->data(), n);
          else
            k = S<int, n>(src->begin(), src->end());
        }
      });
    }
    else if (op == "CopyCtor")
    {
      auto &src = d[dyn_index(y)];
      if (!src)
        throw Fail{"CopyCtor from an unset span"};
      const S<int> &s = *src;
      d[dyn_index(x)].emplace(s);
    }
    else if (op == "Assign")
    {
      auto &src = d[dyn_index(y)];
      auto &dst = d[dyn_index(x)];
      if (!src || !dst)
        throw Fail{"Assign with an unset span"};
      const S<int> &s = *src;
      *dst            = s;
    }
    else if (op == "DynFromStatic")
    {
      std::visit(
          [&](auto &ks) {
            using K = std::decay_t<decltype(ks)>;
            if constexpr (!std::is_same_v<K, std::monostate>)
              d[dyn_index(x)].emplace(ks);
            else
              throw Fail{"DynFromStatic with k unset"};
          },
          k);
    }
    else if (op == "ConstFrom")
    {
      if (y == "k")
        std::visit(
            [&](auto &ks) {
              using K = std::decay_t<decltype(ks)>;
              if constexpr (!std::is_same_v<K, std::monostate>)
                c.emplace(ks);
              else
                throw Fail{"ConstFrom with k unset"};
            },
            k);
      else
      {
        auto &src = d[dyn_index(y)];
        if (!src)
          throw Fail{"ConstFrom an unset span"};
        c.emplace(*src);
      }
    }
    else if (op == "Write")
    {
      if (x == "k")
        std::visit(
            [&](auto &ks) {
              using K = std::decay_t<decltype(ks)>;
              if constexpr (!std::is_same_v<K, std::monostate>)
                ks[static_cast<size_t>(i)] = kVal[v];
            },
            k);
      else
      {
        auto &dst = d[dyn_index(x)];
        if (!dst)
          throw Fail{"Write through an unset span"};
        if (variant % 2)
          (*dst)[static_cast<size_t>(i)] = kVal[v];
        else
          *(dst->begin() + i) = kVal[v];
      }
    }
    else
      throw Fail{"unknown op " + op};
  }

  template <class Sp>
  json obs_span(const Sp &s)
  {
    json o;
    o["st"]    = s.data() == nullptr ? "null" : "win";
    o["size"]  = s.size();
    o["empty"] = s.empty() ? "T" : "F";
    if (s.data() == nullptr)
      o["off"] = 99;
    else
    {
      long off = s.data() - base;
      o["off"] = (off < 0 || off > 90) ? 98 : off;
    }
    json e = json::array(), e2 = json::array();
    // only look at elements that exist (the size was already projected; a wrong size is a mismatch
    // there and must not make the harness itself read out of bounds)
    long off = s.data() ? s.data() - base : 0;
    bool ok  = s.data() != nullptr && off >= 0 && static_cast<size_t>(off) + s.size() <= L;
    if (ok)
    {
      for (size_t i = 0; i < s.size(); ++i)
        e.push_back(abs_val(s[i]));
      for (auto &x : s)
        e2.push_back(abs_val(x));
      if (static_cast<size_t>(s.end() - s.begin()) != s.size())
        e2 = "end() - begin() != size()";
    }
    else if (s.size() != 0)
    {
      e  = "window outside the array";
      e2 = e;
    }
    o["elems"] = e == e2 ? e : json({{"index", e}, {"iter", e2}});
    o["ext"]   = Sp::extent == Fam::dyn ? json(99) : json(Sp::extent);
    return o;
  }
  json unset(bool is_k)
  {
    // the spec projects an unset variable as a zero window; "ext" of an unset k is 0
    return {{"st", "unset"}, {"size", 0}, {"empty", "T"}, {"off", 0}, {"elems", json::array()}, {"ext", is_k ? json(0) : json(99)}};
  }
  json observe()
  {
    json o;
    json b = json::array();
    for (size_t i = 0; i < L; ++i)
      b.push_back(abs_val(base[i]));
    o["base"] = b;
    o["d1"]   = d[0] ? obs_span(*d[0]) : unset(false);
    o["d2"]   = d[1] ? obs_span(*d[1]) : unset(false);
    o["c"]    = c ? obs_span(*c) : unset(false);
    std::visit(
        [&](auto &ks) {
          using K = std::decay_t<decltype(ks)>;
          if constexpr (std::is_same_v<K, std::monostate>)
            o["k"] = unset(true);
          else
            o["k"] = obs_span(ks);
        },
        k);
    return o;
  }
};

bool no_wild(const json &)
{
  return false;
}

template <class Fam, size_t L>
void run_world_l(const Case &c)
{
  const json &sts = (*c.beh)["steps"];
  Rng rng(c.seed);
  SWorld<Fam, L> w;
  g_shm->phase = Fam::world;
  for (size_t k = 0; k < sts.size(); ++k)
  {
    if (Fam::world == 0)
      g_shm->step = static_cast<long>(k);
    try
    {
      w.apply(sts[k], rng);
    }
    catch (const Fail &f)
    {
      harness_error(c, static_cast<int>(k), f.what);
      return;
    }
    g_shm->steps++;
    json obs  = w.observe();
    Verdict v = judge(c, static_cast<int>(k), sts[k], obs, Fam::world == 0 ? "nostd" : "std", no_wild);
    if (v != Verdict::Ok)
      return;
  }
  if (Fam::world == 0)
    g_shm->step = -1;
}

template <class Fam>
void run_world(const Case &c)
{
  size_t l = (*c.beh)["steps"][0]["exp"]["base"].size();
  switch (l)
  {
    case 0:
      run_world_l<Fam, 0>(c);
      break;
    case 1:
      run_world_l<Fam, 1>(c);
      break;
    case 2:
      run_world_l<Fam, 2>(c);
      break;
    case 3:
      run_world_l<Fam, 3>(c);
      break;
    default:
      harness_error(c, 0, "base longer than 3");
  }
}

void replay_span(const Case &c)
{
  long before = g_shm->findings;
  run_world<NostdS>(c);
  if (g_shm->findings != before)
    return;
  run_world<StdS>(c);
  g_shm->phase = 0;
}

Registrar reg("span", replay_span);
}  // namespace
