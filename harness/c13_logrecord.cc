// C13 harness: replays behaviours of spec/LogRecord.tla on the real logs SDK
// (LoggerProvider + MultiLogRecordProcessor + Simple/BatchLogRecordProcessor + ReadWriteLogRecord +
// the EmitLogRecord(args...) templates of the API), ASan+UBSan build against /repo's current sources.
//
//   c13_logrecord replay <behaviours.ndjson>
//   c13_logrecord record <seed> <nexec> <nthreads> <nops> [tag]   (code -> spec, see recorder below)
//
// One behaviour per line: {"id","nt","seed","mode":"arena"|"realfree","steps":[hist entries of TLC]}.
// Every step is performed by the OS thread the spec names (lock-stepped workers; each has its own
// RuntimeContext stack, so nested active spans are per thread).  After every step the records that
// reached each processor's exporter are projected through the ReadWriteLogRecord getters and
// compared, field by field, with the expectation the spec computed (`exp`, or `expDev` of the named
// deviation log-record-aliases-caller-buffers).
//
// Caller-buffer discipline: every string / array argument (body, attribute keys and values, event
// name) lives in a short-lived buffer that is OVERWRITTEN right after the API call it was passed to
// returned - before any deferred export is observed.
//   mode "arena":    buffers come from a per-behaviour arena and stay addressable after being
//                    overwritten, so an aliasing implementation exports the overwrite pattern
//                    (observable as a value; classified through the spec's deviation).
//   mode "realfree": buffers are really freed (AddressSanitizer by-product run; only used for
//                    behaviours that showed no aliasing in arena mode).
// Exporters: "simple" reads the record inside Export (synchronously, inside Emit); "hold" and
// "batch" exporters take ownership of the recordables and are read at the observation point (an
// exporter may legitimately keep the unique_ptr it was given).
// Concretisation tables: design_notes/C13.md.
#include "c13_common.h"

#include "opentelemetry/context/runtime_context.h"
#include "opentelemetry/sdk/common/attribute_utils.h"
#include "opentelemetry/sdk/instrumentationscope/scope_configurator.h"
#include "opentelemetry/sdk/logs/batch_log_record_processor.h"
#include "opentelemetry/sdk/logs/batch_log_record_processor_options.h"
#include "opentelemetry/sdk/logs/exporter.h"
#include "opentelemetry/sdk/logs/logger_config.h"
#include "opentelemetry/sdk/logs/logger_provider.h"
#include "opentelemetry/sdk/logs/processor.h"
#include "opentelemetry/sdk/logs/read_write_log_record.h"
#include "opentelemetry/sdk/logs/simple_log_record_processor.h"
#include "opentelemetry/sdk/resource/resource.h"
#include "opentelemetry/sdk/trace/id_generator.h"
#include "opentelemetry/sdk/trace/processor.h"
#include "opentelemetry/sdk/trace/samplers/always_off.h"
#include "opentelemetry/sdk/trace/samplers/always_on.h"
#include "opentelemetry/sdk/trace/span_data.h"
#include "opentelemetry/sdk/trace/tracer_provider.h"
#include "opentelemetry/trace/default_span.h"
#include "opentelemetry/trace/scope.h"
#include "opentelemetry/trace/span_startoptions.h"

#include <nlohmann/json.hpp>

#include <algorithm>
#include <atomic>
#include <condition_variable>
#include <fstream>
#include <functional>
#include <iostream>
#include <mutex>
#include <random>
#include <thread>
#include <unistd.h>

using json = nlohmann::json;
using namespace c13;
namespace sdklogs = opentelemetry::sdk::logs;
namespace sdkres  = opentelemetry::sdk::resource;
namespace scope   = opentelemetry::sdk::instrumentationscope;

static const int kJunk          = 99;
static const char kJunkStr[]    = "XXXXXXXX";
static const int64_t kTsBase    = 1600000000000000000LL;
static const int64_t kJunk64    = 0x5858585858585858LL;

// ------------------------------------------------------------------ caller buffers
struct Arena
{
  std::vector<std::unique_ptr<char[]>> chunks;
  size_t used = 0, cap = 0;
  void *alloc(size_t n)
  {
    n = (n + 15) & ~static_cast<size_t>(15);
    if (n == 0)
      n = 16;
    if (used + n > cap)
    {
      cap = std::max<size_t>(n, 1 << 16);
      chunks.emplace_back(new char[cap]);
      used = 0;
    }
    void *p = chunks.back().get() + used;
    used += n;
    return p;
  }
};

// The caller buffers of ONE API call.  release() = what the caller does right after the call
// returned: overwrite everything, then free it (realfree) / leave it to the arena (arena mode).
struct Buffers
{
  bool realfree;
  Arena *arena;
  std::vector<std::shared_ptr<void>> *graveyard;
  struct Item
  {
    char *p;
    size_t n;
    int kind;  // 0 bytes, 1 string_view array (n elements), 2 attribute pair array (n elements)
    bool keepnul;
  };
  std::vector<Item> items;
  std::vector<std::shared_ptr<void>> objects;
  std::vector<std::function<void()>> clobbers;

  void *raw(size_t n) { return realfree ? static_cast<void *>(new char[n ? n : 1]) : arena->alloc(n); }
  char *bytes(const std::string &s, bool nul)
  {
    size_t n = s.size() + (nul ? 1 : 0);
    char *p  = static_cast<char *>(raw(n));
    std::memcpy(p, s.data(), s.size());
    if (nul)
      p[s.size()] = 0;
    items.push_back(Item{p, n, 0, nul});
    return p;
  }
  nostd::string_view view(const std::string &s) { return nostd::string_view(bytes(s, false), s.size()); }
  template <class T>
  T *array(const std::vector<T> &v)
  {
    T *p = static_cast<T *>(raw(sizeof(T) * v.size()));
    for (size_t i = 0; i < v.size(); ++i)
      p[i] = v[i];
    items.push_back(Item{reinterpret_cast<char *>(p), sizeof(T) * v.size(), 0, false});
    return p;
  }
  nostd::string_view *svarray(const std::vector<nostd::string_view> &v)
  {
    auto *p = static_cast<nostd::string_view *>(raw(sizeof(nostd::string_view) * v.size()));
    for (size_t i = 0; i < v.size(); ++i)
      new (p + i) nostd::string_view(v[i]);
    items.push_back(Item{reinterpret_cast<char *>(p), v.size(), 1, false});
    return p;
  }
  std::pair<nostd::string_view, common::AttributeValue> *pairarray(const AttrVec &v)
  {
    typedef std::pair<nostd::string_view, common::AttributeValue> P;
    P *p = static_cast<P *>(raw(sizeof(P) * v.size()));
    for (size_t i = 0; i < v.size(); ++i)
      new (p + i) P(v[i]);
    items.push_back(Item{reinterpret_cast<char *>(p), v.size(), 2, false});
    return p;
  }
  template <class T>
  std::shared_ptr<T> object(std::shared_ptr<T> o, std::function<void()> clobber = nullptr)
  {
    objects.push_back(o);
    if (clobber)
      clobbers.push_back(clobber);
    return o;
  }
  void release()
  {
    typedef std::pair<nostd::string_view, common::AttributeValue> P;
    for (auto &c : clobbers)
      c();
    for (auto &it : items)
    {
      if (it.kind == 0)
        std::memset(it.p, 'X', it.keepnul ? it.n - 1 : it.n);
      else if (it.kind == 1)
        for (size_t i = 0; i < it.n; ++i)
          reinterpret_cast<nostd::string_view *>(it.p)[i] = nostd::string_view(kJunkStr, 8);
      else
        for (size_t i = 0; i < it.n; ++i)
          reinterpret_cast<P *>(it.p)[i] = P(nostd::string_view(kJunkStr, 8), common::AttributeValue(int32_t(0x58)));
      if (realfree)
        delete[] it.p;
    }
    items.clear();
    clobbers.clear();
    if (!realfree)
      for (auto &o : objects)
        graveyard->push_back(o);
    objects.clear();
  }
};

// ------------------------------------------------------------------ concretisation tables
struct Tables
{
  int keyvariant = 0, evvariant = 0;
  std::map<std::string, int> keyrev;
  std::string KeyName(int k) const
  {
    switch (keyvariant & 3)
    {
      case 0:
        return "key" + std::to_string(k);
      case 1:
        return std::string(static_cast<size_t>(k), 'a');  // "a", "aa", "aaa": prefixes of each other
      case 2:
        return std::string(120, 'p') + std::to_string(k);
      default:
        return "http.r\xc3\xa9q " + std::to_string(k) + " \xe2\x82\xac";
    }
  }
  void init(int nak)
  {
    keyrev.clear();
    for (int k = 1; k <= nak; ++k)
      keyrev[KeyName(k)] = k;
  }
  int64_t EventIdOf(int v) const
  {
    switch (evvariant % 3)
    {
      case 0:
        return v * 1000 + 7;
      case 1:
        return -static_cast<int64_t>(v);
      default:
        return INT64_MAX - v;
    }
  }
  int AbsEventId(int64_t x) const
  {
    if (x == 0)
      return 0;
    for (int v = 1; v < 50; ++v)
      if (EventIdOf(v) == x)
        return v;
    return -1;
  }
};

static std::string Filler(std::mt19937_64 &rng)
{
  static const char al[] = "abcdefghijklmnopqrstuvwxyz0123456789 _-";
  size_t n               = (rng() % 8 == 0) ? 150 + rng() % 100 : rng() % 24;
  std::string s;
  for (size_t i = 0; i < n; ++i)
    s += al[rng() % (sizeof(al) - 1)];
  return s;
}
static std::string EncStr(char tag, int v, std::mt19937_64 &rng)
{
  return std::string(1, tag) + std::to_string(v) + ":" + Filler(rng);
}
static int DecStr(char tag, const char *p, size_t n)
{
  if (p == nullptr || n == 0)
    return -1;
  bool allx = true;
  for (size_t i = 0; i < n; ++i)
    if (p[i] != 'X')
      allx = false;
  if (allx)
    return kJunk;
  if (p[0] != tag)
    return -1;
  int v    = 0;
  size_t i = 1;
  for (; i < n && p[i] >= '0' && p[i] <= '9'; ++i)
    v = v * 10 + (p[i] - '0');
  return (i < n && p[i] == ':' && i > 1) ? v : -1;
}

// abstract body / attribute value -> AttributeValue over caller buffers.  odd v: storage classes
// (strings, arrays), even v: scalars.  `only_string`: restrict to the string alternatives.
static common::AttributeValue MakeValue(int v, char tag, Buffers &b, std::mt19937_64 &rng, int force = -1)
{
  if (v % 2 == 0)
  {
    switch (force >= 0 ? force : static_cast<int>(rng() % 5))
    {
      case 0:
        return common::AttributeValue(static_cast<int32_t>(1000 + v));
      case 1:
        return common::AttributeValue(static_cast<int64_t>(1000 + v));
      case 2:
        return common::AttributeValue(static_cast<uint32_t>(1000 + v));
      case 3:
        return common::AttributeValue(static_cast<uint64_t>(1000 + v));
      default:
        return common::AttributeValue(static_cast<double>(v) + 0.5);
    }
  }
  size_t len = 1 + rng() % 4;
  switch (force >= 0 ? force : static_cast<int>(rng() % 9))
  {
    case 0:
      return common::AttributeValue(b.view(EncStr(tag, v, rng)));
    case 1: {
      std::string s = EncStr(tag, v, rng);
      return common::AttributeValue(static_cast<const char *>(b.bytes(s, true)));
    }
    case 2: {
      std::vector<int64_t> a(len, 7);
      a[0] = 1000 + v;
      return common::AttributeValue(nostd::span<const int64_t>(b.array(a), len));
    }
    case 3: {
      std::vector<double> a(len, 7.0);
      a[0] = v + 0.5;
      return common::AttributeValue(nostd::span<const double>(b.array(a), len));
    }
    case 4: {
      std::vector<nostd::string_view> a;
      a.push_back(b.view(EncStr(tag, v, rng)));
      for (size_t i = 1; i < len; ++i)
        a.push_back(b.view("elem" + Filler(rng)));
      return common::AttributeValue(nostd::span<const nostd::string_view>(b.svarray(a), len));
    }
    case 5: {
      std::vector<int32_t> a(len, 7);
      a[0] = 1000 + v;
      return common::AttributeValue(nostd::span<const int32_t>(b.array(a), len));
    }
    case 6: {
      std::vector<uint8_t> a(len, 7);
      a[0] = static_cast<uint8_t>(v);
      return common::AttributeValue(nostd::span<const uint8_t>(b.array(a), len));
    }
    case 7: {
      std::vector<uint32_t> a(len, 7);
      a[0] = static_cast<uint32_t>(1000 + v);
      return common::AttributeValue(nostd::span<const uint32_t>(b.array(a), len));
    }
    default: {
      std::vector<uint64_t> a(len, 7);
      a[0] = static_cast<uint64_t>(1000 + v);
      return common::AttributeValue(nostd::span<const uint64_t>(b.array(a), len));
    }
  }
}

template <class T>
static int DecInt(T x)
{
  if (static_cast<int64_t>(x) == kJunk64 || static_cast<int64_t>(x) == 0x58585858LL)
    return kJunk;
  int64_t v = static_cast<int64_t>(x) - 1000;
  return (v >= 1 && v < 90) ? static_cast<int>(v) : -1;
}
// projection of an exported AttributeValue back to the abstract value (-1: not in the table)
static int AbsValue(const common::AttributeValue &a, char tag)
{
  using namespace opentelemetry::common;
  switch (a.index())
  {
    case kTypeInt:
      return DecInt(nostd::get<int32_t>(a));
    case kTypeInt64:
      return DecInt(nostd::get<int64_t>(a));
    case kTypeUInt:
      return DecInt(nostd::get<uint32_t>(a));
    case kTypeUInt64:
      return DecInt(nostd::get<uint64_t>(a));
    case kTypeDouble: {
      double d = nostd::get<double>(a) - 0.5;
      int v    = static_cast<int>(d);
      return (v >= 1 && v < 90 && static_cast<double>(v) == d) ? v : -1;
    }
    case kTypeCString: {
      const char *p = nostd::get<const char *>(a);
      return p ? DecStr(tag, p, std::strlen(p)) : -1;
    }
    case kTypeString: {
      auto s = nostd::get<nostd::string_view>(a);
      return DecStr(tag, s.data(), s.size());
    }
    case kTypeSpanInt64: {
      auto s = nostd::get<nostd::span<const int64_t>>(a);
      return s.empty() ? -1 : DecInt(s[0]);
    }
    case kTypeSpanInt: {
      auto s = nostd::get<nostd::span<const int32_t>>(a);
      return s.empty() ? -1 : DecInt(s[0]);
    }
    case kTypeSpanUInt: {
      auto s = nostd::get<nostd::span<const uint32_t>>(a);
      return s.empty() ? -1 : DecInt(s[0]);
    }
    case kTypeSpanUInt64: {
      auto s = nostd::get<nostd::span<const uint64_t>>(a);
      return s.empty() ? -1 : DecInt(s[0]);
    }
    case kTypeSpanByte: {
      auto s = nostd::get<nostd::span<const uint8_t>>(a);
      return s.empty() ? -1 : (s[0] == 'X' ? kJunk : static_cast<int>(s[0]));
    }
    case kTypeSpanDouble: {
      auto s = nostd::get<nostd::span<const double>>(a);
      if (s.empty())
        return -1;
      int64_t bits;
      std::memcpy(&bits, &s[0], 8);
      if (bits == kJunk64)
        return kJunk;
      double d = s[0] - 0.5;
      int v    = static_cast<int>(d);
      return (v >= 1 && v < 90 && static_cast<double>(v) == d) ? v : -1;
    }
    case kTypeSpanString: {
      auto s = nostd::get<nostd::span<const nostd::string_view>>(a);
      return s.empty() ? -1 : DecStr(tag, s[0].data(), s[0].size());
    }
    default:
      return -1;
  }
}

// explicit identity 0 = all-zero ids / default flags
static int ExplFl(int i) { return i == 0 ? 0 : (i + 1) % 4; }
static trace::TraceId MakeTid(uint8_t lead, int x)
{
  if (x == 0)
    return trace::TraceId();
  uint8_t b[16] = {0};
  b[0]          = lead;
  b[15]         = static_cast<uint8_t>(x);
  return trace::TraceId(b);
}
static trace::SpanId MakeSid(uint8_t lead, int x)
{
  if (x == 0)
    return trace::SpanId();
  uint8_t b[8] = {0};
  b[0]         = lead;
  b[7]         = static_cast<uint8_t>(x);
  return trace::SpanId(b);
}
// abstract trace-flag value 0 is the zero byte; 1..3 are three distinct bytes drawn per behaviour from
// {01, 02, 03, 80, ff, random} (01 is always among them so that SDK-made spans can take part)
static uint8_t g_flagtab[4] = {0x00, 0x01, 0x03, 0x80};
static void InitFlagTable(std::mt19937_64 &rng)
{
  std::vector<uint8_t> pool = {0x02, 0x03, 0x80, 0xff, static_cast<uint8_t>(0x04 + rng() % 0xfa)};
  std::shuffle(pool.begin(), pool.end(), rng);
  std::vector<uint8_t> t = {0x01, pool[0], pool[1] == pool[0] ? static_cast<uint8_t>(pool[1] ^ 0x40) : pool[1]};
  std::shuffle(t.begin(), t.end(), rng);
  g_flagtab[0] = 0x00;
  for (int i = 0; i < 3; ++i)
    g_flagtab[i + 1] = t[static_cast<size_t>(i)];
}
static uint8_t FlagByte(int f) { return g_flagtab[f & 3]; }
static int AbsFlag(uint8_t b)
{
  for (int f = 0; f < 4; ++f)
    if (g_flagtab[f] == b)
      return f;
  return -1;
}
static int AbsId(const uint8_t *b, size_t n)
{
  bool zero = true;
  for (size_t i = 0; i < n; ++i)
    if (b[i])
      zero = false;
  if (zero)
    return 0;
  for (size_t i = 1; i + 1 < n; ++i)
    if (b[i])
      return -1;
  if (b[0] == 0xA0)
    return b[n - 1];
  if (b[0] == 0xE0)
    return 10 + b[n - 1];
  return -1;
}

// ------------------------------------------------------------------ capturing exporters
struct Shared
{
  std::mutex m;
  int current_r = 0;
  std::map<const void *, int> made;                                  // recordable -> spec record id
  std::vector<std::vector<json>> exported;                           // per processor, projected
  std::vector<std::vector<std::unique_ptr<sdklogs::Recordable>>> held;  // per processor, owned
  Tables *tb = nullptr;
  int nak    = 0;
  std::string scopes[4][3];  // instrumentation scope (name, version, schema url) of logger 1..3
};

// Instrumentation scopes of the three loggers of one behaviour (logger 3 is the one the
// ScopeConfigurator disables, by scope name).  Besides the plain table: scopes whose fields are
// prefixes of one another, have empty version / schema url, and whose CONCATENATED fields coincide
// (a registry keyed by anything weaker than the three fields would mix them up).
static const char *kScopeTables[][3][3] = {
    {{"lib-one", "1.0.1", "https://schema.example/one"}, {"lib-two", "2.2", ""}, {"lib-disabled", "0.1", ""}},
    {{"http", "2", ""}, {"http2", "", ""}, {"lib-disabled", "0.1", ""}},
    {{"svc", "1.0", "https://s/1"}, {"svc1.0", "", "https://s/1"}, {"off", "", ""}},
    {{"lib-", "disabled", ""}, {"x", "y", "z"}, {"lib-disabled", "", ""}},
    {{"x", "", "yz"}, {"x", "y", "z"}, {"xy", "z", ""}},
    {{"a", "", ""}, {"a", "1", ""}, {"a1", "", ""}},
    {{"net", "", "1.2"}, {"net", "1.2", ""}, {"net1", ".2", ""}},
};

static json Project(Shared &sh, sdklogs::Recordable *rec)
{
  // the exporter must only ever be handed recordables it made itself (MakeRecordable)
  auto *rw = dynamic_cast<sdklogs::ReadWriteLogRecord *>(rec);
  json o;
  auto it = sh.made.find(rec);
  o["r"]  = (it == sh.made.end() || rw == nullptr) ? -1 : it->second;
  if (rw == nullptr)
  {
    o["foreign"] = true;  // not a ReadWriteLogRecord: nothing can be read; r = -1 matches no expectation
    for (const char *f : {"lg", "res", "sev", "body", "ts", "evid", "evname", "tid", "sid", "fl"})
      o[f] = -1;
    o["attrs"] = std::vector<int>(static_cast<size_t>(sh.nak), -1);
    o["extra"] = 1;
    return o;
  }
  // instrumentation scope -> logger number
  const auto &sc     = rw->GetInstrumentationScope();
  std::string scname = sc.GetName(), scver = sc.GetVersion(), scurl = sc.GetSchemaURL();
  int lg = -1;  // the logger whose (name, version, schema url) is exactly this scope
  for (int i = 1; i <= 3; ++i)
    if (scname == sh.scopes[i][0] && scver == sh.scopes[i][1] && scurl == sh.scopes[i][2])
      lg = i;
  o["lg"] = lg;
  // resource
  int res          = -1;
  const auto &attr = rw->GetResource().GetAttributes();
  auto ri          = attr.find("res.id");
  if (ri != attr.end() && nostd::holds_alternative<int64_t>(ri->second))
    res = static_cast<int>(nostd::get<int64_t>(ri->second));
  o["res"] = res;
  int sv   = static_cast<int>(rw->GetSeverity());
  o["sev"] = sv == 0 ? 0 : (sv >= 1 && sv <= 24 ? (sv - 1) / 4 + 1 : -1);
  o["body"] = AbsValue(rw->GetBody(), 'B');
  int64_t ns = rw->GetTimestamp().time_since_epoch().count();
  o["ts"]    = ns == 0 ? 0 : ((ns >= kTsBase && ns < kTsBase + 90000) ? static_cast<int>((ns - kTsBase) / 1000) : -1);
  o["evid"]  = sh.tb->AbsEventId(rw->GetEventId());
  auto en    = rw->GetEventName();
  o["evname"] = en.empty() ? 0 : DecStr('E', en.data(), en.size());
  o["tid"]    = AbsId(rw->GetTraceId().Id().data(), 16);
  o["sid"]    = AbsId(rw->GetSpanId().Id().data(), 8);
  o["fl"]     = AbsFlag(rw->GetTraceFlags().flags());
  json attrs  = json::array();
  for (int k = 0; k < sh.nak; ++k)
    attrs.push_back(0);
  int extra = 0;
  for (auto &kv : rw->GetAttributes())
  {
    auto ki = sh.tb->keyrev.find(kv.first);
    if (ki == sh.tb->keyrev.end())
      ++extra;
    else
      attrs[static_cast<size_t>(ki->second - 1)] = AbsValue(kv.second, 'A');
  }
  o["attrs"] = attrs;
  o["extra"] = extra;
  return o;
}

class CapExporter final : public sdklogs::LogRecordExporter
{
public:
  CapExporter(Shared *sh, int p, bool hold) : sh_(sh), p_(p), hold_(hold) {}
  std::unique_ptr<sdklogs::Recordable> MakeRecordable() noexcept override
  {
    auto *r = new sdklogs::ReadWriteLogRecord();
    std::lock_guard<std::mutex> lk(sh_->m);
    sh_->made[r] = sh_->current_r;
    return std::unique_ptr<sdklogs::Recordable>(r);
  }
  opentelemetry::sdk::common::ExportResult Export(
      const nostd::span<std::unique_ptr<sdklogs::Recordable>> &records) noexcept override
  {
    std::lock_guard<std::mutex> lk(sh_->m);
    for (auto &r : records)
    {
      if (hold_)
        sh_->held[static_cast<size_t>(p_)].push_back(std::move(r));  // an exporter may keep what it was given
      else
        sh_->exported[static_cast<size_t>(p_)].push_back(Project(*sh_, r.get()));
    }
    return opentelemetry::sdk::common::ExportResult::kSuccess;
  }
  bool ForceFlush(std::chrono::microseconds) noexcept override { return true; }
  bool Shutdown(std::chrono::microseconds) noexcept override { return true; }

private:
  Shared *sh_;
  int p_;
  bool hold_;
};

// ------------------------------------------------------------------ spans made by the SDK tracer
// The active span of the correlation clause is concretised either as a non-SDK span (DefaultSpan
// around a hand-built / remote SpanContext with an arbitrary flag byte) or, when the flag byte is
// one the SDK tracer can produce (00 / 01), as a real SDK span (root span with the ids the table
// demands: id generator below; AlwaysOn -> 01, AlwaysOff -> 00 and a non-recording span).
namespace sdktrace = opentelemetry::sdk::trace;
class FixedIdGenerator final : public sdktrace::IdGenerator
{
public:
  FixedIdGenerator() : sdktrace::IdGenerator(false) {}
  trace::SpanId GenerateSpanId() noexcept override
  {
    std::lock_guard<std::mutex> lk(m_);
    return sid_;
  }
  trace::TraceId GenerateTraceId() noexcept override
  {
    std::lock_guard<std::mutex> lk(m_);
    return tid_;
  }
  void next(const trace::TraceId &t, const trace::SpanId &s)
  {
    std::lock_guard<std::mutex> lk(m_);
    tid_ = t;
    sid_ = s;
  }

private:
  std::mutex m_;
  trace::TraceId tid_;
  trace::SpanId sid_;
};
class NullSpanProcessor final : public sdktrace::SpanProcessor
{
public:
  std::unique_ptr<sdktrace::Recordable> MakeRecordable() noexcept override
  {
    return std::unique_ptr<sdktrace::Recordable>(new sdktrace::SpanData());
  }
  void OnStart(sdktrace::Recordable &, const trace::SpanContext &) noexcept override {}
  void OnEnd(std::unique_ptr<sdktrace::Recordable> &&) noexcept override {}
  bool ForceFlush(std::chrono::microseconds) noexcept override { return true; }
  bool Shutdown(std::chrono::microseconds) noexcept override { return true; }
};
struct SdkTracers
{
  FixedIdGenerator *gen_on = nullptr, *gen_off = nullptr;
  std::unique_ptr<sdktrace::TracerProvider> on, off;
  nostd::shared_ptr<trace::Tracer> tracer_on, tracer_off;
  SdkTracers()
  {
    gen_on  = new FixedIdGenerator();
    gen_off = new FixedIdGenerator();
    on.reset(new sdktrace::TracerProvider(std::unique_ptr<sdktrace::SpanProcessor>(new NullSpanProcessor()),
                                          sdkres::Resource::Create({}),
                                          std::unique_ptr<sdktrace::Sampler>(new sdktrace::AlwaysOnSampler()),
                                          std::unique_ptr<sdktrace::IdGenerator>(gen_on)));
    off.reset(new sdktrace::TracerProvider(std::unique_ptr<sdktrace::SpanProcessor>(new NullSpanProcessor()),
                                           sdkres::Resource::Create({}),
                                           std::unique_ptr<sdktrace::Sampler>(new sdktrace::AlwaysOffSampler()),
                                           std::unique_ptr<sdktrace::IdGenerator>(gen_off)));
    tracer_on  = on->GetTracer("c13-on");
    tracer_off = off->GetTracer("c13-off");
  }
  // a ROOT span (whatever is active on the calling thread) with the given ids
  nostd::shared_ptr<trace::Span> start(bool sampled, const trace::TraceId &t, const trace::SpanId &s)
  {
    (sampled ? gen_on : gen_off)->next(t, s);
    trace::StartSpanOptions o;
    o.parent = opentelemetry::context::Context{}.SetValue(trace::kIsRootSpanKey, true);
    return (sampled ? tracer_on : tracer_off)->StartSpan("c13-span", o);
  }
};

// A hang of the code under test must not hang the check: C13_WATCHDOG_S (default 30) seconds after
// arm() without disarm() the callback prints what is known and the process leaves with status 3.
class Watchdog
{
public:
  std::atomic<long> id{-1}, step{-1};
  std::function<void()> on_fire;
  Watchdog()
  {
    const char *e = getenv("C13_WATCHDOG_S");
    seconds_      = e ? atol(e) : 30;
    std::thread([this] {
      for (;;)
      {
        std::this_thread::sleep_for(std::chrono::milliseconds(100));
        long d = deadline_.load();
        if (d != 0 && now() > d)
        {
          if (on_fire)
            on_fire();
          _exit(3);
        }
      }
    }).detach();
  }
  void arm(long i)
  {
    id        = i;
    step      = -1;
    deadline_ = now() + seconds_ * 1000;
  }
  void disarm() { deadline_ = 0; }

private:
  static long now()
  {
    return static_cast<long>(
        std::chrono::duration_cast<std::chrono::milliseconds>(std::chrono::steady_clock::now().time_since_epoch())
            .count());
  }
  std::atomic<long> deadline_{0};
  long seconds_;
};
static Watchdog *g_wd = nullptr;

// ------------------------------------------------------------------ lock-step worker threads
class Worker
{
public:
  Worker() : th_([this] { loop(); }) {}
  ~Worker()
  {
    run([this] { stop_ = true; });
    th_.join();
  }
  void run(const std::function<void()> &f)
  {
    std::unique_lock<std::mutex> lk(m_);
    job_  = f;
    have_ = true;
    cv_.notify_all();
    cv_.wait(lk, [this] { return !have_; });
  }

private:
  void loop()
  {
    std::unique_lock<std::mutex> lk(m_);
    while (!stop_)
    {
      cv_.wait(lk, [this] { return have_; });
      job_();
      have_ = false;
      cv_.notify_all();
    }
  }
  std::mutex m_;
  std::condition_variable cv_;
  std::function<void()> job_;
  bool have_ = false;
  bool stop_ = false;
  std::thread th_;
};

// ------------------------------------------------------------------ one behaviour
struct Replayer
{
  const json &beh;
  std::mt19937_64 rng;
  Tables tb;
  Shared sh;
  Arena arena;
  std::vector<std::shared_ptr<void>> graveyard;
  bool realfree;
  int nak = 0;
  std::vector<std::string> pipe;
  std::unique_ptr<sdklogs::LoggerProvider> provider;
  nostd::shared_ptr<logs::Logger> loggers[4];
  std::map<int, nostd::unique_ptr<logs::LogRecord>> recs;
  std::vector<std::map<int, std::unique_ptr<trace::Scope>>> scopes;  // per thread
  std::vector<nostd::shared_ptr<trace::Span>> spans;  // non-SDK spans, index = abstract span
  std::unique_ptr<SdkTracers> sdk;
  // record mode: no expectations; every step is logged with what reached the exporters
  bool recording = false;
  std::vector<std::string> events;
  // results
  bool ok = true;
  json mismatch;
  json devs = json::array();
  long compared = 0, nexports = 0;

  explicit Replayer(const json &b) : beh(b), rng(b.value("seed", 1ull) * 0x9E3779B97F4A7C15ull + 13) {}

  Buffers newbuf() { return Buffers{realfree, &arena, &graveyard, {}, {}, {}}; }

  void fail(int step, const std::string &what, const json &exp, const json &expdev, const json &got)
  {
    if (!ok)
      return;
    ok       = false;
    mismatch = json{{"step", step}, {"what", what}, {"exp", exp}, {"expDev", expdev}, {"got", got}};
  }

  std::unique_ptr<sdklogs::LogRecordProcessor> make_processor(const std::string &kind, size_t p)
  {
    if (kind == "simple" || kind == "hold")
      return std::unique_ptr<sdklogs::LogRecordProcessor>(new sdklogs::SimpleLogRecordProcessor(
          std::unique_ptr<sdklogs::LogRecordExporter>(new CapExporter(&sh, static_cast<int>(p), kind == "hold"))));
    sdklogs::BatchLogRecordProcessorOptions o;
    o.max_queue_size        = 4096;
    o.max_export_batch_size = 512;
    // (ForceFlush on an EMPTY queue only returns when the worker's periodic wait expires, so the
    //  period is short; when exactly the worker calls Export does not matter: the exporter keeps
    //  the recordables and they are read when the flush has completed)
    o.schedule_delay_millis = std::chrono::milliseconds(3);
    return std::unique_ptr<sdklogs::LogRecordProcessor>(new sdklogs::BatchLogRecordProcessor(
        std::unique_ptr<sdklogs::LogRecordExporter>(new CapExporter(&sh, static_cast<int>(p), true)), o));
  }

  // ---- configuration from the first history entry
  void setup()
  {
    const json &cfg = beh.at("steps")[0];
    for (auto &p : cfg.at("pipe"))
      pipe.push_back(p.get<std::string>());
    int res       = cfg.at("res").get<int>();
    realfree      = beh.value("mode", std::string("arena")) == "realfree";
    nak           = beh.value("nak", 0);
    tb.keyvariant = static_cast<int>(rng() % 4);
    tb.evvariant  = static_cast<int>(rng() % 3);
    tb.init(nak);
    InitFlagTable(rng);
    sdk.reset(new SdkTracers());
    sh.tb  = &tb;
    sh.nak = nak;
    sh.exported.resize(pipe.size());
    sh.held.resize(pipe.size());
    std::vector<std::unique_ptr<sdklogs::LogRecordProcessor>> procs;
    for (size_t p = 0; p < pipe.size(); ++p)
      procs.push_back(make_processor(pipe[p], p));
    sdkres::ResourceAttributes ra;
    ra.SetAttribute("res.id", static_cast<int64_t>(res));
    ra.SetAttribute("service.name", "svc-" + std::to_string(res));
    typedef scope::ScopeConfigurator<sdklogs::LoggerConfig> Conf;
    std::unique_ptr<Conf> conf;
    const size_t table = rng() % (sizeof(kScopeTables) / sizeof(kScopeTables[0]));
    for (int i = 0; i < 3; ++i)
      for (int f = 0; f < 3; ++f)
        sh.scopes[i + 1][f] = kScopeTables[table][i][f];
    const std::string on1 = sh.scopes[1][0], on2 = sh.scopes[2][0], off = sh.scopes[3][0];
    switch (rng() % 3)
    {
      case 0:
        conf.reset(new Conf(Conf::Builder(sdklogs::LoggerConfig::Default())
                                .AddConditionNameEquals(off, sdklogs::LoggerConfig::Disabled())
                                .Build()));
        break;
      case 1:
        conf.reset(new Conf(Conf::Builder(sdklogs::LoggerConfig::Enabled())
                                .AddCondition([on1](const scope::InstrumentationScope &s) { return s.GetName() == on1; },
                                              sdklogs::LoggerConfig::Enabled())
                                .AddCondition([off](const scope::InstrumentationScope &s) { return s.GetName() == off; },
                                              sdklogs::LoggerConfig::Disabled())
                                .Build()));
        break;
      default:
        conf.reset(new Conf(Conf::Builder(sdklogs::LoggerConfig::Disabled())
                                .AddConditionNameEquals(on1, sdklogs::LoggerConfig::Enabled())
                                .AddConditionNameEquals(on2, sdklogs::LoggerConfig::Enabled())
                                .Build()));
        break;
    }
    provider.reset(new sdklogs::LoggerProvider(std::move(procs), sdkres::Resource::Create(ra), std::move(conf)));
    {
      // the loggers are obtained in a seeded order; in the plain table each has its own logger name,
      // in the others they share one (the scope alone must tell them apart)
      int order[3] = {1, 2, 3};
      std::shuffle(order, order + 3, rng);
      static const char *names[] = {"", "logger-one", "logger-two", "logger-off"};
      for (int i : order)
        loggers[i] = provider->GetLogger(table == 0 ? names[i] : "logger", sh.scopes[i][0], sh.scopes[i][1], sh.scopes[i][2]);
    }
    spans.resize(32);
    spans[0] = nostd::shared_ptr<trace::Span>(new trace::DefaultSpan(trace::SpanContext::GetInvalid()));
    for (int s = 1; s < 32; ++s)
      spans[static_cast<size_t>(s)] = nostd::shared_ptr<trace::Span>(new trace::DefaultSpan(trace::SpanContext(
          MakeTid(0xA0, s), MakeSid(0xA0, s), trace::TraceFlags(FlagByte(s % 4)), (s / 4) % 2 == 1)));
  }

  // ---- abstract argument -> concrete caller object.  `primary`: restrict to the primary static types
  void concretise(const json &a, CArg &c, Buffers &b, bool primary)
  {
    const std::string k = a.at("k").get<std::string>();
    const int v         = a.at("v").get<int>();
    if (k == "sev")
    {
      c.st  = ST_SEV;
      c.sev = static_cast<logs::Severity>((v - 1) * 4 + 1 + static_cast<int>(rng() % 4));
    }
    else if (k == "body")
    {
      int pick = static_cast<int>(rng() % 4);
      if (v % 2 == 0)
        pick = 3;  // scalars only exist as AttributeValue
      if (primary && pick != 3)
        pick = (pick % 2) ? 3 : 0;
      switch (pick)
      {
        case 0:
          c.st = ST_BODY_SV;
          c.sv = b.view(EncStr('B', v, rng));
          break;
        case 1:
          c.st   = ST_BODY_CSTR;
          c.cstr = b.bytes(EncStr('B', v, rng), true);
          break;
        case 2: {
          c.st     = ST_BODY_STR;
          auto s   = std::make_shared<std::string>(EncStr('B', v, rng));
          auto *sp = s.get();
          c.str    = b.object(s, [sp] { sp->assign(sp->size(), 'X'); });
          break;
        }
        default:
          c.st = ST_BODY_AV;
          c.av = MakeValue(v, 'B', b, rng);
          break;
      }
    }
    else if (k == "ts")
    {
      int64_t ns = kTsBase + static_cast<int64_t>(v) * 1000 + static_cast<int64_t>(rng() % 1000);
      c.tp       = std::chrono::system_clock::time_point(
          std::chrono::duration_cast<std::chrono::system_clock::duration>(std::chrono::nanoseconds(ns)));
      c.ts = common::SystemTimestamp(std::chrono::nanoseconds(ns));
      c.st = (!primary && rng() % 2) ? ST_TS_TP : ST_TS_SYS;
    }
    else if (k == "ctx")
    {
      c.st  = ST_CTX;
      if (v == 0 && rng() % 2)
        c.ctx = trace::SpanContext::GetInvalid();
      else
        c.ctx = trace::SpanContext(MakeTid(0xE0, v), MakeSid(0xE0, v), trace::TraceFlags(FlagByte(ExplFl(v))),
                                   rng() % 2 == 0);
    }
    else if (k == "sid")
    {
      c.st  = ST_SID;
      c.sid = MakeSid(0xE0, v);
    }
    else if (k == "tid")
    {
      c.st  = ST_TID;
      c.tid = MakeTid(0xE0, v);
    }
    else if (k == "flags")
    {
      c.st = ST_FLAGS;
      c.fl = trace::TraceFlags(FlagByte(v));
    }
    else if (k == "attrs")
    {
      std::vector<std::pair<int, int>> kvs;
      const json &m = a.at("m");
      for (size_t i = 0; i < m.size(); ++i)
        if (m[i].get<int>() != 0)
          kvs.emplace_back(static_cast<int>(i + 1), m[i].get<int>());
      std::shuffle(kvs.begin(), kvs.end(), rng);
      static const int kinds[] = {ST_ATTR_MAP, ST_ATTR_VEC, ST_ATTR_UMAP, ST_ATTR_SPAN, ST_ATTR_KVI, ST_ATTR_KVIV};
      c.st                     = primary ? ST_ATTR_MAP : kinds[rng() % 6];
      if (c.st == ST_ATTR_MAP || c.st == ST_ATTR_KVI || c.st == ST_ATTR_KVIV)
      {
        auto mp = std::make_shared<AttrMap>();
        for (auto &e : kvs)
          (*mp)[tb.KeyName(e.first)] = MakeValue(e.second, 'A', b, rng);
        auto *raw = mp.get();
        c.amap    = b.object(mp, [raw] {
          for (auto &e : *raw)
          {
            const_cast<std::string &>(e.first).assign(e.first.size(), 'X');  // the map is dead afterwards
            e.second = common::AttributeValue(int32_t(0x58));
          }
        });
      }
      else if (c.st == ST_ATTR_UMAP)
      {
        auto mp = std::make_shared<AttrUMap>();
        for (auto &e : kvs)
          (*mp)[tb.KeyName(e.first)] = MakeValue(e.second, 'A', b, rng);
        auto *raw = mp.get();
        c.aumap   = b.object(mp, [raw] {
          for (auto &e : *raw)
          {
            const_cast<std::string &>(e.first).assign(e.first.size(), 'X');
            e.second = common::AttributeValue(int32_t(0x58));
          }
        });
      }
      else
      {
        auto vec = std::make_shared<AttrVec>();
        for (auto &e : kvs)
          vec->emplace_back(b.view(tb.KeyName(e.first)), MakeValue(e.second, 'A', b, rng));
        if (c.st == ST_ATTR_VEC)
        {
          auto *raw = vec.get();
          c.avec    = b.object(vec, [raw] {
            for (auto &e : *raw)
              e = std::make_pair(nostd::string_view(kJunkStr, 8), common::AttributeValue(int32_t(0x58)));
          });
        }
        else
        {
          c.aspan = common::MakeAttributes(AttrSpan(b.pairarray(*vec), vec->size()));
        }
      }
    }
    else if (k == "event")
    {
      c.st   = ST_EVENT;
      int nm = a.at("nm").get<int>();
      if (nm == 0)
      {
        c.ev = b.object(std::make_shared<logs::EventId>(tb.EventIdOf(v)));
      }
      else
      {
        // EventId copies the name when constructed; the caller's name buffer dies right away
        Buffers nb = newbuf();
        c.ev       = b.object(std::make_shared<logs::EventId>(tb.EventIdOf(v), nb.view(EncStr('E', nm, rng))));
        nb.release();
      }
    }
    else
    {
      std::cerr << "harness: unknown argument kind " << k << "\n";
      exit(5);
    }
  }

  // ---- a direct setter call on the LogRecord API
  void setter(logs::LogRecord *rec, const json &a)
  {
    const std::string k = a.at("k").get<std::string>();
    const int v         = a.at("v").get<int>();
    Buffers b           = newbuf();
    if (k == "sev")
      rec->SetSeverity(static_cast<logs::Severity>((v - 1) * 4 + 1 + static_cast<int>(rng() % 4)));
    else if (k == "body")
      rec->SetBody(MakeValue(v, 'B', b, rng));
    else if (k == "ts")
      rec->SetTimestamp(common::SystemTimestamp(
          std::chrono::nanoseconds(kTsBase + static_cast<int64_t>(v) * 1000 + static_cast<int64_t>(rng() % 1000))));
    else if (k == "ctx")
    {
      int order[3] = {0, 1, 2};
      std::shuffle(order, order + 3, rng);
      for (int o : order)
      {
        if (o == 0)
          rec->SetTraceId(MakeTid(0xE0, v));
        else if (o == 1)
          rec->SetSpanId(MakeSid(0xE0, v));
        else
          rec->SetTraceFlags(trace::TraceFlags(FlagByte(ExplFl(v))));
      }
    }
    else if (k == "sid")
      rec->SetSpanId(MakeSid(0xE0, v));
    else if (k == "tid")
      rec->SetTraceId(MakeTid(0xE0, v));
    else if (k == "flags")
      rec->SetTraceFlags(trace::TraceFlags(FlagByte(v)));
    else if (k == "attrs")
    {
      std::vector<std::pair<int, int>> kvs;
      const json &m = a.at("m");
      for (size_t i = 0; i < m.size(); ++i)
        if (m[i].get<int>() != 0)
          kvs.emplace_back(static_cast<int>(i + 1), m[i].get<int>());
      std::shuffle(kvs.begin(), kvs.end(), rng);
      for (auto &e : kvs)
      {
        Buffers one = newbuf();  // each SetAttribute call has its own short-lived buffers
        rec->SetAttribute(one.view(tb.KeyName(e.first)), MakeValue(e.second, 'A', one, rng));
        one.release();
      }
    }
    else if (k == "event")
    {
      int nm = a.at("nm").get<int>();
      if (nm == 0)
      {
        if (rng() % 2)
          rec->SetEventId(tb.EventIdOf(v));
        else
          rec->SetEventId(tb.EventIdOf(v), nostd::string_view());
      }
      else
        rec->SetEventId(tb.EventIdOf(v), b.view(EncStr('E', nm, rng)));
    }
    b.release();
  }

  // ---- comparison of what reached the exporters in this step with the spec's expectation
  // exp / expdev: what MUST have arrived (ideal / aliased); opt / optdev: what MAY additionally have
  // arrived, at most once each, at a processor added after the record had been created
  void compare_proc(int step, size_t p, std::vector<json> got, const json &exp, const json &expdev, const json &opt,
                    const json &optdev)
  {
    auto by_r = [](const json &x, const json &y) { return x.at("r").get<int>() < y.at("r").get<int>(); };
    std::sort(got.begin(), got.end(), by_r);
    std::vector<json> e(exp.begin(), exp.end()), d(expdev.begin(), expdev.end());
    nexports += static_cast<long>(got.size());
    // optional deliveries that did happen become expectations
    for (size_t i = 0; i < opt.size(); ++i)
      for (auto &g : got)
        if (g.at("r") == opt[i].at("r"))
        {
          e.push_back(opt[i]);
          d.push_back(optdev[i]);
          break;
        }
    std::sort(e.begin(), e.end(), by_r);
    std::sort(d.begin(), d.end(), by_r);
    bool same_ids = got.size() == e.size();
    for (size_t i = 0; same_ids && i < e.size(); ++i)
      same_ids = got[i].at("r") == e[i].at("r");
    if (!same_ids)
    {
      json gr = json::array(), er = json::array();
      for (auto &g : got)
        gr.push_back(g.at("r"));
      for (auto &x : e)
        er.push_back(x.at("r"));
      fail(step, "records reaching the exporter of processor " + std::to_string(p + 1) + " (" + pipe[p] + ")", er, er,
           gr);
      return;
    }
    for (size_t i = 0; ok && i < e.size(); ++i)
    {
      const json &g = got[i], &x = e[i], &y = d[i];
      auto field = [&](const std::string &name, const json &gv, const json &xv, const json &yv) {
        ++compared;
        if (gv == xv)
          return;
        std::string what = "record " + std::to_string(x.at("r").get<int>()) + " at processor " +
                           std::to_string(p + 1) + " (" + pipe[p] + "): " + name;
        if (gv == yv)
        {
          devs.push_back(json{{"dev", "log-record-aliases-caller-buffers"}, {"step", step}, {"what", what},
                              {"exp", xv}, {"got", gv}});
          return;
        }
        fail(step, what, xv, yv, gv);
      };
      field("lg", g["lg"], x["lg"], y["lg"]);
      field("res", g["res"], x["res"], y["res"]);
      field("tid", g["tid"], x["tid"], y["tid"]);
      field("sid", g["sid"], x["sid"], y["sid"]);
      field("fl", g["fl"], x["fl"], y["fl"]);
      // a field that was never supplied (0) is not pinned down by the statement
      if (x["sev"] != 0)
        field("sev", g["sev"], x["sev"], y["sev"]);
      if (x["body"] != 0)
        field("body", g["body"], x["body"], y["body"]);
      if (x["ts"] != 0)
        field("ts", g["ts"], x["ts"], y["ts"]);
      if (x["evid"] != 0)
      {
        field("evid", g["evid"], x["evid"], y["evid"]);
        field("evname", g["evname"], x["evname"], y["evname"]);
      }
      for (size_t k = 0; k < x["attrs"].size(); ++k)
        field("attrs[" + std::to_string(k + 1) + "]", g["attrs"][k], x["attrs"][k], y["attrs"][k]);
      field("attributes with a key that was never supplied", g["extra"], 0, 0);
    }
  }

  void observe(int step, const json &st)
  {
    bool isflush = st.at("op") == "Flush";
    if (recording)
      observed.assign(pipe.size(), std::vector<json>());
    for (size_t p = 0; ok && p < pipe.size(); ++p)
    {
      std::vector<json> got;
      {
        std::lock_guard<std::mutex> lk(sh.m);
        if (pipe[p] == "simple")
        {
          got.swap(sh.exported[p]);
        }
        else if (pipe[p] == "hold" || isflush)
        {
          for (auto &r : sh.held[p])
            got.push_back(Project(sh, r.get()));
          sh.held[p].clear();
        }
        else
        {
          continue;  // batch: whatever was exported early is looked at when the flush completed
        }
      }
      if (recording)
      {
        std::sort(got.begin(), got.end(),
                  [](const json &x, const json &y) { return x.at("r").get<int>() < y.at("r").get<int>(); });
        observed[p] = got;
        nexports += static_cast<long>(got.size());
      }
      else
        compare_proc(step, p, got, st.at("exp")[p], st.at("expDev")[p], st.at("opt")[p], st.at("optDev")[p]);
    }
  }
  std::vector<std::vector<json>> observed;

  void log_event(const json &st)
  {
    const std::string op = st.at("op").get<std::string>();
    json ev{{"e", op}, {"t", st.at("t")}};
    if (op == "ScopeEnter")
    {
      ev["s"]  = st.at("s");
      ev["id"] = st.at("r");
    }
    else if (op == "ScopeExit")
      ev["id"] = st.at("r");
    else if (op == "Create")
    {
      ev["lg"] = st.at("lg");
      ev["r"]  = st.at("r");
    }
    else if (op == "Set")
    {
      ev["r"] = st.at("r");
      ev["a"] = st.at("a");
    }
    else if (op == "BeginEmit")
    {
      ev["via"] = st.at("via");
      ev["lg"]  = st.at("lg");
      ev["r"]   = st.at("r");
    }
    else if (op == "Arg")
      ev["a"] = st.at("a");
    else if (op == "AddProc")
      ev["kind"] = st.at("via");
    else if (op == "EndEmit" || op == "Flush")
    {
      json got = json::array();
      for (auto &p : observed)
        got.push_back(p);
      ev["got"] = got;
    }
    events.push_back(ev.dump());
  }

  void run()
  {
    setup();
    if (recording)
      events.push_back(json{{"e", "Cfg"}, {"pipe", pipe}, {"res", beh.at("steps")[0].at("res")}, {"nt", beh.at("nt")},
                            {"b", beh.value("b", 0)}, {"x", beh.value("x", 0)}}
                           .dump());
    const int nt      = beh.at("nt").get<int>();
    const json &steps = beh.at("steps");
    scopes.resize(static_cast<size_t>(nt) + 1);
    {
      std::vector<std::unique_ptr<Worker>> workers;
      for (int t = 0; t < nt; ++t)
        workers.emplace_back(new Worker());
      for (size_t i = 1; ok && i < steps.size(); ++i)
      {
        const json &st       = steps[i];
        const std::string op = st.at("op").get<std::string>();
        const int t          = st.at("t").get<int>();
        if (g_wd)
          g_wd->step = static_cast<long>(i);
        auto body            = [&] {
          if (op == "ScopeEnter")
          {
            size_t s     = st.at("s").get<size_t>();
            auto sp      = spans.at(s);
            uint8_t byte = FlagByte(static_cast<int>(s % 4));
            if (s != 0 && (byte == 0x00 || byte == 0x01) && rng() % 2)
              sp = sdk->start(byte == 0x01, MakeTid(0xA0, static_cast<int>(s)), MakeSid(0xA0, static_cast<int>(s)));
            scopes[static_cast<size_t>(t)][st.at("r").get<int>()].reset(new trace::Scope(sp));
          }
          else if (op == "ScopeExit")
          {
            scopes[static_cast<size_t>(t)].erase(st.at("r").get<int>());
          }
          else if (op == "Create")
          {
            int r = st.at("r").get<int>();
            {
              std::lock_guard<std::mutex> lk(sh.m);
              sh.current_r = r;
            }
            recs[r] = loggers[st.at("lg").get<int>()]->CreateLogRecord();
            if (!recs[r])
              fail(static_cast<int>(i), "CreateLogRecord returned null", 1, 1, 0);
          }
          else if (op == "Set")
          {
            setter(recs.at(st.at("r").get<int>()).get(), st.at("a"));
          }
          else if (op == "BeginEmit" || op == "Arg")
          {
            // the call is made when the spec completes it (EndEmit carries the whole argument list)
          }
          else if (op == "EndEmit")
          {
            const json &args      = st.at("args");
            const std::string via = st.at("via").get<std::string>();
            int r                 = st.at("r").get<int>();
            if (st.at("mayCrash").get<bool>())
              std::cout << json{{"beh", beh.at("id")}, {"at", i}, {"mayCrash", true}}.dump() << std::endl;
            Buffers b = newbuf();
            std::vector<CArg> cargs(args.size());
            std::vector<CArg *> ptrs;
            for (size_t k = 0; k < args.size(); ++k)
            {
              concretise(args[k], cargs[k], b, args.size() >= 3);
              ptrs.push_back(&cargs[k]);
            }
            Call c;
            c.via    = via == "rec" ? VIA_REC : (via == "new" ? VIA_NEW : VIA_NULL);
            c.logger = loggers[st.at("lg").get<int>()].get();
            if (c.via == VIA_REC)
            {
              c.rec = std::move(recs.at(r));
              recs.erase(r);
            }
            {
              std::lock_guard<std::mutex> lk(sh.m);
              sh.current_r = r;
            }
            if (args.size() <= 2)
              EmitFull(c, ptrs.data(), static_cast<int>(ptrs.size()));
            else if (args.size() == 3)
            {
              int f = cargs[0].st;
              if (f <= ST_BODY_AV)
                EmitPrim3_a(c, ptrs.data());
              else if (f <= ST_TID)
                EmitPrim3_b(c, ptrs.data());
              else if (f <= ST_TS_SYS)
                EmitPrim3_c(c, ptrs.data());
              else
                EmitPrim3_d(c, ptrs.data());
            }
            else
            {
              std::cerr << "harness: more than 3 EmitLogRecord arguments\n";
              exit(5);
            }
            // the call returned: the caller's objects and buffers die NOW
            cargs.clear();
            b.release();
          }
          else if (op == "AddProc")
          {
            size_t p = pipe.size();
            {
              std::lock_guard<std::mutex> lk(sh.m);
              sh.exported.emplace_back();
              sh.held.emplace_back();
            }
            pipe.push_back(st.at("via").get<std::string>());
            provider->AddProcessor(make_processor(pipe.back(), p));
          }
          else if (op == "Flush")
          {
            if (!provider->ForceFlush())
              fail(static_cast<int>(i), "LoggerProvider::ForceFlush returned false", true, true, false);
          }
          else
          {
            std::cerr << "harness: unknown op " << op << "\n";
            exit(5);
          }
        };
        if (t == 0)
          body();
        else
          workers[static_cast<size_t>(t - 1)]->run(body);
        if (ok)
          observe(static_cast<int>(i), st);
        if (recording)
          log_event(st);
      }
      // scopes die on their own threads, then the threads
      for (int t = 1; t <= nt; ++t)
        workers[static_cast<size_t>(t - 1)]->run([&, t] { scopes[static_cast<size_t>(t)].clear(); });
    }
    recs.clear();
    for (auto &l : loggers)
      l = nostd::shared_ptr<logs::Logger>();
    provider.reset();  // Shutdown: joins the batch workers
    sdk.reset();
    if (ok)
    {
      size_t late = 0;
      std::lock_guard<std::mutex> lk(sh.m);
      for (size_t p = 0; p < pipe.size(); ++p)
        late += sh.exported[p].size() + sh.held[p].size();
      if (late && beh.at("steps").back().at("op") == "Flush")
        fail(static_cast<int>(steps.size()), "records exported after the final ForceFlush", 0, 0, late);
    }
    {
      std::lock_guard<std::mutex> lk(sh.m);
      for (auto &h : sh.held)
        h.clear();
    }
    graveyard.clear();
  }
};

static int Replay(const char *path)
{
  g_wd          = new Watchdog();
  g_wd->on_fire = [] {
    std::cout << json{{"beh", g_wd->id.load()}, {"hang", true}, {"step", g_wd->step.load()}}.dump() << std::endl;
  };
  std::ifstream in(path);
  std::string line;
  while (std::getline(in, line))
  {
    if (line.empty())
      continue;
    json beh = json::parse(line);
    std::cout << json{{"beh", beh.at("id")}, {"start", true}}.dump() << std::endl;
    json out;
    {
      g_wd->arm(beh.at("id").get<long>());
      Replayer rp(beh);
      rp.run();
      g_wd->disarm();
      out["beh"]      = beh.at("id");
      out["done"]     = true;
      out["ok"]       = rp.ok;
      out["steps"]    = beh.at("steps").size();
      out["compared"] = rp.compared;
      out["exports"]  = rp.nexports;
      out["devs"]     = rp.devs;
      if (!rp.ok)
        out["mismatch"] = rp.mismatch;
    }
    std::cout << out.dump() << std::endl;
  }
  return 0;
}

// ------------------------------------------------------------------ record (code -> spec)
// A seeded random PROGRAM over larger domains than the generated behaviours (12 attribute keys,
// 20 values, long histories) is run on the real SDK through the same machinery; every call is
// logged with its abstract arguments and with the records that were read at the exporters;
// spec/LogRecordTrace.tla decides.  The generator only does lifecycle bookkeeping (which records
// are open on which thread, which scopes are alive) - it knows nothing about what is exported.
// EventId arguments without a name are not generated for EmitLogRecord (the unchanged tree dies
// there, see the named deviation; the replay direction covers it).
namespace recorder
{
static const int kNAK = 12;

struct Gen
{
  std::mt19937_64 rng;
  int nt;
  json steps = json::array();
  std::vector<std::vector<std::pair<int, int>>> open;  // per thread: (r, lg)
  std::vector<std::vector<int>> scopes;                 // per thread: live scope ids
  std::vector<int> depth;                               // per thread: entered and not yet released
  int nrec = 0, nscope = 0;

  int pick(int n) { return static_cast<int>(rng() % static_cast<uint64_t>(n)); }

  json arg(bool emitarg)
  {
    json a{{"k", "none"}, {"v", 0}, {"nm", 0}, {"m", json::array()}};
    switch (pick(12))
    {
      case 0:
        a["k"] = "sev";
        a["v"] = 1 + pick(6);
        break;
      case 1:
      case 2:
      case 3:
        a["k"] = "body";
        a["v"] = 1 + pick(20);
        break;
      case 4:
        a["k"] = "ts";
        a["v"] = 1 + pick(20);
        break;
      case 5:
        a["k"] = "ctx";
        a["v"] = pick(6);
        break;
      case 6:
        a["k"] = pick(2) ? "sid" : "tid";
        a["v"] = pick(6);
        break;
      case 7:
        a["k"] = "flags";
        a["v"] = pick(4);
        break;
      case 8:
        a["k"]  = "event";
        a["v"]  = 1 + pick(10);
        a["nm"] = emitarg ? 1 + pick(5) : pick(6);
        break;
      default: {
        a["k"] = "attrs";
        json m = json::array();
        for (int k = 0; k < kNAK; ++k)
          m.push_back(0);
        int n = pick(7);
        for (int i = 0; i < n; ++i)
          m[static_cast<size_t>(pick(kNAK))] = 1 + pick(20);
        a["m"] = m;
        break;
      }
    }
    return a;
  }

  json base(const char *op, int t)
  {
    return json{{"op", op},   {"t", t},          {"r", 0},  {"lg", 0},           {"s", 0},
                {"via", ""},  {"a", json{{"k", "none"}, {"v", 0}, {"nm", 0}, {"m", json::array()}}},
                {"args", json::array()}, {"mayCrash", false}};
  }

  void emit(int t, const char *via, int r, int lg)
  {
    json b   = base("BeginEmit", t);
    b["via"] = via;
    b["r"]   = r;
    b["lg"]  = lg;
    steps.push_back(b);
    int n     = pick(4);
    json args = json::array();
    for (int i = 0; i < n; ++i)
    {
      json a  = arg(true);
      json s  = base("Arg", t);
      s["r"]  = r;
      s["a"]  = a;
      steps.push_back(s);
      args.push_back(a);
    }
    json e    = base("EndEmit", t);
    e["via"]  = via;
    e["r"]    = r;
    e["lg"]   = lg;
    e["args"] = args;
    steps.push_back(e);
  }

  json make(uint64_t seed, int nthreads, int nops)
  {
    rng.seed(seed);
    nt = nthreads;
    open.assign(static_cast<size_t>(nt) + 1, {});
    scopes.assign(static_cast<size_t>(nt) + 1, {});
    static const char *pipes[][3] = {{"", "", ""},             {"", "", ""},               {"simple", "", ""},
                                     {"simple", "", ""},       {"batch", "", ""},          {"hold", "", ""},
                                     {"simple", "batch", ""},  {"batch", "simple", ""},    {"batch", "batch", ""},
                                     {"simple", "batch", "hold"}, {"batch", "hold", "simple"}, {"hold", "batch", "batch"}};
    json pipe = json::array();
    int pi    = pick(12);
    int npipe = 0;
    for (int i = 0; i < 3; ++i)
      if (pipes[pi][i][0])
      {
        pipe.push_back(pipes[pi][i]);
        ++npipe;
      }
    json cfg     = base("Init", 0);
    cfg["pipe"]  = pipe;
    cfg["res"]   = 1 + pick(3);
    steps.push_back(cfg);
    std::vector<std::vector<int>> stack(static_cast<size_t>(nt) + 1);  // ids entered, innermost last (bookkeeping of nesting only)
    for (int i = 0; i < nops; ++i)
    {
      int t   = 1 + pick(nt);
      auto &o = open[static_cast<size_t>(t)];
      auto &sc = scopes[static_cast<size_t>(t)];
      auto &st = stack[static_cast<size_t>(t)];
      int w   = pick(100);
      if (w < 10)
      {
        if (st.size() >= 3)
          continue;
        json s = base("ScopeEnter", t);
        s["s"] = pick(7);
        s["r"] = ++nscope;
        steps.push_back(s);
        sc.push_back(nscope);
        st.push_back(nscope);
      }
      else if (w < 18)
      {
        if (sc.empty())
          continue;
        size_t j = pick(4) ? sc.size() - 1 : static_cast<size_t>(pick(static_cast<int>(sc.size())));
        int id   = sc[j];
        sc.erase(sc.begin() + static_cast<long>(j));
        // releasing a scope unwinds everything entered after it
        auto it = std::find(st.begin(), st.end(), id);
        if (it != st.end())
          st.erase(it, st.end());
        json s = base("ScopeExit", t);
        s["r"] = id;
        steps.push_back(s);
      }
      else if (w < 30)
      {
        json s  = base("Create", t);
        int lg  = 1 + pick(3);
        s["lg"] = lg;
        s["r"]  = ++nrec;
        steps.push_back(s);
        o.emplace_back(nrec, lg);
      }
      else if (w < 52)
      {
        if (o.empty())
          continue;
        json s = base("Set", t);
        s["r"] = o[static_cast<size_t>(pick(static_cast<int>(o.size())))].first;
        s["a"] = arg(false);
        steps.push_back(s);
      }
      else if (w < 66)
      {
        if (o.empty())
          continue;
        size_t j = static_cast<size_t>(pick(static_cast<int>(o.size())));
        auto rl  = o[j];
        o.erase(o.begin() + static_cast<long>(j));
        emit(t, "rec", rl.first, rl.second);
      }
      else if (w < 86)
      {
        emit(t, "new", ++nrec, 1 + pick(3));
      }
      else if (w < 89)
      {
        emit(t, "null", 0, 1 + pick(3));
      }
      else if (w < 92 && npipe < 3)
      {
        // LoggerProvider::AddProcessor while records created before are still open
        static const char *kinds[] = {"simple", "batch", "hold"};
        json s   = base("AddProc", 0);
        s["via"] = kinds[pick(3)];
        steps.push_back(s);
        ++npipe;
      }
      else
      {
        steps.push_back(base("Flush", 0));
      }
    }
    steps.push_back(base("Flush", 0));
    return json{{"id", 0}, {"nt", nt}, {"nak", kNAK}, {"seed", seed}, {"mode", "arena"}, {"steps", steps}};
  }
};

static Replayer *g_current = nullptr;
static int Run(uint64_t seed, int nexec, int nthreads, int nops, int b)
{
  // a call that never returns: print what was logged so far (only the stuck thread writes events,
  // and it is stuck) and leave with 3
  g_wd          = new Watchdog();
  g_wd->on_fire = [] {
    if (g_current)
      for (auto &e : g_current->events)
        std::cout << e << "\n";
    std::cout << json{{"e", "Hang"}, {"t", 0}, {"step", g_wd->step.load()}}.dump() << std::endl;
  };
  for (int i = 0; i < nexec; ++i)
  {
    Gen g;
    json beh = g.make(seed * 1000003ull + static_cast<uint64_t>(i), nthreads, nops);
    beh["b"] = b;  // (recorder process, execution): names the execution in the log
    beh["x"] = i;
    Replayer rp(beh);
    rp.recording = true;
    g_current    = &rp;
    g_wd->arm(i);
    rp.run();
    g_wd->disarm();
    g_current = nullptr;
    for (auto &e : rp.events)
      std::cout << e << "\n";
    if (!rp.ok)  // (ForceFlush returned false, records exported after the end ...): no spec action consumes this
      std::cout << json{{"e", "HarnessFail"}, {"t", 0}, {"what", rp.mismatch}}.dump() << "\n";
  }
  std::cout.flush();
  return 0;
}
}  // namespace recorder

int main(int argc, char **argv)
{
  std::ios::sync_with_stdio(false);
  if (argc >= 3 && std::string(argv[1]) == "replay")
    return Replay(argv[2]);
  if (argc >= 6 && std::string(argv[1]) == "record")
    return recorder::Run(std::stoull(argv[2]), atoi(argv[3]), atoi(argv[4]), atoi(argv[5]), argc >= 7 ? atoi(argv[6]) : 0);
  std::cerr << "usage: c13_logrecord replay <behaviours.ndjson> | record <seed> <nexec> <nthreads> <nops> [tag]\n";
  return 2;
}
