// C04 replayer / recorder: one span of a real TracerProvider with 1..3 processors (simple | batch),
// capturing exporters, caller buffers destroyed after every call.
//
//   c04_span replay <behaviours.ndjson> <seed> [verbose]   spec -> code (spec/SpanLifecycle.tla behaviours)
//   c04_span record <n> <seed> <procs e.g. sbs> <minops> <maxops> <nkeys> <nvals>
//                                                          code -> spec (log for SpanLifecycleTrace.tla)
//
// Observation points (public API only): Span::IsRecording(); what each processor's exporter receives -
// exporter kind A uses sdk SpanData (the SDK's own owned copy: attribute_utils.h AttributeConverter),
// kind B uses the harness' own Recordable that copies every argument at call time (so it sees exactly
// the calls MultiRecordable / Span forward).  Both are projected to the same canonical JSON.
#include <nlohmann/json.hpp>

#include <chrono>
#include <fstream>
#include <iostream>
#include <map>
#include <mutex>
#include <random>
#include <set>

#include "c04_values.h"

#include "opentelemetry/sdk/resource/resource.h"
#include "opentelemetry/sdk/trace/batch_span_processor.h"
#include "opentelemetry/sdk/trace/batch_span_processor_options.h"
#include "opentelemetry/sdk/trace/exporter.h"
#include "opentelemetry/sdk/trace/simple_processor.h"
#include "opentelemetry/sdk/trace/span_data.h"
#include "opentelemetry/sdk/trace/tracer_provider.h"
#include "opentelemetry/trace/span_startoptions.h"
#include "opentelemetry/trace/tracer.h"

using json = nlohmann::json;
namespace api    = opentelemetry::trace;
namespace sdkt   = opentelemetry::sdk::trace;
namespace common = opentelemetry::common;
namespace nostd  = opentelemetry::nostd;
using namespace c04;

// ---------------------------------------------------------------------------------------------
struct Sink
{
  std::mutex m;
  std::vector<json> spans;
  size_t size()
  {
    std::lock_guard<std::mutex> g(m);
    return spans.size();
  }
};

static json res_json(const opentelemetry::sdk::resource::Resource &r)
{
  json o = json::object();
  for (auto &kv : r.GetAttributes())
    o[hexs(kv.first)] = canon(kv.second);
  return o;
}
static json scope_json(const sdkt::InstrumentationScope &s)
{
  return json{{"name", hexs(s.GetName())}, {"version", hexs(s.GetVersion())}, {"schema", hexs(s.GetSchemaURL())}};
}
static json link_ctx_json(const api::SpanContext &c)
{
  return json{{"trace", hexb(c.trace_id().Id().data(), 16)},
              {"span", hexb(c.span_id().Id().data(), 8)},
              {"flags", (int)c.trace_flags().flags()},
              {"remote", c.IsRemote()},
              {"tstate", c.trace_state() ? c.trace_state()->ToHeader() : std::string("<null>")}};
}
template <class M>
static json attrs_json(const M &m)
{
  json o = json::object();
  for (auto &kv : m)
    o[hexs(kv.first)] = canon(kv.second);
  return o;
}

static json observe(const sdkt::SpanData &d)
{
  json o;
  o["name"]  = hexs(std::string(d.GetName().data(), d.GetName().size()));
  o["kind"]  = (int)d.GetSpanKind();
  o["attrs"] = attrs_json(d.GetAttributes());
  json ev    = json::array();
  for (auto &e : d.GetEvents())
    ev.push_back(json{{"name", hexs(e.GetName())},
                      {"ts", (long long)e.GetTimestamp().time_since_epoch().count()},
                      {"attrs", attrs_json(e.GetAttributes())}});
  o["events"] = ev;
  json ln     = json::array();
  for (auto &l : d.GetLinks())
  {
    json x     = link_ctx_json(l.GetSpanContext());
    x["attrs"] = attrs_json(l.GetAttributes());
    ln.push_back(x);
  }
  o["links"]  = ln;
  o["status"] = json{{"code", (int)d.GetStatus()},
                     {"desc", hexs(std::string(d.GetDescription().data(), d.GetDescription().size()))}};
  o["start"]  = (long long)d.GetStartTime().time_since_epoch().count();
  o["dur"]    = (long long)d.GetDuration().count();
  o["res"]    = res_json(d.GetResource());
  o["scope"]  = scope_json(d.GetInstrumentationScope());
  return o;
}

class ExpA final : public sdkt::SpanExporter
{
public:
  explicit ExpA(Sink *s) : s_(s) {}
  std::unique_ptr<sdkt::Recordable> MakeRecordable() noexcept override
  {
    return std::unique_ptr<sdkt::Recordable>(new sdkt::SpanData);
  }
  opentelemetry::sdk::common::ExportResult Export(
      const nostd::span<std::unique_ptr<sdkt::Recordable>> &spans) noexcept override
  {
    for (auto &r : spans)
    {
      json o = observe(*static_cast<sdkt::SpanData *>(r.get()));
      std::lock_guard<std::mutex> g(s_->m);
      s_->spans.push_back(o);
    }
    return opentelemetry::sdk::common::ExportResult::kSuccess;
  }
  bool ForceFlush(std::chrono::microseconds) noexcept override { return true; }
  bool Shutdown(std::chrono::microseconds) noexcept override { return true; }

private:
  Sink *s_;
};

// the harness' own Recordable: copies at call time, upsert semantics for attributes
class MyRecordable final : public sdkt::Recordable
{
public:
  MyRecordable()
  {
    o_["name"]   = "";
    o_["kind"]   = 0;
    o_["attrs"]  = json::object();
    o_["events"] = json::array();
    o_["links"]  = json::array();
    o_["status"] = json{{"code", 0}, {"desc", ""}};
    o_["start"]  = 0;
    o_["dur"]    = 0;
  }
  static json kvs(const common::KeyValueIterable &a)
  {
    json o = json::object();
    a.ForEachKeyValue([&](nostd::string_view k, common::AttributeValue v) noexcept {
      o[hexs(std::string(k.data(), k.size()))] = canon_view(v);
      return true;
    });
    return o;
  }
  void SetIdentity(const api::SpanContext &, api::SpanId) noexcept override {}
  void SetAttribute(nostd::string_view key, const common::AttributeValue &value) noexcept override
  {
    o_["attrs"][hexs(std::string(key.data(), key.size()))] = canon_view(value);
  }
  void AddEvent(nostd::string_view name,
                common::SystemTimestamp timestamp,
                const common::KeyValueIterable &attributes) noexcept override
  {
    o_["events"].push_back(json{{"name", hexs(std::string(name.data(), name.size()))},
                                {"ts", (long long)timestamp.time_since_epoch().count()},
                                {"attrs", kvs(attributes)}});
  }
  void AddLink(const api::SpanContext &c, const common::KeyValueIterable &attributes) noexcept override
  {
    json x     = link_ctx_json(c);
    x["attrs"] = kvs(attributes);
    o_["links"].push_back(x);
  }
  void SetStatus(api::StatusCode code, nostd::string_view description) noexcept override
  {
    o_["status"] = json{{"code", (int)code}, {"desc", hexs(std::string(description.data(), description.size()))}};
  }
  void SetName(nostd::string_view name) noexcept override { o_["name"] = hexs(std::string(name.data(), name.size())); }
  void SetSpanKind(api::SpanKind k) noexcept override { o_["kind"] = (int)k; }
  void SetResource(const opentelemetry::sdk::resource::Resource &r) noexcept override { res_ = &r; }
  void SetStartTime(common::SystemTimestamp t) noexcept override { o_["start"] = (long long)t.time_since_epoch().count(); }
  void SetDuration(std::chrono::nanoseconds d) noexcept override { o_["dur"] = (long long)d.count(); }
  void SetInstrumentationScope(const sdkt::InstrumentationScope &s) noexcept override { scope_ = &s; }
  json finish() const
  {
    json o     = o_;
    o["res"]   = res_ ? res_json(*res_) : json::object();
    o["scope"] = scope_ ? scope_json(*scope_) : json::object();
    return o;
  }

private:
  json o_;
  const opentelemetry::sdk::resource::Resource *res_ = nullptr;
  const sdkt::InstrumentationScope *scope_           = nullptr;
};

class ExpB final : public sdkt::SpanExporter
{
public:
  explicit ExpB(Sink *s) : s_(s) {}
  std::unique_ptr<sdkt::Recordable> MakeRecordable() noexcept override
  {
    return std::unique_ptr<sdkt::Recordable>(new MyRecordable);
  }
  opentelemetry::sdk::common::ExportResult Export(
      const nostd::span<std::unique_ptr<sdkt::Recordable>> &spans) noexcept override
  {
    for (auto &r : spans)
    {
      json o = static_cast<MyRecordable *>(r.get())->finish();
      std::lock_guard<std::mutex> g(s_->m);
      s_->spans.push_back(o);
    }
    return opentelemetry::sdk::common::ExportResult::kSuccess;
  }
  bool ForceFlush(std::chrono::microseconds) noexcept override { return true; }
  bool Shutdown(std::chrono::microseconds) noexcept override { return true; }

private:
  Sink *s_;
};

// ---- concretisation table of one behaviour -----------------------------------------------------
static const std::vector<Desc> &POOL()
{
  static std::vector<Desc> p = make_pool();
  return p;
}
static const char *SCOPES[][3] = {{"lib.one", "1.2.3", "https://example.test/schema/1"}, {"lib.two", "", ""},
                                  {"x", "0", "s"}};

struct Table
{
  std::mt19937_64 rng;
  std::vector<size_t> vperm;           // value id -> pool index
  std::vector<std::string> keys, names, descs;
  std::vector<int> kinds;
  std::vector<api::SpanContext> ctxs;
  long long sys_base, steady_base;
  std::vector<const json *> val_canon; // by value id (1-based index - 1)

  // unique: keep one pool entry per canonical form (const char* "abc" and string_view "abc" are the same
  // exported value) - needed where exported values are projected BACK to ids (record mode)
  explicit Table(uint64_t seed, bool unique = false) : rng(seed * 0x9E3779B97F4A7C15ull + 99)
  {
    std::set<std::string> seen;
    for (size_t i = 0; i < POOL().size(); ++i)
      if (!unique || seen.insert(canon(POOL()[i]).dump()).second)
        vperm.push_back(i);
    std::shuffle(vperm.begin(), vperm.end(), rng);
    std::vector<std::string> kp = {"k", "http.method", "key with space", std::string("k\0a", 3), std::string("k\0b", 3),
                                   "\xd0\xba\xd0\xbb\xd1\x8e\xd1\x87", std::string(300, 'k'), "a.b.c", "K", "k "};
    for (int i = 0; i < 40; ++i)
      kp.push_back("attr." + std::to_string(i));
    std::shuffle(kp.begin(), kp.begin() + 10, rng);
    keys = kp;
    std::vector<std::string> np = {"op", "", std::string("na\0me", 5), "n\xc3\xa4me", std::string(1000, 'x'), "GET /x", "a", "op "};
    std::shuffle(np.begin(), np.end(), rng);
    names = np;
    std::vector<std::string> dp = {"failed", std::string("err\0or", 6), std::string(400, 'e'), "d"};
    std::shuffle(dp.begin(), dp.end(), rng);
    descs = {""};
    for (auto &d : dp)
      descs.push_back(d);
    kinds = {0, 1, 2, 3, 4};
    std::shuffle(kinds.begin(), kinds.end(), rng);
    for (int i = 0; i < 4; ++i)
    {
      uint8_t t[16], s[8];
      for (auto &b : t)
        b = (uint8_t)rng();
      for (auto &b : s)
        b = (uint8_t)rng();
      t[0] |= 1;
      s[0] |= 1;
      static const char *TS[] = {"", "a=b", "v@x=1,c=d"};
      ctxs.emplace_back(api::TraceId(t), api::SpanId(s), api::TraceFlags((uint8_t)(rng() % 4)), (bool)(rng() % 2),
                        api::TraceState::FromHeader(TS[rng() % 3]));
    }
    sys_base    = 1600000000000000000ll + (long long)(rng() % 1000000000ull) * 1000;
    steady_base = 5000000000000ll + (long long)(rng() % 1000000000ull);
    static const std::vector<json> pool_canon = [] {
      std::vector<json> v;
      for (auto &d : POOL())
        v.push_back(canon(d));
      return v;
    }();
    for (size_t i = 0; i < vperm.size(); ++i)
      val_canon.push_back(&pool_canon[vperm[i]]);
  }
  const Desc &val(int id) const { return POOL()[vperm[(size_t)id - 1]]; }
  const std::string &key(int id) const { return keys[(size_t)id - 1]; }
  const std::string &name(int id) const { return names[(size_t)id - 1]; }
  long long sys(int rank) const { return sys_base + (long long)rank * 1000000; }
  long long steady(int rank) const { return steady_base + (long long)rank * 1000000; }
  json res_expected;  // filled when the provider is created
};

static opentelemetry::sdk::resource::Resource make_resource(int id)
{
  opentelemetry::sdk::resource::ResourceAttributes ra;
  if (id == 1)
  {
    ra.SetAttribute("service.name", nostd::string_view("svc-a"));
    ra.SetAttribute("r.int", (int64_t)7);
  }
  else
  {
    ra.SetAttribute("service.name", nostd::string_view("svc-b"));
    ra.SetAttribute("r.str", nostd::string_view("x\0y", 3));
    ra.SetAttribute("r.flag", true);
  }
  return opentelemetry::sdk::resource::Resource::Create(ra, id == 1 ? "" : "https://example.test/res");
}

struct Rig
{
  std::vector<std::unique_ptr<Sink>> sinks;
  std::unique_ptr<sdkt::TracerProvider> provider;
  nostd::shared_ptr<api::Tracer> tracer;
  json scope_expected, res_expected;
  std::string expkinds;

  Rig(const std::vector<std::string> &procs, int res, int scope, std::mt19937_64 &rng)
  {
    std::vector<std::unique_ptr<sdkt::SpanProcessor>> ps;
    for (auto &k : procs)
    {
      sinks.emplace_back(new Sink);
      bool useB = rng() % 3 == 0;
      expkinds += useB ? 'B' : 'A';
      std::unique_ptr<sdkt::SpanExporter> e;
      if (useB)
        e.reset(new ExpB(sinks.back().get()));
      else
        e.reset(new ExpA(sinks.back().get()));
      if (k == "simple")
        ps.emplace_back(new sdkt::SimpleSpanProcessor(std::move(e)));
      else
      {
        sdkt::BatchSpanProcessorOptions o;
        o.schedule_delay_millis = std::chrono::milliseconds(250);  // also bounds a lost ForceFlush wake-up
        o.max_queue_size        = 64;
        o.max_export_batch_size = 16;
        ps.emplace_back(new sdkt::BatchSpanProcessor(std::move(e), o));
      }
    }
    if (ps.size() == 1 && rng() % 2)
      provider.reset(new sdkt::TracerProvider(std::move(ps[0]), make_resource(res)));
    else
      provider.reset(new sdkt::TracerProvider(std::move(ps), make_resource(res)));
    const char **sc = SCOPES[(size_t)scope - 1];
    tracer          = provider->GetTracer(sc[0], sc[1], sc[2]);
    scope_expected  = json{{"name", hexs(sc[0])}, {"version", hexs(sc[1])}, {"schema", hexs(sc[2])}};
    res_expected    = res_json(provider->GetResource());
  }
};

// ---- expected canonical span from an abstract snapshot ------------------------------------------
static json exp_attrs(const json &arr, const Table &t)
{
  json o = json::object();
  for (size_t k = 0; k < arr.size(); ++k)
  {
    int v = arr[k].get<int>();
    if (v != 0)
      o[hexs(t.key((int)k + 1))] = *t.val_canon[(size_t)v - 1];
  }
  return o;
}

// returns "" if `got` is what the snapshot allows, else a description of the first difference
static std::string diff_span(const json &snap, const json &got, const Table &t, const Rig &rig)
{
  auto ne = [&](const char *what, const json &a, const json &b) {
    std::string sa = a.dump(), sb = b.dump();
    if (sa.size() > 300)
      sa = sa.substr(0, 300) + "...";
    if (sb.size() > 300)
      sb = sb.substr(0, 300) + "...";
    return std::string(what) + ": expected " + sa + " got " + sb;
  };
  json en = hexs(t.name(snap["name"].get<int>()));
  if (got["name"] != en)
    return ne("name", en, got["name"]);
  json ek = t.kinds[(size_t)snap["kind"].get<int>() - 1];
  if (got["kind"] != ek)
    return ne("kind", ek, got["kind"]);
  json ea = exp_attrs(snap["attrs"], t);
  if (got["attrs"] != ea)
    return ne("attributes", ea, got["attrs"]);
  if (got["events"].size() != snap["events"].size())
    return ne("number of events", snap["events"].size(), got["events"].size());
  for (size_t i = 0; i < snap["events"].size(); ++i)
  {
    const json &se = snap["events"][i], &ge = got["events"][i];
    json n = hexs(t.name(se["name"].get<int>()));
    if (ge["name"] != n)
      return ne(("event " + std::to_string(i) + " name").c_str(), n, ge["name"]);
    if (se["ts"].get<int>() != 0 && ge["ts"].get<long long>() != t.sys(se["ts"].get<int>()))
      return ne(("event " + std::to_string(i) + " timestamp").c_str(), t.sys(se["ts"].get<int>()), ge["ts"]);
    json a = exp_attrs(se["attrs"], t);
    if (ge["attrs"] != a)
      return ne(("event " + std::to_string(i) + " attributes").c_str(), a, ge["attrs"]);
  }
  if (got["links"].size() != snap["links"].size())
    return ne("number of links", snap["links"].size(), got["links"].size());
  for (size_t i = 0; i < snap["links"].size(); ++i)
  {
    const json &sl = snap["links"][i];
    json x         = link_ctx_json(t.ctxs[(size_t)sl["ctx"].get<int>() - 1]);
    x["attrs"]     = exp_attrs(sl["attrs"], t);
    if (got["links"][i] != x)
      return ne(("link " + std::to_string(i)).c_str(), x, got["links"][i]);
  }
  bool st_ok = false;
  for (auto &alt : snap["status"])
  {
    static const std::map<std::string, int> CODE = {{"Unset", 0}, {"Ok", 1}, {"Error", 2}};
    if (got["status"]["code"].get<int>() != CODE.at(alt["code"]))
      continue;
    if (alt["desc"].get<int>() != 99 && got["status"]["desc"] != json(hexs(t.descs[(size_t)alt["desc"].get<int>()])))
      continue;
    st_ok = true;
  }
  if (!st_ok)
    return ne("status", snap["status"], got["status"]);
  if (snap["startSys"].get<int>() != 0 && got["start"].get<long long>() != t.sys(snap["startSys"].get<int>()))
    return ne("start time", t.sys(snap["startSys"].get<int>()), got["start"]);
  int dur = snap["dur"].get<int>();
  if (dur == 98)
  {
    if (got["dur"].get<long long>() < 0)
      return ne("duration (>= 0)", 0, got["dur"]);
  }
  else if (dur != 99)
  {
    if (got["dur"].get<long long>() != (long long)dur * 1000000)
      return ne("duration", (long long)dur * 1000000, got["dur"]);
  }
  if (got["res"] != rig.res_expected)
    return ne("resource", rig.res_expected, got["res"]);
  if (got["scope"] != rig.scope_expected)
    return ne("instrumentation scope", rig.scope_expected, got["scope"]);
  return "";
}

// ---- performing the operations with caller-owned, short-lived buffers ---------------------------
static SeqKV *make_kv(const json &as, const Table &t, Arena &a)
{
  size_t n = as.size();
  auto *items = static_cast<SeqKV::Item *>(a.alloc(n * sizeof(SeqKV::Item)));
  for (size_t i = 0; i < n; ++i)
    new (items + i) SeqKV::Item(a.str(t.key(as[i]["k"].get<int>())), build(t.val(as[i]["v"].get<int>()), a));
  auto *kv = static_cast<SeqKV *>(a.alloc(sizeof(SeqKV)));
  new (kv) SeqKV(items, n);
  return kv;
}

static nostd::shared_ptr<api::Span> do_start(const json &st, Table &t, Rig &rig)
{
  Arena a;
  nostd::string_view name = a.str(t.name(st["name"].get<int>()));
  api::StartSpanOptions opt;
  opt.kind = (api::SpanKind)t.kinds[(size_t)st["kind"].get<int>() - 1];
  if (st["ss"].get<int>() != 0)
    opt.start_system_time = common::SystemTimestamp(std::chrono::nanoseconds(t.sys(st["ss"].get<int>())));
  if (st["st"].get<int>() != 0)
    opt.start_steady_time = common::SteadyTimestamp(std::chrono::nanoseconds(t.steady(st["st"].get<int>())));
  opt.parent = api::SpanContext::GetInvalid();
  nostd::shared_ptr<api::Span> span;
  if (st["attrs"].empty() && st["links"].empty() && t.rng() % 2)
    span = rig.tracer->StartSpan(name, opt);
  else
  {
    SeqKV *kv = make_kv(st["attrs"], t, a);
    std::vector<SeqLinks::L> ls;
    for (auto &l : st["links"])
      ls.push_back({t.ctxs[(size_t)l["ctx"].get<int>() - 1], make_kv(l["attrs"], t, a)});
    SeqLinks links(ls);
    span = rig.tracer->StartSpan(name, *kv, links, opt);
  }
  a.destroy();
  return span;
}

static void do_op(const json &st, Table &t, nostd::shared_ptr<api::Span> &span, Rig &rig)
{
  const std::string op = st["op"];
  Arena a;
  if (op == "set")
  {
    span->SetAttribute(a.str(t.key(st["k"].get<int>())), build(t.val(st["v"].get<int>()), a));
  }
  else if (op == "event")
  {
    nostd::string_view n = a.str(t.name(st["name"].get<int>()));
    common::SystemTimestamp ts(std::chrono::nanoseconds(t.sys(st["ts"].get<int>())));
    switch (st["ovl"].get<int>())
    {
      case 1:
        span->AddEvent(n);
        break;
      case 2:
        span->AddEvent(n, ts);
        break;
      case 3:
        span->AddEvent(n, *make_kv(st["attrs"], t, a));
        break;
      default:
        span->AddEvent(n, ts, *make_kv(st["attrs"], t, a));
    }
  }
  else if (op == "status")
  {
    static const std::map<std::string, api::StatusCode> CODE = {
        {"Unset", api::StatusCode::kUnset}, {"Ok", api::StatusCode::kOk}, {"Error", api::StatusCode::kError}};
    span->SetStatus(CODE.at(st["code"]), a.str(t.descs[(size_t)st["desc"].get<int>()]));
  }
  else if (op == "name")
  {
    span->UpdateName(a.str(t.name(st["name"].get<int>())));
  }
  else if (op == "end")
  {
    if (st["et"].get<int>() != 0)
    {
      api::EndSpanOptions eo;
      eo.end_steady_time = common::SteadyTimestamp(std::chrono::nanoseconds(t.steady(st["et"].get<int>())));
      span->End(eo);
    }
    else if (t.rng() % 2)
      span->End();
    else
      span->End(api::EndSpanOptions{});
  }
  else if (op == "release")
  {
    span = nostd::shared_ptr<api::Span>();
  }
  else if (op == "flush")
  {
    rig.provider->ForceFlush();
  }
  else if (op == "finish")
  {
    span = nostd::shared_ptr<api::Span>();
    rig.provider->ForceFlush();
  }
  a.destroy();
}

struct Problem
{
  std::string kind, dev, what;
  json got;
};

static bool run_behaviour(const json &steps, uint64_t seed, Problem &pb, long &nsteps)
{
  Table t(seed);
  const json &s0 = steps[0];
  std::vector<std::string> procs = s0["procs"].get<std::vector<std::string>>();
  Rig rig(procs, s0["res"].get<int>(), s0["scope"].get<int>(), t.rng);
  nostd::shared_ptr<api::Span> span;
  bool ok = true;
  size_t j = 0;
  auto fail = [&](const std::string &what, json got) {
    ok      = false;
    pb.kind = "mismatch";
    pb.what = what;
    pb.got  = std::move(got);
    pb.got["step"]      = j;
    pb.got["exporters"] = rig.expkinds;
  };
  json last_snap;
  std::vector<size_t> seen(procs.size(), 0);
  for (; j < steps.size() && ok; ++j)
  {
    const json &st = steps[j];
    ++nsteps;
    if (st["op"] == "start")
      span = do_start(st, t, rig);
    else
      do_op(st, t, span, rig);
    if (span && span->IsRecording() != st["rec"].get<bool>())
    {
      fail("IsRecording() after " + std::string(st["op"]), json{{"recording", span->IsRecording()}});
      break;
    }
    for (size_t p = 0; p < procs.size() && ok; ++p)
    {
      size_t n = rig.sinks[p]->size();
      if ((long)n < st["cnt"][p]["lo"].get<long>() || (long)n > st["cnt"][p]["hi"].get<long>())
      {
        fail("processor " + std::to_string(p + 1) + " (" + procs[p] + "): exporter has received " + std::to_string(n) +
                 " span(s) after " + std::string(st["op"]) + ", expected " + st["cnt"][p].dump(),
             json::object());
        break;
      }
      // what the exporter holds is compared whenever it received something new or the expectation changed
      if (n > 0 && (n != seen[p] || st["snap"] != last_snap || j + 1 == steps.size()))
      {
        std::lock_guard<std::mutex> g(rig.sinks[p]->m);
        for (auto &sp : rig.sinks[p]->spans)
        {
          std::string d = diff_span(st["snap"], sp, t, rig);
          if (!d.empty())
          {
            fail("processor " + std::to_string(p + 1) + " (" + procs[p] + ") after " + std::string(st["op"]) + ": " + d,
                 json::object());
            break;
          }
        }
      }
      seen[p] = n;
    }
    last_snap = st["snap"];
  }
  // the provider goes away (Shutdown): nothing more may be exported
  span = nostd::shared_ptr<api::Span>();
  rig.tracer = nostd::shared_ptr<api::Tracer>();
  rig.provider.reset();
  if (ok)
  {
    for (size_t p = 0; p < procs.size(); ++p)
      if (rig.sinks[p]->size() != 1)
      {
        j = steps.size();
        fail("processor " + std::to_string(p + 1) + ": " + std::to_string(rig.sinks[p]->size()) +
                 " span(s) exported in total after provider shutdown, expected 1",
             json::object());
        break;
      }
  }
  return ok;
}

static int cmd_replay(const char *path, uint64_t seed, bool verbose)
{
  std::ifstream in(path);
  std::string line;
  long n = 0, nsteps = 0, bad = 0;
  while (std::getline(in, line))
  {
    if (line.empty())
      continue;
    json b = json::parse(line);
    Problem pb;
    ++n;
    long id = b["id"];
    if (verbose)
      std::cout << json{{"at", id}}.dump() << std::endl;
    if (!run_behaviour(b["steps"], seed * 1000003 + (uint64_t)id, pb, nsteps))
    {
      ++bad;
      std::cout << json{{"beh", id}, {"kind", pb.kind}, {"dev", pb.dev}, {"what", pb.what}, {"got", pb.got}}.dump() << "\n";
    }
  }
  std::cout << json{{"summary", true}, {"behaviours", n}, {"steps", nsteps}, {"problems", bad}, {"pool", POOL().size()},
                    {"value_alternatives_used", used_types()}, {"pool_entries_used", used_labels().size()}}.dump()
            << std::endl;
  return 0;
}

// ---- record: random histories on the real span, logged in the vocabulary of SpanLifecycleTrace.tla ----
// reverse projection of what an exporter received to abstract ids (0 = absent, 999 = not in the table)
static json project(const json &got, const Table &t, const Rig &rig, int nkeys, int nvals, int res, int scope)
{
  auto name_id = [&](const json &h) {
    for (size_t i = 0; i < t.names.size(); ++i)
      if (json(hexs(t.names[i])) == h)
        return (int)i + 1;
    return 999;
  };
  auto val_id = [&](const json &c) {
    for (int v = 1; v <= nvals; ++v)
      if (*t.val_canon[(size_t)v - 1] == c)
        return v;
    return 999;
  };
  auto attrs = [&](const json &o, int &extra) {
    json a = json::array();
    size_t found = 0;
    for (int k = 1; k <= nkeys; ++k)
    {
      auto it = o.find(hexs(t.key(k)));
      if (it == o.end())
        a.push_back(0);
      else
      {
        a.push_back(val_id(*it));
        ++found;
      }
    }
    extra += (int)(o.size() - found);
    return a;
  };
  auto sys_rank = [&](long long ns) {
    for (int r = 1; r <= 9; ++r)
      if (t.sys(r) == ns)
        return r;
    return 999;
  };
  int extra = 0;
  json o;
  o["name"]  = name_id(got["name"]);
  int kind   = 999;
  for (size_t i = 0; i < t.kinds.size(); ++i)
    if (t.kinds[i] == got["kind"].get<int>())
      kind = (int)i + 1;
  o["kind"]  = kind;
  o["attrs"] = attrs(got["attrs"], extra);
  json ev    = json::array();
  for (auto &e : got["events"])
    ev.push_back(json{{"name", name_id(e["name"])}, {"ts", sys_rank(e["ts"].get<long long>())}, {"attrs", attrs(e["attrs"], extra)}});
  o["events"] = ev;
  json ln     = json::array();
  for (auto &l : got["links"])
  {
    int c = 999;
    for (size_t i = 0; i < t.ctxs.size(); ++i)
    {
      json x     = link_ctx_json(t.ctxs[i]);
      x["attrs"] = l["attrs"];
      if (x == l)
        c = (int)i + 1;
    }
    ln.push_back(json{{"ctx", c}, {"attrs", attrs(l["attrs"], extra)}});
  }
  o["links"] = ln;
  static const char *CN[] = {"Unset", "Ok", "Error"};
  int code   = got["status"]["code"].get<int>();
  int desc   = 999;
  for (size_t i = 0; i < t.descs.size(); ++i)
    if (json(hexs(t.descs[i])) == got["status"]["desc"])
      desc = (int)i;
  o["status"]   = json{{"code", code >= 0 && code <= 2 ? CN[code] : "?"}, {"desc", desc}};
  o["startSys"] = sys_rank(got["start"].get<long long>());
  long long d   = got["dur"].get<long long>();
  o["dur"]      = (d >= 0 && d % 1000000 == 0 && d / 1000000 < 90) ? (int)(d / 1000000) : 999;
  o["durNonNeg"] = d >= 0;
  o["res"]      = got["res"] == rig.res_expected ? res : 999;
  o["scope"]    = got["scope"] == rig.scope_expected ? scope : 999;
  o["extra"]    = extra;
  return o;
}

static int cmd_record(long nprog, uint64_t seed, const std::string &pk, int minops, int maxops, int nkeys, int nvals)
{
  std::vector<std::string> procs;
  for (char c : pk)
    procs.push_back(c == 's' ? "simple" : "batch");
  {
    Table probe(1, true);
    if ((size_t)nvals > probe.vperm.size())
    {
      std::cerr << "record: at most " << probe.vperm.size() << " distinguishable values" << std::endl;
      return 2;
    }
  }
  for (long pi = 0; pi < nprog; ++pi)
  {
    Table t(seed * 104729 + (uint64_t)pi, true);
    std::mt19937_64 &g = t.rng;
    int res = 1 + (int)(g() % 2), scope = 1 + (int)(g() % 3);
    Rig rig(procs, res, scope, g);
    std::cout << "{\"e\":\"Cfg\",\"prog\":" << pi << ",\"procs\":\"" << pk << "\"}\n";
    auto kvseq = [&](int maxn) {
      json a = json::array();
      int n  = (int)(g() % (uint64_t)(maxn + 1));
      for (int i = 0; i < n; ++i)
        a.push_back(json{{"k", 1 + (int)(g() % (uint64_t)(g() % 3 ? nkeys : 3))}, {"v", 1 + (int)(g() % (uint64_t)nvals)}});
      return a;
    };
    auto observe_all = [&](json &ev) {
      json cnt = json::array(), got = json::array();
      for (size_t p = 0; p < procs.size(); ++p)
      {
        std::lock_guard<std::mutex> gl(rig.sinks[p]->m);
        cnt.push_back(rig.sinks[p]->spans.size());
        got.push_back(rig.sinks[p]->spans.empty()
                          ? json::array()
                          : json::array({project(rig.sinks[p]->spans[0], t, rig, nkeys, nvals, res, scope)}));
      }
      ev["cnt"] = cnt;
      ev["got"] = got;
    };
    json st{{"op", "start"}, {"name", 1 + (int)(g() % 6)}, {"kind", 1 + (int)(g() % 5)}, {"attrs", kvseq(6)},
            {"ss", (int)(g() % 3)}, {"st", (int)(g() % 2)}, {"res", res}, {"scope", scope}};
    json links = json::array();
    for (int i = (int)(g() % 3); i > 0; --i)
      links.push_back(json{{"ctx", 1 + (int)(g() % 4)}, {"attrs", kvseq(3)}});
    st["links"] = links;
    nostd::shared_ptr<api::Span> span = do_start(st, t, rig);
    st["e"]   = "start";
    st["rec"] = span->IsRecording();
    observe_all(st);
    std::cout << st.dump() << "\n";
    int nops = minops + (int)(g() % (uint64_t)(maxops - minops + 1));
    int end_at = (int)(g() % (uint64_t)(nops + nops / 3 + 1));   // sometimes never ended explicitly
    bool held = true;
    for (int k = 0; k < nops && held; ++k)
    {
      json ev;
      uint64_t r = g() % 100;
      if (k == end_at)
        ev = json{{"op", "end"}, {"et", (g() % 2) ? 0 : 2 + (int)(g() % 2)}};
      else if (r < 45)
        ev = json{{"op", "set"}, {"k", 1 + (int)(g() % (uint64_t)nkeys)}, {"v", 1 + (int)(g() % (uint64_t)nvals)}};
      else if (r < 65)
      {
        int ovl = 1 + (int)(g() % 4);
        ev = json{{"op", "event"}, {"name", 1 + (int)(g() % 6)}, {"ovl", ovl},
                  {"ts", (ovl == 2 || ovl == 4) ? 1 + (int)(g() % 3) : 0},
                  {"attrs", (ovl >= 3) ? kvseq(4) : json::array()}};
      }
      else if (r < 77)
      {
        static const char *C[] = {"Unset", "Ok", "Error"};
        ev = json{{"op", "status"}, {"code", C[g() % 3]}, {"desc", (int)(g() % 3)}};
      }
      else if (r < 87)
        ev = json{{"op", "name"}, {"name", 1 + (int)(g() % 6)}};
      else if (r < 92)
        ev = json{{"op", "end"}, {"et", (g() % 2) ? 0 : 2 + (int)(g() % 2)}};
      else if (r < 98)
        ev = json{{"op", "flush"}};
      else
      {
        ev   = json{{"op", "release"}};
        held = false;
      }
      do_op(ev, t, span, rig);
      ev["e"] = ev["op"];
      if (span)
        ev["rec"] = span->IsRecording();
      observe_all(ev);
      std::cout << ev.dump() << "\n";
    }
    json fin{{"op", "finish"}};
    do_op(fin, t, span, rig);
    rig.tracer = nostd::shared_ptr<api::Tracer>();
    rig.provider.reset();   // Shutdown: the final observation is taken after everything is gone
    fin["e"] = "finish";
    {
      json cnt = json::array(), got = json::array();
      for (size_t p = 0; p < procs.size(); ++p)
      {
        cnt.push_back(rig.sinks[p]->spans.size());
        // rig.res_expected / scope_expected were captured before; projection needs them only
        got.push_back(rig.sinks[p]->spans.empty()
                          ? json::array()
                          : json::array({project(rig.sinks[p]->spans[0], t, rig, nkeys, nvals, res, scope)}));
      }
      fin["cnt"] = cnt;
      fin["got"] = got;
    }
    std::cout << fin.dump() << "\n";
  }
  std::cout.flush();
  return 0;
}

#ifndef C04_NO_MAIN
int main(int argc, char **argv)
{
  if (argc >= 4 && std::string(argv[1]) == "replay")
    return cmd_replay(argv[2], std::stoull(argv[3]), argc >= 5);
  if (argc >= 9 && std::string(argv[1]) == "record")
    return cmd_record(std::stol(argv[2]), std::stoull(argv[3]), argv[4], std::stoi(argv[5]), std::stoi(argv[6]),
                      std::stoi(argv[7]), std::stoi(argv[8]));
  std::cerr << "usage: c04_span replay <file> <seed> [verbose] | record <n> <seed> <procs> <minops> <maxops> <nkeys> <nvals>"
            << std::endl;
  return 2;
}
#endif
