// Shared pieces of the propagation replayers (C09 W3C trace context, C16 B3 / Jaeger).
//
//  * Carrier: a TextMapCarrier whose Get() returns NON-NUL-terminated string_views into heap
//    buffers (a fresh buffer per call).  Rotating per concretisation (Adversary): the buffer has
//    exactly the value's size, so that AddressSanitizer sees any read beyond the value (an
//    absent/empty value is a zero-length view at the END of a heap block); or the value is followed,
//    inside the buffer, by adversarial bytes ('1', hex digits, separators) with / without a final NUL,
//    so that reading on to a terminator yields a WRONG RESULT that the comparison catches without a
//    sanitizer.  All buffers are scribbled over and freed (Release) right after the propagator
//    returned and BEFORE the result is looked at.
//  * forked_loop: the cases run in a forked child; when the code under test crashes (sanitizer
//    report, signal) the crash is reported with the concrete input and a new child goes on with
//    the next case - a crash never hides the other cases and never breaks the check.
//  * Rng: splitmix64, seeded from (VERIF_SEED, case id, instance) - concretisation is deterministic.
//  * Observation of a context through the public API only (trace::GetSpan, Context::GetValue).
//  * The digit tables kLower/kUpper are where "lower-case hex" lives: expectations arrive as digit
//    indices and are turned into bytes here, then compared byte for byte.
#pragma once
#include <algorithm>
#include <array>
#include <csignal>
#include <cstdint>
#include <cstdio>
#include <cstdlib>
#include <cstring>
#include <fstream>
#include <iostream>
#include <string>
#include <utility>
#include <vector>
#include <cerrno>
#include <sys/mman.h>
#include <sys/wait.h>
#include <unistd.h>

#include <nlohmann/json.hpp>

#include "opentelemetry/context/context.h"
#include "opentelemetry/context/propagation/text_map_propagator.h"
#include "opentelemetry/trace/context.h"
#include "opentelemetry/trace/default_span.h"
#include "opentelemetry/trace/span_context.h"
#include "opentelemetry/trace/trace_state.h"

extern "C" void __sanitizer_set_death_callback(void (*)(void));
extern "C" int __lsan_do_recoverable_leak_check(void);

namespace vh
{
namespace otel = opentelemetry;
using json     = nlohmann::json;

static const char kLower[] = "0123456789abcdef";
static const char kUpper[] = "0123456789ABCDEF";

struct Rng
{
  uint64_t s;
  explicit Rng(uint64_t seed) : s(seed) {}
  uint64_t next()
  {
    uint64_t z = (s += 0x9E3779B97F4A7C15ull);
    z          = (z ^ (z >> 30)) * 0xBF58476D1CE4E5B9ull;
    z          = (z ^ (z >> 27)) * 0x94D049BB133111EBull;
    return z ^ (z >> 31);
  }
  uint32_t below(uint32_t n) { return n ? uint32_t(next() % n) : 0; }
  uint32_t range(uint32_t lo, uint32_t hi) { return lo + below(hi - lo + 1); }  // inclusive
  bool coin() { return next() & 1; }
  template <class T>
  const T &pick(const std::vector<T> &v)
  {
    return v[below(uint32_t(v.size()))];
  }
  char pick(const std::string &v) { return v[below(uint32_t(v.size()))]; }
};
inline uint64_t mix(uint64_t seed, uint64_t id, uint64_t inst)
{
  Rng r(seed * 0x100000001B3ull ^ (id + 1) * 0x9E3779B97F4A7C15ull ^ (inst + 1) * 0xC2B2AE3D27D4EB4Full);
  r.next();
  return r.next();
}

// printable rendering of arbitrary bytes for reports (pure ASCII, safe inside JSON strings)
inline std::string esc(const std::string &s)
{
  std::string o;
  char b[8];
  for (unsigned char c : s)
  {
    if (c >= 0x20 && c < 0x7f && c != '\\' && c != '"')
      o += char(c);
    else
    {
      snprintf(b, sizeof b, "\\x%02x", c);
      o += b;
    }
  }
  return o;
}
inline std::string hexstr(const uint8_t *p, size_t n)
{
  std::string o;
  for (size_t i = 0; i < n; ++i)
  {
    o += kLower[p[i] >> 4];
    o += kLower[p[i] & 15];
  }
  return o;
}
inline std::string lower(std::string s)
{
  for (auto &c : s)
    if (c >= 'A' && c <= 'Z')
      c = char(c - 'A' + 'a');
  return s;
}

// What lies right behind a view handed out by Carrier::Get (set per concretisation by the replay loop):
//   0  nothing: the heap buffer has exactly the value's size (AddressSanitizer sees any over-read)
//   1  a few adversarial bytes ('1', hex digits, separators ...) and then a NUL, inside the same buffer:
//      code that reads on to a terminator (strlen, atoi, C-string regex ...) gets a WRONG RESULT here, which
//      the comparison with the spec's expectation catches even without a sanitizer
//   2  adversarial bytes and no NUL: the over-read runs through them into the redzone
struct Adversary
{
  unsigned mode = 0;
  uint64_t seed = 0;
};
inline Adversary &adversary()
{
  static Adversary a;
  return a;
}

class Carrier : public otel::context::propagation::TextMapCarrier
{
public:
  Carrier() : mode_(adversary().mode), lcg_(adversary().seed | 1) {}
  ~Carrier() override { Release(); }
  // test side
  void Put(const std::string &key, const std::string &bytes) { vals_.emplace_back(lower(key), bytes); }
  const std::string *Written(const std::string &key) const
  {
    const std::string *r = nullptr;
    for (auto &kv : sets_)
      if (kv.first == lower(key))
        r = &kv.second;
    return r;
  }
  const std::vector<std::pair<std::string, std::string>> &Sets() const { return sets_; }
  size_t gets = 0;

  otel::nostd::string_view Get(otel::nostd::string_view key) const noexcept override
  {
    ++const_cast<Carrier *>(this)->gets;
    std::string k = lower(std::string(key.data(), key.size()));
    const std::string *v = nullptr;
    for (auto &kv : vals_)
      if (kv.first == k)
        v = &kv.second;
    size_t n = v ? v->size() : 0;
    if (mode_ == 0)
    {
      if (n == 0)
      {
        // absent / empty: a zero-length view at the END of a heap block
        size_t pad = 1 + (gets % 7);
        char *p    = static_cast<char *>(malloc(pad));
        memset(p, 'Z', pad);
        bufs_.emplace_back(p, pad);
        return otel::nostd::string_view(p + pad, 0);
      }
      char *p = static_cast<char *>(malloc(n));
      memcpy(p, v->data(), n);
      bufs_.emplace_back(p, n);
      return otel::nostd::string_view(p, n);
    }
    // the value, then adversarial bytes, then (mode 1) a NUL - all inside one buffer
    static const char kTail[] = "1d0af7-:1,=10 e9-1";
    size_t t     = 1 + next() % 6;
    size_t total = n + t + (mode_ == 1 ? 1 : 0);
    char *p      = static_cast<char *>(malloc(total));
    if (n)
      memcpy(p, v->data(), n);
    for (size_t i = 0; i < t; ++i)
      p[n + i] = kTail[next() % (sizeof(kTail) - 1)];
    if (mode_ == 1)
      p[n + t] = '\0';
    bufs_.emplace_back(p, total);
    return otel::nostd::string_view(p, n);
  }
  void Set(otel::nostd::string_view key, otel::nostd::string_view value) noexcept override
  {
    sets_.emplace_back(lower(std::string(key.data(), key.size())), std::string(value.data(), value.size()));
  }
  // scribble over and free everything Get() handed out
  void Release()
  {
    for (auto &b : bufs_)
    {
      memset(b.first, 0xDD, b.second);
      free(b.first);
    }
    bufs_.clear();
  }

private:
  uint64_t next() const
  {
    lcg_ = lcg_ * 6364136223846793005ull + 1442695040888963407ull;
    return lcg_ >> 33;
  }
  unsigned mode_;
  mutable uint64_t lcg_;
  std::vector<std::pair<std::string, std::string>> vals_;
  std::vector<std::pair<std::string, std::string>> sets_;
  mutable std::vector<std::pair<char *, size_t>> bufs_;
};

// ---- byte classes: the concretisation of every "bad byte" class ---------------------------------------
// A bad byte is drawn UNIFORMLY from all byte values of its class (never from a hand-picked list), and in
// sweep mode (cases marked "sweep" by the check) the harness enumerates EVERY byte value of the class at
// every position of the field instead of drawing.  The expected outcome still is the spec's for the class.
enum ByteClass
{
  BC_NONHEX,     // at a hex-digit position: any byte that is neither a hex digit nor the separator
  BC_NOTSEP,     // at a separator position: any byte but the separator
  BC_JUNK,       // next to the header: neither white space, nor hex digit, nor '-'
  BC_PRINTJUNK,  // BC_JUNK and printable (0x21..0x7e)
  BC_WEIRD       // behind "-" of a higher version: anything but lower-case hex and '-'
};
inline bool is_hex(unsigned b)
{
  return (b >= '0' && b <= '9') || (b >= 'a' && b <= 'f') || (b >= 'A' && b <= 'F');
}
inline bool is_ws(unsigned b)
{
  return b == ' ' || (b >= 0x09 && b <= 0x0d);
}
inline bool in_class(ByteClass c, unsigned b, int sep)
{
  switch (c)
  {
    case BC_NONHEX:
      return !is_hex(b) && int(b) != sep;
    case BC_NOTSEP:
      return int(b) != sep;
    case BC_JUNK:
      return !is_ws(b) && !is_hex(b) && b != '-';
    case BC_PRINTJUNK:
      return b >= 0x21 && b <= 0x7e && !is_hex(b) && b != '-';
    case BC_WEIRD:
      return !((b >= '0' && b <= '9') || (b >= 'a' && b <= 'f') || b == '-');
  }
  return false;
}
struct Sweep
{
  bool on       = false;
  unsigned byte = 0, pos = 0;
  unsigned used = 0;  // how many bad-byte sites consumed the sweep byte in this concretisation
};
inline Sweep &sweep()
{
  static Sweep s;
  return s;
}
inline unsigned char bad_byte(Rng &r, ByteClass c, int sep = '-')
{
  if (sweep().on)
  {
    ++sweep().used;
    return (unsigned char)sweep().byte;
  }
  unsigned b;
  do
    b = unsigned(r.next() & 255);
  while (!in_class(c, b, sep));
  return (unsigned char)b;
}
inline size_t bad_pos(Rng &r, size_t n)
{
  return sweep().on ? sweep().pos % n : r.below(uint32_t(n));
}
// number of bad bytes to place: exactly one when sweeping
inline uint32_t bad_count(Rng &r, uint32_t max)
{
  return sweep().on ? 1 : 1 + r.below(max);
}

// ---- abstract id classes -> bytes ------------------------------------------------------------
inline void fill_random_nonzero(Rng &r, uint8_t *p, size_t n)
{
  do
  {
    for (size_t i = 0; i < n; ++i)
      p[i] = uint8_t(r.next());
  } while (std::all_of(p, p + n, [](uint8_t b) { return b == 0; }));
}
// inject-side classes: rand | hi64zero | lo64zero | one | max | zero
inline void make_id(Rng &r, const std::string &cls, uint8_t *p, size_t n)
{
  memset(p, 0, n);
  if (cls == "rand")
    fill_random_nonzero(r, p, n);
  else if (cls == "hi64zero")
    fill_random_nonzero(r, p + n / 2, n / 2);
  else if (cls == "lo64zero")
    fill_random_nonzero(r, p, n / 2);
  else if (cls == "one")
    p[n - 1] = 1;
  else if (cls == "max")
    memset(p, 0xff, n);
  else if (cls == "zero")
    ;
  else
  {
    fprintf(stderr, "harness: unknown id class %s\n", cls.c_str());
    exit(9);
  }
}
// extract-side class "ok": any non-zero value; a few shapes
inline void make_ok_id(Rng &r, uint8_t *p, size_t n)
{
  memset(p, 0, n);
  switch (r.below(7))
  {
    case 0:
      fill_random_nonzero(r, p + n / 2, n / 2);
      break;
    case 1:
      p[r.below(uint32_t(n))] = uint8_t(1u << r.below(8));
      break;
    case 2:
      memset(p, 0xff, n);
      break;
    case 3:
      fill_random_nonzero(r, p, n / 2);
      break;
    default:
      fill_random_nonzero(r, p, n);
  }
}

// ---- simple valid trace states ------------------------------------------------------------------
typedef std::vector<std::pair<std::string, std::string>> Entries;
inline Entries make_ts(Rng &r, const std::string &cls)
{
  size_t n = cls == "none" ? 0 : cls == "one" ? 1 : cls == "two" ? 2 : cls == "three" ? 3 : cls == "full32" ? 32 : 99;
  if (n == 99)
  {
    fprintf(stderr, "harness: unknown trace-state class %s\n", cls.c_str());
    exit(9);
  }
  static const std::string k0 = "abcdefghijklmnopqrstuvwxyz", k1 = "abcdefghijklmnopqrstuvwxyz0123456789",
                           v1 = "abcdefghijklmnopqrstuvwxyzABCDEFGHIJKLMNOPQRSTUVWXYZ0123456789";
  Entries e;
  for (size_t i = 0; i < n; ++i)
  {
    std::string k(1, r.pick(k0));
    k += std::to_string(i);  // distinct keys
    for (uint32_t j = r.below(5); j > 0; --j)
      k += r.pick(k1);
    std::string v;
    for (uint32_t j = r.range(1, 8); j > 0; --j)
      v += r.pick(v1);
    e.emplace_back(k, v);
  }
  return e;
}
inline std::string ts_header(const Entries &e)
{
  std::string h;
  for (auto &kv : e)
  {
    if (!h.empty())
      h += ",";
    h += kv.first + "=" + kv.second;
  }
  return h;
}

// ---- contexts ---------------------------------------------------------------------------------------
static const char kMarkerKey[] = "verif.marker";

struct Caller
{
  otel::context::Context ctx;
  otel::nostd::shared_ptr<otel::trace::Span> span;  // null: the caller's context has no span
  int64_t marker = 0;
  bool has_marker = false;
};
// variant 0: empty context; 1: marker only; 2: marker + a valid local span with ids of its own
inline Caller make_caller(Rng &r, int variant)
{
  Caller c;
  if (variant >= 1)
  {
    c.marker     = int64_t(r.next() >> 1);
    c.has_marker = true;
    c.ctx        = c.ctx.SetValue(kMarkerKey, c.marker);
  }
  if (variant >= 2)
  {
    uint8_t t[16], s[8];
    fill_random_nonzero(r, t, 16);
    fill_random_nonzero(r, s, 8);
    otel::trace::SpanContext sc(otel::trace::TraceId(t), otel::trace::SpanId(s), otel::trace::TraceFlags(uint8_t(r.next())),
                                false);
    c.span = otel::nostd::shared_ptr<otel::trace::Span>(new otel::trace::DefaultSpan(sc));
    c.ctx  = otel::trace::SetSpan(c.ctx, c.span);
  }
  return c;
}

struct Obs
{
  // "unchanged": span entry and marker as in the caller's context; "valid": another span whose context
  // IsValid(); "invalid": another span with an INVALID context was installed; "damaged": marker lost
  std::string kind;
  bool remote = false, sampled = false;
  uint8_t tid[16] = {0}, sid[8] = {0}, flags = 0;
  Entries ts;
  json to_json() const
  {
    json j = {{"kind", kind}};
    if (kind == "valid" || kind == "invalid")
    {
      j["remote"] = remote;
      j["tid"]    = hexstr(tid, 16);
      j["sid"]    = hexstr(sid, 8);
      j["flags"]  = flags;
      j["ts"]     = ts_header(ts);
    }
    return j;
  }
};

inline bool same_span_entry(const otel::context::Context &c, const Caller &caller)
{
  auto v = c.GetValue(otel::trace::kSpanKey);
  if (!caller.span)
    return otel::nostd::holds_alternative<otel::nostd::monostate>(v);
  return otel::nostd::holds_alternative<otel::nostd::shared_ptr<otel::trace::Span>>(v) &&
         otel::nostd::get<otel::nostd::shared_ptr<otel::trace::Span>>(v).get() == caller.span.get();
}
inline bool marker_ok(const otel::context::Context &c, const Caller &caller)
{
  auto v = c.GetValue(kMarkerKey);
  if (!caller.has_marker)
    return otel::nostd::holds_alternative<otel::nostd::monostate>(v);
  return otel::nostd::holds_alternative<int64_t>(v) && otel::nostd::get<int64_t>(v) == caller.marker;
}
inline Obs observe(const otel::context::Context &out, const Caller &caller)
{
  Obs o;
  // the caller's own context object must be what it was, whatever came back
  if (!same_span_entry(caller.ctx, caller) || !marker_ok(caller.ctx, caller))
  {
    o.kind = "caller-context-modified";
    return o;
  }
  if (same_span_entry(out, caller))
  {
    o.kind = marker_ok(out, caller) ? "unchanged" : "damaged";
    return o;
  }
  auto span = otel::trace::GetSpan(out);
  auto sc   = span->GetContext();
  o.kind    = sc.IsValid() ? "valid" : "invalid";
  o.remote  = sc.IsRemote();
  o.sampled = sc.IsSampled();
  o.flags   = sc.trace_flags().flags();
  sc.trace_id().CopyBytesTo(otel::nostd::span<uint8_t, 16>(o.tid, 16));
  sc.span_id().CopyBytesTo(otel::nostd::span<uint8_t, 8>(o.sid, 8));
  auto ts = sc.trace_state();
  if (ts)
    ts->GetAllEntries([&o](otel::nostd::string_view k, otel::nostd::string_view v) {
      o.ts.emplace_back(std::string(k.data(), k.size()), std::string(v.data(), v.size()));
      return true;
    });
  return o;
}

// ---- crash reporting: say which concrete case was running ---------------------------------------
inline std::string &current_case()
{
  static std::string s;
  return s;
}
struct SharedProgress
{
  volatile long idx;       // item the child is working on
  volatile int reported;   // the child's death handler printed the crash line
};
inline SharedProgress *&progress()
{
  static SharedProgress *p = nullptr;
  return p;
}
inline void on_death()
{
  static bool done = false;
  if (!done && !current_case().empty())
  {
    done = true;
    fputs(current_case().c_str(), stdout);
    fputs("\n", stdout);
    if (progress())
      progress()->reported = 1;
  }
  fflush(stdout);
}
inline void on_signal(int)
{
  // not async-signal-safe, but the process is going down anyway and is single-threaded
  on_death();
  _exit(4);
}
// The check runs the harness with abort_on_error=1 for ASan and UBSan (gcc links two copies of the
// sanitizer runtime, so the death callback alone would miss UBSan): every sanitizer report ends in
// SIGABRT, and the handler says which concrete case was running.
inline void install_death_callback()
{
  __sanitizer_set_death_callback(on_death);
  for (int sig : {SIGABRT, SIGSEGV, SIGBUS, SIGFPE, SIGILL})
    signal(sig, on_signal);
}
// Runs body(i) for i in [0, n) in a forked child.  If the child dies (the code under test crashed on
// item i: the death handler has printed {"id", "v":"crash", "concrete"}), the parent - which never runs
// the code under test - forks a new child that goes on with item i + 1.  After max_crashes crashes the
// rest is skipped and counted ({"skipped": k}).  id_of(i) names item i if the child could not.
template <class Body, class IdOf>
inline int forked_loop(size_t n, Body body, IdOf id_of, size_t max_crashes = 24)
{
  progress() = static_cast<SharedProgress *>(
      mmap(nullptr, sizeof(SharedProgress), PROT_READ | PROT_WRITE, MAP_SHARED | MAP_ANONYMOUS, -1, 0));
  if (progress() == MAP_FAILED)
  {
    perror("harness: mmap");
    return 9;
  }
  size_t start = 0, crashes = 0;
  while (start < n)
  {
    fflush(stdout);
    fflush(stderr);
    progress()->idx      = long(start);
    progress()->reported = 0;
    pid_t pid            = fork();
    if (pid < 0)
    {
      perror("harness: fork");
      return 9;
    }
    if (pid == 0)
    {
      for (size_t i = start; i < n; ++i)
      {
        progress()->idx = long(i);
        body(i);
      }
      current_case().clear();
      fflush(stdout);
      int leaks = __lsan_do_recoverable_leak_check();
      fflush(stderr);
      _exit(leaks ? 5 : 0);
    }
    int st = 0;
    while (waitpid(pid, &st, 0) < 0 && errno == EINTR)
      ;
    if (WIFEXITED(st) && WEXITSTATUS(st) == 0)
      break;
    if (WIFEXITED(st) && WEXITSTATUS(st) == 9)
      return 9;  // the harness itself gave up (unknown class ...)
    if (WIFEXITED(st) && WEXITSTATUS(st) == 5)
    {
      json j = {{"id", -1}, {"v", "crash"}, {"concrete", "LeakSanitizer: memory leaked while running the cases (see stderr)"}};
      std::cout << j.dump() << std::endl;
      break;
    }
    size_t at = size_t(progress()->idx);
    if (!progress()->reported)
    {
      json j = {{"id", id_of(at)}, {"v", "crash"}, {"concrete", nullptr}, {"status", st}};
      std::cout << j.dump() << std::endl;
    }
    ++crashes;
    start = at + 1;
    if (crashes >= max_crashes && start < n)
    {
      json j = {{"skipped", n - start}, {"after_crashes", crashes}};
      std::cout << j.dump() << std::endl;
      break;
    }
  }
  return 0;
}
inline void set_current(long id, int inst, const json &concrete)
{
  json j           = {{"id", id}, {"inst", inst}, {"v", "crash"}, {"concrete", concrete}};
  current_case()   = j.dump();
}

// read cases (one JSON object per line)
inline std::vector<json> read_cases(const char *path)
{
  std::vector<json> v;
  std::ifstream f(path);
  if (!f)
  {
    fprintf(stderr, "harness: cannot open %s\n", path);
    exit(9);
  }
  std::string ln;
  while (std::getline(f, ln))
    if (!ln.empty())
      v.push_back(json::parse(ln));
  return v;
}
// ---- the replay loop shared by the replayers ---------------------------------------------------------------
// One result line per case.  A case is concretised n times (seeded), or - when it carries "sweep" - once for
// every byte value of its single bad-byte class at every position of the field ("rot": one position per
// byte value, rotating with the seed).
typedef json (*RunFn)(long id, int inst, const json &cs, Rng &r);
typedef bool (*SiteFn)(const json &cs, ByteClass &cls, unsigned &npos, int &sep, std::string &name);
inline int replay_cases(const char *path, uint64_t seed, int n, RunFn run_rt, RunFn run_x, SiteFn sweep_site)
{
  auto cases = read_cases(path);
  int rc     = forked_loop(cases.size(), [&](size_t ci) {
    const json &cs = cases[ci];
    long id      = cs["id"].get<long>();
    long seed_id = cs.value("seed_id", id);  // a canary is concretised exactly like the case it was copied from
    bool rt      = cs["k"] == "rt";
    json out     = {{"id", id}, {"v", "ok"}, {"n", n}};
    int valid = 0, unchanged = 0, devs = 0;
    // the list of concretisations: n seeded instances, or the sweep of one byte class
    std::vector<std::array<unsigned, 3>> runs;  // {instance, sweep byte, sweep position}; byte 256 = no sweep
    if (cs.contains("sweep"))
    {
      ByteClass cls;
      unsigned npos;
      int sep;
      std::string name;
      if (!sweep_site(cs, cls, npos, sep, name))
      {
        fprintf(stderr, "harness: sweep case %ld has no single bad-byte site\n", id);
        exit(9);
      }
      bool full = cs["sweep"] == "full";
      unsigned bytes = 0;
      for (unsigned b = 0; b < 256; ++b)
      {
        if (!in_class(cls, b, sep))
          continue;
        ++bytes;
        for (unsigned p = 0; p < npos; ++p)
          if (full || p == (b + unsigned(seed) + unsigned(seed_id)) % npos)
            runs.push_back({unsigned(runs.size()), b, p});
      }
      out["sweep"] = {{"site", name}, {"bytes", bytes}, {"positions", npos}, {"runs", runs.size()}};
    }
    else
      for (int inst = 0; inst < n; ++inst)
        runs.push_back({unsigned(inst), 256u, 0u});
    out["n"] = runs.size();
    for (auto &run : runs)
    {
      int inst      = int(run[0]);
      sweep()       = Sweep();
      sweep().on    = run[1] < 256;
      sweep().byte  = run[1];
      sweep().pos   = run[2];
      Rng r(mix(seed, uint64_t(seed_id), uint64_t(inst)));
      adversary().mode = unsigned((uint64_t(inst) + uint64_t(seed_id)) % 3);
      adversary().seed = r.next();
      json res = rt ? run_rt(id, inst, cs, r) : run_x(id, inst, cs, r);
      if (sweep().on && sweep().used != 1)
      {
        fprintf(stderr, "harness: sweep byte used %u times in case %ld\n", sweep().used, id);
        exit(9);
      }
      if (res.value("kind", "") == "valid")
        ++valid;
      if (res.value("kind", "") == "unchanged")
        ++unchanged;
      if (!res["ok"].get<bool>())
      {
        out["v"]    = "bad";
        out["inst"] = inst;
        out["res"]  = res;
        break;
      }
      if (res.value("dev", false))
      {
        if (devs++ == 0)
        {
          out["v"]   = "dev";
          out["res"] = res;
        }
      }
      else if (res.contains("concrete") && !out.contains("res"))
        out["res"] = res;
    }
    sweep()          = Sweep();
    out["valid"]     = valid;
    out["unchanged"] = unchanged;
    std::cout << out.dump() << std::endl;
  }, [&](size_t ci) { return cases[ci]["id"].get<long>(); });
  if (rc != 0)
    return rc;
  std::cout << "{\"done\":" << cases.size() << "}" << std::endl;
  return 0;
}
}  // namespace vh
