// C09 replayer / recorder for the real HttpTraceContext (ASan + UBSan build against /repo's sources).
//
//   c09_w3c replay <cases.ndjson> <seed> <n>
//       every line is one (abstract input, expected outcome) pair printed by TLC from
//       spec/TraceContextHeader.tla (plus "id").  Each is concretised n times (seeded), run through
//       the real propagator, and the observable result is compared with TLC's expectation.
//       One result line per case: {"id","v":"ok"|"dev"|"bad", ...}.
//   c09_w3c record <seed> <n>
//       code -> spec: n random executions (byte-level mutations of valid headers; random contexts),
//       logged as one ndjson event each, every byte abstracted to a token of the spec's token
//       vocabulary, for validation by spec/TraceContextHeaderTrace.tla.
//
// Concretisation table (abstract class -> bytes), all choices seeded:
//   tid/sid  ok: non-zero random | only low half | one bit | all ff | only high half;  zero: all '0';
//            short: 1..n-1 hex digits; long: n+1..n+24; nonhex: n chars, 1..3 of them ANY byte that is
//            neither a hex digit nor '-' (uniform over all 233 values); empty
//   ver      00 | hi: a byte 01..fe | ff | v1: 1 digit | v3: 3 digits | vx: 2 chars, >=1 non-hex | v0: ""
//   fl       hex2: the given byte | f1 | f3 | fx | f0   (as for ver)
//   tail     none | dash "-" | dashext "-"+[0-9a-f-]{1,24} | dashweird "-"+ bytes with >=1 outside [0-9a-f-]
//            | nodash: a printable non-hex, non-'-' byte + up to 4 more | junk: 1..3 bytes that are neither
//            white space nor hex nor '-' (uniform over all 227 values)
//   lead/trail  ows: 1..3 of SP HT | otherws: CR LF VT FF (>=1, mixed with SP HT) | junk (lead): 1..2
//            bytes, neither white space nor hex nor '-' (uniform over all 227 values)
//   st       trunc3/2/1: only the first 3/2/1 fields | blank | sepbad: one '-' replaced by any other byte | sepdup: one
//            '-' doubled | cut: the core cut to 1..54 bytes
//   cs       lower | upper | mixed (>= 1 upper and 1 lower letter, forced into the trace id) |
//            flupper (only the two flag digits upper-case)
//   ts       none | one | three | full32: simple members key=value
//   caller context: empty | marker only | marker + a valid local span (rotates with the instance)
// TAIL FAMILY (k = "t"): see run_tail_case below - token-level values, all 256 byte values per replaced position.
// SWEEP: a case carrying "sweep" ("full" | "rot") has exactly one bad-byte dimension; instead of n random
// concretisations the harness enumerates EVERY byte value of that class at every position of the field
// ("rot": at one position per byte value, rotating with the seed) - see c09_carrier.h (ByteClass).
#include <algorithm>
#include <array>

#include "c09_carrier.h"
#include "opentelemetry/trace/propagation/http_trace_context.h"

using namespace vh;
namespace trace = opentelemetry::trace;
namespace ctxns = opentelemetry::context;

static const std::string kHexDash               = "0123456789abcdef-";

static std::string hexdigits(Rng &r, size_t n)
{
  std::string s;
  for (size_t i = 0; i < n; ++i)
    s += kLower[r.below(16)];
  return s;
}
static std::string two_with_nonhex(Rng &r)
{
  std::string s = hexdigits(r, 2);
  if (sweep().on || r.below(3) != 2)
    s[bad_pos(r, 2)] = char(bad_byte(r, BC_NONHEX));
  else
  {
    s[0] = char(bad_byte(r, BC_NONHEX));
    s[1] = char(bad_byte(r, BC_NONHEX));
  }
  return s;
}
// id field of n hex digits for class cls; for "ok" the value is returned in bytes
static std::string id_field(Rng &r, const std::string &cls, size_t n, uint8_t *bytes, bool force_letters)
{
  if (cls == "ok")
  {
    make_ok_id(r, bytes, n / 2);
    std::string s = hexstr(bytes, n / 2);
    if (force_letters)
    {
      // two distinct digit positions become letters (the value stays non-zero)
      size_t a = r.below(uint32_t(n)), b = (a + 1 + r.below(uint32_t(n - 1))) % n;
      s[a]     = kLower[10 + r.below(6)];
      s[b]     = kLower[10 + r.below(6)];
      for (size_t i = 0; i < n / 2; ++i)
      {
        auto hv  = [](char c) { return c <= '9' ? c - '0' : c - 'a' + 10; };
        bytes[i] = uint8_t(hv(s[2 * i]) * 16 + hv(s[2 * i + 1]));
      }
    }
    return s;
  }
  if (cls == "zero")
    return std::string(n, '0');
  if (cls == "empty")
    return "";
  if (cls == "short")
  {
    static const int k[] = {-1, -2, 0, 1};
    uint32_t c           = r.below(6);
    size_t len           = c == 0 ? n - 1 : c == 1 ? n - 2 : c == 2 ? n / 2 : c == 3 ? 1 : r.range(1, uint32_t(n - 1));
    (void)k;
    return hexdigits(r, len);
  }
  if (cls == "long")
  {
    uint32_t c = r.below(5);
    size_t len = c == 0 ? n + 1 : c == 1 ? n + 2 : c == 2 ? 2 * n : r.range(uint32_t(n + 1), uint32_t(n + 24));
    return hexdigits(r, len);
  }
  if (cls == "nonhex")
  {
    std::string s = hexdigits(r, n);
    uint32_t k    = bad_count(r, 3);
    for (uint32_t i = 0; i < k; ++i)
      s[bad_pos(r, n)] = char(bad_byte(r, BC_NONHEX));
    // make sure at least one survives (positions may coincide - they all hold non-hex bytes anyway)
    return s;
  }
  fprintf(stderr, "harness: unknown id field class %s\n", cls.c_str());
  exit(9);
}
static std::string ws_run(Rng &r, const std::string &cls, bool lead)
{
  std::string s;
  if (cls == "none")
    return s;
  if (cls == "ows")
  {
    for (uint32_t i = r.range(1, 3); i > 0; --i)
      s += r.coin() ? ' ' : '\t';
    return s;
  }
  if (cls == "otherws")
  {
    static const std::string o = "\r\n\v\f", all = "\r\n\v\f \t";
    uint32_t n                 = r.range(1, 3);
    uint32_t at                = r.below(n);
    for (uint32_t i = 0; i < n; ++i)
      s += i == at ? r.pick(o) : r.pick(all);
    return s;
  }
  if (cls == "junk" && lead)
  {
    for (uint32_t i = bad_count(r, 2); i > 0; --i)
      s += char(bad_byte(r, BC_JUNK));
    return s;
  }
  fprintf(stderr, "harness: unknown white-space class %s\n", cls.c_str());
  exit(9);
}
static void recase(std::string &s, const std::string &mode, Rng &r, int &forced)
{
  // forced: for "mixed" the first letter met becomes upper, the second lower, the rest random
  for (auto &c : s)
  {
    if (c < 'a' || c > 'f')
      continue;
    bool up = mode == "upper" ? true : mode == "mixed" ? (forced == 0 ? true : forced == 1 ? false : r.coin()) : false;
    ++forced;
    if (up)
      c = char(c - 'a' + 'A');
  }
}

struct ConcreteTP
{
  std::string bytes;
  uint8_t tid[16] = {0}, sid[8] = {0};
};
static ConcreteTP render_tp(const json &tp, Rng &r)
{
  ConcreteTP c;
  const std::string cs = tp["cs"], ver = tp["ver"], fl = tp["fl"], tail = tp["tail"], st = tp["st"];
  bool letters         = cs == "upper" || cs == "mixed";
  std::string t        = id_field(r, tp["tid"], 32, c.tid, letters);
  std::string s        = id_field(r, tp["sid"], 16, c.sid, false);
  std::string v, f, x;
  if (ver == "00")
    v = "00";
  else if (ver == "hi")
  {
    uint32_t k = r.below(4);
    uint8_t b  = k == 0 ? 1 : k == 1 ? 0xfe : uint8_t(r.range(1, 254));
    v          = hexstr(&b, 1);
  }
  else if (ver == "ff")
    v = "ff";
  else if (ver == "v1")
    v = hexdigits(r, 1);
  else if (ver == "v3")
    v = r.coin() ? "00" + hexdigits(r, 1) : hexdigits(r, 3);
  else if (ver == "vx")
    v = two_with_nonhex(r);
  else if (ver == "v0")
    v = "";
  else
    exit(9);
  if (fl == "hex2")
  {
    uint8_t b = uint8_t(tp["fb"].get<int>());
    f         = hexstr(&b, 1);
  }
  else if (fl == "f1")
    f = hexdigits(r, 1);
  else if (fl == "f3")
    f = r.coin() ? "00" + hexdigits(r, 1) : hexdigits(r, 3);
  else if (fl == "fx")
    f = two_with_nonhex(r);
  else if (fl == "f0")
    f = "";
  else
    exit(9);
  if (tail == "none")
    x = "";
  else if (tail == "dash")
    x = "-";
  else if (tail == "dashext")
  {
    x = "-";
    for (uint32_t i = r.range(1, 24); i > 0; --i)
      x += r.pick(kHexDash);
  }
  else if (tail == "dashweird")
  {
    x           = "-";
    uint32_t n  = sweep().on ? 1 + sweep().pos % 4 : r.range(1, 16);
    uint32_t at = uint32_t(bad_pos(r, n));
    for (uint32_t i = 0; i < n; ++i)
    {
      x += char(i == at ? bad_byte(r, BC_WEIRD) : (unsigned char)(r.next()));
    }
  }
  else if (tail == "nodash")
  {
    x = std::string(1, char(bad_byte(r, BC_PRINTJUNK)));
    for (uint32_t i = r.below(5); i > 0; --i)
      x += char(r.range(0x21, 0x7e));
  }
  else if (tail == "junk")
  {
    for (uint32_t i = bad_count(r, 3); i > 0; --i)
      x += char(bad_byte(r, BC_JUNK));
  }
  else
    exit(9);
  // hex-digit case
  int forced = 0;
  if (cs == "upper" || cs == "mixed")
  {
    recase(t, cs, r, forced);  // the trace id holds the forced letters
    recase(v, cs, r, forced);
    recase(s, cs, r, forced);
    recase(f, cs, r, forced);
    if (tail == "dashext" || tail == "dashweird")
      recase(x, cs, r, forced);
  }
  else if (cs == "flupper")
  {
    forced = 0;
    recase(f, "upper", r, forced);
  }
  else if (cs != "lower")
    exit(9);
  std::string core;
  if (st == "ok")
    core = v + "-" + t + "-" + s + "-" + f + x;
  else if (st == "trunc3")
    core = v + "-" + t + "-" + s;
  else if (st == "trunc2")
    core = v + "-" + t;
  else if (st == "trunc1")
    core = v;
  else if (st == "blank")
    core = "";
  else if (st == "sepbad")
  {
    std::string d[3] = {"-", "-", "-"};
    d[bad_pos(r, 3)] = std::string(1, char(bad_byte(r, BC_NOTSEP)));
    core             = v + d[0] + t + d[1] + s + d[2] + f + x;
  }
  else if (st == "sepdup")
  {
    std::string d[3] = {"-", "-", "-"};
    d[r.below(3)]    = "--";
    core             = v + d[0] + t + d[1] + s + d[2] + f + x;
  }
  else if (st == "cut")
  {
    core = v + "-" + t + "-" + s + "-" + f;
    if (core.size() <= 1)
      core = "";
    else
      core = core.substr(0, r.range(1, uint32_t(std::min<size_t>(54, core.size() - 1))));
  }
  else
    exit(9);
  c.bytes = ws_run(r, tp["lead"], true) + core + ws_run(r, tp["trail"], false);
  return c;
}

// ---- checking an Extract result against TLC's expectation ----------------------------------------------
static bool exact(const Obs &o, const uint8_t *tid, const uint8_t *sid, int flags, const Entries &ts)
{
  return o.kind == "valid" && o.remote && memcmp(o.tid, tid, 16) == 0 && memcmp(o.sid, sid, 8) == 0 &&
         o.flags == flags && o.ts == ts;
}
static bool satisfies(const json &exp, const Obs &o, const uint8_t *tid, const uint8_t *sid, const Entries &ts)
{
  const std::string k = exp["o"];
  if (k == "accept")
    return exact(o, tid, sid, exp["flags"].get<int>(), ts);
  if (k == "reject")
    return o.kind == "unchanged";
  if (k == "either")
    return o.kind == "unchanged" || exact(o, tid, sid, exp["flags"].get<int>(), ts);
  fprintf(stderr, "harness: unknown outcome %s\n", k.c_str());
  exit(9);
}

static Obs do_extract(const std::string *tp, const std::string *ts, const Caller &caller)
{
  trace::propagation::HttpTraceContext prop;
  Carrier car;
  if (tp)
    car.Put("traceparent", *tp);
  if (ts)
    car.Put("tracestate", *ts);
  ctxns::Context in = caller.ctx;
  ctxns::Context out = prop.Extract(car, in);
  car.Release();  // the carrier's memory is gone before anybody looks at the result
  Caller c2 = caller;
  c2.ctx    = in;  // what the caller holds now
  return observe(out, c2);
}

static json run_x(long id, int inst, const json &cs, Rng &r)
{
  const json &car = cs["car"], &tp = car["tp"];
  ConcreteTP c    = render_tp(tp, r);
  bool present    = tp["p"] == "present";
  Entries ts      = make_ts(r, car["ts"]);
  std::string tsh = ts_header(ts);
  Caller caller   = make_caller(r, inst % 3);
  json concrete   = {{"traceparent", present ? json(esc(c.bytes)) : json(nullptr)},
                   {"tracestate", tsh},
                   {"caller", inst % 3},
                   {"tid", hexstr(c.tid, 16)},
                   {"sid", hexstr(c.sid, 8)}};
  set_current(id, inst, concrete);
  Obs o = do_extract(present ? &c.bytes : nullptr, ts.empty() ? nullptr : &tsh, caller);
  // the trace state the spec speaks about is the carrier's (class exp.ts)
  bool ok = satisfies(cs["exp"], o, c.tid, c.sid, ts);
  json res = {{"ok", ok}, {"kind", o.kind}};
  if (!ok || (id & 2047) == 0)
  {
    res["concrete"] = concrete;
    res["observed"] = o.to_json();
  }
  return res;
}

// ---- round trip ----------------------------------------------------------------------------------------
static std::string tokens_to_bytes(const json &toks, const uint8_t *tid, const uint8_t *sid)
{
  std::string s;
  for (auto &t : toks)
  {
    int v = t.get<int>();
    if (v >= 0 && v <= 15)
      s += kLower[v];
    else if (v >= 26 && v <= 31)
      s += kUpper[v - 16];
    else if (v == 40)
      s += '-';
    else if (v == 50)
      s += hexstr(tid, 16);
    else if (v == 51)
      s += hexstr(sid, 8);
    else
    {
      fprintf(stderr, "harness: unknown token %d\n", v);
      exit(9);
    }
  }
  return s;
}
// does what Inject left in the carrier satisfy expectation e = {tp: tokens | [], ts: class}?
static bool inject_matches(const json &e, const Carrier &car, const uint8_t *tid, const uint8_t *sid, bool ts_nonempty)
{
  const std::string *tp = car.Written("traceparent"), *ts = car.Written("tracestate");
  if (e["tp"].empty())
    return tp == nullptr && ts == nullptr;
  if (tp == nullptr || *tp != tokens_to_bytes(e["tp"], tid, sid))
    return false;
  // "plus the tracestate when non-empty"; its text is checked semantically after extraction
  return ts_nonempty ? (ts != nullptr && !ts->empty()) : ts == nullptr;
}

static json run_rt(long id, int inst, const json &cs, Rng &r)
{
  const json &sc = cs["sc"];
  uint8_t tid[16], sid[8];
  make_id(r, sc["tid"], tid, 16);
  make_id(r, sc["sid"], sid, 8);
  int flags       = sc["fl"].get<int>();
  Entries ts      = make_ts(r, sc["ts"]);
  std::string tsh = ts_header(ts);
  bool has        = sc["has"].get<bool>();
  json concrete   = {{"has_span", has}, {"tid", hexstr(tid, 16)}, {"sid", hexstr(sid, 8)}, {"flags", flags},
                   {"tracestate", tsh}, {"remote", sc["remote"]}};
  set_current(id, inst, concrete);
  // the context to inject
  ctxns::Context src;
  if (inst % 2)
    src = src.SetValue(kMarkerKey, int64_t(7));
  if (has)
  {
    auto state = ts.empty() ? trace::TraceState::GetDefault() : trace::TraceState::FromHeader(tsh);
    trace::SpanContext c(trace::TraceId(tid), trace::SpanId(sid), trace::TraceFlags(uint8_t(flags)),
                         sc["remote"].get<bool>(), state);
    opentelemetry::nostd::shared_ptr<trace::Span> sp(new trace::DefaultSpan(c));
    src = trace::SetSpan(src, sp);
  }
  trace::propagation::HttpTraceContext prop;
  Carrier car;
  prop.Inject(car, src);
  json res       = {{"ok", true}, {"dev", false}};
  bool ideal     = inject_matches(cs["inj"], car, tid, sid, !ts.empty());
  bool deviating = !ideal && !cs["dev"].get<std::string>().empty() && inject_matches(cs["injDev"], car, tid, sid, !ts.empty());
  const std::string *tp = car.Written("traceparent"), *tsw = car.Written("tracestate");
  concrete["injected_traceparent"] = tp ? json(esc(*tp)) : json(nullptr);
  concrete["injected_tracestate"]  = tsw ? json(esc(*tsw)) : json(nullptr);
  if (!ideal && !deviating)
  {
    res["ok"]       = false;
    res["step"]     = "inject";
    res["concrete"] = concrete;
    res["expected"] = cs["inj"]["tp"].empty() ? json("nothing written") : json(esc(tokens_to_bytes(cs["inj"]["tp"], tid, sid)));
    return res;
  }
  res["dev"] = deviating;
  // extract what was really injected
  Caller caller = make_caller(r, inst % 3);
  set_current(id, inst, concrete);
  Obs o         = do_extract(tp, tsw, caller);
  const json &e = deviating ? cs["extDev"] : cs["ext"];
  bool ok       = satisfies(e, o, tid, sid, ts);
  res["kind"]   = o.kind;
  if (!ok)
  {
    res["ok"]       = false;
    res["step"]     = "extract";
    res["concrete"] = concrete;
    res["observed"] = o.to_json();
  }
  else if (deviating || (id & 2047) == 0)
    res["concrete"] = concrete;
  return res;
}

// the single bad-byte site of a sweep case: its byte class and the number of positions
static bool sweep_site(const json &cs, ByteClass &cls, unsigned &npos, int &sep, std::string &name)
{
  sep = '-';
  if (cs["k"] != "x")
    return false;
  const json &tp = cs["car"]["tp"];
  int sites      = 0;
  auto site      = [&](bool is, ByteClass c, unsigned n, const char *nm) {
    if (is)
    {
      ++sites;
      cls  = c;
      npos = n;
      name = nm;
    }
  };
  site(tp["tid"] == "nonhex", BC_NONHEX, 32, "tid=nonhex");
  site(tp["sid"] == "nonhex", BC_NONHEX, 16, "sid=nonhex");
  site(tp["ver"] == "vx", BC_NONHEX, 2, "ver=vx");
  site(tp["fl"] == "fx", BC_NONHEX, 2, "fl=fx");
  site(tp["st"] == "sepbad", BC_NOTSEP, 3, "st=sepbad");
  site(tp["lead"] == "junk", BC_JUNK, 1, "lead=junk");
  site(tp["tail"] == "junk", BC_JUNK, 1, "tail=junk");
  site(tp["tail"] == "nodash", BC_PRINTJUNK, 1, "tail=nodash");
  site(tp["tail"] == "dashweird", BC_WEIRD, 4, "tail=dashweird");
  return sites == 1;
}

// ---- code -> spec: record real executions, every byte abstracted to a token -----------------------------
static int token_of(unsigned char c)
{
  if (c >= '0' && c <= '9')
    return c - '0';
  if (c >= 'a' && c <= 'f')
    return c - 'a' + 10;
  if (c >= 'A' && c <= 'F')
    return c - 'A' + 26;
  if (c == '-')
    return 40;
  if (c == ' ' || c == '\t')
    return 41;
  if (c == '\r' || c == '\n' || c == '\v' || c == '\f')
    return 42;
  return 43;
}
static json tokens(const std::string &s)
{
  json a = json::array();
  for (unsigned char c : s)
    a.push_back(token_of(c));
  return a;
}
static json nibbles(const uint8_t *p, size_t n)
{
  json a = json::array();
  for (size_t i = 0; i < n; ++i)
  {
    a.push_back(p[i] >> 4);
    a.push_back(p[i] & 15);
  }
  return a;
}
static json obs_event(const Obs &o, const Entries &ts)
{
  bool v = o.kind == "valid" || o.kind == "invalid";
  return json{{"out", o.kind},
              {"remote", o.remote},
              {"tid", v ? nibbles(o.tid, 16) : json::array()},
              {"sid", v ? nibbles(o.sid, 8) : json::array()},
              {"flags", int(o.flags)},
              {"tsok", o.ts == ts}};
}
static const std::string kPool = std::string("0123456789abcdefABCDEF00ff--  \t\n\rgGxz:_.+", 41) + std::string("\x00\x80\xff\x7f", 4);

static std::string mutate(Rng &r, std::string h)
{
  uint32_t c = r.below(100);
  uint32_t m = c < 22 ? 0 : c < 57 ? 1 : c < 82 ? 2 : r.range(3, 5);
  for (uint32_t i = 0; i < m; ++i)
  {
    size_t n = h.size();
    switch (r.below(10))
    {
      case 0:
      case 1:
        if (n)
          h[r.below(uint32_t(n))] = r.below(3) ? r.pick(kPool) : char(r.next());  // 1/3: any of the 256 byte values
        break;
      case 2:
        if (n)
          h.erase(r.below(uint32_t(n)), 1);
        break;
      case 3:
        h.insert(r.below(uint32_t(n + 1)), 1, r.below(3) ? r.pick(kPool) : char(r.next()));
        break;
      case 4:
        if (n)
          h.resize(r.coin() ? r.below(uint32_t(n)) : n - 1 - r.below(uint32_t(std::min<size_t>(n, 4))));
        break;
      case 5:
        for (uint32_t k = r.range(1, 4); k > 0; --k)
          h += r.pick(kPool);
        break;
      case 6:
        if (n)
        {
          char &ch = h[r.below(uint32_t(n))];
          if (ch >= 'a' && ch <= 'f')
            ch = char(ch - 'a' + 'A');
          else if (ch >= 'A' && ch <= 'F')
            ch = char(ch - 'A' + 'a');
        }
        break;
      case 7:
        if (n >= 2)
        {
          static const std::vector<std::string> v = {"ff", "FF", "fF", "00", "01", "fe", "0", "000"};
          h.replace(0, 2, r.pick(v));
        }
        break;
      case 8:
        if (n >= 55)
        {
          if (r.coin())
            h.replace(3, 32, std::string(32, '0'));
          else
            h.replace(36, 16, std::string(16, '0'));
        }
        break;
      default:
        h = (r.coin() ? " " : "\t") + h + (r.coin() ? " " : "\r\n");
    }
  }
  return h;
}

static int record(uint64_t seed, long n)
{
  return forked_loop(size_t(n), [&](size_t ii) {
    long i = long(ii);
    Rng r(mix(seed, uint64_t(i), 77));
    adversary().mode = unsigned((i / 3) % 3);
    adversary().seed = r.next();
    uint8_t tid[16], sid[8];
    make_ok_id(r, tid, 16);
    make_ok_id(r, sid, 8);
    uint32_t z = r.below(40);
    if (z == 0)
      memset(tid, 0, 16);
    if (z == 1)
      memset(sid, 0, 8);
    uint8_t fl           = uint8_t(r.next());
    static const char *tc[] = {"none", "one", "three", "none"};
    Entries ts           = make_ts(r, tc[r.below(4)]);
    std::string tsh      = ts_header(ts);
    Caller caller        = make_caller(r, int(i % 3));
    if (r.below(10) < 7)
    {
      // Extract from a (mutated) header
      uint32_t vk = r.below(10);
      uint8_t ver = vk < 6 ? 0 : vk < 9 ? uint8_t(r.range(1, 254)) : 0xff;
      std::string h = hexstr(&ver, 1) + "-" + hexstr(tid, 16) + "-" + hexstr(sid, 8) + "-" + hexstr(&fl, 1);
      if (ver != 0 && r.coin())
      {
        h += "-";
        for (uint32_t k = r.below(12); k > 0; --k)
          h += r.pick(kHexDash);
      }
      uint32_t ck = r.below(10);
      if (ck >= 8)
        for (auto &ch : h)
          if (ch >= 'a' && ch <= 'f' && (ck == 9 || r.coin()))
            ch = char(ch - 'a' + 'A');
      h = mutate(r, h);
      set_current(i, 0, json{{"traceparent", esc(h)}, {"tracestate", tsh}});
      Obs o  = do_extract(&h, ts.empty() ? nullptr : &tsh, caller);
      json e = obs_event(o, ts);
      e["e"]    = "X";
      e["toks"] = tokens(h);
      e["raw"]  = esc(h);
      std::cout << e.dump() << std::endl;
    }
    else
    {
      bool has = r.below(20) != 0;
      ctxns::Context src;
      if (has)
      {
        auto state = ts.empty() ? trace::TraceState::GetDefault() : trace::TraceState::FromHeader(tsh);
        trace::SpanContext c(trace::TraceId(tid), trace::SpanId(sid), trace::TraceFlags(fl), r.coin(), state);
        src = trace::SetSpan(src, opentelemetry::nostd::shared_ptr<trace::Span>(new trace::DefaultSpan(c)));
      }
      set_current(i, 0, json{{"inject", hexstr(tid, 16) + "/" + hexstr(sid, 8)}, {"flags", fl}, {"tracestate", tsh}});
      trace::propagation::HttpTraceContext prop;
      Carrier car;
      prop.Inject(car, src);
      const std::string *tp = car.Written("traceparent"), *tsw = car.Written("tracestate");
      Obs o  = do_extract(tp, tsw, caller);
      json e = {{"e", "I"},      {"has", has},           {"tid", nibbles(tid, 16)}, {"sid", nibbles(sid, 8)},
                {"fl", int(fl)}, {"nts", int(ts.size())}, {"tp", tp ? tokens(*tp) : json::array()},
                {"tsw", tsw != nullptr && !tsw->empty()}, {"x", obs_event(o, has ? ts : Entries())},
                {"raw", tp ? esc(*tp) : ""}};
      std::cout << e.dump() << std::endl;
    }
  }, [](size_t ii) { return long(ii); }, 12);
}

// ---- the tail family: token-level header values, every byte value of a class, exact-size views --------------
// (spec/TraceContextHeader.tla, InitTail / TailExtract.)  A case gives the traceparent and the tracestate as
// TOKENS of the vocabulary TailTok, in which every byte value has exactly one token; the harness expands the
// replaced position (and every position holding a class token) to ALL byte values of the token's class:
//   0..15 '0'..'9' 'a'..'f' | 26..31 'A'..'F' | 40 '-' | 41 SP HT | 42 CR LF VT FF | 44 '=' | 45 ',' |
//   46 'g'..'z' | 47 'G'..'Z' | 43 every other byte value (185 of them)
// Every value is handed over as a string_view into a heap block that ends EXACTLY where the value ends (an empty
// value: a zero-length view at the end of a block) - AddressSanitizer sees any read behind it - and again
// followed, inside the block, by the form's own continuation (`rest`) or adversarial bytes (hex digits, '-',
// '=', ',', with / without a final NUL): the observation must be the same ("result depends on bytes behind the
// view" otherwise) and must be what TLC computed for exactly that value.
static int token_of_tail(unsigned char c)
{
  if (c == '=')
    return 44;
  if (c == ',')
    return 45;
  if (c >= 'g' && c <= 'z')
    return 46;
  if (c >= 'G' && c <= 'Z')
    return 47;
  return token_of(c);
}
static const std::vector<std::vector<unsigned char>> &token_classes()
{
  static std::vector<std::vector<unsigned char>> t;
  if (t.empty())
  {
    t.resize(64);
    for (unsigned b = 0; b < 256; ++b)
      t[size_t(token_of_tail((unsigned char)b))].push_back((unsigned char)b);
  }
  return t;
}
static const std::vector<unsigned char> &class_of(int tok)
{
  if (tok < 0 || tok >= 64 || token_classes()[size_t(tok)].empty())
  {
    fprintf(stderr, "harness: token %d has no byte\n", tok);
    exit(9);
  }
  return token_classes()[size_t(tok)];
}

// A carrier whose Get() returns views into heap blocks that end EXACTLY where the value ends (mode 0), or that
// go on with `behind` (+ NUL in mode 1) inside the same block.  An absent header is a zero-length view at the
// end of a block.
class ViewCarrier : public opentelemetry::context::propagation::TextMapCarrier
{
public:
  struct Item
  {
    std::string key, val, behind;
    int mode;
  };
  ~ViewCarrier() override { Release(); }
  void Put(const std::string &key, const std::string &val, int mode = 0, const std::string &behind = "")
  {
    items_.push_back(Item{lower(key), val, behind, mode});
  }
  opentelemetry::nostd::string_view Get(opentelemetry::nostd::string_view key) const noexcept override
  {
    std::string k  = lower(std::string(key.data(), key.size()));
    const Item *it = nullptr;
    for (auto &i : items_)
      if (i.key == k)
        it = &i;
    size_t n = it ? it->val.size() : 0;
    if (!it || it->mode == 0)
    {
      if (n == 0)
      {
        size_t pad = 1 + (bufs_.size() % 7);
        char *p    = static_cast<char *>(malloc(pad));
        memset(p, 'Z', pad);
        bufs_.emplace_back(p, pad);
        return opentelemetry::nostd::string_view(p + pad, 0);
      }
      char *p = static_cast<char *>(malloc(n));
      memcpy(p, it->val.data(), n);
      bufs_.emplace_back(p, n);
      return opentelemetry::nostd::string_view(p, n);
    }
    size_t total = n + it->behind.size() + (it->mode == 1 ? 1 : 0);
    char *p      = static_cast<char *>(malloc(total ? total : 1));
    if (n)
      memcpy(p, it->val.data(), n);
    if (!it->behind.empty())
      memcpy(p + n, it->behind.data(), it->behind.size());
    if (it->mode == 1)
      p[total - 1] = '\0';
    bufs_.emplace_back(p, total ? total : 1);
    return opentelemetry::nostd::string_view(p, n);
  }
  void Set(opentelemetry::nostd::string_view, opentelemetry::nostd::string_view) noexcept override {}
  void Release()
  {
    for (auto &b : bufs_)
    {
      memset(b.first, 0xDD, b.second);
      free(b.first);
    }
    bufs_.clear();
  }

private:
  std::vector<Item> items_;
  mutable std::vector<std::pair<char *, size_t>> bufs_;
};

// what may lie behind a view when the spec gives no continuation (or every other time): hex digits, the
// separators of both headers, a complete next field / member - followed by a little more of the same alphabet
static std::string adversarial_behind(Rng &r)
{
  static const std::vector<std::string> head = {"0", "1", "a", "b", "f", "01", "ab", "00", "-", "-0", "-1", "-01", "-ab", "0-", "1-0",
                                                "=", "=1", ",", ",g1=2", "g", "g=1", "1,g1=2", " ", "\t-", "=1,h2=3"};
  static const std::string more = "0123456789abcdef-=,g ";
  std::string s = r.pick(head);
  for (uint32_t k = r.below(9); k > 0; --k)
    s += r.pick(more);
  return s;
}

struct TailObs
{
  Obs o;
  bool same(const TailObs &b) const
  {
    return o.kind == b.o.kind && o.remote == b.o.remote && o.flags == b.o.flags && memcmp(o.tid, b.o.tid, 16) == 0 &&
           memcmp(o.sid, b.o.sid, 8) == 0 && o.ts == b.o.ts;
  }
};

// exp = TLC's TailOutcome: {o, tid, sid (digit values), flags, ts: {k: "exact" | "any", e: [{ka, kb, va, vb}]}};
// the entry ranges (1-based, inclusive) index the concrete tracestate value
static bool exact_tok(const json &exp, const Obs &o, const std::string &tsval)
{
  uint8_t tid[16] = {0}, sid[8] = {0};
  const json &t = exp["tid"], &s = exp["sid"];
  if (t.size() != 32 || s.size() != 16)
  {
    fprintf(stderr, "harness: outcome %s without 32/16 id digits\n", exp["o"].get<std::string>().c_str());
    exit(9);
  }
  for (size_t i = 0; i < 16; ++i)
    tid[i] = uint8_t(t[2 * i].get<int>() * 16 + t[2 * i + 1].get<int>());
  for (size_t i = 0; i < 8; ++i)
    sid[i] = uint8_t(s[2 * i].get<int>() * 16 + s[2 * i + 1].get<int>());
  if (!(o.kind == "valid" && o.remote && memcmp(o.tid, tid, 16) == 0 && memcmp(o.sid, sid, 8) == 0 &&
        o.flags == exp["flags"].get<int>()))
    return false;
  const std::string k = exp["ts"]["k"];
  if (k == "any")
    return true;
  if (k != "exact")
  {
    fprintf(stderr, "harness: unknown trace-state expectation %s\n", k.c_str());
    exit(9);
  }
  Entries want;
  for (auto &e : exp["ts"]["e"])
  {
    size_t ka = e["ka"].get<size_t>(), kb = e["kb"].get<size_t>(), va = e["va"].get<size_t>(), vb = e["vb"].get<size_t>();
    if (ka < 1 || kb < ka || va <= kb || vb < va || vb > tsval.size())
    {
      fprintf(stderr, "harness: bad entry range %zu..%zu %zu..%zu in a value of %zu bytes\n", ka, kb, va, vb, tsval.size());
      exit(9);
    }
    want.emplace_back(tsval.substr(ka - 1, kb - ka + 1), tsval.substr(va - 1, vb - va + 1));
  }
  return o.ts == want;
}
static bool satisfies_tok(const json &exp, const Obs &o, const std::string &tsval)
{
  const std::string k = exp["o"];
  if (k == "accept")
    return exact_tok(exp, o, tsval);
  if (k == "reject")
    return o.kind == "unchanged";
  if (k == "either")
    return o.kind == "unchanged" || exact_tok(exp, o, tsval);
  fprintf(stderr, "harness: unknown outcome %s\n", k.c_str());
  exit(9);
}

static std::string json_escaped(const std::string &s)  // esc() output inside a hand-written JSON string
{
  std::string o;
  for (char c : esc(s))
  {
    if (c == '\\')
      o += '\\';
    o += c;
  }
  return o;
}

// One tail case: all its executions.  Result line as replay_cases' (+ "bytes": byte values run at the replaced
// position, "n": executions).
static json run_tail_case(const json &cs, uint64_t seed)
{
  long id            = cs["id"].get<long>();
  long seed_id       = cs.value("seed_id", id);
  const json &tl     = cs["tl"];
  const bool swept_ts = tl["h"] == "ts";
  const int cut = tl["cut"].get<int>(), pos = tl["pos"].get<int>();
  std::vector<int> v = (swept_ts ? cs["ts"]["v"] : cs["tp"]).get<std::vector<int>>();
  if (int(v.size()) != cut || pos > cut || (swept_ts && !cs["ts"]["p"].get<bool>()))
  {
    fprintf(stderr, "harness: tail case %ld: value has %zu tokens, cut %d, pos %d\n", id, v.size(), cut, pos);
    exit(9);
  }
  Rng r(mix(seed, uint64_t(seed_id), 4242));
  // the companion header (exact bytes; its class tokens, if any, drawn once)
  std::string comp;
  const bool has_comp = swept_ts;  // tracestate values stand next to a traceparent; traceparent values stand alone
  if (swept_ts)
    for (int t : cs["tp"].get<std::vector<int>>())
      comp += char(r.pick(class_of(t)));
  else if (cs["ts"]["p"].get<bool>())
  {
    fprintf(stderr, "harness: tail case %ld: traceparent member with a tracestate\n", id);
    exit(9);
  }
  std::string rest;
  for (int t : cs["rest"].get<std::vector<int>>())
    rest += char(class_of(t)[0]);
  // positions that are expanded: the replaced one and every one holding a class token
  const int sw = pos > 0 ? cut - pos : -1;
  size_t runs  = 1;
  std::vector<size_t> off(v.size(), 0);
  for (size_t q = 0; q < v.size(); ++q)
  {
    size_t n = class_of(v[q]).size();
    if (n > 1 || int(q) == sw)
      runs = std::max(runs, n);
    off[q] = int(q) == sw ? 0 : r.below(uint32_t(n));
  }
  json out        = {{"id", id}, {"v", "ok"}};
  const json &exp = cs["exp"];
  const char *hdr = swept_ts ? "tracestate" : "traceparent";
  size_t execs = 0, bytes = 0;
  int valid = 0, unchanged = 0;
  std::vector<bool> seen(256, false);
  static char cur[2048];
  for (size_t i = 0; i < runs && out["v"] == "ok"; ++i)
  {
    std::string val;
    for (size_t q = 0; q < v.size(); ++q)
    {
      const auto &c = class_of(v[q]);
      val += char(c[(i + off[q]) % c.size()]);
    }
    if (sw >= 0 && !seen[(unsigned char)val[size_t(sw)]])
    {
      seen[(unsigned char)val[size_t(sw)]] = true;
      ++bytes;
    }
    // modes: 0 exact; then followed in-buffer by bytes, 1 with / 2 without a final NUL
    std::vector<int> modes = {0};
    if (runs <= 4)
    {
      modes.push_back(1);
      modes.push_back(2);
    }
    else if ((i + uint64_t(seed_id)) % 3 == 0)  // large classes: every third value (rotating with the case)
      modes.push_back(1 + int((i / 3 + uint64_t(seed_id)) % 2));
    TailObs first;
    for (size_t mi = 0; mi < modes.size(); ++mi)
    {
      int mode           = modes[mi];
      std::string behind = mode == 0 ? "" : (!rest.empty() && (mi + i) % 2 == 1) ? rest : adversarial_behind(r);
      int callerv        = int((i + uint64_t(seed_id)) % 3);
      snprintf(cur, sizeof cur,
               "{\"id\":%ld,\"inst\":%zu,\"v\":\"crash\",\"concrete\":{\"header\":\"%s\",\"value\":\"%s\",\"length\":%zu,"
               "\"buffer\":\"%s\",\"behind\":\"%s\",\"other_header\":\"%s\"}}",
               id, i, hdr, json_escaped(val).c_str(), val.size(),
               mode == 0 ? "exact size" : mode == 1 ? "value+behind+NUL" : "value+behind", json_escaped(behind).c_str(),
               json_escaped(comp).c_str());
      current_case() = cur;
      Rng rc(mix(seed, uint64_t(seed_id), 7 + i));  // the same caller context for every mode of this value
      Caller caller = make_caller(rc, callerv);
      trace::propagation::HttpTraceContext prop;
      ViewCarrier vc;
      vc.Put(hdr, val, mode, behind);
      if (has_comp)
        vc.Put("traceparent", comp);
      ctxns::Context in  = caller.ctx;
      ctxns::Context res = prop.Extract(vc, in);
      vc.Release();
      Caller c2 = caller;
      c2.ctx    = in;
      TailObs t;
      t.o = observe(res, c2);
      ++execs;
      valid += t.o.kind == "valid";
      unchanged += t.o.kind == "unchanged";
      bool ok  = satisfies_tok(exp, t.o, swept_ts ? val : std::string());
      bool dep = mi > 0 && !t.same(first);
      if (mi == 0)
        first = t;
      if (!ok || dep || (execs == 1 && (id & 1023) == 0))
      {
        json conc = {{"traceparent", esc(swept_ts ? comp : val)},
                     {"tracestate", swept_ts ? json(esc(val)) : json(nullptr)},
                     {"swept", hdr},
                     {"buffer", mode == 0 ? "exact size" : mode == 1 ? "value+behind+NUL" : "value+behind"},
                     {"behind", esc(behind)},
                     {"caller", callerv}};
        out["res"] = {{"ok", ok && !dep}, {"kind", t.o.kind}, {"concrete", conc}, {"observed", t.o.to_json()}};
        if (dep)
        {
          out["res"]["depends_on_bytes_behind_the_view"] = true;
          out["res"]["observed_with_exact_buffer"]       = first.o.to_json();
        }
        if (!ok || dep)
        {
          out["v"]    = "bad";
          out["inst"] = i;
          break;
        }
      }
    }
  }
  out["n"]         = execs;
  out["bytes"]     = bytes;
  out["valid"]     = valid;
  out["unchanged"] = unchanged;
  return out;
}

static int tail_cases(const char *path, uint64_t seed)
{
  auto cases = read_cases(path);
  int rc     = forked_loop(cases.size(), [&](size_t ci) { std::cout << run_tail_case(cases[ci], seed).dump() << std::endl; },
                       [&](size_t ci) { return cases[ci]["id"].get<long>(); });
  if (rc != 0)
    return rc;
  std::cout << "{\"done\":" << cases.size() << "}" << std::endl;
  return 0;
}
// a case file holds either tail cases only or none
static bool is_tail_file(const char *path)
{
  std::ifstream f(path);
  std::string ln;
  while (std::getline(f, ln))
    if (!ln.empty())
      return json::parse(ln).value("k", "") == "t";
  return false;
}

int main(int argc, char **argv)
{
  install_death_callback();
  if (argc >= 5 && std::string(argv[1]) == "replay" && is_tail_file(argv[2]))
    return tail_cases(argv[2], strtoull(argv[3], nullptr, 10));
  if (argc >= 5 && std::string(argv[1]) == "replay")
    return replay_cases(argv[2], strtoull(argv[3], nullptr, 10), atoi(argv[4]), run_rt, run_x, sweep_site);
  if (argc >= 4 && std::string(argv[1]) == "record")
    return record(strtoull(argv[2], nullptr, 10), atol(argv[3]));
  fprintf(stderr, "usage: c09_w3c replay <cases.ndjson> <seed> <n> | record <seed> <n>\n");
  return 9;
}
