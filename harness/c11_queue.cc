// C11 harness for the real CircularBuffer<T> / AtomicUniquePtr<T> (header-only, compiled against the
// scheduler shim).  Two modes:
//   replay  <behaviours.ndjson>     step TLC behaviours of spec/CircularBuffer.tla 1:1 through the
//                                   real class and compare head/tail/slots after EVERY step
//   explore <strategy> <n> <seed> <np> <ne> <max> [bound]
//                                   run n executions under random|pct|dfs scheduling and print the
//                                   Level-A event log of each (validated by QueueMonitor.tla)
// `private` is opened for this translation unit only, to read head_/tail_/slots without scheduling
// points; /repo is not modified.
#define private public
#include "opentelemetry/sdk/common/circular_buffer.h"
#undef private

#include <nlohmann/json.hpp>
#include "hcommon.h"
#include <fstream>
#include <iostream>

using json = nlohmann::json;
using opentelemetry::sdk::common::AtomicUniquePtr;
using opentelemetry::sdk::common::CircularBuffer;
using opentelemetry::sdk::common::CircularBufferRange;

static std::vector<std::string> *g_out = nullptr;
static int g_live                      = 0;
static const char *g_ctx[64];

struct Elem
{
  int id;
  explicit Elem(int i) : id(i) { g_live++; }
  ~Elem()
  {
    g_live--;
    int t = vs::self_id();
    char b[128];
    snprintf(b, sizeof b, "{\"e\":\"Destroyed\",\"id\":%d,\"t\":%d}", id, t);
    if (vs::active())
      vs::emit(b);
    else if (g_out)
      g_out->push_back(b);
  }
};

typedef CircularBuffer<Elem> Buf;

static json snapshot(Buf &b)
{
  json s;
  s["head"] = (long)b.head_.peek();
  s["tail"] = (long)b.tail_.peek();
  json sl   = json::array();
  for (size_t i = 0; i < b.capacity_; ++i)
  {
    Elem *e = b.data_[i].ptr_.peek();
    sl.push_back(e ? e->id : 0);
  }
  s["slot"] = sl;
  return s;
}

static void emitf(const char *fmt, ...)
{
  char b[512];
  va_list ap;
  va_start(ap, fmt);
  vsnprintf(b, sizeof b, fmt, ap);
  va_end(ap);
  vs::emit(b);
}

// One producer: tries to add elements (p,1..ne) in order, never retrying a failed one.
static void producer(Buf *buf, int p, int ne)
{
  for (int k = 1; k <= ne; ++k)
  {
    std::unique_ptr<Elem> e(new Elem(p * 10 + k));
    Elem *raw = e.get();
    long cons;
    {
      vs::NoYield ny;
      cons = (long)buf->consumption_count();
    }
    emitf("{\"e\":\"AddCall\",\"p\":%d,\"k\":%d,\"cons\":%ld}", p, k, cons);
    bool ok   = buf->Add(e);
    bool kept = (e.get() == raw);
    bool nul  = (e.get() == nullptr);
    emitf("{\"e\":\"AddRet\",\"p\":%d,\"k\":%d,\"ok\":%s,\"kept\":%s,\"null\":%s}", p, k, ok ? "true" : "false",
          kept ? "true" : "false", nul ? "true" : "false");
    // a failed element is destroyed here by its owner (the caller)
  }
}

static bool all_done(const std::vector<int> &done)
{
  for (int d : done)
    if (!d)
      return false;
  return true;
}

// Consumer used for exploration: reads size(), consumes a scheduler-chosen 1..size prefix.
static void consumer_explore(Buf *buf, std::vector<int> *done)
{
  for (;;)
  {
    bool fin;
    {
      vs::NoYield ny;
      fin = all_done(*done) && buf->production_count() == buf->consumption_count();
    }
    if (fin)
      break;
    size_t sz = buf->size();
    if (sz == 0)
    {
      std::this_thread::yield();
      continue;
    }
    size_t n = 1 + (size_t)vs::choose((int)sz);
    std::vector<std::unique_ptr<Elem>> got;
    buf->Consume(n, [&](CircularBufferRange<AtomicUniquePtr<Elem>> range) noexcept {
      range.ForEach([&](AtomicUniquePtr<Elem> &ptr) {
        std::unique_ptr<Elem> sw;
        ptr.Swap(sw);
        got.push_back(std::move(sw));
        return true;
      });
    });
    std::string items;
    for (auto &g : got)
      items += (items.empty() ? "" : ",") + std::to_string(g ? g->id : 0);
    emitf("{\"e\":\"Consume\",\"n\":%d,\"sz\":%d,\"items\":[%s]}", (int)n, (int)sz, items.c_str());
    got.clear();  // destroys the consumed elements on the consumer thread
  }
}

// Consumer used for replay: follows the n-sequence dictated by the TLC behaviour; a 0 entry is a
// size() that saw an empty queue.
static bool g_replay_drift = false;
static void consumer_replay(Buf *buf, const std::vector<int> *ns)
{
  for (int want : *ns)
  {
    size_t sz = buf->size();
    if (want == 0)
      continue;
    if ((size_t)want > sz)
    {
      // The real execution no longer follows the model behaviour (Level-B drift: the code performs
      // other operations than the model, so the tape scheduled something else).  Consume(n) requires
      // n <= size(): never drive the real object outside its contract - stop following the model here.
      g_replay_drift = true;
      break;
    }
    std::vector<std::unique_ptr<Elem>> got;
    buf->Consume((size_t)want, [&](CircularBufferRange<AtomicUniquePtr<Elem>> range) noexcept {
      range.ForEach([&](AtomicUniquePtr<Elem> &ptr) {
        std::unique_ptr<Elem> sw;
        ptr.Swap(sw);
        got.push_back(std::move(sw));
        return true;
      });
    });
    std::string items;
    for (auto &g : got)
      items += (items.empty() ? "" : ",") + std::to_string(g ? g->id : 0);
    emitf("{\"e\":\"Consume\",\"n\":%d,\"sz\":%d,\"items\":[%s]}", want, (int)sz, items.c_str());
  }
}

static int do_replay(const char *file)
{
  hc::install();
  hc::pending_header() = "";
  std::ifstream in(file);
  std::string line;
  int idx = 0, bad = 0;
  while (std::getline(in, line))
  {
    if (line.empty())
      continue;
    json beh = json::parse(line);
    int np = beh["np"], ne = beh["ne"], max = beh["max"];
    const json &steps = beh["steps"];
    // consumer's n-sequence and the thread tape
    std::vector<int> ns;
    std::vector<int> tape;
    int nt = np + 1;  // virtual thread ids: 0 main, 1..np producers, np+1 consumer
    for (int i = 0; i < nt; ++i)
      tape.push_back(0);  // main performs its spawns
    for (int i = 1; i <= nt; ++i)
      tape.push_back(i);  // every thread runs up to its first operation
    for (auto &s : steps)
    {
      int t        = s["t"];
      int tid      = t == 0 ? np + 1 : t;
      std::string a = s["a"];
      int r        = s["r"];
      if (a == "size_lh")
        ns.push_back(r);
      bool spur = (a == "swap" || a == "cas_head") && r == 2;
      tape.push_back(spur ? tid + 1000 : tid);
    }
    size_t prefix = (size_t)(2 * nt);
    std::vector<json> snaps;
    std::vector<int> snap_tid;
    Buf *bufp = nullptr;
    vs::Config cfg;
    cfg.strategy   = vs::S_THREADS;
    cfg.tape       = tape;
    cfg.log_ops    = true;
    cfg.spin_limit = 1 << 30;
    cfg.on_point   = [&](int tid, vs::Kind, const void *) {
      if (bufp)
      {
        snaps.push_back(snapshot(*bufp));
        snap_tid.push_back(tid);
      }
    };
    std::vector<std::string> lines;
    g_out = &lines;
    g_replay_drift = false;
    vs::Result res = vs::run(cfg, [&]() {
      Buf buf((size_t)max);
      bufp = &buf;
      vs::name_object(&buf.head_, "head");
      vs::name_object(&buf.tail_, "tail");
      for (size_t i = 0; i < buf.capacity_; ++i)
        vs::name_object(&buf.data_[i].ptr_, "slot" + std::to_string(i));
      std::vector<std::thread> th;
      for (int p = 1; p <= np; ++p)
        th.emplace_back(producer, &buf, p, ne);
      th.emplace_back(consumer_replay, &buf, &ns);
      for (auto &t : th)
        t.join();
      bufp = nullptr;
    });
    // compare: snapshot taken at point #(prefix + i + 1) (0-based index prefix + i ... see below)
    // point calls: #0..nt-1 main spawns (before each spawn), #nt main join, then each thread's first
    // point (#nt+1 .. #2nt), then after model step i the acting thread reaches its next point.
    json verdict;
    verdict["beh"]  = idx;
    verdict["ok"]   = true;
    verdict["steps"] = steps.size();
    if (res.tape_mismatch >= 0 && (size_t)res.tape_mismatch < tape.size())
    {
      verdict["ok"]   = false;
      verdict["what"] = "schedule not followable at tape position " + std::to_string(res.tape_mismatch);
    }
    if (g_replay_drift && verdict["ok"])
    {
      verdict["ok"]   = false;
      verdict["what"] = "model consumes more than the real queue holds (drift); consumer stopped";
    }
    size_t base = prefix + 1;  // index in snaps of the state after model step 0
    for (size_t i = 0; i < steps.size() && verdict["ok"]; ++i)
    {
      if (base + i >= snaps.size())
      {
        verdict["ok"]   = false;
        verdict["what"] = "execution ended before model step " + std::to_string(i);
        break;
      }
      const json &exp = steps[i];
      const json &obs = snaps[base + i];
      if (exp["head"] != obs["head"] || exp["tail"] != obs["tail"] || exp["slot"] != obs["slot"])
      {
        verdict["ok"]       = false;
        verdict["what"]     = "state after step differs";
        verdict["step"]     = i;
        verdict["expected"] = exp;
        verdict["observed"] = obs;
      }
    }
    // operation log must match the model's action kinds one to one
    std::vector<json> ops;
    json events = json::array();
    for (auto &l : vs::log_lines())
    {
      json e = json::parse(l);
      if (e["e"] == "op")
      {
        if (e["k"] == "load" || e["k"] == "cas" || e["k"] == "xchg" || e["k"] == "rmw")
          if (e["o"] != "?")
            ops.push_back(e);
      }
      else
        events.push_back(e);
    }
    for (auto &l : lines)
      events.push_back(json::parse(l));
    static const std::map<std::string, std::pair<std::string, std::string>> kindof = {
        {"ld_tail", {"load", "tail"}},  {"ld_head", {"load", "head"}}, {"swap", {"cas", "slot"}},
        {"cas_head", {"cas", "head"}},  {"undo", {"xchg", "slot"}},    {"size_lt", {"load", "tail"}},
        {"size_lh", {"load", "head"}},  {"peek_lt", {"load", "tail"}}, {"peek_lh", {"load", "head"}},
        {"adv", {"rmw", "tail"}},       {"clr", {"xchg", "slot"}}};
    for (size_t i = 0; i < steps.size() && verdict["ok"]; ++i)
    {
      if (i >= ops.size())
      {
        verdict["ok"]   = false;
        verdict["what"] = "fewer real operations than model steps";
        break;
      }
      auto kk         = kindof.at(steps[i]["a"]);
      std::string on  = ops[i]["o"];
      bool objok      = on.compare(0, kk.second.size(), kk.second) == 0;
      int tid         = steps[i]["t"] == 0 ? np + 1 : (int)steps[i]["t"];
      if (ops[i]["k"] != kk.first || !objok || ops[i]["t"] != tid)
      {
        verdict["ok"]       = false;
        verdict["what"]     = "operation differs from model action";
        verdict["step"]     = i;
        verdict["expected"] = steps[i];
        verdict["observed"] = ops[i];
      }
      if ((steps[i]["a"] == "swap" || steps[i]["a"] == "cas_head") && verdict["ok"])
      {
        int r = steps[i]["r"];
        if (ops[i]["ok"] != r)
        {
          verdict["ok"]       = false;
          verdict["what"]     = "CAS outcome differs";
          verdict["step"]     = i;
          verdict["expected"] = steps[i];
          verdict["observed"] = ops[i];
        }
      }
    }
    verdict["live"]   = g_live;
    verdict["events"] = events;
    if (!verdict["ok"])
      bad++;
    std::cout << verdict.dump() << "\n";
    idx++;
  }
  return 0;
}

static int do_explore(int argc, char **argv)
{
  std::string strat = argv[2];
  long n            = atol(argv[3]);
  uint64_t seed     = strtoull(argv[4], nullptr, 10);
  int np = atoi(argv[5]), ne = atoi(argv[6]), max = atoi(argv[7]);
  int bound = argc > 8 ? atoi(argv[8]) : 2;
  hc::install();
  hc::pending_header() = "{\"e\":\"Cfg\",\"np\":" + std::to_string(np) + ",\"ne\":" + std::to_string(ne) + ",\"max\":" + std::to_string(max) + "}";
  std::vector<int> tape;
  long execs = 0;
  for (long it = 0; it < n; ++it)
  {
    vs::Config cfg;
    cfg.seed = seed * 1000003ULL + (uint64_t)it;
    if (strat == "random")
      cfg.strategy = vs::S_RANDOM;
    else if (strat == "pct")
    {
      cfg.strategy  = vs::S_PCT;
      cfg.pct_depth = 1 + (int)(it % 4);
      cfg.pct_len   = 60 * np * ne;
    }
    else
    {
      cfg.strategy      = vs::S_TAPE;
      cfg.tape          = tape;
      cfg.preempt_bound = bound;
      cfg.p_spurious_cas = 1.0;
    }
    cfg.max_steps = 5000;
    std::vector<std::string> lines;
    g_out = &lines;
    vs::Result res = vs::run(cfg, [&]() {
      Buf buf((size_t)max);
      std::vector<int> done(np, 0);
      std::vector<std::thread> th;
      for (int p = 1; p <= np; ++p)
        th.emplace_back([&, p]() {
          producer(&buf, p, ne);
          vs::NoYield ny;
          done[p - 1] = 1;
        });
      th.emplace_back(consumer_explore, &buf, &done);
      for (auto &t : th)
        t.join();
    });
    std::cout << "{\"e\":\"Cfg\",\"np\":" << np << ",\"ne\":" << ne << ",\"max\":" << max << "}\n";
    for (auto &l : vs::log_lines())
      std::cout << l << "\n";
    for (auto &l : lines)
      std::cout << l << "\n";
    std::cout << "{\"e\":\"End\",\"live\":" << g_live << ",\"drained\":true,\"steps\":" << res.steps << "}\n";
    execs++;
    if (strat == "dfs")
    {
      // next tape: deepest choice that still has an untried alternative
      std::vector<vs::Choice> &c = res.choices;
      int i = (int)c.size() - 1;
      while (i >= 0 && c[i].c + 1 >= c[i].n)
        --i;
      if (i < 0)
      {
        std::cout << "{\"e\":\"DfsComplete\",\"executions\":" << execs << "}\n";
        break;
      }
      tape.clear();
      for (int j = 0; j < i; ++j)
        tape.push_back(c[j].c);
      tape.push_back(c[i].c + 1);
    }
  }
  std::cout << "{\"e\":\"Summary\",\"executions\":" << execs << "}" << std::endl;
  return 0;
}

int main(int argc, char **argv)
{
  if (argc >= 3 && std::string(argv[1]) == "replay")
    return do_replay(argv[2]);
  if (argc >= 8 && std::string(argv[1]) == "explore")
    return do_explore(argc, argv);
  fprintf(stderr, "usage: c11_queue replay FILE | explore random|pct|dfs N SEED NP NE MAX [bound]\n");
  return 2;
}
