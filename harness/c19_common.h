// C19 replayers - shared helpers: JSON lines, seeded PRNG, the byte-class concretisation table,
// heap buffers laid out as the abstract case says, a pull MetricReader, the 12 instrument kinds.
//
// Trusted base of the C19 check: this file and c19_{names,views,scopes,main}.cc only CONCRETISE the
// abstract cases printed by TLC, call the public SDK API and PROJECT what arrives at a reader /
// exporter.  They never decide what is right: expectations come from TLC (spec/*.tla).
#pragma once
#include <sys/wait.h>
#include <unistd.h>
#include <cctype>
#include <cstdint>
#include <cstdlib>
#include <cstring>
#include <functional>
#include <iostream>
#include <map>
#include <memory>
#include <string>
#include <vector>

#include <nlohmann/json.hpp>

#include "opentelemetry/common/key_value_iterable_view.h"
#include "opentelemetry/metrics/async_instruments.h"
#include "opentelemetry/metrics/meter.h"
#include "opentelemetry/metrics/observer_result.h"
#include "opentelemetry/metrics/sync_instruments.h"
#include "opentelemetry/nostd/string_view.h"
#include "opentelemetry/sdk/common/global_log_handler.h"
#include "opentelemetry/sdk/metrics/data/metric_data.h"
#include "opentelemetry/sdk/metrics/export/metric_producer.h"
#include "opentelemetry/sdk/metrics/meter_provider.h"
#include "opentelemetry/sdk/metrics/metric_reader.h"

namespace c19
{
using json   = nlohmann::json;
namespace ns  = opentelemetry::nostd;
namespace api = opentelemetry::metrics;
namespace sdkm = opentelemetry::sdk::metrics;

// ---------------------------------------------------------------------------------------------
struct Rng
{
  uint64_t s;
  explicit Rng(uint64_t seed) : s(seed * 0x9E3779B97F4A7C15ull + 0x1234567ull) {}
  uint64_t next()
  {
    uint64_t z = (s += 0x9E3779B97F4A7C15ull);
    z          = (z ^ (z >> 30)) * 0xBF58476D1CE4E5B9ull;
    z          = (z ^ (z >> 27)) * 0x94D049BB133111EBull;
    return z ^ (z >> 31);
  }
  uint32_t below(uint32_t n) { return n ? static_cast<uint32_t>(next() % n) : 0; }
};
inline uint64_t mix(uint64_t a, uint64_t b, uint64_t c)
{
  Rng r(a * 1000003ull + b * 10007ull + c);
  r.next();
  return r.next();
}

// ---------------------------------------------------------------------------------------------
// Concretisation table of the byte classes of spec/InstrumentNames.tla.  The twelve base classes
// partition 0..255 (checked by class_table_ok()); "alnum"/"asciifill" are fillers.
inline std::vector<unsigned char> class_bytes(const std::string &c)
{
  std::vector<unsigned char> v;
  auto range = [&](int a, int b) {
    for (int x = a; x <= b; ++x)
      v.push_back(static_cast<unsigned char>(x));
  };
  if (c == "lower")
    range('a', 'z');
  else if (c == "upper")
    range('A', 'Z');
  else if (c == "digit")
    range('0', '9');
  else if (c == "us")
    v.push_back('_');
  else if (c == "dot")
    v.push_back('.');
  else if (c == "dash")
    v.push_back('-');
  else if (c == "slash")
    v.push_back('/');
  else if (c == "nul")
    v.push_back(0);
  else if (c == "ctrl")
  {
    range(0x01, 0x1f);
    v.push_back(0x7f);
  }
  else if (c == "space")
    v.push_back(' ');
  else if (c == "punct")
  {
    for (int x = 0x21; x <= 0x7e; ++x)
      if (!isalnum(x) && x != '_' && x != '.' && x != '-' && x != '/')
        v.push_back(static_cast<unsigned char>(x));
  }
  else if (c == "high")
    range(0x80, 0xff);
  else if (c == "alnum")
  {
    range('a', 'z');
    range('A', 'Z');
    range('0', '9');
  }
  else if (c == "asciifill")
    range(0x01, 0x7f);
  return v;
}
inline const std::vector<std::string> &base_classes()
{
  static const std::vector<std::string> b = {"lower", "upper", "digit", "us",    "dot",   "dash",
                                             "slash", "nul",   "ctrl",  "space", "punct", "high"};
  return b;
}
inline bool class_table_ok()
{
  int seen[256] = {0};
  for (auto &c : base_classes())
    for (unsigned char b : class_bytes(c))
      seen[b]++;
  for (int i = 0; i < 256; ++i)
    if (seen[i] != 1)
      return false;
  return true;
}

// runs: [{"c":class,"n":count}...] -> bytes.  `fixed_class`/`fixed_byte`: byte sweep.
inline std::string concretise_runs(const json &runs, Rng &rng, const std::string &fixed_class = "", int fixed_byte = -1)
{
  std::string out;
  for (auto &r : runs)
  {
    std::string c = r["c"];
    int n         = r["n"];
    auto tab      = class_bytes(c);
    for (int i = 0; i < n; ++i)
    {
      if (fixed_byte >= 0 && c == fixed_class && n == 1)
        out.push_back(static_cast<char>(fixed_byte));
      else
        out.push_back(static_cast<char>(tab[rng.below(static_cast<uint32_t>(tab.size()))]));
    }
  }
  return out;
}

// A string_view argument in a fresh heap block laid out as the abstract case says:
//   "z"     bytes NUL                 (an ordinary C string)
//   "good"  bytes <2 tail bytes> NUL  (NOT terminated at the end of the view)
//   "bad"   bytes <2 tail bytes> NUL
//   "exact" bytes                     (the block ends with the view)
// After the API call the block is overwritten and freed (caller-buffer discipline).
struct Buf
{
  char *p      = nullptr;
  size_t len   = 0;
  size_t alloc = 0;
  Buf() {}
  Buf(const std::string &bytes, const std::string &term, const std::string &tail)
  {
    len   = bytes.size();
    alloc = len + (term == "exact" ? 0 : (term == "z" ? 1 : tail.size() + 1));
    p     = static_cast<char *>(malloc(alloc));
    if (len)
      memcpy(p, bytes.data(), len);
    if (term == "z")
      p[len] = 0;
    else if (term != "exact")
    {
      memcpy(p + len, tail.data(), tail.size());
      p[len + tail.size()] = 0;
    }
  }
  Buf(const Buf &)            = delete;
  Buf &operator=(const Buf &) = delete;
  ns::string_view view() const { return ns::string_view(p, len); }
  void scrub_free()
  {
    if (p)
    {
      memset(p, '#', alloc);
      free(p);
      p = nullptr;
    }
  }
  ~Buf() { scrub_free(); }
};

inline std::string hex_prefix(const std::string &s, size_t max = 24)
{
  static const char *d = "0123456789abcdef";
  std::string o;
  for (size_t i = 0; i < s.size() && i < max; ++i)
  {
    o.push_back(d[(static_cast<unsigned char>(s[i]) >> 4) & 15]);
    o.push_back(d[static_cast<unsigned char>(s[i]) & 15]);
  }
  if (s.size() > max)
    o += "..";
  return o;
}

// ---------------------------------------------------------------------------------------------
class PullReader : public sdkm::MetricReader
{
public:
  explicit PullReader(bool delta) : delta_(delta) {}
  sdkm::AggregationTemporality GetAggregationTemporality(sdkm::InstrumentType) const noexcept override
  {
    return delta_ ? sdkm::AggregationTemporality::kDelta : sdkm::AggregationTemporality::kCumulative;
  }

private:
  bool OnForceFlush(std::chrono::microseconds) noexcept override { return true; }
  bool OnShutDown(std::chrono::microseconds) noexcept override { return true; }
  bool delta_;
};

struct Collected
{
  std::string scope_name, scope_version, scope_schema;
  sdkm::MetricData md;
};
inline std::vector<Collected> collect(PullReader &r)
{
  std::vector<Collected> out;
  r.Collect([&](sdkm::ResourceMetrics &rm) {
    for (auto &s : rm.scope_metric_data_)
      for (auto &md : s.metric_data_)
      {
        out.push_back(Collected{s.scope_->GetName(), s.scope_->GetVersion(), s.scope_->GetSchemaURL(), md});
      }
    return true;
  });
  return out;
}

// ---------------------------------------------------------------------------------------------
// One instrument of any of the 6 types x {integer, floating point} of the metrics API (ABI v1).
using AttrList = std::vector<std::pair<ns::string_view, opentelemetry::common::AttributeValue>>;
struct ObsState
{
  double value = 0;
  bool dbl     = false;
  AttrList attrs;
  bool with_attrs = false;
};
inline void obs_callback(api::ObserverResult res, void *st)
{
  auto *s = static_cast<ObsState *>(st);
  if (s->dbl)
  {
    auto r = ns::get<ns::shared_ptr<api::ObserverResultT<double>>>(res);
    if (s->with_attrs)
      r->Observe(s->value, opentelemetry::common::KeyValueIterableView<AttrList>(s->attrs));
    else
      r->Observe(s->value);
  }
  else
  {
    auto r = ns::get<ns::shared_ptr<api::ObserverResultT<int64_t>>>(res);
    if (s->with_attrs)
      r->Observe(static_cast<int64_t>(s->value), opentelemetry::common::KeyValueIterableView<AttrList>(s->attrs));
    else
      r->Observe(static_cast<int64_t>(s->value));
  }
}

inline const char *type_name(int t)
{
  static const char *n[] = {"Counter", "UpDownCounter", "Histogram", "ObsCounter", "ObsUpDown", "ObsGauge"};
  return n[t];
}
inline int type_index(const std::string &t)
{
  for (int i = 0; i < 6; ++i)
    if (t == type_name(i))
      return i;
  return -1;
}
inline const char *sdk_type_name(sdkm::InstrumentType t)
{
  switch (t)
  {
    case sdkm::InstrumentType::kCounter:
      return "Counter";
    case sdkm::InstrumentType::kUpDownCounter:
      return "UpDownCounter";
    case sdkm::InstrumentType::kHistogram:
      return "Histogram";
    case sdkm::InstrumentType::kObservableCounter:
      return "ObsCounter";
    case sdkm::InstrumentType::kObservableUpDownCounter:
      return "ObsUpDown";
    case sdkm::InstrumentType::kObservableGauge:
      return "ObsGauge";
    default:
      return "?";
  }
}

struct Inst
{
  int type = 0;
  bool dbl = false;
  ns::unique_ptr<api::Counter<uint64_t>> cu;
  ns::unique_ptr<api::Counter<double>> cd;
  ns::unique_ptr<api::UpDownCounter<int64_t>> ui;
  ns::unique_ptr<api::UpDownCounter<double>> ud;
  ns::unique_ptr<api::Histogram<uint64_t>> hu;
  ns::unique_ptr<api::Histogram<double>> hd;
  ns::shared_ptr<api::ObservableInstrument> obs;
  std::unique_ptr<ObsState> st;

  void create(api::Meter &m, int type_, bool dbl_, ns::string_view name, ns::string_view desc, ns::string_view unit)
  {
    type = type_;
    dbl  = dbl_;
    switch (type)
    {
      case 0:
        if (dbl)
          cd = m.CreateDoubleCounter(name, desc, unit);
        else
          cu = m.CreateUInt64Counter(name, desc, unit);
        break;
      case 1:
        if (dbl)
          ud = m.CreateDoubleUpDownCounter(name, desc, unit);
        else
          ui = m.CreateInt64UpDownCounter(name, desc, unit);
        break;
      case 2:
        if (dbl)
          hd = m.CreateDoubleHistogram(name, desc, unit);
        else
          hu = m.CreateUInt64Histogram(name, desc, unit);
        break;
      case 3:
        obs = dbl ? m.CreateDoubleObservableCounter(name, desc, unit) : m.CreateInt64ObservableCounter(name, desc, unit);
        break;
      case 4:
        obs = dbl ? m.CreateDoubleObservableUpDownCounter(name, desc, unit)
                  : m.CreateInt64ObservableUpDownCounter(name, desc, unit);
        break;
      case 5:
        obs = dbl ? m.CreateDoubleObservableGauge(name, desc, unit) : m.CreateInt64ObservableGauge(name, desc, unit);
        break;
    }
  }
  // one measurement; `attrs` (views into caller memory) must stay alive until the last Collect for
  // observable instruments (the callback re-reads them), which the callers guarantee
  void record(double value, const AttrList *attrs)
  {
    opentelemetry::context::Context ctx{};
    if (type >= 3)
    {
      if (!st)
      {
        st.reset(new ObsState());
        st->dbl = dbl;
        if (obs)
          obs->AddCallback(obs_callback, st.get());
      }
      st->value      = value;
      st->with_attrs = attrs != nullptr;
      if (attrs)
        st->attrs = *attrs;
      return;
    }
    if (attrs)
    {
      opentelemetry::common::KeyValueIterableView<AttrList> kv(*attrs);
      switch (type)
      {
        case 0:
          dbl ? cd->Add(value, kv) : cu->Add(static_cast<uint64_t>(value), kv);
          break;
        case 1:
          dbl ? ud->Add(value, kv) : ui->Add(static_cast<int64_t>(value), kv);
          break;
        case 2:
          dbl ? hd->Record(value, kv, ctx) : hu->Record(static_cast<uint64_t>(value), kv, ctx);
          break;
      }
    }
    else
    {
      switch (type)
      {
        case 0:
          dbl ? cd->Add(value) : cu->Add(static_cast<uint64_t>(value));
          break;
        case 1:
          dbl ? ud->Add(value) : ui->Add(static_cast<int64_t>(value));
          break;
        case 2:
          dbl ? hd->Record(value, ctx) : hu->Record(static_cast<uint64_t>(value), ctx);
          break;
      }
    }
  }
  void release()
  {
    if (obs && st)
      obs->RemoveCallback(obs_callback, st.get());
    obs = ns::shared_ptr<api::ObservableInstrument>();
  }
};

// value carried by the (single) point of a stream, used to attribute streams to instruments
inline bool point_value(const sdkm::PointType &p, double &v, std::string &kind)
{
  if (ns::holds_alternative<sdkm::SumPointData>(p))
  {
    auto &s = ns::get<sdkm::SumPointData>(p);
    kind    = "sum";
    v       = ns::holds_alternative<int64_t>(s.value_) ? static_cast<double>(ns::get<int64_t>(s.value_))
                                                       : ns::get<double>(s.value_);
    return true;
  }
  if (ns::holds_alternative<sdkm::LastValuePointData>(p))
  {
    auto &s = ns::get<sdkm::LastValuePointData>(p);
    kind    = "last";
    v       = ns::holds_alternative<int64_t>(s.value_) ? static_cast<double>(ns::get<int64_t>(s.value_))
                                                       : ns::get<double>(s.value_);
    return true;
  }
  if (ns::holds_alternative<sdkm::HistogramPointData>(p))
  {
    auto &s = ns::get<sdkm::HistogramPointData>(p);
    kind    = "hist";
    v       = ns::holds_alternative<int64_t>(s.sum_) ? static_cast<double>(ns::get<int64_t>(s.sum_))
                                                     : ns::get<double>(s.sum_);
    return true;
  }
  kind = "drop";
  return false;
}

inline void quiet_sdk_log()
{
  opentelemetry::sdk::common::internal_log::GlobalLogHandler::SetLogLevel(
      opentelemetry::sdk::common::internal_log::LogLevel::None);
}

int run_names(std::istream &in, uint64_t seed, int instances);
int run_views(std::istream &in, uint64_t seed, int instances);
int run_scopes(std::istream &in, uint64_t seed, int instances);
int run_record(uint64_t seed, int executions, int ops);
}  // namespace c19
