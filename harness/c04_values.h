// C04: concretisation of abstract value / key / name ids, caller-buffer discipline, canonical projection.
//
// * Pool of value descriptors: EVERY common::AttributeValue alternative (bool, int32, int64, uint32, uint64,
//   double, const char*, string_view, span<const bool|int32|int64|uint32|uint64|double|string_view|uint8_t>)
//   with edge instances: empty string, embedded NUL, trailing NUL, non-NUL-terminated view, UTF-8, 5000
//   chars, empty arrays of every element type, 1000-element arrays, NaN, -0.0, infinities, min/max ints.
//   A behaviour maps its abstract value ids injectively (seeded shuffle) to pool entries.
// * Arena: every string/array argument of an API call lives in a fresh malloc'ed buffer of exactly the
//   needed size; right after the call every buffer is overwritten with a different pattern and freed.
//   An implementation that kept a pointer exports other bytes (and ASan reports the use after free).
// * canon(): canonical JSON of an sdk OwnedAttributeValue / of a descriptor: {"t": type, "v": payload},
//   strings hex-encoded, doubles as their bit pattern, integers as decimal strings.
#pragma once
#include <nlohmann/json.hpp>

#include <cmath>
#include <cstdint>
#include <cstdlib>
#include <cstring>
#include <limits>
#include <random>
#include <set>
#include <string>
#include <vector>

#include "opentelemetry/common/attribute_value.h"
#include "opentelemetry/common/key_value_iterable.h"
#include "opentelemetry/nostd/span.h"
#include "opentelemetry/nostd/string_view.h"
#include "opentelemetry/sdk/common/attribute_utils.h"
#include "opentelemetry/trace/span_context.h"
#include "opentelemetry/trace/span_context_kv_iterable.h"

namespace c04
{
using json = nlohmann::json;
namespace nostd  = opentelemetry::nostd;
namespace common = opentelemetry::common;

inline std::string hexs(const std::string &s)
{
  static const char *d = "0123456789abcdef";
  std::string o;
  o.reserve(s.size() * 2);
  for (unsigned char c : s)
  {
    o += d[c >> 4];
    o += d[c & 15];
  }
  return o;
}
inline std::string hexb(const uint8_t *p, size_t n)
{
  return hexs(std::string(reinterpret_cast<const char *>(p), n));
}
inline std::string dbits(double v)
{
  uint64_t b;
  memcpy(&b, &v, 8);
  char buf[20];
  snprintf(buf, sizeof buf, "%016llx", (unsigned long long)b);
  return buf;
}

// ---- caller buffers ------------------------------------------------------------------------
class Arena
{
public:
  ~Arena() { destroy(); }
  void *alloc(size_t n)
  {
    void *p = malloc(n ? n : 1);
    bufs_.push_back({p, n});
    return p;
  }
  nostd::string_view str(const std::string &s)
  {
    char *p = static_cast<char *>(alloc(s.size()));
    memcpy(p, s.data(), s.size());
    return nostd::string_view(p, s.size());
  }
  const char *cstr(const std::string &s)
  {
    char *p = static_cast<char *>(alloc(s.size() + 1));
    memcpy(p, s.data(), s.size());
    p[s.size()] = 0;
    return p;
  }
  template <class T>
  nostd::span<const T> arr(const std::vector<T> &v)
  {
    T *p = static_cast<T *>(alloc(v.size() * sizeof(T)));
    for (size_t i = 0; i < v.size(); ++i)
      new (p + i) T(v[i]);
    return nostd::span<const T>(p, v.size());
  }
  // overwrite every buffer with a pattern different from its content, then free it
  void destroy()
  {
    for (auto &b : bufs_)
    {
      unsigned char *p = static_cast<unsigned char *>(b.first);
      for (size_t i = 0; i < b.second; ++i)
        p[i] = (unsigned char)(~p[i] ^ 0x5a ^ (unsigned char)(i * 7));
      free(b.first);
    }
    bufs_.clear();
  }

private:
  std::vector<std::pair<void *, size_t>> bufs_;
};

// ---- value descriptors ------------------------------------------------------------------------
enum VT
{
  V_BOOL, V_I32, V_I64, V_U32, V_U64, V_DBL, V_CSTR, V_STR,
  V_ABOOL, V_AI32, V_AI64, V_AU32, V_AU64, V_ADBL, V_ASTR, V_ABYTE
};

struct Desc
{
  VT t;
  std::vector<int64_t> i;       // integers / bools / bytes
  std::vector<uint64_t> u;      // unsigned 64
  std::vector<double> d;
  std::vector<std::string> s;
  std::string label;
};

inline std::vector<Desc> make_pool()
{
  std::vector<Desc> p;
  auto I = [&](VT t, std::vector<int64_t> v, const char *l) { Desc x; x.t = t; x.i = std::move(v); x.label = l; p.push_back(x); };
  auto U = [&](VT t, std::vector<uint64_t> v, const char *l) { Desc x; x.t = t; x.u = std::move(v); x.label = l; p.push_back(x); };
  auto D = [&](VT t, std::vector<double> v, const char *l) { Desc x; x.t = t; x.d = std::move(v); x.label = l; p.push_back(x); };
  auto S = [&](VT t, std::vector<std::string> v, const char *l) { Desc x; x.t = t; x.s = std::move(v); x.label = l; p.push_back(x); };
  const double inf = std::numeric_limits<double>::infinity();
  const double nan = std::numeric_limits<double>::quiet_NaN();
  I(V_BOOL, {1}, "true");
  I(V_BOOL, {0}, "false");
  I(V_I32, {0}, "i32 0");
  I(V_I32, {-1}, "i32 -1");
  I(V_I32, {INT32_MIN}, "i32 min");
  I(V_I32, {INT32_MAX}, "i32 max");
  I(V_I64, {0}, "i64 0");
  I(V_I64, {INT64_MIN}, "i64 min");
  I(V_I64, {INT64_MAX}, "i64 max");
  I(V_I64, {int64_t(1) << 40}, "i64 2^40");
  I(V_U32, {0}, "u32 0");
  I(V_U32, {UINT32_MAX}, "u32 max");
  I(V_U32, {0x80000000ll}, "u32 2^31");
  U(V_U64, {0}, "u64 0");
  U(V_U64, {UINT64_MAX}, "u64 max");
  U(V_U64, {uint64_t(1) << 63}, "u64 2^63");
  D(V_DBL, {0.0}, "0.0");
  D(V_DBL, {-0.0}, "-0.0");
  D(V_DBL, {1.5}, "1.5");
  D(V_DBL, {std::numeric_limits<double>::max()}, "dbl max");
  D(V_DBL, {std::numeric_limits<double>::denorm_min()}, "denorm");
  D(V_DBL, {inf}, "inf");
  D(V_DBL, {nan}, "nan");
  S(V_CSTR, {""}, "cstr empty");
  S(V_CSTR, {"abc"}, "cstr abc");
  S(V_CSTR, {std::string(300, 'c')}, "cstr 300");
  S(V_STR, {""}, "sv empty");
  S(V_STR, {"abc"}, "sv abc");
  S(V_STR, {std::string("with\0nul", 8)}, "sv embedded NUL");
  S(V_STR, {std::string("\0lead", 5)}, "sv leading NUL");
  S(V_STR, {std::string("trail\0", 6)}, "sv trailing NUL");
  S(V_STR, {"\xc3\xa4\xe2\x82\xac\xf0\x9f\x98\x80"}, "sv utf8");
  S(V_STR, {std::string(5000, 'L')}, "sv 5000");
  S(V_STR, {"\xff\xfe\x80"}, "sv non-utf8 bytes");
  I(V_ABOOL, {}, "bool[] empty");
  I(V_ABOOL, {1}, "bool[1]");
  I(V_ABOOL, {1, 0, 0, 1, 1}, "bool[5]");
  {
    std::vector<int64_t> v;
    for (int k = 0; k < 1000; ++k)
      v.push_back((k * 7 % 3) == 0);
    I(V_ABOOL, v, "bool[1000]");
  }
  I(V_AI32, {}, "i32[] empty");
  I(V_AI32, {1, -2, INT32_MAX, INT32_MIN}, "i32[4]");
  {
    std::vector<int64_t> v;
    for (int k = 0; k < 1000; ++k)
      v.push_back((int64_t)k * 2654435 % 2000000000 - 1000000);
    I(V_AI32, v, "i32[1000]");
  }
  I(V_AI64, {}, "i64[] empty");
  I(V_AI64, {INT64_MIN, 0, INT64_MAX}, "i64[3]");
  {
    std::vector<int64_t> v;
    for (int k = 0; k < 1000; ++k)
      v.push_back((int64_t(k) << 33) - k);
    I(V_AI64, v, "i64[1000]");
  }
  I(V_AU32, {}, "u32[] empty");
  I(V_AU32, {0, UINT32_MAX, 5}, "u32[3]");
  {
    std::vector<int64_t> v;
    for (int k = 0; k < 1000; ++k)
      v.push_back((uint32_t)(k * 4000001u));
    I(V_AU32, v, "u32[1000]");
  }
  U(V_AU64, {}, "u64[] empty");
  U(V_AU64, {UINT64_MAX, 0, uint64_t(1) << 63}, "u64[3]");
  {
    std::vector<uint64_t> v;
    for (int k = 0; k < 1000; ++k)
      v.push_back(uint64_t(k) * 0x9E3779B97F4A7C15ull);
    U(V_AU64, v, "u64[1000]");
  }
  D(V_ADBL, {}, "dbl[] empty");
  D(V_ADBL, {0.0, -0.0, nan, inf, -inf, 1e-310}, "dbl[6] special");
  {
    std::vector<double> v;
    for (int k = 0; k < 1000; ++k)
      v.push_back(k * 0.001 - 0.5);
    D(V_ADBL, v, "dbl[1000]");
  }
  S(V_ASTR, {}, "sv[] empty");
  S(V_ASTR, {""}, "sv[1] empty string");
  S(V_ASTR, {"a", "", std::string("b\0c", 3), "\xc3\xa4"}, "sv[4]");
  {
    std::vector<std::string> v;
    for (int k = 0; k < 1000; ++k)
      v.push_back("s" + std::to_string(k * 13) + std::string((size_t)(k % 5), '\0'));
    S(V_ASTR, v, "sv[1000]");
  }
  I(V_ABYTE, {}, "bytes empty");
  I(V_ABYTE, {0, 255, 0, 7}, "bytes[4]");
  {
    std::vector<int64_t> v;
    for (int k = 0; k < 1000; ++k)
      v.push_back((k * 31) & 255);
    I(V_ABYTE, v, "bytes[1000]");
  }
  return p;
}

inline json canon(const Desc &x)
{
  auto ints = [&](const char *t, bool arr) {
    json v = json::array();
    for (auto k : x.i)
      v.push_back(std::to_string(k));
    return arr ? json{{"t", t}, {"v", v}} : json{{"t", t}, {"v", v[0]}};
  };
  switch (x.t)
  {
    case V_BOOL: return ints("bool", false);
    case V_I32: return ints("i32", false);
    case V_I64: return ints("i64", false);
    case V_U32: return ints("u32", false);
    case V_U64: return json{{"t", "u64"}, {"v", std::to_string(x.u[0])}};
    case V_DBL: return json{{"t", "dbl"}, {"v", dbits(x.d[0])}};
    case V_CSTR:
    case V_STR: return json{{"t", "str"}, {"v", hexs(x.s[0])}};
    case V_ABOOL: return ints("bool[]", true);
    case V_AI32: return ints("i32[]", true);
    case V_AI64: return ints("i64[]", true);
    case V_AU32: return ints("u32[]", true);
    case V_ABYTE: return ints("u8[]", true);
    case V_AU64:
    {
      json v = json::array();
      for (auto k : x.u)
        v.push_back(std::to_string(k));
      return json{{"t", "u64[]"}, {"v", v}};
    }
    case V_ADBL:
    {
      json v = json::array();
      for (auto k : x.d)
        v.push_back(dbits(k));
      return json{{"t", "dbl[]"}, {"v", v}};
    }
    case V_ASTR:
    {
      json v = json::array();
      for (auto &k : x.s)
        v.push_back(hexs(k));
      return json{{"t", "str[]"}, {"v", v}};
    }
  }
  return json();
}

struct CanonVisitor
{
  json operator()(bool v) const { return json{{"t", "bool"}, {"v", std::to_string((int)v)}}; }
  json operator()(int32_t v) const { return json{{"t", "i32"}, {"v", std::to_string(v)}}; }
  json operator()(uint32_t v) const { return json{{"t", "u32"}, {"v", std::to_string(v)}}; }
  json operator()(int64_t v) const { return json{{"t", "i64"}, {"v", std::to_string(v)}}; }
  json operator()(uint64_t v) const { return json{{"t", "u64"}, {"v", std::to_string(v)}}; }
  json operator()(double v) const { return json{{"t", "dbl"}, {"v", dbits(v)}}; }
  json operator()(const std::string &v) const { return json{{"t", "str"}, {"v", hexs(v)}}; }
  template <class T>
  json nums(const char *t, const std::vector<T> &v) const
  {
    json a = json::array();
    for (const auto &k : v)
      a.push_back(std::to_string((typename std::conditional<std::is_signed<T>::value, long long, unsigned long long>::type)k));
    return json{{"t", t}, {"v", a}};
  }
  json operator()(const std::vector<bool> &v) const
  {
    json a = json::array();
    for (bool k : v)
      a.push_back(std::to_string((int)k));
    return json{{"t", "bool[]"}, {"v", a}};
  }
  json operator()(const std::vector<int32_t> &v) const { return nums("i32[]", v); }
  json operator()(const std::vector<uint32_t> &v) const { return nums("u32[]", v); }
  json operator()(const std::vector<int64_t> &v) const { return nums("i64[]", v); }
  json operator()(const std::vector<uint64_t> &v) const { return nums("u64[]", v); }
  json operator()(const std::vector<uint8_t> &v) const { return nums("u8[]", v); }
  json operator()(const std::vector<double> &v) const
  {
    json a = json::array();
    for (double k : v)
      a.push_back(dbits(k));
    return json{{"t", "dbl[]"}, {"v", a}};
  }
  json operator()(const std::vector<std::string> &v) const
  {
    json a = json::array();
    for (auto &k : v)
      a.push_back(hexs(k));
    return json{{"t", "str[]"}, {"v", a}};
  }
};
inline json canon(const opentelemetry::sdk::common::OwnedAttributeValue &v)
{
  return nostd::visit(CanonVisitor{}, v);
}
// the same for a non-owning value (used by the harness' own Recordable, which must copy at call time)
struct CanonViewVisitor
{
  json operator()(bool v) const { return CanonVisitor{}(v); }
  json operator()(int32_t v) const { return CanonVisitor{}(v); }
  json operator()(uint32_t v) const { return CanonVisitor{}(v); }
  json operator()(int64_t v) const { return CanonVisitor{}(v); }
  json operator()(uint64_t v) const { return CanonVisitor{}(v); }
  json operator()(double v) const { return CanonVisitor{}(v); }
  json operator()(const char *v) const { return CanonVisitor{}(std::string(v)); }
  json operator()(nostd::string_view v) const { return CanonVisitor{}(std::string(v.data(), v.size())); }
  json operator()(nostd::span<const bool> v) const { return CanonVisitor{}(std::vector<bool>(v.begin(), v.end())); }
  json operator()(nostd::span<const int32_t> v) const { return CanonVisitor{}(std::vector<int32_t>(v.begin(), v.end())); }
  json operator()(nostd::span<const uint32_t> v) const { return CanonVisitor{}(std::vector<uint32_t>(v.begin(), v.end())); }
  json operator()(nostd::span<const int64_t> v) const { return CanonVisitor{}(std::vector<int64_t>(v.begin(), v.end())); }
  json operator()(nostd::span<const uint64_t> v) const { return CanonVisitor{}(std::vector<uint64_t>(v.begin(), v.end())); }
  json operator()(nostd::span<const uint8_t> v) const { return CanonVisitor{}(std::vector<uint8_t>(v.begin(), v.end())); }
  json operator()(nostd::span<const double> v) const { return CanonVisitor{}(std::vector<double>(v.begin(), v.end())); }
  json operator()(nostd::span<const nostd::string_view> v) const
  {
    std::vector<std::string> c;
    for (auto s : v)
      c.emplace_back(s.data(), s.size());
    return CanonVisitor{}(c);
  }
};
inline json canon_view(const common::AttributeValue &v)
{
  return nostd::visit(CanonViewVisitor{}, v);
}

// measured coverage: how often each AttributeValue alternative / pool entry was handed to the SDK
inline std::vector<long> &used_types()
{
  static std::vector<long> u(16, 0);
  return u;
}
inline std::set<std::string> &used_labels()
{
  static std::set<std::string> u;
  return u;
}

// builds the AttributeValue for a descriptor with all referenced memory inside the arena
inline common::AttributeValue build(const Desc &x, Arena &a)
{
  used_types()[(size_t)x.t]++;
  used_labels().insert(x.label);
  switch (x.t)
  {
    case V_BOOL: return common::AttributeValue(bool(x.i[0] != 0));
    case V_I32: return common::AttributeValue(int32_t(x.i[0]));
    case V_I64: return common::AttributeValue(int64_t(x.i[0]));
    case V_U32: return common::AttributeValue(uint32_t(x.i[0]));
    case V_U64: return common::AttributeValue(uint64_t(x.u[0]));
    case V_DBL: return common::AttributeValue(double(x.d[0]));
    case V_CSTR: return common::AttributeValue(a.cstr(x.s[0]));
    case V_STR: return common::AttributeValue(a.str(x.s[0]));
    case V_ABOOL:
    {
      std::vector<bool> tmp;
      bool *p = static_cast<bool *>(a.alloc(x.i.size() * sizeof(bool)));
      for (size_t k = 0; k < x.i.size(); ++k)
        p[k] = x.i[k] != 0;
      return common::AttributeValue(nostd::span<const bool>(p, x.i.size()));
    }
    case V_AI32:
    {
      std::vector<int32_t> v(x.i.begin(), x.i.end());
      return common::AttributeValue(a.arr<int32_t>(v));
    }
    case V_AI64:
    {
      std::vector<int64_t> v(x.i.begin(), x.i.end());
      return common::AttributeValue(a.arr<int64_t>(v));
    }
    case V_AU32:
    {
      std::vector<uint32_t> v(x.i.begin(), x.i.end());
      return common::AttributeValue(a.arr<uint32_t>(v));
    }
    case V_ABYTE:
    {
      std::vector<uint8_t> v(x.i.begin(), x.i.end());
      return common::AttributeValue(a.arr<uint8_t>(v));
    }
    case V_AU64: return common::AttributeValue(a.arr<uint64_t>(x.u));
    case V_ADBL: return common::AttributeValue(a.arr<double>(x.d));
    case V_ASTR:
    {
      std::vector<nostd::string_view> v;
      for (auto &s : x.s)
        v.push_back(a.str(s));
      return common::AttributeValue(a.arr<nostd::string_view>(v));
    }
  }
  return common::AttributeValue(false);
}

// ---- iterables whose storage is caller memory (freed with the arena) -------------------------
class SeqKV final : public common::KeyValueIterable
{
public:
  typedef std::pair<nostd::string_view, common::AttributeValue> Item;
  SeqKV(const Item *items, size_t n) : items_(items), n_(n) {}
  bool ForEachKeyValue(nostd::function_ref<bool(nostd::string_view, common::AttributeValue)> cb) const noexcept override
  {
    for (size_t i = 0; i < n_; ++i)
      if (!cb(items_[i].first, items_[i].second))
        return false;
    return true;
  }
  size_t size() const noexcept override { return n_; }

private:
  const Item *items_;
  size_t n_;
};

class SeqLinks final : public opentelemetry::trace::SpanContextKeyValueIterable
{
public:
  struct L
  {
    opentelemetry::trace::SpanContext ctx;
    const SeqKV *kv;
  };
  explicit SeqLinks(std::vector<L> l) : l_(std::move(l)) {}
  bool ForEachKeyValue(nostd::function_ref<bool(opentelemetry::trace::SpanContext, const common::KeyValueIterable &)> cb)
      const noexcept override
  {
    for (auto &x : l_)
      if (!cb(x.ctx, *x.kv))
        return false;
    return true;
  }
  size_t size() const noexcept override { return l_.size(); }

private:
  std::vector<L> l_;
};
}  // namespace c04
