// C15 - replayer / recorder for opentelemetry::baggage::Baggage and the BaggagePropagator
// (public API only).
//
//   c15_baggage replay <behaviours.ndjson>   spec -> code: each line {"id","inst","steps":[..]} is a TLC
//                                            behaviour of spec/Baggage.tla
//   c15_baggage record <seed> <nexec> <len>  code -> spec: random Set/Delete/round-trip histories logged in
//                                            the vocabulary of spec/BaggageTrace.tla
//   c15_baggage bytes <seed> <n>             by-product only: arbitrary header bytes through
//                                            BaggagePropagator::Extract under ASan/UBSan (no oracle, a
//                                            crash is the only finding)
//
// Concretisation table (abstract character class -> byte; `inst` seeds the free choices, fixed within
// one behaviour):
//   a, b   two DIFFERENT characters of  A-Z a-z 0-9 - _ . ~ (inst % 3 == 1: b is a in the other case)
//          sp  ' '     tab  '\t'
//   eq '='  cm ','  sc ';'  pc '%'  pl '+'
//   op     one of  ! " # $ & ' ( ) * / : < > ? @ [ \ ] ^ ` { | }
//   np     any of  0x00-0x08 0x0e-0x1f 0x7f 0x80-0xff   (never a C isspace() byte: at the
//          border of a member that would be optional white space - a don't-care)
//   run [c, n]        n copies of the character
//   token lit         the character itself;  enc  '%' + two hex digits (random case per digit);
//         raw         the byte itself;       bad  g1 "%G1"-like, 1g "%1G"-like, t1 "%4", t0 "%"
// Expected injected headers are matched token by token; for an encoded blank both "+" and "%20" are
// accepted, hex digits in either case, and a token character may also appear escaped (the statement
// pins none of these).
// An expected extraction result is a PATTERN computed by TLC (Pat in spec/Baggage.tla): {"u": entries (and
// wildcards) whose key occurs once among the valid members - kept exactly so, in this order; "d": one record
// {"k","vals","n"} per key that several valid members state - the result holds 1..n entries with that key, each
// with one of the stated values, at any position}.  GetValue must return the value of every key that is listed
// once, and one of `vals` for a repeated key.
// The carrier hands out exactly-sized heap copies without NUL terminator.
#include <algorithm>
#include <cctype>
#include <cstdint>
#include <cstring>
#include <fstream>
#include <iostream>
#include <map>
#include <memory>
#include <string>
#include <vector>

#include <nlohmann/json.hpp>

#include "opentelemetry/baggage/baggage.h"
#include "opentelemetry/baggage/baggage_context.h"
#include "opentelemetry/baggage/propagation/baggage_propagator.h"
#include "opentelemetry/context/context.h"

using json = nlohmann::json;
namespace nostd   = opentelemetry::nostd;
namespace context = opentelemetry::context;
using opentelemetry::baggage::Baggage;
typedef nostd::shared_ptr<Baggage> BgPtr;
typedef std::vector<std::pair<std::string, std::string>> List;

struct Rng
{
  uint64_t s;
  explicit Rng(uint64_t seed) : s(seed * 0x9E3779B97F4A7C15ull + 0x7654321ull) {}
  uint64_t next()
  {
    uint64_t z = (s += 0x9E3779B97F4A7C15ull);
    z          = (z ^ (z >> 30)) * 0xBF58476D1CE4E5B9ull;
    z          = (z ^ (z >> 27)) * 0x94D049BB133111EBull;
    return z ^ (z >> 31);
  }
  size_t below(size_t n) { return n ? (size_t)(next() % n) : 0; }
  char pick(const std::string &set) { return set[below(set.size())]; }
  bool coin(int pct) { return below(100) < (size_t)pct; }
};

struct Buf
{
  char *p;
  size_t n;
  explicit Buf(const std::string &s) : p(new char[s.size() ? s.size() : 1]), n(s.size()) { memcpy(p, s.data(), s.size()); }
  nostd::string_view view() const { return nostd::string_view(p, n); }
  ~Buf()
  {
    memset(p, 'X', n ? n : 1);
    delete[] p;
  }
};

// carrier: every Get returns an exactly-sized heap copy (no NUL) that lives as long as the carrier
class Carrier : public context::propagation::TextMapCarrier
{
public:
  std::map<std::string, std::string> h;
  mutable std::vector<std::unique_ptr<Buf>> handed;
  nostd::string_view Get(nostd::string_view key) const noexcept override
  {
    auto it = h.find(std::string(key.data(), key.size()));
    if (it == h.end())
      return "";
    handed.emplace_back(new Buf(it->second));
    return handed.back()->view();
  }
  void Set(nostd::string_view key, nostd::string_view value) noexcept override
  {
    h[std::string(key.data(), key.size())] = std::string(value.data(), value.size());
  }
};

static const std::string TOKCH = "ABCDEFGHIJKLMNOPQRSTUVWXYZabcdefghijklmnopqrstuvwxyz0123456789-_.~";
static const std::string OPCH  = "!\"#$&'()*/:<>?@[\\]^`{|}";
// every non-printable byte that is not a C isspace() byte: 0x00-0x08, 0x0e-0x1f, 0x7f, 0x80-0xff
static std::string np_bytes()
{
  std::string s;
  for (int c = 0; c < 256; ++c)
    if ((c < 0x20 && !(c >= 0x09 && c <= 0x0d)) || c >= 0x7f)
      s.push_back((char)c);
  return s;
}
static const std::string NPCH = np_bytes();

struct Conc
{
  std::map<std::string, char> cm;
  std::map<char, std::string> back;
  explicit Conc(uint64_t inst)
  {
    Rng r(inst ^ 0x5151);
    cm["a"] = r.pick(TOKCH);
    do
      cm["b"] = r.pick(TOKCH);
    while (cm["b"] == cm["a"]);
    // every third instance: b is a in the other case (keys "ab"/"aa", "a"/"b" ... are then equal up to case)
    if (inst % 3 == 1)
    {
      while (!isalpha((unsigned char)cm["a"]))
        cm["a"] = r.pick(TOKCH);
      cm["b"] = (char)(cm["a"] ^ 0x20);
    }
    cm["sp"]  = ' ';
    cm["tab"] = '\t';
    cm["eq"]  = '=';
    cm["cm"]  = ',';
    cm["sc"]  = ';';
    cm["pc"]  = '%';
    cm["pl"]  = '+';
    cm["op"]  = r.pick(OPCH);
    cm["np"]  = r.pick(NPCH);
    for (auto &e : cm)
      back[e.second] = e.first;
  }
  char ch(const std::string &c) const
  {
    auto it = cm.find(c);
    return it == cm.end() ? '?' : it->second;
  }
  std::string str(const json &runs) const
  {
    std::string s;
    for (auto &r : runs)
      s.append(r["n"].get<size_t>(), ch(r["c"].get<std::string>()));
    return s;
  }
  List list(const json &l) const
  {
    List r;
    for (auto &e : l)
      r.push_back({str(e[0]), str(e[1])});
    return r;
  }
  static bool is_wild(const json &e) { return e[0].size() == 1 && e[0][0]["c"] == "?"; }
  std::string header(const json &toks, Rng &r) const
  {
    static const char *HU = "0123456789ABCDEF", *HL = "0123456789abcdef";
    std::string h;
    for (auto &t : toks)
    {
      std::string kind = t["t"].get<std::string>(), c = t["c"].get<std::string>();
      size_t n = t["n"].get<size_t>();
      if (kind == "lit" || kind == "raw")
        h.append(n, ch(c));
      else if (kind == "enc")
      {
        unsigned char x = (unsigned char)ch(c);
        for (size_t i = 0; i < n; ++i)
        {
          const char *t1 = r.coin(50) ? HU : HL;
          const char *t2 = r.coin(50) ? HU : HL;
          unsigned hi = x / 16u, lo = x % 16u;
          h.push_back('%');
          h.push_back(t1[hi]);
          h.push_back(t2[lo]);
        }
      }
      else if (kind == "bad")
      {
        static const std::string NONHEX = "GZgz~_Xx";
        static const std::string HEX    = "0123456789abcdefABCDEF";
        if (c == "g1")
          h += std::string("%") + r.pick(NONHEX) + r.pick(HEX);
        else if (c == "1g")
          h += std::string("%") + r.pick(HEX) + r.pick(NONHEX);
        else if (c == "t1")
          h += std::string("%") + r.pick(HEX);
        else
          h += "%";
      }
    }
    return h;
  }
  // abstraction of a real string back into runs (recorder)
  json abs(const std::string &s) const
  {
    json a = json::array();
    for (char c : s)
    {
      auto it         = back.find(c);
      std::string cls = it == back.end() ? "?" : it->second;
      if (!a.empty() && a.back()["c"] == cls)
        a.back()["n"] = a.back()["n"].get<size_t>() + 1;
      else
        a.push_back({{"c", cls}, {"n", 1}});
    }
    return a;
  }
  json abs_list(const List &l) const
  {
    json a = json::array();
    for (auto &e : l)
      a.push_back(json::array({abs(e.first), abs(e.second)}));
    return a;
  }
};

static std::string show(const std::string &s)
{
  std::string o;
  size_t lim = 60;
  for (unsigned char c : s.substr(0, lim))
  {
    if (c >= 0x20 && c < 0x7f && c != '"' && c != '\\')
      o.push_back((char)c);
    else
    {
      char b[8];
      snprintf(b, sizeof b, "\\x%02x", c);
      o += b;
    }
  }
  if (s.size() > lim)
    o += "...(" + std::to_string(s.size()) + " bytes)";
  return o;
}
static json show_list(const List &l)
{
  json a = json::array();
  for (size_t i = 0; i < l.size() && i < 8; ++i)
    a.push_back(show(l[i].first) + " => " + show(l[i].second));
  if (l.size() > 8)
    a.push_back("... " + std::to_string(l.size()) + " entries");
  return a;
}

static List entries(const BgPtr &b)
{
  List l;
  b->GetAllEntries([&l](nostd::string_view k, nostd::string_view v) {
    l.push_back({std::string(k.data(), k.size()), std::string(v.data(), v.size())});
    return true;
  });
  return l;
}
static bool same_set(List a, List b)
{
  std::sort(a.begin(), a.end());
  std::sort(b.begin(), b.end());
  return a == b;
}
static bool printable(const std::string &s)
{
  for (unsigned char c : s)
    if (c < 0x20 || c > 0x7e)
      return false;
  return true;
}
// GetValue agrees with GetAllEntries for every key - and for what is NOT there: a proper prefix, a
// one-character extension and the case variant of a key that are not themselves keys are not found
static bool gets_ok(const BgPtr &b, const List &l)
{
  for (auto &e : l)
  {
    std::string v = "<unset>";
    Buf k(e.first);
    if (!b->GetValue(k.view(), v))
      return false;
    // a key listed once answers its value; a key an extracted baggage lists several times answers one of them
    bool among = false;
    for (auto &m : l)
      among = among || (m.first == e.first && m.second == v);
    if (!among)
      return false;
    std::string flipped = e.first;
    for (auto &c : flipped)
      if (isalpha((unsigned char)c))
        c = (char)(c ^ 0x20);
    std::string probes[3] = {e.first.substr(0, e.first.size() - 1), e.first + e.first.back(), flipped};
    for (auto &pk : probes)
    {
      bool member = false;
      for (auto &m : l)
        member = member || m.first == pk;
      Buf p(pk);
      if (!member && b->GetValue(p.view(), v))
        return false;
    }
  }
  return true;
}

// pattern match with wildcards ("zero or one arbitrary valid entry")
static bool match_pat(const std::vector<std::pair<bool, std::pair<std::string, std::string>>> &p, size_t i, const List &o,
                      size_t j)
{
  if (i == p.size())
    return j == o.size();
  if (p[i].first)
  {
    if (match_pat(p, i + 1, o, j))
      return true;
    return j < o.size() && !o[j].first.empty() && printable(o[j].first) && printable(o[j].second) &&
           match_pat(p, i + 1, o, j + 1);
  }
  return j < o.size() && o[j] == p[i].second && match_pat(p, i + 1, o, j + 1);
}
static bool match_list(const Conc &cz, const json &pat, const List &got, const BgPtr &bag)
{
  // the repeated keys (a band of their own) are taken out of the observed list first
  const json &exp = pat["u"];
  List o;
  for (auto &g : got)
  {
    bool rep = false;
    for (auto &d : pat["d"])
      rep = rep || cz.str(d["k"]) == g.first;
    if (!rep)
      o.push_back(g);
  }
  for (auto &d : pat["d"])
  {
    std::string k = cz.str(d["k"]);
    std::vector<std::string> vals;
    for (auto &v : d["vals"])
      vals.push_back(cz.str(v));
    size_t cnt = 0;
    for (auto &g : got)
      if (g.first == k)
      {
        ++cnt;
        if (std::find(vals.begin(), vals.end(), g.second) == vals.end())
          return false;
      }
    if (cnt < 1 || cnt > d["n"].get<size_t>())
      return false;
    std::string v = "<unset>";
    Buf kb(k);
    if (!bag->GetValue(kb.view(), v) || std::find(vals.begin(), vals.end(), v) == vals.end())
      return false;
  }
  // GetValue of every key that is listed once returns the listed value
  for (auto &g : got)
  {
    size_t cnt = 0;
    for (auto &h : got)
      cnt += h.first == g.first;
    std::string v = "<unset>";
    Buf kb(g.first);
    if (cnt == 1 && (!bag->GetValue(kb.view(), v) || v != g.second))
      return false;
  }
  std::vector<std::pair<bool, std::pair<std::string, std::string>>> p;
  for (auto &e : exp)
  {
    if (Conc::is_wild(e))
      p.push_back({true, {"", ""}});
    else
      p.push_back({false, {cz.str(e[0]), cz.str(e[1])}});
  }
  return match_pat(p, 0, o, 0);
}

// Set / Delete results are compared as (multi)sets - the position of entries afterwards is not promised: the
// entries whose key is listed once in the pattern exactly once each, the band for the other repeated keys
static bool match_unordered(const Conc &cz, const json &pat, const List &got, const BgPtr &bag)
{
  List rest, want = cz.list(pat["u"]);
  json p2 = {{"u", json::array()}, {"d", pat["d"]}};
  List banded;
  for (auto &g : got)
  {
    bool rep = false;
    for (auto &d : pat["d"])
      rep = rep || cz.str(d["k"]) == g.first;
    (rep ? banded : rest).push_back(g);
  }
  return same_set(rest, want) && match_list(cz, p2, banded, bag);
}

// does the real header text realise the expected token sequence?
static bool match_header(const Conc &cz, const std::string &h, const std::vector<json> &members)
{
  size_t pos = 0;
  auto hexv  = [](char c) -> int {
    if (c >= '0' && c <= '9')
      return c - '0';
    if (c >= 'a' && c <= 'f')
      return c - 'a' + 10;
    if (c >= 'A' && c <= 'F')
      return c - 'A' + 10;
    return -1;
  };
  for (size_t m = 0; m < members.size(); ++m)
  {
    if (m)
    {
      if (pos >= h.size() || h[pos] != ',')
        return false;
      ++pos;
    }
    for (auto &t : members[m])
    {
      std::string kind = t["t"].get<std::string>();
      char c           = cz.ch(t["c"].get<std::string>());
      size_t n         = t["n"].get<size_t>();
      for (size_t i = 0; i < n; ++i)
      {
        // raw (separators, ;metadata): verbatim.  lit: the token character itself - its percent escape
        // is tolerated too (the statement only says what MUST be escaped).  enc: must be escaped.
        if (kind == "raw" || (kind == "lit" && pos < h.size() && h[pos] == c))
        {
          if (pos >= h.size() || h[pos] != c)
            return false;
          ++pos;
        }
        else if (kind == "enc" || kind == "lit")
        {
          if (c == ' ' && pos < h.size() && h[pos] == '+')
          {
            ++pos;
            continue;
          }
          if (pos + 3 > h.size())
            return false;
          if (h[pos] != '%' || hexv(h[pos + 1]) < 0 || hexv(h[pos + 2]) < 0 ||
              (unsigned char)(hexv(h[pos + 1]) * 16 + hexv(h[pos + 2])) != (unsigned char)c)
            return false;
          pos += 3;
        }
        else
          return false;
      }
    }
  }
  return pos == h.size();
}

static const char *kOther = "verif-unrelated-key";

// Inject b through the propagator, return the carrier
static void inject(const BgPtr &b, Carrier &car)
{
  context::Context c0;
  context::Context ctx = opentelemetry::baggage::SetBaggage(c0, b);
  opentelemetry::baggage::propagation::BaggagePropagator prop;
  prop.Inject(car, ctx);
}

struct ExtractOut
{
  List got;
  BgPtr bag;
  bool other_ok;
};
static ExtractOut extract(const std::string &hdr, bool present, const BgPtr *b0)
{
  Carrier car;
  if (present)
    car.h["baggage"] = hdr;
  context::Context c0;
  context::Context c1 = c0.SetValue(kOther, (int64_t)4711);
  context::Context c2 = b0 ? opentelemetry::baggage::SetBaggage(c1, *b0) : c1;
  opentelemetry::baggage::propagation::BaggagePropagator prop;
  context::Context res = prop.Extract(car, c2);
  ExtractOut o;
  o.bag      = opentelemetry::baggage::GetBaggage(res);
  o.got      = entries(o.bag);
  auto other = res.GetValue(kOther);
  o.other_ok = nostd::holds_alternative<int64_t>(other) && nostd::get<int64_t>(other) == 4711;
  // the caller's context is a value: it still shows what it had
  List before = b0 ? entries(*b0) : List();
  if (entries(opentelemetry::baggage::GetBaggage(c2)) != before)
    o.other_ok = false;
  return o;
}

static BgPtr build(const List &l)
{
  BgPtr b = Baggage::GetDefault();
  for (size_t i = l.size(); i-- > 0;)
  {
    Buf k(l[i].first), v(l[i].second);
    b = b->Set(k.view(), v.view());
  }
  return b;
}

// ---------------------------------------------------------------------------------------------
static int replay(const char *path)
{
  std::ifstream in(path);
  std::string line;
  while (std::getline(in, line))
  {
    if (line.empty())
      continue;
    json b        = json::parse(line);
    long id       = b["id"].get<long>();
    uint64_t inst = b["inst"].get<uint64_t>();
    Conc cz(inst);
    Rng r(inst ^ 0xfeed);
    std::vector<BgPtr> objs;
    std::vector<List> seen;  // the ORDERED list each object showed when it was created
    json took = json::array();
    json res  = {{"beh", id}, {"ok", true}, {"stopped", -1}};
    size_t si = 0;
    for (auto &st : b["steps"])
    {
      std::string op = st["op"].get<std::string>();
      std::string why;
      json got;
      auto fail = [&](const std::string &w, const List &g, const json &extra) {
        why = w;
        got = {{"list", show_list(g)}, {"info", extra}};
      };
      if (op == "build" || op == "set" || op == "del")
      {
        BgPtr nw;
        json info;
        if (op == "build")
          nw = build(cz.list(st["exp"]));
        else if (op == "set")
        {
          Buf k(cz.str(st["k"])), v(cz.str(st["v"]));
          nw   = objs[st["o"].get<size_t>() - 1]->Set(k.view(), v.view());
          info = {show(cz.str(st["k"])), show(cz.str(st["v"]))};
        }
        else
        {
          Buf k(cz.str(st["k"]));
          nw   = objs[st["o"].get<size_t>() - 1]->Delete(k.view());
          info = {show(cz.str(st["k"]))};
        }
        List g = entries(nw);
        List e = cz.list(st["exp"]);
        if (!same_set(g, e))
          fail(op + " result differs (as a set of entries)", g, {{"args", info}, {"expected", show_list(e)}});
        else
        {
          objs.push_back(nw);
          seen.push_back(g);
          took.push_back("exp");
        }
      }
      else if (op == "xdel" || op == "xset")
      {
        // Set / Delete on the baggage that came out of an extraction (it may list a key several times)
        std::string ks = cz.str(st["k"]), vs = cz.str(st["v"]);
        Buf k(ks), v(vs);
        BgPtr src = objs[st["o"].get<size_t>() - 1];
        BgPtr nw  = op == "xdel" ? src->Delete(k.view()) : src->Set(k.view(), v.view());
        List g    = entries(nw);
        std::string gv = "<unset>";
        bool found     = nw->GetValue(k.view(), gv);
        if (!match_unordered(cz, st["exp"], g, nw))
          fail(op + " on an extracted baggage: the result does not hold exactly the other entries" +
                   (op == "xset" ? " and the new one, once" : "") + " (no entry with the key may survive)",
               g, {{"key", show(ks)}, {"source", show_list(entries(src))}});
        else if (op == "xdel" ? found : (!found || gv != vs))
          fail(op + " on an extracted baggage: GetValue of the key disagrees", g, {{"key", show(ks)}, {"GetValue", show(gv)}});
        else
        {
          objs.push_back(nw);
          seen.push_back(g);
          took.push_back("exp");
        }
      }
      else if (op == "setbad")
      {
        Buf k(cz.str(st["k"])), v(cz.str(st["v"]));
        BgPtr nw = objs[st["o"].get<size_t>() - 1]->Set(k.view(), v.view());
        (void)entries(nw);
        (void)nw->ToHeader();
        took.push_back("exp");
      }
      else if (op == "rt")
      {
        size_t o = st["o"].get<size_t>() - 1;
        Carrier car;
        inject(objs[o], car);
        List src = entries(objs[o]);
        List e   = cz.list(st["exp"]);
        bool has = car.h.count("baggage") > 0;
        std::string hdr = has ? car.h["baggage"] : "";
        // expected header: the members TLC computed, in the order the real object lists its entries
        std::vector<json> mem;
        bool mapped = src.size() == e.size();
        for (auto &s : src)
        {
          bool f = false;
          for (size_t i = 0; i < e.size() && mapped; ++i)
            if (e[i].first == s.first)
            {
              mem.push_back(st["members"][i]);
              f = true;
              break;
            }
          mapped = mapped && f;
        }
        if (car.h.size() > (has ? 1u : 0u))
          fail("Inject wrote foreign headers", src, {{"carrier_keys", car.h.size()}});
        else if (!mapped)
          fail("source object does not hold the expected entries", src, {{"expected", show_list(e)}});
        else if (src.empty() ? !hdr.empty() : !match_header(cz, hdr, mem))
          fail("injected header is not the expected encoding", src, {{"header", show(hdr)}});
        else
        {
          ExtractOut x = extract(hdr, has, nullptr);
          if (x.got != src)
            fail("Extract(Inject(b)) differs from b (entries / order)", x.got, {{"header", show(hdr)}, {"source", show_list(src)}});
          else if (!x.other_ok)
            fail("Extract disturbed the caller's context", x.got, {});
          else
          {
            objs.push_back(x.bag);  // the extracted baggage is a new object
            seen.push_back(x.got);
            took.push_back("exp");
          }
        }
      }
      else if (op == "extract")
      {
        std::string hdr = cz.header(st["hdr"], r);
        BgPtr b0;
        bool use_b0 = st["ctx0"].get<std::string>() == "b0";
        if (use_b0)
          b0 = build(cz.list(st["b0"]));
        ExtractOut x = extract(hdr, true, use_b0 ? &b0 : nullptr);
        std::string t;
        if (match_list(cz, st["exp"], x.got, x.bag))
          t = "exp";
        else
        {
          for (auto &a : st["alt"])
            if (t.empty() && match_list(cz, a, x.got, x.bag))
              t = "dc";
          for (auto &d : st["dev"])
            if (t.empty() && match_list(cz, d["res"], x.got, x.bag))
              t = d["dev"].get<std::string>();
        }
        if (t.empty())
          fail("extraction result matches neither the expected entries (every valid member whose key is its own exactly once, "
               "in header order; a repeated key 1..n times with stated values; GetValue agreeing) nor a listed alternative",
               x.got,
               {{"header", show(hdr)}, {"header_bytes", hdr.size()}});
        else if (!x.other_ok)
          fail("Extract disturbed the caller's context", x.got, {{"header", show(hdr)}});
        else
        {
          took.push_back(t);
          if (st.contains("push") && st["push"].get<bool>())
          {
            objs.push_back(x.bag);  // operated on by the following steps
            seen.push_back(x.got);
          }
        }
      }
      else
      {
        std::cerr << "unknown op " << op << "\n";
        return 5;
      }
      // immutability: every object still shows exactly the ordered list it showed when created
      if (why.empty())
        for (size_t o = 0; o < objs.size(); ++o)
        {
          List g = entries(objs[o]);
          if (g != seen[o] || !gets_ok(objs[o], g))
          {
            fail("object #" + std::to_string(o + 1) + " changed (or GetValue disagrees) after step " + std::to_string(si) +
                     " (" + op + ")",
                 g, {{"was", show_list(seen[o])}});
            break;
          }
        }
      if (!why.empty())
      {
        res["ok"]   = false;
        res["step"] = si;
        res["what"] = why;
        res["got"]  = got;
        break;
      }
      ++si;
    }
    res["took"]  = took;
    res["chars"] = std::string(1, cz.ch("a")) + cz.ch("b") + cz.ch("op");
    std::cout << res.dump() << "\n" << std::flush;
  }
  return 0;
}

// ---------------------------------------------------------------------------------------------
static int record(uint64_t seed, int nexec, int len)
{
  static const char *PR[] = {"a", "b", "sp", "eq", "cm", "sc", "pc", "pl", "op"};
  for (int x = 0; x < nexec; ++x)
  {
    Rng r(seed * 7919ull + x);
    Conc cz(r.next());
    std::cout << json({{"e", "Cfg"}, {"x", x}}).dump() << "\n";
    auto rnd_str = [&](size_t maxlen, bool value) {
      std::string s;
      size_t n = r.below(maxlen + 1);
      bool meta = false;
      for (size_t i = 0; i < n; ++i)
      {
        std::string c = PR[r.below(9)];
        if (meta && c == "cm")
          c = "a";  // promised domain: no unescaped separator after ';'
        if (c == "sc" && value)
          meta = true;
        s.append(r.coin(15) ? 1 + r.below(4) : 1, cz.ch(c));
      }
      if (meta && !s.empty() && s.back() == ' ')
        s.push_back(cz.ch("b"));  // no blank at the very end of the metadata (optional white space)
      return s;
    };
    // 10..20 distinct keys
    std::vector<std::string> keys;
    size_t nk = 10 + r.below(11);
    while (keys.size() < nk)
    {
      // a third of the keys are unrelated, the others are derived from an earlier key: one or two characters
      // longer (prefix chains k, k1, k10), the last character replaced (same length), or the case variant
      std::string k = rnd_str(5, false);
      if (!keys.empty() && r.coin(65))
      {
        k           = keys[r.below(keys.size())];
        size_t how  = r.below(4);
        std::string c1(1, cz.ch(PR[r.below(9)]));
        if (how == 0)
          k += c1;
        else if (how == 1)
          k += c1 + std::string(1, cz.ch(PR[r.below(9)]));
        else if (how == 2)
          k.back() = c1[0];
        else
          for (auto &c : k)
            if (c == cz.ch("a") || c == cz.ch("b"))
              c = (c == cz.ch("a")) ? cz.ch("b") : cz.ch("a");
      }
      if (!k.empty() && std::find(keys.begin(), keys.end(), k) == keys.end())
        keys.push_back(k);
    }
    std::vector<BgPtr> objs;
    objs.push_back(Baggage::GetDefault());
    auto obs = [&](size_t o) {
      List l = entries(objs[o]);
      std::cout << json({{"e", "Obs"}, {"o", o + 1}, {"list", cz.abs_list(l)}, {"gets", gets_ok(objs[o], l)}}).dump() << "\n";
    };
    for (int s = 0; s < len; ++s)
    {
      size_t o    = r.coin(70) ? objs.size() - 1 - r.below(std::min<size_t>(3, objs.size())) : r.below(objs.size());
      size_t kind = r.below(100);
      if (kind < 50)
      {
        std::string k = keys[r.below(nk)], v = rnd_str(6, true);
        BgPtr nw;
        {
          Buf kb(k), vb(v);
          nw = objs[o]->Set(kb.view(), vb.view());
        }
        objs.push_back(nw);
        std::cout << json({{"e", "Set"}, {"o", o + 1}, {"k", cz.abs(k)}, {"v", cz.abs(v)}, {"res", cz.abs_list(entries(nw))}})
                         .dump()
                  << "\n";
      }
      else if (kind < 55)
      {
        std::string k = r.coin(50) ? std::string() : keys[r.below(nk)] + std::string(1, cz.ch("np"));
        std::string v = rnd_str(3, true);
        if (!k.empty() && r.coin(50))
        {
          k = keys[r.below(nk)];
          v += cz.ch("np");
        }
        {
          Buf kb(k), vb(v);
          BgPtr nw = objs[o]->Set(kb.view(), vb.view());
          (void)entries(nw);
        }
        std::cout << json({{"e", "SetBad"}, {"o", o + 1}, {"k", cz.abs(k)}, {"v", cz.abs(v)}}).dump() << "\n";
      }
      else if (kind < 70)
      {
        std::string k = keys[r.below(nk)];
        BgPtr nw;
        {
          Buf kb(k);
          nw = objs[o]->Delete(kb.view());
        }
        objs.push_back(nw);
        std::cout << json({{"e", "Del"}, {"o", o + 1}, {"k", cz.abs(k)}, {"res", cz.abs_list(entries(nw))}}).dump() << "\n";
      }
      else
      {
        Carrier car;
        inject(objs[o], car);
        bool has       = car.h.count("baggage") > 0;
        ExtractOut out = extract(has ? car.h["baggage"] : "", has, nullptr);
        objs.push_back(out.bag);  // the extracted baggage is a new object
        std::cout << json({{"e", "Rt"}, {"o", o + 1}, {"res", cz.abs_list(out.got)}, {"other", out.other_ok}}).dump() << "\n";
      }
      obs(o);
      if (objs.size() > 2 && r.coin(50))
        obs(r.below(objs.size() - 1));
    }
    std::cout << json({{"e", "End"}, {"objects", objs.size()}}).dump() << "\n";
  }
  return 0;
}

// ---------------------------------------------------------------------------------------------
static int bytes(uint64_t seed, int n)
{
  Rng r(seed);
  static const char raw[] = "=,;%+ \t\0\x01\x7f\x80\xff" "0123456789abcdefABCDEFgG-_.~kv";
  static const std::string interesting(raw, sizeof(raw) - 1);
  long kept = 0;
  for (int i = 0; i < n; ++i)
  {
    std::string h;
    size_t mode = r.below(6);
    size_t len  = mode == 0 ? r.below(40) : mode == 1 ? r.below(600) : mode == 2 ? 4090 + r.below(12) : mode == 3 ? 8186 + r.below(12)
                                                                                                   : r.below(3000);
    if (mode == 5)
    {
      // many members
      size_t m = 170 + r.below(30);
      for (size_t j = 0; j < m; ++j)
        h += (j ? "," : "") + std::string(1, r.pick(TOKCH)) + std::to_string(j) + "=" + std::string(r.below(3), r.pick(interesting));
    }
    else
      for (size_t j = 0; j < len; ++j)
        h.push_back(r.coin(85) ? r.pick(interesting) : (char)r.below(256));
    ExtractOut x = extract(h, true, nullptr);
    kept += (long)x.got.size();
    if (!x.other_ok)
    {
      std::cout << json({{"e", "bytes"}, {"ok", false}, {"i", i}, {"header", show(h)}}).dump() << "\n";
      return 0;
    }
    // feed what was kept back through Inject (never crashes either)
    Carrier car;
    inject(build(x.got), car);
  }
  std::cout << json({{"e", "bytes"}, {"ok", true}, {"n", n}, {"kept", kept}}).dump() << "\n";
  return 0;
}

int main(int argc, char **argv)
{
  if (argc >= 3 && std::string(argv[1]) == "replay")
    return replay(argv[2]);
  if (argc >= 5 && std::string(argv[1]) == "record")
    return record(strtoull(argv[2], nullptr, 10), atoi(argv[3]), atoi(argv[4]));
  if (argc >= 4 && std::string(argv[1]) == "bytes")
    return bytes(strtoull(argv[2], nullptr, 10), atoi(argv[3]));
  std::cerr << "usage: c15_baggage replay <file> | record <seed> <nexec> <len> | bytes <seed> <n>\n";
  return 5;
}
