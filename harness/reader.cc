// Engine harness for the real PeriodicExportingMetricReader + MeterProvider (C02, C03):
// recorder thread(s), concurrent ForceFlush callers, Shutdown, the reader's worker thread and its
// per-cycle collect thread (std::promise/std::future + export timeout) all run under the deterministic
// scheduler; interval and export-timeout timers are scheduler choices.
// Level-A event log validated by spec/ReaderMonitor.tla.
//
//   reader explore <random|pct|dfs> <n> <seed> [scenario [bound]]
// scenario = nrec,nadd,nf,ns,lat,fto,expfail
#include "opentelemetry/metrics/async_instruments.h"
#include "opentelemetry/metrics/meter.h"
#include "opentelemetry/metrics/sync_instruments.h"
#include "opentelemetry/sdk/common/global_log_handler.h"
#include "opentelemetry/sdk/metrics/export/periodic_exporting_metric_reader.h"
#include "opentelemetry/sdk/metrics/export/periodic_exporting_metric_reader_options.h"
#include "opentelemetry/sdk/metrics/meter_provider.h"
#include "opentelemetry/sdk/metrics/push_metric_exporter.h"

#include "hcommon.h"

namespace sdkmetrics = opentelemetry::sdk::metrics;
namespace sdkcommon  = opentelemetry::sdk::common;
namespace nostd      = opentelemetry::nostd;
using hc::emitf;

struct Scenario
{
  int nrec = 1, nadd = 2, nf = 1, ns = 1, lat = 1, fto = 0, expfail = 0;
};

static bool g_expfail = false;
static bool g_ff_always_fails = false;  // expfail == 2: the exporter's ForceFlush always reports failure
static int g_lat      = 0;

struct VMetricExporter final : public sdkmetrics::PushMetricExporter
{
  sdkcommon::ExportResult Export(const sdkmetrics::ResourceMetrics &data) noexcept override
  {
    long sum = 0;
    for (auto &sm : data.scope_metric_data_)
      for (auto &md : sm.metric_data_)
      {
        if (md.instrument_descriptor.name_ != "c")
          continue;
        for (auto &pa : md.point_data_attr_)
          if (nostd::holds_alternative<sdkmetrics::SumPointData>(pa.point_data))
          {
            auto &sp = nostd::get<sdkmetrics::SumPointData>(pa.point_data);
            if (nostd::holds_alternative<int64_t>(sp.value_))
              sum += (long)nostd::get<int64_t>(sp.value_);
          }
      }
    emitf("{\"e\":\"XBegin\",\"sum\":%ld}", sum);
    if (g_lat == 9)
      std::this_thread::sleep_for(std::chrono::milliseconds(300));  // slower than export_timeout (40 ms)
    else
      for (int i = 0; i < g_lat; ++i)
        vs::point(vs::K_USER, nullptr);
    bool fail = g_expfail && vs::choose(2) == 1;
    emitf("{\"e\":\"XEnd\",\"ok\":%s}", fail ? "false" : "true");
    return fail ? sdkcommon::ExportResult::kFailure : sdkcommon::ExportResult::kSuccess;
  }
  sdkmetrics::AggregationTemporality GetAggregationTemporality(sdkmetrics::InstrumentType) const noexcept override
  {
    return sdkmetrics::AggregationTemporality::kCumulative;
  }
  bool ForceFlush(std::chrono::microseconds) noexcept override
  {
    vs::point(vs::K_USER, nullptr);
    bool fail = g_ff_always_fails || (g_expfail && vs::choose(2) == 1);
    emitf("{\"e\":\"XFF\",\"ok\":%s}", fail ? "false" : "true");
    return !fail;
  }
  bool Shutdown(std::chrono::microseconds) noexcept override
  {
    vs::point(vs::K_USER, nullptr);
    emitf("{\"e\":\"XSD\"}");
    return true;
  }
};

static std::chrono::microseconds fto_value(int cls)
{
  switch (cls)
  {
    case 0:
      return std::chrono::microseconds(0);
    case 1:
      return std::chrono::microseconds(30000);   // less than the export interval
    case 2:
      return std::chrono::microseconds(250000);  // a few intervals
    default:
      return (std::chrono::microseconds::max)();
  }
}

static void observe_cb(opentelemetry::metrics::ObserverResult, void *)
{
  emitf("{\"e\":\"Collected\"}");
}

static void run_scenario(const Scenario &sc)
{
  g_expfail = sc.expfail == 1;
  g_ff_always_fails = sc.expfail == 2;
  g_lat     = sc.lat;
  {
    sdkmetrics::PeriodicExportingMetricReaderOptions o;
    o.export_interval_millis = std::chrono::milliseconds(100);
    o.export_timeout_millis  = std::chrono::milliseconds(40);
    std::unique_ptr<sdkmetrics::MeterProvider> prov(new sdkmetrics::MeterProvider());
    auto meter   = prov->GetMeter("verif", "1");
    auto counter = meter->CreateUInt64Counter("c");
    auto gauge   = meter->CreateInt64ObservableGauge("g");
    gauge->AddCallback(observe_cb, nullptr);
    std::shared_ptr<sdkmetrics::MetricReader> reader(new sdkmetrics::PeriodicExportingMetricReader(
        std::unique_ptr<sdkmetrics::PushMetricExporter>(new VMetricExporter()), o));
    prov->AddMetricReader(reader);  // starts the worker thread
    std::vector<std::thread> recorders, others;
    for (int r = 0; r < sc.nrec; ++r)
      recorders.emplace_back([&, r]() {
        for (int i = 0; i < sc.nadd; ++i)
        {
          emitf("{\"e\":\"AddCall\",\"t\":%d}", r);
          counter->Add(1);
          emitf("{\"e\":\"AddRet\",\"t\":%d}", r);
        }
      });
    for (int f = 0; f < sc.nf; ++f)
      others.emplace_back([&, f]() {
        int cls = (sc.fto + f) % 4;
        emitf("{\"e\":\"FFCall\",\"f\":%d,\"to\":%d}", f, cls);
        bool r = prov->ForceFlush(fto_value(cls));
        emitf("{\"e\":\"FFRet\",\"f\":%d,\"r\":%s}", f, r ? "true" : "false");
      });
    for (int s = 0; s < sc.ns; ++s)
      others.emplace_back([&, s]() {
        emitf("{\"e\":\"SDCall\",\"s\":%d}", s);
        bool r = prov->Shutdown();
        emitf("{\"e\":\"SDRet\",\"s\":%d,\"r\":%s}", s, r ? "true" : "false");
      });
    for (auto &t : recorders)
      t.join();
    for (auto &t : others)
      t.join();
    if (sc.ns == 0)
    {
      emitf("{\"e\":\"SDCall\",\"s\":99}");
      gauge->RemoveCallback(observe_cb, nullptr);
      prov.reset();  // ~MeterProvider shuts the context down
      emitf("{\"e\":\"SDRet\",\"s\":99,\"r\":true}");
    }
    else
    {
      emitf("{\"e\":\"AddCall\",\"t\":9}");
      counter->Add(1);
      emitf("{\"e\":\"AddRet\",\"t\":9}");
      gauge->RemoveCallback(observe_cb, nullptr);
    }
  }
}

static Scenario draw(uint64_t seed)
{
  std::mt19937_64 r(seed * 15485863 + 11);
  Scenario sc;
  sc.nrec    = 1 + (int)(r() % 2);
  sc.nadd    = 1 + (int)(r() % 3);
  sc.nf      = (int)(r() % 3);
  sc.ns      = (int)(r() % 3) == 0 ? 0 : 1 + (int)(r() % 2);
  sc.lat     = (int)(r() % 4);
  if (sc.lat == 3)
    sc.lat = 9;  // an exporter slower than the export timeout
  sc.fto     = (int)(r() % 4);
  sc.expfail = (int)(r() % 4);
  if (sc.expfail == 3)
    sc.expfail = 0;
  return sc;
}

static bool parse_scenario(const char *s, Scenario &sc)
{
  int v[7];
  if (sscanf(s, "%d,%d,%d,%d,%d,%d,%d", &v[0], &v[1], &v[2], &v[3], &v[4], &v[5], &v[6]) < 7)
    return false;
  sc.nrec = v[0]; sc.nadd = v[1]; sc.nf = v[2]; sc.ns = v[3]; sc.lat = v[4]; sc.fto = v[5]; sc.expfail = v[6];
  return true;
}

int main(int argc, char **argv)
{
  if (!(argc >= 5 && std::string(argv[1]) == "explore"))
  {
    fprintf(stderr, "usage: reader explore random|pct|dfs N SEED [scenario [bound]]\n");
    return 2;
  }
  std::string strat = argv[2];
  long n            = atol(argv[3]);
  uint64_t seed     = strtoull(argv[4], nullptr, 10);
  Scenario fixed;
  bool have_fixed = argc > 5 && parse_scenario(argv[5], fixed);
  int bound       = argc > 6 ? atoi(argv[6]) : 2;
  hc::install();
  opentelemetry::sdk::common::internal_log::GlobalLogHandler::SetLogLevel(
      opentelemetry::sdk::common::internal_log::LogLevel::None);
  std::vector<int> tape;
  long execs = 0;
  for (long it = 0; it < n; ++it)
  {
    Scenario sc = have_fixed ? fixed : draw(seed * 1000003ULL + (uint64_t)it);
    vs::Config cfg;
    cfg.seed = seed * 1000003ULL + (uint64_t)it;
    if (strat == "random")
    {
      cfg.strategy = vs::S_RANDOM;
      cfg.p_switch = (it % 3 == 0) ? 0.15 : 0.4;
      cfg.p_timer  = (it % 2 == 0) ? 0.02 : 0.1;
    }
    else if (strat == "pct")
    {
      cfg.strategy  = vs::S_PCT;
      cfg.pct_depth = 1 + (int)(it % 4);
      cfg.pct_len   = 1500;
      cfg.p_timer   = 0.02;
    }
    else
    {
      cfg.strategy       = vs::S_TAPE;
      cfg.tape           = tape;
      cfg.preempt_bound  = bound;
      cfg.p_spurious_cas = 0;
    }
    cfg.max_steps        = 200000;
    cfg.fair_extra_steps = 200000;
    char hdr[300];
    snprintf(hdr, sizeof hdr,
             "{\"e\":\"Cfg\",\"nrec\":%d,\"nadd\":%d,\"nf\":%d,\"ns\":%d,\"lat\":%d,\"fto\":%d,\"expfail\":%d,\"seed\":%llu}", sc.nrec,
             sc.nadd, sc.nf, sc.ns, sc.lat, sc.fto, sc.expfail, (unsigned long long)cfg.seed);
    hc::pending_header() = hdr;
    vs::Result res = vs::run(cfg, [&]() { run_scenario(sc); });
    std::cout << hdr << "\n";
    for (auto &l : vs::log_lines())
      std::cout << l << "\n";
    std::cout << "{\"e\":\"End\",\"steps\":" << res.steps << ",\"fair\":" << (res.turned_fair ? 1 : 0) << "}\n";
    execs++;
    if (strat == "dfs" && !hc::next_tape(res.choices, tape))
    {
      std::cout << "{\"e\":\"DfsComplete\",\"executions\":" << execs << "}\n";
      break;
    }
  }
  std::cout << "{\"e\":\"Summary\",\"executions\":" << execs << "}" << std::endl;
  return 0;
}
