// C19 replayers / recorder - entry point.
//   c19_replay names  <file|-> <seed> <instances>
//   c19_replay views  <file|-> <seed> <instances>
//   c19_replay scopes <file|-> <seed> <instances>
//   c19_replay record <seed> <executions> <ops-per-execution>
// Exit status: 0 done, 3 the harness itself is broken (bad input / table), anything else: the code
// under test crashed (sanitizer report, signal).
#include <fstream>

#include "c19_common.h"

int main(int argc, char **argv)
{
  c19::quiet_sdk_log();
  if (argc < 5)
  {
    std::cerr << "usage: c19_replay names|views|scopes <file|-> <seed> <instances> | record <seed> <executions> <ops>\n";
    return 3;
  }
  std::string mode = argv[1];
  try
  {
    if (mode == "record")
      return c19::run_record(strtoull(argv[2], nullptr, 10), atoi(argv[3]), atoi(argv[4]));
    std::ifstream f;
    std::istream *in = &std::cin;
    if (std::string(argv[2]) != "-")
    {
      f.open(argv[2]);
      if (!f)
      {
        std::cerr << "cannot open " << argv[2] << "\n";
        return 3;
      }
      in = &f;
    }
    uint64_t seed = strtoull(argv[3], nullptr, 10);
    int n         = atoi(argv[4]);
    if (mode == "names")
      return c19::run_names(*in, seed, n);
    if (mode == "views")
      return c19::run_views(*in, seed, n);
    if (mode == "scopes")
      return c19::run_scopes(*in, seed, n);
  }
  catch (const std::exception &e)
  {
    std::cerr << "harness error: " << e.what() << "\n";
    return 3;
  }
  std::cerr << "unknown mode\n";
  return 3;
}
