// C13: EmitLogRecord(args...) for every ordered tuple of <= 2 static argument types (all 19 types).
#include "c13_common.h"
namespace c13
{
void EmitFull(Call &c, CArg *const *as, int n)
{
  Dispatch<kAllTypes, 2>::go(c, as, n);
}
}  // namespace c13
