// C04, clause "operations from several threads on one span": 2-3 threads call SetAttribute / AddEvent /
// SetStatus / UpdateName / End on ONE real sdk Span under the deterministic scheduler (flavour "shim":
// Span::mu_, the processors' locks and threads are the engine's).  Every call is logged at call and at
// return ({"e":"call","t":..} / {"e":"ret","t":..}); spec/SpanLifecycleTrace.tla accepts the log iff
// SOME linearisation consistent with per-thread order and real-time order explains what the exporters
// finally hold.
//
//   c04_conc run <n> <seed> <procs e.g. sb> <nkeys> <nvals>
#define C04_NO_MAIN
#include "c04_span.cc"
#include "hcommon.h"

static int cmd_conc(long n, uint64_t seed, const std::string &pk, int nkeys, int nvals)
{
  std::vector<std::string> procs;
  for (char c : pk)
    procs.push_back(c == 's' ? "simple" : "batch");
  hc::install();
  for (long it = 0; it < n; ++it)
  {
    vs::Config cfg;
    cfg.seed = seed * 1000003ULL + (uint64_t)it;
    if (it % 3 == 2)
    {
      cfg.strategy  = vs::S_PCT;
      cfg.pct_depth = 1 + (int)(it % 4);
      cfg.pct_len   = 300;
    }
    else
      cfg.strategy = vs::S_RANDOM;
    cfg.max_steps = 20000;
    std::string header = "{\"e\":\"Cfg\",\"exec\":" + std::to_string(it) + ",\"procs\":\"" + pk + "\"}";
    hc::pending_header() = header;
    vs::Result res = vs::run(cfg, [&]() {
      Table t(seed * 7907 + (uint64_t)it, true);
      std::mt19937_64 &g = t.rng;
      int resid = 1 + (int)(g() % 2), scope = 1 + (int)(g() % 3);
      Rig rig(procs, resid, scope, g);
      auto kvseq = [&](int maxn) {
        json a = json::array();
        int k  = (int)(g() % (uint64_t)(maxn + 1));
        for (int i = 0; i < k; ++i)
          a.push_back(json{{"k", 1 + (int)(g() % 3)}, {"v", 1 + (int)(g() % (uint64_t)nvals)}});
        return a;
      };
      auto observe_all = [&](json &ev) {
        json cnt = json::array(), got = json::array();
        for (size_t p = 0; p < procs.size(); ++p)
        {
          std::lock_guard<std::mutex> gl(rig.sinks[p]->m);
          cnt.push_back(rig.sinks[p]->spans.size());
          got.push_back(rig.sinks[p]->spans.empty()
                            ? json::array()
                            : json::array({project(rig.sinks[p]->spans[0], t, rig, nkeys, nvals, resid, scope)}));
        }
        ev["cnt"] = cnt;
        ev["got"] = got;
      };
      json st{{"op", "start"}, {"name", 1 + (int)(g() % 6)}, {"kind", 1 + (int)(g() % 5)}, {"attrs", kvseq(3)},
              {"links", json::array()}, {"ss", (int)(g() % 3)}, {"st", (int)(g() % 2)}, {"res", resid}, {"scope", scope}};
      nostd::shared_ptr<api::Span> span = do_start(st, t, rig);
      st["e"]   = "start";
      st["rec"] = span->IsRecording();
      observe_all(st);
      vs::emit(st.dump());
      // the programs of the threads are fixed before they start (few keys: conflicts are the point)
      int T = 2 + (int)(g() % 2);
      std::vector<std::vector<json>> prog((size_t)T);
      bool someone_ends = false;
      for (int i = 0; i < T; ++i)
      {
        int k = 1 + (int)(g() % 3);
        for (int j = 0; j < k; ++j)
        {
          uint64_t r = g() % 100;
          json op;
          if (r < 40)
            op = json{{"op", "set"}, {"k", 1 + (int)(g() % 2)}, {"v", 1 + (int)(g() % (uint64_t)nvals)}};
          else if (r < 55)
          {
            int ovl = 1 + (int)(g() % 4);
            op = json{{"op", "event"}, {"name", 1 + (int)(g() % 6)}, {"ovl", ovl},
                      {"ts", (ovl == 2 || ovl == 4) ? 1 + (int)(g() % 3) : 0},
                      {"attrs", (ovl >= 3) ? kvseq(2) : json::array()}};
          }
          else if (r < 68)
          {
            static const char *C[] = {"Unset", "Ok", "Error"};
            op = json{{"op", "status"}, {"code", C[g() % 3]}, {"desc", (int)(g() % 3)}};
          }
          else if (r < 80)
            op = json{{"op", "name"}, {"name", 1 + (int)(g() % 6)}};
          else
          {
            op           = json{{"op", "end"}, {"et", 2 + (int)(g() % 2)}};
            someone_ends = true;
          }
          prog[(size_t)i].push_back(op);
        }
      }
      (void)someone_ends;
      std::vector<std::thread> th;
      for (int i = 0; i < T; ++i)
        th.emplace_back([&, i]() {
          nostd::shared_ptr<api::Span> mine = span;
          for (auto &op : prog[(size_t)i])
          {
            json c = op;
            c["e"] = "call";
            c["t"] = i + 1;
            vs::emit(c.dump());
            do_op(op, t, mine, rig);
            vs::emit("{\"e\":\"ret\",\"t\":" + std::to_string(i + 1) + "}");
          }
        });
      for (auto &x : th)
        x.join();
      json fin{{"op", "finish"}};
      do_op(fin, t, span, rig);
      fin["e"] = "finish";
      observe_all(fin);
      vs::emit(fin.dump());
      rig.tracer = nostd::shared_ptr<api::Tracer>();
      rig.provider.reset();
    });
    (void)res;
    std::cout << header << "\n";
    for (auto &l : vs::log_lines())
      std::cout << l << "\n";
  }
  std::cout.flush();
  return 0;
}

int main(int argc, char **argv)
{
  if (argc >= 7 && std::string(argv[1]) == "run")
    return cmd_conc(std::stol(argv[2]), std::stoull(argv[3]), argv[4], std::stoi(argv[5]), std::stoi(argv[6]));
  std::cerr << "usage: c04_conc run <n> <seed> <procs> <nkeys> <nvals>" << std::endl;
  return 2;
}
