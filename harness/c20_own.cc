// C20 ownership replayer: behaviours of spec/NostdOwnership.tla on nostd::unique_ptr / nostd::shared_ptr
// (and on std::unique_ptr / std::shared_ptr as a cross-check of the spec).
//
// Concretisation table (trusted):
//   variable "a","b","c"  -> a slot holding std::optional<P<T>>, P = unique_ptr | shared_ptr (cfg "u"),
//                            T = Base | Derived (cfg "b"); "in scope" = the optional is engaged
//   cfg "mk" unique|shared -> every object is a node owning a member variable "m<o>" (a slot of the same
//                            family, P<Derived>, created empty with the object, destroyed with it)
//   object o              -> `new Derived(o)`; identity = its address (class-specific operator delete
//                            keeps freed blocks in a graveyard until the behaviour ends -- poisoned under
//                            ASan -- so an address never names two objects and a dangling pointer is
//                            recognised by address alone, without touching the memory)
//   CtorDefault           -> P<T>() | P<T>(nullptr)
//   CtorNew               -> P<T>(T*) | P<T>(std::unique_ptr<T>&&) | shared: P<T>(std::shared_ptr<T>)
//   CtorAdopt/ResetAdopt  -> P<T>(p) / reset(p) with the raw pointer returned by release()
//   Release               -> p = v.release() | std::unique_ptr<T> s = std::move(v); p = s.release()
//   Swap                  -> v.swap(w) | std::swap(v, w) (v != w)
//   ScopeExit             -> destructor of the variable
// Projection: get() identity per variable (checked against bool(), ==nullptr, ->id, (*v).id),
// instance counter per object, the destructor runs of THIS step, release()'s result, v == w.
#include "c20_common.h"

#include <algorithm>
#include <memory>
#include <optional>
#include <type_traits>

#include "opentelemetry/nostd/shared_ptr.h"
#include "opentelemetry/nostd/unique_ptr.h"

#if defined(__SANITIZE_ADDRESS__)
#  include <sanitizer/asan_interface.h>
#else
#  define ASAN_POISON_MEMORY_REGION(a, s) ((void)(a), (void)(s))
#  define ASAN_UNPOISON_MEMORY_REGION(a, s) ((void)(a), (void)(s))
#endif

namespace nostd = opentelemetry::nostd;
using namespace c20;

namespace
{
struct ObjRec
{
  int id;
  void *addr;
  size_t size;
  bool live;
  int dtors;
  void *member = nullptr;   // the node's member slot (valid while the object is alive)
};

struct Heap
{
  int world = 0;
  std::vector<ObjRec> objs;
  std::vector<std::pair<void *, size_t>> graveyard;
  std::vector<int> died;   // destructor runs of the current step
  int doubles = 0;         // destructor runs on an object that is not alive
  int unknown = 0;
  size_t pending_size = 0;
  bool any_allowed = true;        // teardown / std world: every destruction is recorded, none ends the process
  std::vector<int> allowed;       // objects the specification lets die in the current step
};
Heap *g_heap = nullptr;

struct Base
{
  int id;
  explicit Base(int i) : id(i) {}
  virtual ~Base()
  {
    // identify by address only: never read the (possibly already destroyed) object
    Heap *h = g_heap;
    if (!h)
      return;
    for (auto &r : h->objs)
      if (r.addr == static_cast<void *>(this))
      {
        if (r.live)
        {
          r.live = false;
          r.dtors++;
          h->died.push_back(r.id);
          if (h->world == 0 && g_shm->ndied < 16)
          {
            g_shm->died[g_shm->ndied] = r.id;
            g_shm->ndied              = g_shm->ndied + 1;
          }
          if (h->world == 0 && !h->any_allowed &&
              std::find(h->allowed.begin(), h->allowed.end(), r.id) == h->allowed.end())
          {
            // destroyed too early: the instance counter decides, whatever a sanitizer would say next
            if (g_shm->natural_left > 0)
              g_shm->natural_left = g_shm->natural_left - 1;
            else
              _exit(43);
          }
        }
        else
        {
          r.dtors++;
          h->doubles++;
          if (h->world == 0)
            g_shm->ndouble = g_shm->ndouble + 1;
        }
        return;
      }
    h->unknown++;
  }
  static void *operator new(size_t n)
  {
    void *p = ::malloc(n);
    if (g_heap)
      g_heap->pending_size = n;
    return p;
  }
  static void operator delete(void *p, size_t n)
  {
    if (!p)
      return;
    if (g_heap)
    {
      g_heap->graveyard.emplace_back(p, n);
      ASAN_POISON_MEMORY_REGION(p, n);
    }
    else
      ::free(p);
  }
};
// A node: it may own a member pointer variable ("m<id>" of the machine: a Slot of the world's family,
// created empty with the object and destroyed with it, BEFORE the instance counter sees the node die).
struct Derived : Base
{
  int extra;
  void *member               = nullptr;
  void (*member_dtor)(void *) = nullptr;
  explicit Derived(int i) : Base(i), extra(i * 1000) {}
  ~Derived() override
  {
    if (member)
      member_dtor(member);
  }
};

struct NostdFam
{
  static constexpr int world = 0;
  static const char *name() { return "nostd"; }
  template <class T>
  using U = nostd::unique_ptr<T>;
  template <class T>
  using S = nostd::shared_ptr<T>;
};
struct StdFam
{
  static constexpr int world = 1;
  static const char *name() { return "std"; }
  template <class T>
  using U = std::unique_ptr<T>;
  template <class T>
  using S = std::shared_ptr<T>;
};

template <class P>
struct ptr_traits;
template <class T>
struct ptr_traits<nostd::unique_ptr<T>>
{
  using elem                   = T;
  static constexpr bool unique = true;
};
template <class T>
struct ptr_traits<std::unique_ptr<T>>
{
  using elem                   = T;
  static constexpr bool unique = true;
};
template <class T>
struct ptr_traits<nostd::shared_ptr<T>>
{
  using elem                   = T;
  static constexpr bool unique = false;
};
template <class T>
struct ptr_traits<std::shared_ptr<T>>
{
  using elem                   = T;
  static constexpr bool unique = false;
};

template <class Fam>
struct Slot
{
  int which = 0;   // 0 U<Derived>  1 U<Base>  2 S<Derived>  3 S<Base>
  std::optional<typename Fam::template U<Derived>> ud;
  std::optional<typename Fam::template U<Base>> ub;
  std::optional<typename Fam::template S<Derived>> sd;
  std::optional<typename Fam::template S<Base>> sb;
  bool unique() const { return which < 2; }
  bool in_scope() const
  {
    switch (which)
    {
      case 0:
        return ud.has_value();
      case 1:
        return ub.has_value();
      case 2:
        return sd.has_value();
      default:
        return sb.has_value();
    }
  }
};

template <class Fam, class F>
void with(Slot<Fam> &s, F &&f)
{
  switch (s.which)
  {
    case 0:
      f(s.ud);
      break;
    case 1:
      f(s.ub);
      break;
    case 2:
      f(s.sd);
      break;
    default:
      f(s.sb);
      break;
  }
}

struct Fail
{
  std::string what;
};

template <class Fam>
struct World
{
  Heap heap;
  Slot<Fam> slot[3];
  int nvar = 3;
  int nobj = 2;
  int born = 0;
  std::map<int, Derived *> raw;   // objects held by the caller after release()
  Rng rng{1};

  int mkind = 0;   // 0 no members, 1 unique_ptr<Derived> next, 2 shared_ptr<Derived> next
  int nslots() const { return nvar + (mkind ? nobj : 0); }

  // i-th variable of the machine (roots, then the members m1..): nullptr when it does not exist
  // (member of an object that is not alive)
  Slot<Fam> *slot_at(int i)
  {
    if (i < nvar)
      return &slot[i];
    int o = i - nvar + 1;
    for (auto &r : heap.objs)
      if (r.id == o)
        return r.live ? static_cast<Slot<Fam> *>(r.member) : nullptr;
    return nullptr;
  }
  Slot<Fam> &slot_named(const std::string &v)
  {
    Slot<Fam> *s = nullptr;
    if (v.size() == 1 && v[0] >= 'a' && v[0] < 'a' + nvar)
      s = &slot[v[0] - 'a'];
    else if (v.size() == 2 && v[0] == 'm' && mkind && v[1] >= '1' && v[1] < '1' + nobj)
      s = slot_at(nvar + (v[1] - '1'));
    else
      throw Fail{"bad variable name '" + v + "'"};
    if (!s)
      throw Fail{"member variable '" + v + "' of an object that is not alive"};
    return *s;
  }

  Derived *make(int id)
  {
    Derived *d = new Derived(id);
    heap.objs.push_back({id, static_cast<void *>(static_cast<Base *>(d)), heap.pending_size, true, 0});
    if (mkind)
    {
      Slot<Fam> *m = new Slot<Fam>();
      m->which     = mkind == 1 ? 0 : 2;
      with(*m, [&](auto &o) { o.emplace(); });   // Node::next starts empty
      d->member      = m;
      d->member_dtor = [](void *p) { delete static_cast<Slot<Fam> *>(p); };
      heap.objs.back().member = m;
    }
    return d;
  }

  int id_of(const void *p)
  {
    if (!p)
      return 0;
    int dead = 77;
    for (auto &r : heap.objs)
      if (r.addr == p)
      {
        if (r.live)
          return r.id;
        dead = r.id;
      }
    return dead;
  }
  bool is_live(int id)
  {
    for (auto &r : heap.objs)
      if (r.id == id)
        return r.live;
    return false;
  }

  // ---- one operation ---------------------------------------------------------------------
  void apply(const json &st)
  {
    std::string op = st["op"];
    std::string vn = st.value("v", ""), wn = st.value("w", "");
    int variant    = rng.pick(6);
    if (op == "RawDelete")
    {
      int o = st["exp"]["ret"];
      if (!raw.count(o))
        throw Fail{"RawDelete of an object the caller does not hold"};
      Base *p = raw[o];
      raw.erase(o);
      delete p;
      return;
    }
    Slot<Fam> &v = slot_named(vn);
    if (op == "CtorDefault")
    {
      with(v, [&](auto &o) {
        if (variant % 2)
          o.emplace();
        else
          o.emplace(nullptr);
      });
    }
    else if (op == "CtorNew" || op == "CtorAdopt")
    {
      Derived *d;
      if (op == "CtorNew")
        d = make(++born);
      else
      {
        int o = st["exp"]["ret"];
        if (!raw.count(o))
          throw Fail{"CtorAdopt of an object the caller does not hold"};
        d = raw[o];
        raw.erase(o);
      }
      with(v, [&](auto &o) {
        using P = typename std::decay<decltype(*o)>::type;
        using T = typename ptr_traits<P>::elem;
        T *p    = d;
        if (variant % 3 == 1)
        {
          std::unique_ptr<T> tmp(p);
          o.emplace(std::move(tmp));
        }
        else if (variant % 3 == 2 && !ptr_traits<P>::unique)
        {
          if constexpr (!ptr_traits<P>::unique)
          {
            std::shared_ptr<T> tmp(p);
            o.emplace(std::move(tmp));
          }
        }
        else
          o.emplace(p);
      });
    }
    else if (op == "CtorCopy" || op == "CtorMove" || op == "AssignCopy" || op == "AssignMove" || op == "Swap")
    {
      Slot<Fam> &w = slot_named(wn);
      bool self    = &v == &w;
      with(v, [&](auto &ov) {
        with(w, [&](auto &ow) {
          using PV = typename std::decay<decltype(*ov)>::type;
          using PW = typename std::decay<decltype(*ow)>::type;
          if (op == "CtorCopy")
          {
            if constexpr (std::is_constructible<PV, const PW &>::value && !ptr_traits<PW>::unique)
              ov.emplace(static_cast<const PW &>(*ow));
            else
              throw Fail{"copy construction not offered for this pair of types"};
          }
          else if (op == "CtorMove")
          {
            if constexpr (std::is_constructible<PV, PW &&>::value)
              ov.emplace(std::move(*ow));
            else
              throw Fail{"move construction not offered for this pair of types"};
          }
          else if (op == "AssignCopy")
          {
            if constexpr (std::is_assignable<PV &, const PW &>::value && !ptr_traits<PW>::unique)
            {
              const PW &src = *ow;
              *ov           = src;
            }
            else
              throw Fail{"copy assignment not offered for this pair of types"};
          }
          else if (op == "AssignMove")
          {
            if constexpr (std::is_assignable<PV &, PW &&>::value)
              *ov = std::move(*ow);
            else
              throw Fail{"move assignment not offered for this pair of types"};
          }
          else
          {
            if constexpr (std::is_same<PV, PW>::value)
            {
              if (self || variant % 2 == 0)
                ov->swap(*ow);
              else
              {
                using std::swap;
                swap(*ov, *ow);
              }
            }
            else
              throw Fail{"swap not offered for this pair of types"};
          }
        });
      });
    }
    else if (op == "AssignMoveSelf")
    {
      with(v, [&](auto &o) {
        auto &alias = *o;
        *o          = std::move(alias);
      });
    }
    else if (op == "AssignNull")
    {
      with(v, [&](auto &o) { *o = nullptr; });
    }
    else if (op == "Reset" || op == "ResetNew" || op == "ResetAdopt" || op == "Release")
    {
      if (!v.unique())
        throw Fail{op + " on a shared_ptr variable"};
      Derived *d = nullptr;
      if (op == "ResetNew")
        d = make(++born);
      else if (op == "ResetAdopt")
      {
        int o = st["exp"]["ret"];
        if (!raw.count(o))
          throw Fail{"ResetAdopt of an object the caller does not hold"};
        d = raw[o];
        raw.erase(o);
      }
      with(v, [&](auto &o) {
        using P = typename std::decay<decltype(*o)>::type;
        using T = typename ptr_traits<P>::elem;
        if constexpr (ptr_traits<P>::unique)
        {
          if (op == "Reset")
            o->reset();
          else if (op == "Release")
          {
            T *p;
            if (variant % 2)
              p = o->release();
            else
            {
              std::unique_ptr<T> s = std::move(*o);   // nostd: operator std::unique_ptr<T>() &&
              p                    = s.release();
            }
            last_ret = id_of(static_cast<Base *>(p));
            if (p)
            {
              // the caller now owns the object; it was created as a Derived
              raw[last_ret] = static_cast<Derived *>(static_cast<Base *>(p));
            }
          }
          else
            o->reset(static_cast<T *>(d));
        }
      });
    }
    else if (op == "ScopeExit")
    {
      with(v, [&](auto &o) { o.reset(); });
    }
    else
      throw Fail{"unknown op " + op};
  }
  int last_ret = 9;

  // ---- projection -------------------------------------------------------------------------
  json observe(const json &st)
  {
    json o;
    json get = json::array();
    for (int i = 0; i < nslots(); ++i)
    {
      Slot<Fam> *sp = slot_at(i);
      if (!sp || !sp->in_scope())
      {
        get.push_back(9);
        continue;
      }
      Slot<Fam> &s = *sp;
      int code = 0;
      with(s, [&](auto &opt) {
        auto &p        = *opt;
        const void *ad = static_cast<const void *>(static_cast<const Base *>(p.get()));
        int id         = id_of(ad);
        bool b         = static_cast<bool>(p);
        if (b != (ad != nullptr))
          id = 71;   // operator bool disagrees with get()
        else if ((p == nullptr) != (ad == nullptr) || (nullptr != p) != (ad != nullptr) ||
                 (p != nullptr) != (ad != nullptr) || (nullptr == p) != (ad == nullptr))
          id = 72;   // comparison with nullptr disagrees with get()
        else if (id >= 1 && id < 70 && is_live(id))
        {
          // dereference only what the instance counter says is alive
          if (p->id != id || (*p).id != id)
            id = 73;
        }
        code = id;
      });
      get.push_back(code);
    }
    o["get"] = get;
    json live = json::array();
    for (int k = 1; k <= nobj; ++k)
      live.push_back(is_live(k));
    o["live"] = live;
    std::vector<int> d = heap.died;
    std::sort(d.begin(), d.end());
    o["died"] = d;
    std::string op = st["op"];
    o["ret"]       = op == "Release" ? json(last_ret) : st["exp"]["ret"];
    json same      = json::array();
    static const int pr[3][2] = {{0, 1}, {0, 2}, {1, 2}};
    int npairs                = nslots() >= 3 ? 3 : (nslots() == 2 ? 1 : 0);
    for (int k = 0; k < npairs; ++k)
    {
      Slot<Fam> *xp = slot_at(pr[k][0]);
      Slot<Fam> *yp = slot_at(pr[k][1]);
      if (!xp || !yp || !xp->in_scope() || !yp->in_scope() || xp->unique() != yp->unique())
      {
        same.push_back("-");
        continue;
      }
      std::string r = "?";
      Slot<Fam> &x = *xp;
      Slot<Fam> &y = *yp;
      with(x, [&](auto &ox) {
        with(y, [&](auto &oy) {
          using PX = typename std::decay<decltype(*ox)>::type;
          using PY = typename std::decay<decltype(*oy)>::type;
          if constexpr (ptr_traits<PX>::unique == ptr_traits<PY>::unique)
          {
            bool e = *ox == *oy;
            bool n = *ox != *oy;
            r      = e == n ? "inconsistent" : (e ? "T" : "F");
          }
        });
      });
      same.push_back(r);
    }
    o["same"] = same;
    if (heap.doubles)
      o["double_destruction"] = heap.doubles;
    if (heap.unknown)
      o["unknown_destruction"] = heap.unknown;
    return o;
  }

  void free_graveyard()
  {
    for (auto &g : heap.graveyard)
    {
      ASAN_UNPOISON_MEMORY_REGION(g.first, g.second);
      ::free(g.first);
    }
    heap.graveyard.clear();
  }
};

bool no_wild(const json &)
{
  return false;
}

template <class Fam>
void run_world(const Case &c)
{
  const json &beh = *c.beh;
  const json &cfg = beh["cfg"];
  // the world is leaked on purpose when the behaviour ends in a non-ideal state (dangling owners)
  World<Fam> *w = new World<Fam>();
  w->heap.world = Fam::world;
  w->nvar       = cfg["nvar"];
  w->nobj       = cfg["nobj"];
  {
    std::string mk = cfg.value("mk", "none");
    w->mkind       = mk == "unique" ? 1 : (mk == "shared" ? 2 : 0);
  }
  w->rng        = Rng(c.seed);
  for (int i = 0; i < w->nvar; ++i)
  {
    std::string n(1, static_cast<char>('a' + i));
    bool u = false, b = false;
    for (auto &x : cfg["u"])
      u = u || x == n;
    for (auto &x : cfg["b"])
      b = b || x == n;
    w->slot[i].which = (u ? 0 : 2) + (b ? 1 : 0);
  }
  g_heap          = &w->heap;
  g_shm->phase    = Fam::world;
  const json &sts = beh["steps"];
  bool clean      = true;
  bool stopped    = false;
  for (size_t k = 0; k < sts.size(); ++k)
  {
    w->heap.died.clear();
    w->last_ret = 9;
    if (Fam::world == 0 && !sts[k].value("dev", "").empty() && g_shm->dev_crashes >= 2 &&
        sts[k]["expDev"].size() == 1 && sts[k]["expDev"][0]["died"] == sts[k]["exp"]["died"])
    {
      // a step whose deviation is "the process may die, nothing else changes" and that did kill the
      // process twice already: truncate here, exactly as after an observed deviating step
      g_shm->skipped_known_crash++;
      g_shm->truncated_dev++;
      stopped = true;
      break;
    }
    if (Fam::world == 0)
    {
      g_shm->ndied = 0;
      g_shm->step  = static_cast<long>(k);
      w->heap.allowed.clear();
      for (auto &x : sts[k]["exp"]["died"])
        w->heap.allowed.push_back(x.get<int>());
      if (sts[k].contains("alts"))
        for (auto &a : sts[k]["alts"])
          for (auto &x : a["died"])
            w->heap.allowed.push_back(x.get<int>());
      w->heap.any_allowed = false;
    }
    try
    {
      w->apply(sts[k]);
    }
    catch (const Fail &f)
    {
      harness_error(c, static_cast<int>(k), std::string(Fam::name()) + ": " + f.what);
      clean = false;
      break;
    }
    w->heap.any_allowed = true;
    g_shm->steps++;
    json obs  = w->observe(sts[k]);
    Verdict v = judge(c, static_cast<int>(k), sts[k], obs, Fam::name(), no_wild);
    if (v == Verdict::Alt)
    {
      stopped = true;   // consistent state, but the rest of the behaviour assumed the other outcome
      break;
    }
    if (v != Verdict::Ok)
    {
      clean = false;
      break;
    }
  }
  if (clean)
  {
    // scope exit of everything that is left, then: every object that was created is destroyed
    // exactly once, nothing else is (the spec's invariants DestroyedAtMostOnce / LiveIffOwned)
    if (Fam::world == 0)
      g_shm->step = static_cast<long>(sts.size());
    for (int i = 0; i < w->nvar; ++i)
      with(w->slot[i], [&](auto &o) { o.reset(); });
    for (auto &r : w->raw)
      delete static_cast<Base *>(r.second);
    w->raw.clear();
    if (!stopped)
    {
      std::vector<int> bornv = beh["born"].get<std::vector<int>>();
      for (int o = 1; o <= w->nobj; ++o)
      {
        bool should = std::find(bornv.begin(), bornv.end(), o) != bornv.end();
        int dt      = 0;
        bool found  = false;
        for (auto &r : w->heap.objs)
          if (r.id == o)
          {
            dt    = r.dtors;
            found = true;
          }
        if (found != should || dt != (should ? 1 : 0))
        {
          g_shm->findings++;
          g_shm->bad++;
          emit({{"r", Fam::world == 0 ? "mismatch" : "stdspec"}, {"m", c.m}, {"id", c.id}, {"inst", c.inst},
                {"step", static_cast<long>(sts.size())}, {"op", "teardown"}, {"path", "/teardown"},
                {"exp", should ? 1 : 0}, {"obs", dt},
                {"what", std::string(Fam::name()) + ": after every variable left scope object " + std::to_string(o) +
                             " was destroyed " + std::to_string(dt) + " time(s)"}});
        }
      }
    }
    else
    {
      for (auto &r : w->heap.objs)
        if (r.dtors != 1)
        {
          g_shm->findings++;
          g_shm->bad++;
          emit({{"r", Fam::world == 0 ? "mismatch" : "stdspec"}, {"m", c.m}, {"id", c.id}, {"inst", c.inst},
                {"step", static_cast<long>(sts.size())}, {"op", "teardown"}, {"path", "/teardown"}, {"exp", 1},
                {"obs", r.dtors},
                {"what", std::string(Fam::name()) + ": object " + std::to_string(r.id) + " destroyed " +
                             std::to_string(r.dtors) + " time(s) by the end"}});
        }
    }
    g_heap = &w->heap;
    w->free_graveyard();
    g_heap = nullptr;
    delete w;
  }
  g_heap = nullptr;
  if (Fam::world == 0)
    g_shm->step = -1;
}

void replay_own(const Case &c)
{
  long before = g_shm->findings;
  run_world<NostdFam>(c);
  if (g_shm->findings != before)
    return;   // the process may be corrupted; the driver restarts it
  run_world<StdFam>(c);
  g_shm->phase = 0;
}

Registrar reg("own", replay_own);
}  // namespace
