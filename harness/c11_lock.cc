// C11 harness for the real SpinLockMutex (header-only, compiled against the scheduler shim).
//   replay  <behaviours.ndjson>   step TLC behaviours of spec/SpinLock.tla (FastIter = 100) 1:1
//   explore <strategy> <n> <seed> <nthr> <rounds> [bound]   Level-A event logs for LockMonitor.tla
#define private public
#include "opentelemetry/common/spin_lock_mutex.h"
#undef private

#include <nlohmann/json.hpp>
#include "hcommon.h"
#include <fstream>
#include <iostream>

using json = nlohmann::json;
using opentelemetry::common::SpinLockMutex;

static int g_in_cs = 0;
static int g_hold  = 0;  // 1: thread 1 sleeps (virtual 5 ms) inside its critical sections

static void emitf(const char *fmt, ...)
{
  char b[512];
  va_list ap;
  va_start(ap, fmt);
  vsnprintf(b, sizeof b, fmt, ap);
  va_end(ap);
  vs::emit(b);
}

static void critical(int t)
{
  g_in_cs++;
  emitf("{\"e\":\"Acquired\",\"t\":%d,\"ok\":true,\"occ\":%d}", t, g_in_cs);
  if (g_hold && t == 1)
    std::this_thread::sleep_for(std::chrono::milliseconds(5));  // a long critical section
  else
    vs::point(vs::K_USER, nullptr);  // other threads may run while the lock is held
}

// called right after unlock() returned: no scheduling point lies between the releasing store and
// this bookkeeping, so it is atomic with the release
static void released(int t)
{
  g_in_cs--;
  emitf("{\"e\":\"Release\",\"t\":%d}", t);
}

// modes: sequence of 'l' (lock) / 't' (try_lock) per round
static void worker(SpinLockMutex *m, int t, const std::string *modes, bool choose)
{
  for (size_t r = 0; r < modes->size(); ++r)
  {
    bool use_try = choose ? vs::choose(2) == 1 : (*modes)[r] == 't';
    emitf("{\"e\":\"Acquire\",\"t\":%d,\"mode\":\"%s\"}", t, use_try ? "try" : "lock");
    if (use_try)
    {
      if (m->try_lock())
      {
        critical(t);
        m->unlock();
        released(t);
      }
      else
        emitf("{\"e\":\"Acquired\",\"t\":%d,\"ok\":false,\"occ\":%d}", t, g_in_cs);
    }
    else
    {
      m->lock();
      critical(t);
      m->unlock();
      released(t);
    }
  }
}

static int do_replay(const char *file)
{
  hc::install();
  hc::pending_header() = "";
  std::ifstream in(file);
  std::string line;
  int idx = 0;
  while (std::getline(in, line))
  {
    if (line.empty())
      continue;
    json beh          = json::parse(line);
    int nthr          = beh["nthr"];
    const json &steps = beh["steps"];
    // per-thread mode sequence, derived from the behaviour
    std::vector<std::string> modes(nthr + 1);
    std::vector<std::string> pcs(nthr + 1, "idle");
    std::vector<int> tape;
    for (int i = 0; i < nthr; ++i)
      tape.push_back(0);
    for (int i = 1; i <= nthr; ++i)
      tape.push_back(i);
    for (auto &s : steps)
    {
      int t         = s["t"];
      std::string a = s["a"];
      if (pcs[t] == "idle")
      {
        if (a == "xchg1")
          modes[t] += 'l';
        else if (a == "try_load")
          modes[t] += 't';
      }
      // track whether the thread is back to idle after this step
      int r = s["r"];
      if (a == "unlock" || (a == "try_load" && r == 1) || (a == "try_xchg" && r == 1))
        pcs[t] = "idle";
      else
        pcs[t] = "busy";
      tape.push_back(t);
    }
    size_t prefix = (size_t)(2 * nthr);
    std::vector<json> snaps;
    SpinLockMutex *mp = nullptr;
    vs::Config cfg;
    cfg.strategy   = vs::S_THREADS;
    cfg.tape       = tape;
    cfg.log_ops    = true;
    cfg.spin_limit = 1 << 30;
    cfg.max_steps  = 1000000;
    cfg.on_point   = [&](int, vs::Kind, const void *) {
      if (mp)
      {
        json s;
        s["flag"] = (bool)mp->flag_.peek();
        s["cs"]   = g_in_cs;
        snaps.push_back(s);
      }
    };
    vs::Result res = vs::run(cfg, [&]() {
      SpinLockMutex m;
      mp = &m;
      vs::name_object(&m.flag_, "flag");
      std::vector<std::thread> th;
      for (int t = 1; t <= nthr; ++t)
        th.emplace_back(worker, &m, t, &modes[t], false);
      for (auto &t : th)
        t.join();
      mp = nullptr;
    });
    json verdict;
    verdict["beh"]   = idx;
    verdict["ok"]    = true;
    verdict["steps"] = steps.size();
    if (res.tape_mismatch >= 0 && (size_t)res.tape_mismatch < tape.size())
    {
      verdict["ok"]   = false;
      verdict["what"] = "schedule not followable at tape position " + std::to_string(res.tape_mismatch);
    }
    size_t base = prefix + 1;
    for (size_t i = 0; i < steps.size() && verdict["ok"]; ++i)
    {
      if (base + i >= snaps.size())
      {
        verdict["ok"]   = false;
        verdict["what"] = "execution ended before model step " + std::to_string(i);
        break;
      }
      if (steps[i]["flag"] != snaps[base + i]["flag"] || steps[i]["cs"] != snaps[base + i]["cs"])
      {
        verdict["ok"]       = false;
        verdict["what"]     = "state after step differs";
        verdict["step"]     = i;
        verdict["expected"] = steps[i];
        verdict["observed"] = snaps[base + i];
      }
    }
    json events = json::array();
    for (auto &l : vs::log_lines())
    {
      json e = json::parse(l);
      if (e["e"] != "op")
        events.push_back(e);
    }
    verdict["events"] = events;
    std::cout << verdict.dump() << "\n";
    idx++;
  }
  return 0;
}

static int do_explore(int argc, char **argv)
{
  std::string strat = argv[2];
  long n            = atol(argv[3]);
  uint64_t seed     = strtoull(argv[4], nullptr, 10);
  int nthr = atoi(argv[5]), rounds = atoi(argv[6]);
  int bound = argc > 7 ? atoi(argv[7]) : 2;
  g_hold    = argc > 8 ? atoi(argv[8]) : 0;
  hc::install();
  hc::pending_header() = "{\"e\":\"Cfg\",\"nthr\":" + std::to_string(nthr) + ",\"rounds\":" + std::to_string(rounds) + "}";
  std::vector<int> tape;
  long execs = 0;
  for (long it = 0; it < n; ++it)
  {
    vs::Config cfg;
    cfg.seed = seed * 1000003ULL + (uint64_t)it;
    if (strat == "random")
      cfg.strategy = vs::S_RANDOM;
    else if (strat == "pct")
    {
      cfg.strategy  = vs::S_PCT;
      cfg.pct_depth = 1 + (int)(it % 4);
      cfg.pct_len   = 40 * nthr * rounds;
    }
    else
    {
      cfg.strategy      = vs::S_TAPE;
      cfg.tape          = tape;
      cfg.preempt_bound = bound;
    }
    cfg.max_steps  = 20000;
    cfg.spin_limit = 400;  // longer than the lock's own spin cycle (100 fast iterations, yield, sleep)
    std::string modes(rounds, 'l');
    g_in_cs = 0;
    vs::Result res = vs::run(cfg, [&]() {
      SpinLockMutex m;
      std::vector<std::thread> th;
      for (int t = 1; t <= nthr; ++t)
        th.emplace_back(worker, &m, t, &modes, true);
      for (auto &t : th)
        t.join();
    });
    std::cout << "{\"e\":\"Cfg\",\"nthr\":" << nthr << ",\"rounds\":" << rounds << "}\n";
    for (auto &l : vs::log_lines())
      std::cout << l << "\n";
    std::cout << "{\"e\":\"End\",\"steps\":" << res.steps << "}\n";
    execs++;
    if (strat == "dfs")
    {
      std::vector<vs::Choice> &c = res.choices;
      int i = (int)c.size() - 1;
      while (i >= 0 && c[i].c + 1 >= c[i].n)
        --i;
      if (i < 0)
      {
        std::cout << "{\"e\":\"DfsComplete\",\"executions\":" << execs << "}\n";
        break;
      }
      tape.clear();
      for (int j = 0; j < i; ++j)
        tape.push_back(c[j].c);
      tape.push_back(c[i].c + 1);
    }
  }
  std::cout << "{\"e\":\"Summary\",\"executions\":" << execs << "}" << std::endl;
  return 0;
}

int main(int argc, char **argv)
{
  if (argc >= 3 && std::string(argv[1]) == "replay")
    return do_replay(argv[2]);
  if (argc >= 7 && std::string(argv[1]) == "explore")
    return do_explore(argc, argv);
  fprintf(stderr, "usage: c11_lock replay FILE | explore random|pct|dfs N SEED NTHR ROUNDS [bound]\n");
  return 2;
}
