// C19, identity clause for CONCURRENT requests: several threads ask one REAL, unmodified provider
// (TracerProvider / MeterProvider / LoggerProvider) for tracers / meters / loggers at the same time,
// compiled against the scheduler shim (flavour "shim": std::mutex, std::thread, atomics of the SDK
// are scheduling points of engine/vsched).  Every execution prints the observable event log that
// spec/ScopeIdentityConcTrace.tla validates:
//   Cfg(kind, threads, gets, strat, seed)   Call(t, scope)   Ret(t, scope, obj)   End
// obj = number of the returned pointer in order of first appearance (all handles stay alive until
// the end of the execution, so a pointer value is never reused).
//
//   c19_conc explore <random|pct> <n> <seed> <trace|metrics|logs> <nthreads> <ngets> <nscopes>
//
// Programs: every execution draws `nscopes` identities from the pool below (the first one and
// others that differ from it in exactly one field, without name, without version/schema) and, per
// thread, `ngets` requests among them - all fixed before the threads start (seed only).  The first
// request of every thread is for the SAME identity in two executions out of three, so that first
// requests race.  Providers use the default (trivial) scope configurator.
// Concretisation of the abstract identity: name A -> "libA", B -> "libB", "" -> ""; version/schema as
// given ("s" -> https://example.test/s); attr "a" -> {"scope.attr": "a"} (logs only, ABI v1).
#include <nlohmann/json.hpp>

#include "engine/vsched.h"
#include "hcommon.h"

#include "opentelemetry/common/key_value_iterable_view.h"
#include "opentelemetry/logs/logger.h"
#include "opentelemetry/metrics/meter.h"
#include "opentelemetry/sdk/common/global_log_handler.h"
#include "opentelemetry/sdk/logs/logger_provider.h"
#include "opentelemetry/sdk/logs/processor.h"
#include "opentelemetry/sdk/logs/read_write_log_record.h"
#include "opentelemetry/sdk/metrics/meter_provider.h"
#include "opentelemetry/sdk/trace/exporter.h"
#include "opentelemetry/sdk/trace/simple_processor.h"
#include "opentelemetry/sdk/trace/span_data.h"
#include "opentelemetry/sdk/trace/tracer_provider.h"
#include "opentelemetry/trace/tracer.h"

using json      = nlohmann::json;
namespace ns    = opentelemetry::nostd;
namespace sdkt  = opentelemetry::sdk::trace;
namespace sdkm  = opentelemetry::sdk::metrics;
namespace sdkl  = opentelemetry::sdk::logs;

namespace
{
struct Rng
{
  uint64_t s;
  explicit Rng(uint64_t seed) : s(seed * 0x9E3779B97F4A7C15ULL + 0xD1B54A32D192ED03ULL) {}
  uint64_t next()
  {
    s += 0x9E3779B97F4A7C15ULL;
    uint64_t z = s;
    z          = (z ^ (z >> 30)) * 0xBF58476D1CE4E5B9ULL;
    z          = (z ^ (z >> 27)) * 0x94D049BB133111EBULL;
    return z ^ (z >> 31);
  }
  int below(int n) { return static_cast<int>(next() % static_cast<uint64_t>(n)); }
};

struct Scope
{
  const char *name, *version, *schema, *attr;
};
// pool[0] is the base identity; every other one differs from it in one field (or lacks fields)
const Scope kPool[] = {{"A", "1.0", "s", ""}, {"A", "2.0", "s", ""}, {"A", "1.0", "t", ""}, {"B", "1.0", "s", ""},
                       {"", "1.0", "s", ""},  {"A", "", "", ""},     {"A", "1.0", "", ""},  {"A", "1.0", "s", "a"}};
const int kPoolSize = 8;

std::string conc_name(const std::string &n) { return n.empty() ? "" : "lib" + n; }
std::string conc_schema(const std::string &s) { return s.empty() ? "" : "https://example.test/" + s; }
json scope_json(const Scope &s) { return {{"name", s.name}, {"version", s.version}, {"schema", s.schema}, {"attr", s.attr}}; }

class NullSpanExporter : public sdkt::SpanExporter
{
public:
  std::unique_ptr<sdkt::Recordable> MakeRecordable() noexcept override
  {
    return std::unique_ptr<sdkt::Recordable>(new sdkt::SpanData());
  }
  opentelemetry::sdk::common::ExportResult Export(const ns::span<std::unique_ptr<sdkt::Recordable>> &) noexcept override
  {
    return opentelemetry::sdk::common::ExportResult::kSuccess;
  }
  bool ForceFlush(std::chrono::microseconds) noexcept override { return true; }
  bool Shutdown(std::chrono::microseconds) noexcept override { return true; }
};
class NullLogProcessor : public sdkl::LogRecordProcessor
{
public:
  std::unique_ptr<sdkl::Recordable> MakeRecordable() noexcept override
  {
    return std::unique_ptr<sdkl::Recordable>(new sdkl::ReadWriteLogRecord());
  }
  void OnEmit(std::unique_ptr<sdkl::Recordable> &&) noexcept override {}
  bool ForceFlush(std::chrono::microseconds) noexcept override { return true; }
  bool Shutdown(std::chrono::microseconds) noexcept override { return true; }
};

void emit(const json &e)
{
  vs::NoYield ny;
  vs::emit(e.dump());
}
}  // namespace

int main(int argc, char **argv)
{
  if (argc < 9 || std::string(argv[1]) != "explore")
  {
    fprintf(stderr, "usage: c19_conc explore random|pct N SEED trace|metrics|logs NTHREADS NGETS NSCOPES\n");
    return 2;
  }
  opentelemetry::sdk::common::internal_log::GlobalLogHandler::SetLogLevel(
      opentelemetry::sdk::common::internal_log::LogLevel::None);
  std::string strat = argv[2];
  long n            = atol(argv[3]);
  uint64_t seed     = strtoull(argv[4], nullptr, 10);
  std::string kind  = argv[5];
  int nthreads = atoi(argv[6]), ngets = atoi(argv[7]), nscopes = atoi(argv[8]);
  if ((kind != "trace" && kind != "metrics" && kind != "logs") || nthreads < 1 || nthreads > 4 || ngets < 1 || nscopes < 1 ||
      nscopes > kPoolSize)
    return 2;
  hc::install();
  long execs = 0;
  for (long it = 0; it < n; ++it)
  {
    vs::Config cfg;
    cfg.seed = seed * 1000003ULL + static_cast<uint64_t>(it);
    if (strat == "pct")
    {
      cfg.strategy  = vs::S_PCT;
      cfg.pct_depth = 1 + static_cast<int>(it % 4);
      cfg.pct_len   = 60L * nthreads * ngets;
    }
    else
      cfg.strategy = vs::S_RANDOM;
    cfg.max_steps        = 100000;
    cfg.fair_extra_steps = 100000;
    Rng rng(cfg.seed);
    // the identities of this execution: the base one plus nscopes-1 others (scope attributes: logs only)
    std::vector<int> ids{0};
    int usable = kind == "logs" ? kPoolSize : kPoolSize - 1;
    while (static_cast<int>(ids.size()) < nscopes)
    {
      int c    = 1 + rng.below(usable - 1);
      bool dup = false;
      for (int x : ids)
        dup = dup || x == c;
      if (!dup)
        ids.push_back(c);
    }
    bool race_first = rng.below(3) != 0;
    std::vector<std::vector<int>> prog(static_cast<size_t>(nthreads));
    for (int t = 0; t < nthreads; ++t)
      for (int k = 0; k < ngets; ++k)
        prog[static_cast<size_t>(t)].push_back((k == 0 && race_first) ? ids[0] : ids[static_cast<size_t>(rng.below(nscopes))]);
    json cfgev = {{"e", "Cfg"},      {"kind", kind},   {"threads", nthreads},
                  {"gets", ngets},   {"strat", strat}, {"seed", static_cast<int>(cfg.seed % 1000000007ULL)}};
    hc::pending_header() = cfgev.dump();
    vs::Result res = vs::run(cfg, [&]() {
      std::unique_ptr<sdkt::TracerProvider> tp;
      std::unique_ptr<sdkm::MeterProvider> mp;
      std::unique_ptr<sdkl::LoggerProvider> lp;
      if (kind == "trace")
        tp.reset(new sdkt::TracerProvider(std::unique_ptr<sdkt::SpanProcessor>(
            new sdkt::SimpleSpanProcessor(std::unique_ptr<sdkt::SpanExporter>(new NullSpanExporter())))));
      else if (kind == "metrics")
        mp.reset(new sdkm::MeterProvider());
      else
        lp.reset(new sdkl::LoggerProvider(std::unique_ptr<sdkl::LogRecordProcessor>(new NullLogProcessor())));
      // every handle stays alive until the execution ends
      std::vector<ns::shared_ptr<opentelemetry::trace::Tracer>> tracers;
      std::vector<ns::shared_ptr<opentelemetry::metrics::Meter>> meters;
      std::vector<ns::shared_ptr<opentelemetry::logs::Logger>> loggers;
      std::vector<const void *> seen;
      auto get = [&](int t, const Scope &s) {
        emit({{"e", "Call"}, {"t", t}, {"scope", scope_json(s)}});
        std::string nm = conc_name(s.name), ver = s.version, sch = conc_schema(s.schema);
        const void *p  = nullptr;
        if (kind == "trace")
        {
          auto h = tp->GetTracer(nm, ver, sch);
          vs::NoYield ny;
          p = h.get();
          tracers.push_back(h);
        }
        else if (kind == "metrics")
        {
          auto h = mp->GetMeter(nm, ver, sch);
          vs::NoYield ny;
          p = h.get();
          meters.push_back(h);
        }
        else
        {
          std::vector<std::pair<std::string, std::string>> attrs;
          if (s.attr[0])
            attrs.emplace_back("scope.attr", s.attr);
          auto h = lp->GetLogger("c19-logger", nm, ver, sch, opentelemetry::common::KeyValueIterableView<decltype(attrs)>(attrs));
          vs::NoYield ny;
          p = h.get();
          loggers.push_back(h);
        }
        vs::NoYield ny;
        size_t o = 0;
        while (o < seen.size() && seen[o] != p)
          ++o;
        if (o == seen.size())
          seen.push_back(p);
        vs::emit(json({{"e", "Ret"}, {"t", t}, {"scope", scope_json(s)}, {"obj", static_cast<int>(o) + 1}}).dump());
      };
      std::vector<std::thread> th;
      for (int t = 0; t < nthreads; ++t)
        th.emplace_back([&, t]() {
          for (int k = 0; k < ngets; ++k)
            get(t + 1, kPool[prog[static_cast<size_t>(t)][static_cast<size_t>(k)]]);
        });
      for (auto &t : th)
        t.join();
      emit({{"e", "End"}});
      tracers.clear();
      meters.clear();
      loggers.clear();
    });
    std::cout << cfgev.dump() << "\n";
    for (auto &l : vs::log_lines())
      std::cout << l << "\n";
    (void)res;
    execs++;
  }
  std::cout << "{\"e\":\"Summary\",\"executions\":" << execs << "}" << std::endl;
  return 0;
}
