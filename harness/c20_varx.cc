// C20 variant replayer, "throwing" shape: behaviours of spec/NostdVariant.tla (Shape = "throwing") on
// nostd::variant<int, Safe, Shaky> (the bundled absl variant) and on std::variant<...> as a cross-check of the spec
// (the rules about exceptions are transcribed from the standard; libstdc++ must agree with the transcription).
//
// Concretisation table (trusted):
//   alternative 0 int     value 0 -> 0, 1 -> one of 41, INT_MAX, 1 (seeded)
//   alternative 1 Safe    = Cell<NothrowMove = true>:  instance-counted; converting constructor / assignment from a
//                         SrcS, copy constructor / assignment potentially throwing; move operations noexcept
//   alternative 2 Shaky   = Cell<NothrowMove = false>: the same from a SrcK, move operations potentially throwing too
//                         Every Cell carries members s (SrcS) and k (SrcK) mirroring its value (the sources of
//                         AliasMember); move operations leave MOVED (8) behind; the destructor poisons the value.
//   f = 1                 -> the first potentially-throwing member of a Cell called by the operation throws `Injected`
//                         (before it changes anything); disarmed when the operation returns
//   AssignVal how=conv    -> SrcS/SrcK lvalue: v = src;   how=lv -> v = const Cell&;   how=rv -> v = Cell&&;
//             how=""      -> one of the three (seeded); int: lvalue | rvalue
//   Emplace               -> v.emplace<I>(src) | v.emplace<T>(src)  (int: the value); the returned reference is checked
//   Copy/Move how=assign  -> d = o / d = std::move(o);  how=construct -> destroy d, V(o) / V(std::move(o))
//   SelfCopy              -> d = d (through a const reference)          Swap -> v1.swap(v2) | swap(v1, v2)
//   AliasSelf             -> d = static_cast<const T&>(get<held>(d))
//   AliasMember i         -> d = get<held>(d).s (i = 1) | get<held>(d).k (i = 2)
// Projection: did the operation throw (T = Injected, anything else is named); per variable index() (-1 = npos),
// valueless_by_exception(), holds_alternative<T>, get<I> (99 = bad_variant_access; get<T>, get_if<I>, get_if<T> must
// agree), visit (99 = bad_variant_access); for the pair binary visit, == != < > <= >=; live instances per class
// (a destructor of an instance that is not alive, or a constructor reading a source inside its own storage, is named).
#include "c20_common.h"

#include <climits>
#include <optional>
#include <variant>

#include "opentelemetry/nostd/variant.h"

namespace nostd = opentelemetry::nostd;
using namespace c20;

namespace
{
struct Injected
{};
int g_arm = 0;   // > 0: the g_arm-th potentially-throwing member call from now on throws
inline void pt()
{
  if (g_arm > 0 && --g_arm == 0)
    throw Injected{};
}

struct SrcS
{
  int x;
};
struct SrcK
{
  int x;
};

template <int W, bool NM>
struct Cell
{
  using Src = typename std::conditional<NM, SrcS, SrcK>::type;
  static int live;
  static int bad;   // destructor of an instance that is not alive / construction from a source in the own storage
  static std::vector<const void *> &alive()
  {
    static std::vector<const void *> v;
    return v;
  }
  int val;
  SrcS s;
  SrcK k;
  void set(int v)
  {
    val = v;
    s.x = v;
    k.x = v;
  }
  void reg()
  {
    alive().push_back(this);
    live++;
  }
  bool inside(const void *p) const
  {
    const char *c = static_cast<const char *>(p);
    return c >= reinterpret_cast<const char *>(this) && c < reinterpret_cast<const char *>(this) + sizeof(*this);
  }
  Cell(int v, int /*direct*/)
  {
    set(v);
    reg();
  }
  Cell(const Src &src)   // NOLINT: implicit on purpose, `v = src` selects this alternative
  {
    if (inside(&src))
      bad++;   // the source lives in the storage this object is being built in: it was destroyed before it is read
    pt();
    int v = src.x;
    set(v);
    reg();
  }
  Cell(const Cell &o)
  {
    pt();
    set(o.val);
    reg();
  }
  Cell(Cell &&o) noexcept(NM)
  {
    if constexpr (!NM)
      pt();
    set(o.val);
    o.set(8);
    reg();
  }
  Cell &operator=(const Src &src)
  {
    pt();
    int v = src.x;
    set(v);
    return *this;
  }
  Cell &operator=(const Cell &o)
  {
    pt();
    int v = o.val;
    set(v);
    return *this;
  }
  Cell &operator=(Cell &&o) noexcept(NM)
  {
    if constexpr (!NM)
      pt();
    if (this != &o)
    {
      int v = o.val;
      set(v);
      o.set(8);
    }
    return *this;
  }
  ~Cell()
  {
    volatile int *p = &val, *q = &s.x, *r = &k.x;
    *p = *q = *r = -77;
    auto &a          = alive();
    for (size_t i = 0; i < a.size(); ++i)
      if (a[i] == this)
      {
        a.erase(a.begin() + static_cast<long>(i));
        live--;
        return;
      }
    bad++;
  }
  friend bool operator==(const Cell &a, const Cell &b) { return a.val == b.val; }
  friend bool operator!=(const Cell &a, const Cell &b) { return a.val != b.val; }
  friend bool operator<(const Cell &a, const Cell &b) { return a.val < b.val; }
  friend bool operator>(const Cell &a, const Cell &b) { return a.val > b.val; }
  friend bool operator<=(const Cell &a, const Cell &b) { return a.val <= b.val; }
  friend bool operator>=(const Cell &a, const Cell &b) { return a.val >= b.val; }
};
template <int W, bool NM>
int Cell<W, NM>::live = 0;
template <int W, bool NM>
int Cell<W, NM>::bad = 0;

static_assert(std::is_nothrow_move_constructible<Cell<0, true>>::value, "Safe");
static_assert(!std::is_nothrow_move_constructible<Cell<0, false>>::value, "Shaky");
static_assert(!std::is_nothrow_constructible<Cell<0, true>, SrcS &>::value, "Safe from source");
static_assert(!std::is_nothrow_copy_constructible<Cell<0, true>>::value, "Safe copy");

struct NostdX
{
  static constexpr int world = 0;
  using A1                   = Cell<0, true>;
  using A2                   = Cell<0, false>;
  using V                    = nostd::variant<int, A1, A2>;
  using Bad                  = nostd::bad_variant_access;
  static constexpr size_t npos = absl::OTABSL_OPTION_NAMESPACE_NAME::variant_npos;
  template <size_t I>
  static auto &get(V &v)
  {
    return nostd::get<I>(v);
  }
  template <size_t I>
  static const auto &cget(const V &v)
  {
    return nostd::get<I>(v);
  }
  template <class T>
  static auto &get_t(V &v)
  {
    return nostd::get<T>(v);
  }
  template <size_t I>
  static auto get_if(V *v)
  {
    return nostd::get_if<I>(v);
  }
  template <class T>
  static auto get_if_t(V *v)
  {
    return nostd::get_if<T>(v);
  }
  template <class T>
  static bool holds(const V &v)
  {
    return nostd::holds_alternative<T>(v);
  }
  template <class F, class... Vs>
  static auto visit(F &&f, Vs &&...vs)
  {
    return nostd::visit(std::forward<F>(f), std::forward<Vs>(vs)...);
  }
};
struct StdX
{
  static constexpr int world = 1;
  using A1                   = Cell<1, true>;
  using A2                   = Cell<1, false>;
  using V                    = std::variant<int, A1, A2>;
  using Bad                  = std::bad_variant_access;
  static constexpr size_t npos = std::variant_npos;
  template <size_t I>
  static auto &get(V &v)
  {
    return std::get<I>(v);
  }
  template <size_t I>
  static const auto &cget(const V &v)
  {
    return std::get<I>(v);
  }
  template <class T>
  static auto &get_t(V &v)
  {
    return std::get<T>(v);
  }
  template <size_t I>
  static auto get_if(V *v)
  {
    return std::get_if<I>(v);
  }
  template <class T>
  static auto get_if_t(V *v)
  {
    return std::get_if<T>(v);
  }
  template <class T>
  static bool holds(const V &v)
  {
    return std::holds_alternative<T>(v);
  }
  template <class F, class... Vs>
  static auto visit(F &&f, Vs &&...vs)
  {
    return std::visit(std::forward<F>(f), std::forward<Vs>(vs)...);
  }
};

template <class Fam>
struct XWorld
{
  using V  = typename Fam::V;
  using A1 = typename Fam::A1;
  using A2 = typename Fam::A2;
  int ival[2];
  std::optional<V> v[2];

  int abs_int(int x) const { return x == ival[0] ? 0 : (x == ival[1] ? 1 : 55); }
  template <class C>
  static int abs_cell(const C &c)
  {
    if (c.s.x != c.val || c.k.x != c.val)
      return 57;
    return (c.val == 0 || c.val == 1 || c.val == 8) ? c.val : 55;
  }

  struct Visitor
  {
    const XWorld *w;
    std::pair<int, int> operator()(const int &x) const { return {0, w->abs_int(x)}; }
    std::pair<int, int> operator()(const A1 &x) const { return {1, abs_cell(x)}; }
    std::pair<int, int> operator()(const A2 &x) const { return {2, abs_cell(x)}; }
  };
  struct Visitor2
  {
    const XWorld *w;
    template <class A, class B>
    std::vector<int> operator()(const A &a, const B &b) const
    {
      Visitor u{w};
      auto p = u(a), q = u(b);
      return {p.first, p.second, q.first, q.second};
    }
  };

  template <size_t I>
  json get_one(V &x)
  {
    // get<I>, get<T>, get_if<I>, get_if<T>, const get<I> must tell the same story
    using T = typename std::decay<decltype(Fam::template get<I>(x))>::type;
    Visitor u{this};
    json r;
    try
    {
      r = u(Fam::template get<I>(x)).second;
    }
    catch (const typename Fam::Bad &)
    {
      r = 99;
    }
    catch (...)
    {
      return "get<I> throws another exception type";
    }
    json r2;
    try
    {
      r2 = u(Fam::template get_t<T>(x)).second;
    }
    catch (const typename Fam::Bad &)
    {
      r2 = 99;
    }
    catch (...)
    {
      return "get<T> throws another exception type";
    }
    if (r2 != r)
      return "get<T> disagrees with get<I>";
    auto *p = Fam::template get_if<I>(&x);
    auto *q = Fam::template get_if_t<T>(&x);
    if ((p == nullptr) != (r == 99) || p != q)
      return "get_if disagrees with get";
    if (p && u(*p).second != r)
      return "get_if value disagrees with get";
    const V &cx = x;
    try
    {
      auto &cr = Fam::template cget<I>(cx);
      if (u(cr).second != r)
        return "const get<I> disagrees";
    }
    catch (const typename Fam::Bad &)
    {
      if (r != 99)
        return "const get<I> throws";
    }
    return r;
  }

  static const char *tf(bool b) { return b ? "T" : "F"; }
  json obs_var(V &x)
  {
    json o;
    bool vl = x.valueless_by_exception();
    if (vl != (x.index() == Fam::npos))
      o["idx"] = "index() and valueless_by_exception() disagree";
    else if (vl)
      o["idx"] = -1;
    else
      o["idx"] = x.index();
    o["vless"] = tf(vl);
    o["holds"] = json::array({tf(Fam::template holds<int>(x)), tf(Fam::template holds<A1>(x)), tf(Fam::template holds<A2>(x))});
    o["get"]   = json::array({get_one<0>(x), get_one<1>(x), get_one<2>(x)});
    try
    {
      auto p     = Fam::visit(Visitor{this}, x);
      o["visit"] = json::array({p.first, p.second});
    }
    catch (const typename Fam::Bad &)
    {
      o["visit"] = json::array({99, 99});
    }
    catch (...)
    {
      o["visit"] = "visit throws another exception type";
    }
    return o;
  }
  json observe(const std::string &threw)
  {
    json o;
    V &a = *v[0], &b = *v[1];
    o["threw"] = threw;
    o["v1"]    = obs_var(a);
    o["v2"]    = obs_var(b);
    try
    {
      o["visit2"] = Fam::visit(Visitor2{this}, a, b);
    }
    catch (const typename Fam::Bad &)
    {
      o["visit2"] = json::array({99, 99, 99, 99});
    }
    catch (...)
    {
      o["visit2"] = "visit throws another exception type";
    }
    o["eq"]   = tf(a == b);
    o["ne"]   = tf(a != b);
    o["lt"]   = tf(a < b);
    o["gt"]   = tf(a > b);
    o["le"]   = tf(a <= b);
    o["ge"]   = tf(a >= b);
    o["live"] = json::array({0, A1::live, A2::live});
    if (A1::bad || A2::bad)
      o["live"] = "an instance that was not alive was destroyed, or a destroyed source object was read";
    return o;
  }

  // d = <class alternative C of value x> in the source form `how`
  template <class C>
  void assign_cell(V &d, int x, const std::string &how, bool arm)
  {
    using Src = typename C::Src;
    if (how == "conv")
    {
      Src src{x};
      g_arm = arm;
      d     = src;
    }
    else if (how == "lv")
    {
      C val(x, 0);
      g_arm = arm;
      d     = static_cast<const C &>(val);
    }
    else
    {
      C val(x, 0);
      g_arm = arm;
      d     = std::move(val);
    }
  }
  template <size_t I, class C>
  std::string emplace_cell(V &d, int x, bool by_index, bool arm)
  {
    using Src = typename C::Src;
    Src src{x};
    g_arm = arm;
    C &r  = by_index ? d.template emplace<I>(src) : d.template emplace<C>(src);
    g_arm = 0;
    if (&r != Fam::template get_if<I>(&d) || r.val != x)
      return "emplace returned a wrong reference";
    return "";
  }
};

template <class Fam>
void run_world(const Case &c)
{
  using V         = typename Fam::V;
  using A1        = typename Fam::A1;
  using A2        = typename Fam::A2;
  const json &beh = *c.beh;
  const json &sts = beh["steps"];
  Rng rng(c.seed);
  XWorld<Fam> *w        = new XWorld<Fam>();
  static const int iv[] = {41, INT_MAX, 1};
  w->ival[0]            = 0;
  w->ival[1]            = iv[rng.pick(3)];
  A1::live = A2::live = 0;
  A1::bad = A2::bad = 0;
  A1::alive().clear();
  A2::alive().clear();
  g_shm->phase      = Fam::world;
  const char *world = Fam::world == 0 ? "nostd" : "std";
  for (size_t k = 0; k < sts.size(); ++k)
  {
    const json &st = sts[k];
    if (Fam::world == 0)
      g_shm->step = static_cast<long>(k);
    std::string op  = st["op"];
    std::string dn  = st.value("d", "");
    std::string how = st.value("how", "");
    int di          = dn == "v2" ? 1 : 0;
    int alt = st.value("i", 0), x = st.value("x", 0);
    bool arm    = st.value("f", 0) != 0;
    int variant = rng.pick(6);
    std::string note, threw = "F";
    g_arm = 0;
    try
    {
      if (op == "init")
      {
        w->v[0].emplace();
        w->v[1].emplace();
      }
      else if (op == "AssignVal")
      {
        V &d = *w->v[di];
        if (how.empty())
          how = variant % 3 == 0 ? "conv" : (variant % 3 == 1 ? "lv" : "rv");
        if (alt == 0)
        {
          int val = w->ival[x];
          g_arm   = arm;
          if (variant % 2)
            d = val;
          else
            d = int(val);
        }
        else if (alt == 1)
          w->template assign_cell<A1>(d, x, how, arm);
        else
          w->template assign_cell<A2>(d, x, how, arm);
      }
      else if (op == "Emplace")
      {
        V &d = *w->v[di];
        if (alt == 0)
        {
          g_arm  = arm;
          int &r = variant % 2 ? d.template emplace<0>(w->ival[x]) : d.template emplace<int>(w->ival[x]);
          g_arm  = 0;
          if (&r != Fam::template get_if<0>(&d) || r != w->ival[x])
            note = "emplace<0> returned a wrong reference";
        }
        else if (alt == 1)
          note = w->template emplace_cell<1, A1>(d, x, variant % 2, arm);
        else
          note = w->template emplace_cell<2, A2>(d, x, variant % 2, arm);
      }
      else if (op == "Copy" || op == "Move")
      {
        std::optional<V> &d = w->v[di];
        V &o                = *w->v[1 - di];
        if (how == "assign")
        {
          g_arm = arm;
          if (op == "Copy")
            *d = static_cast<const V &>(o);
          else
            *d = std::move(o);
        }
        else
        {
          d.reset();
          if (op == "Copy")
            d.emplace(static_cast<const V &>(o));
          else
            d.emplace(std::move(o));
        }
      }
      else if (op == "SelfCopy")
      {
        V &d           = *w->v[di];
        const V &alias = d;
        g_arm          = arm;
        d              = alias;
      }
      else if (op == "Swap")
      {
        // libstdc++ 12 does not implement [variant.swap] when exactly one operand is valueless (the operand that
        // held the value keeps a moved-from value instead of becoming valueless): the twin cannot cross-check the
        // specification from here on, the behaviour ends for it (nostd is still held to the standard's wording)
        if (Fam::world == 1 && w->v[0]->valueless_by_exception() != w->v[1]->valueless_by_exception())
          return;
        if (variant % 2)
          w->v[0]->swap(*w->v[1]);
        else
        {
          using std::swap;
          swap(*w->v[0], *w->v[1]);
        }
      }
      else if (op == "AliasSelf")
      {
        V &d  = *w->v[di];
        g_arm = arm;
        switch (d.index())
        {
          case 0:
            d = static_cast<const int &>(Fam::template get<0>(d));
            break;
          case 1:
            d = static_cast<const A1 &>(Fam::template get<1>(d));
            break;
          case 2:
            d = static_cast<const A2 &>(Fam::template get<2>(d));
            break;
          default:
            note = "AliasSelf on a variant that holds nothing";
        }
      }
      else if (op == "AliasMember")
      {
        V &d  = *w->v[di];
        g_arm = arm;
        if (d.index() == 1)
        {
          A1 &held = Fam::template get<1>(d);
          if (alt == 1)
            d = held.s;
          else
            d = held.k;
        }
        else if (d.index() == 2)
        {
          A2 &held = Fam::template get<2>(d);
          if (alt == 1)
            d = held.s;
          else
            d = held.k;
        }
        else
          note = "AliasMember on a variant that does not hold a class";
      }
      else
      {
        g_arm = 0;
        harness_error(c, static_cast<int>(k), "unknown op " + op);
        return;
      }
    }
    catch (const Injected &)
    {
      threw = "T";
    }
    catch (const typename Fam::Bad &)
    {
      threw = "the operation threw bad_variant_access";
    }
    catch (...)
    {
      threw = "the operation threw an unknown exception";
    }
    g_arm = 0;
    g_shm->steps++;
    json obs = w->observe(threw);
    json stx = st;
    if (!note.empty())
    {
      obs["note"]        = note;
      stx["exp"]["note"] = "";
    }
    auto nowild = [](const json &) { return false; };
    if (st.contains("might") && !st["might"].empty())
    {
      // an exception left a direct emplace: the standard allows the variant to have lost its value (exp) or, for an
      // implementation that is stronger than required, to be unchanged (might); which one is counted, never judged
      bool lost = diff(stx["exp"], obs, nowild).empty();
      bool kept = !lost && diff(st["might"][0], obs, nowild).empty();
      if (Fam::world == 0 && lost)
        g_shm->band_valueless++;
      if (Fam::world == 0 && kept)
        g_shm->band_kept++;
      if (kept)
      {
        g_shm->checks++;
        return;   // the rest of the behaviour continues from the valueless state
      }
    }
    Verdict vd = judge(c, static_cast<int>(k), stx, obs, world, nowild);
    if (vd != Verdict::Ok)
      return;   // leak the world: its state is not the specified one
  }
  // both variables leave scope: no instance may survive, none may be destroyed twice
  if (Fam::world == 0)
    g_shm->step = static_cast<long>(sts.size());
  w->v[0].reset();
  w->v[1].reset();
  if (A1::live != 0 || A2::live != 0 || A1::bad != 0 || A2::bad != 0)
  {
    g_shm->findings++;
    g_shm->bad++;
    emit({{"r", Fam::world == 0 ? "mismatch" : "stdspec"}, {"m", c.m}, {"id", c.id}, {"inst", c.inst},
          {"step", static_cast<long>(sts.size())}, {"op", "teardown"}, {"path", "/live"}, {"exp", 0},
          {"obs", A1::live + A2::live},
          {"what", std::string(world) + ": instances alive after both variants were destroyed: " +
                       std::to_string(A1::live) + "+" + std::to_string(A2::live) +
                       ", bad destructions: " + std::to_string(A1::bad + A2::bad)}});
  }
  delete w;
  if (Fam::world == 0)
    g_shm->step = -1;
}

void replay_varx(const Case &c)
{
  long before = g_shm->findings;
  run_world<NostdX>(c);
  if (g_shm->findings != before)
    return;
  run_world<StdX>(c);
  g_shm->phase = 0;
}

Registrar reg("varx", replay_varx);
}  // namespace
