// C13 harness, shared declarations: caller-buffer arena, concrete argument objects, the
// EmitLogRecord(args...) dispatcher (instantiated over ordered tuples of static argument types in
// c13_dispatch_*.cc so that the translation units compile in parallel).
#pragma once

#include "opentelemetry/common/attribute_value.h"
#include "opentelemetry/common/key_value_iterable_view.h"
#include "opentelemetry/common/timestamp.h"
#include "opentelemetry/logs/event_id.h"
#include "opentelemetry/logs/log_record.h"
#include "opentelemetry/logs/logger.h"
#include "opentelemetry/logs/severity.h"
#include "opentelemetry/nostd/shared_ptr.h"
#include "opentelemetry/nostd/span.h"
#include "opentelemetry/nostd/string_view.h"
#include "opentelemetry/nostd/unique_ptr.h"
#include "opentelemetry/trace/span_context.h"
#include "opentelemetry/trace/span_id.h"
#include "opentelemetry/trace/trace_flags.h"
#include "opentelemetry/trace/trace_id.h"

#include <chrono>
#include <cstring>
#include <map>
#include <memory>
#include <string>
#include <unordered_map>
#include <utility>
#include <vector>

namespace c13
{
namespace otel   = opentelemetry;
namespace common = opentelemetry::common;
namespace logs   = opentelemetry::logs;
namespace nostd  = opentelemetry::nostd;
namespace trace  = opentelemetry::trace;

// ---- static argument types of EmitLogRecord(args...) --------------------------------------
enum StaticType
{
  ST_SEV = 0,      // logs::Severity
  ST_BODY_SV,      // nostd::string_view
  ST_BODY_AV,      // common::AttributeValue (any alternative)
  ST_CTX,          // trace::SpanContext
  ST_SID,          // trace::SpanId
  ST_TID,          // trace::TraceId
  ST_FLAGS,        // trace::TraceFlags
  ST_TS_SYS,       // common::SystemTimestamp
  ST_ATTR_MAP,     // std::map<std::string, AttributeValue>
  ST_EVENT,        // logs::EventId
  kPrimaryTypes,   // ---- the types above are used in tuples of length 3
  ST_BODY_CSTR = kPrimaryTypes,  // const char *
  ST_BODY_STR,     // std::string
  ST_TS_TP,        // std::chrono::system_clock::time_point
  ST_ATTR_VEC,     // std::vector<std::pair<nostd::string_view, AttributeValue>>
  ST_ATTR_UMAP,    // std::unordered_map<std::string, AttributeValue>
  ST_ATTR_SPAN,    // nostd::span<const std::pair<nostd::string_view, AttributeValue>>  (MakeAttributes)
  ST_ATTR_KVI,     // const common::KeyValueIterable &
  ST_ATTR_KVIV,    // common::KeyValueIterableView<std::map<..>> (derived class, rvalue)
  kAllTypes
};

typedef std::map<std::string, common::AttributeValue> AttrMap;
typedef std::unordered_map<std::string, common::AttributeValue> AttrUMap;
typedef std::vector<std::pair<nostd::string_view, common::AttributeValue>> AttrVec;
typedef nostd::span<const std::pair<nostd::string_view, common::AttributeValue>> AttrSpan;

// One concrete argument.  The objects named here are the CALLER's objects; what they point to
// lives in caller buffers (see Buffers in c13_logrecord.cc).
struct CArg
{
  int st = ST_SEV;
  logs::Severity sev = logs::Severity::kInvalid;
  nostd::string_view sv;
  const char *cstr = nullptr;
  std::shared_ptr<std::string> str;
  common::AttributeValue av;
  trace::SpanContext ctx{false, false};
  trace::SpanId sid;
  trace::TraceId tid;
  trace::TraceFlags fl;
  common::SystemTimestamp ts;
  std::chrono::system_clock::time_point tp;
  std::shared_ptr<AttrMap> amap;
  std::shared_ptr<AttrUMap> aumap;
  std::shared_ptr<AttrVec> avec;
  AttrSpan aspan;
  std::shared_ptr<logs::EventId> ev;
};

enum Via
{
  VIA_REC,   // logger->EmitLogRecord(std::move(record), args...)
  VIA_NEW,   // logger->EmitLogRecord(args...)
  VIA_NULL   // logger->EmitLogRecord(nostd::unique_ptr<LogRecord>{}, args...)
};

struct Call
{
  Via via;
  logs::Logger *logger;
  nostd::unique_ptr<logs::LogRecord> rec;
};

template <class... Ts>
inline void CallEmit(Call &c, Ts &&...args)
{
  switch (c.via)
  {
    case VIA_REC:
      c.logger->EmitLogRecord(std::move(c.rec), std::forward<Ts>(args)...);
      break;
    case VIA_NEW:
      c.logger->EmitLogRecord(std::forward<Ts>(args)...);
      break;
    case VIA_NULL:
      c.logger->EmitLogRecord(nostd::unique_ptr<logs::LogRecord>{}, std::forward<Ts>(args)...);
      break;
  }
}

// Continuation-passing dispatch on the static type of argument I; MAXST limits the alphabet.
template <int MAXST, int LEFT>
struct Dispatch
{
  template <class... Done>
  static void go(Call &c, CArg *const *as, int n, Done &&...done)
  {
    if (n == 0)
    {
      CallEmit(c, std::forward<Done>(done)...);
      return;
    }
    CArg &a = **as;
#define C13_NEXT(expr) Dispatch<MAXST, LEFT - 1>::go(c, as + 1, n - 1, std::forward<Done>(done)..., expr)
    switch (a.st)
    {
      case ST_SEV:
        C13_NEXT(a.sev);
        return;
      case ST_BODY_SV:
        C13_NEXT(a.sv);
        return;
      case ST_BODY_AV:
        C13_NEXT(a.av);
        return;
      case ST_CTX:
        C13_NEXT(a.ctx);
        return;
      case ST_SID:
        C13_NEXT(a.sid);
        return;
      case ST_TID:
        C13_NEXT(a.tid);
        return;
      case ST_FLAGS:
        C13_NEXT(a.fl);
        return;
      case ST_TS_SYS:
        C13_NEXT(a.ts);
        return;
      case ST_ATTR_MAP:
        C13_NEXT(*a.amap);
        return;
      case ST_EVENT:
        C13_NEXT(static_cast<const logs::EventId &>(*a.ev));
        return;
      default:
        break;
    }
    if constexpr (MAXST > kPrimaryTypes)
    {
      switch (a.st)
      {
        case ST_BODY_CSTR:
          C13_NEXT(a.cstr);
          return;
        case ST_BODY_STR:
          C13_NEXT(*a.str);
          return;
        case ST_TS_TP:
          C13_NEXT(a.tp);
          return;
        case ST_ATTR_VEC:
          C13_NEXT(*a.avec);
          return;
        case ST_ATTR_UMAP:
          C13_NEXT(*a.aumap);
          return;
        case ST_ATTR_SPAN:
          C13_NEXT(a.aspan);
          return;
        case ST_ATTR_KVI: {
          common::KeyValueIterableView<AttrMap> view(*a.amap);
          C13_NEXT(static_cast<const common::KeyValueIterable &>(view));
          return;
        }
        case ST_ATTR_KVIV:
          C13_NEXT(common::KeyValueIterableView<AttrMap>(*a.amap));
          return;
        default:
          break;
      }
    }
#undef C13_NEXT
    std::abort();  // harness error: static type outside the alphabet of this dispatcher
  }
};

template <int MAXST>
struct Dispatch<MAXST, 0>
{
  template <class... Done>
  static void go(Call &c, CArg *const *, int n, Done &&...done)
  {
    if (n != 0)
      std::abort();
    CallEmit(c, std::forward<Done>(done)...);
  }
};

// defined in c13_dispatch_full.cc: every ordered tuple of <= 2 static types out of all 19
void EmitFull(Call &c, CArg *const *as, int n);
// defined in c13_dispatch_prim_*.cc: every ordered tuple of exactly 3 primary static types (10^3),
// split by the first argument's type for parallel compilation
void EmitPrim3_a(Call &c, CArg *const *as);  // first in {SEV, BODY_SV, BODY_AV}
void EmitPrim3_b(Call &c, CArg *const *as);  // first in {CTX, SID, TID}
void EmitPrim3_c(Call &c, CArg *const *as);  // first in {FLAGS, TS_SYS}
void EmitPrim3_d(Call &c, CArg *const *as);  // first in {ATTR_MAP, EVENT}
}  // namespace c13
