// C13: EmitLogRecord(a1, a2, a3) for every ordered triple of the 10 primary static argument types
// (part c of 4, split by the type of the first argument so that the parts compile in parallel).
#include "c13_common.h"
namespace c13
{
#define PRIM(expr)                                      \
  Dispatch<kPrimaryTypes, 2>::go(c, as + 1, 2, expr); \
  return;
void EmitPrim3_c(Call &c, CArg *const *as)
{
  CArg &a = **as;
  switch (a.st)
  {
    case ST_FLAGS:
      PRIM(a.fl)
    case ST_TS_SYS:
      PRIM(a.ts)
    default:
      std::abort();
  }
}
}  // namespace c13
