// C15 - replayer for CompositePropagator over every ordered subset of the built-in propagators.
//
//   c15_composite replay <behaviours.ndjson>    each line {"id","inst","steps":[rec]} is one scenario computed
//                                               by TLC from spec/Composite.tla
//
// Concretisation table:
//   parts  tc -> trace::propagation::HttpTraceContext      bag -> baggage::propagation::BaggagePropagator
//          b3 -> trace::propagation::B3Propagator           b3m -> trace::propagation::B3PropagatorMultiHeader
//          jg -> trace::propagation::JaegerPropagator
//          the composite is built from the parts in the given order; for odd `inst` it is installed as the
//          global propagator and used through GlobalTextMapPropagator::GetGlobalPropagator()
//   identities  tcS, b3sS, b3xS, jgS, S0: five different random non-zero (trace id, span id) pairs per instance
//   carrier (extract)  every wire format independently of the configured parts: groups tc (traceparent
//                      [+tracestate]), b3s ("b3"), b3x (X-B3-TraceId/SpanId[/Sampled]), jg (uber-trace-id), bag
//                      group status valid   -> a well-formed header carrying the group's own identity
//                      invalid -> garbage that no reading of the format accepts ("zz..." / member without '=')
//                      absent  -> no header
//   ctx0   none -> empty context;  S0/B0 -> a context holding a span with identity S0 and a baggage {c0k=c0v}
//   inject ctx: span valid -> a span context with random ids (+ tracestate "vk=vv" when ts), bag -> baggage {ik=iv}
//   The expected carrier of an injection is "header -> owning part"; the value a part writes is obtained by
//   running a fresh instance of THAT part alone on a fresh carrier (the composite must write the same).
#include <cstdint>
#include <cstring>
#include <fstream>
#include <iostream>
#include <map>
#include <memory>
#include <string>
#include <vector>

#include <nlohmann/json.hpp>

#include "opentelemetry/baggage/baggage.h"
#include "opentelemetry/baggage/baggage_context.h"
#include "opentelemetry/baggage/propagation/baggage_propagator.h"
#include "opentelemetry/context/context.h"
#include "opentelemetry/context/propagation/composite_propagator.h"
#include "opentelemetry/context/propagation/global_propagator.h"
#include "opentelemetry/trace/context.h"
#include "opentelemetry/trace/default_span.h"
#include "opentelemetry/trace/propagation/b3_propagator.h"
#include "opentelemetry/trace/propagation/http_trace_context.h"
#include "opentelemetry/trace/propagation/jaeger.h"
#include "opentelemetry/trace/span_context.h"
#include "opentelemetry/trace/trace_state.h"

using json = nlohmann::json;
namespace nostd   = opentelemetry::nostd;
namespace context = opentelemetry::context;
namespace trace   = opentelemetry::trace;
namespace baggage = opentelemetry::baggage;
using context::propagation::TextMapPropagator;

struct Rng
{
  uint64_t s;
  explicit Rng(uint64_t seed) : s(seed * 0x9E3779B97F4A7C15ull + 0x33221100ull) {}
  uint64_t next()
  {
    uint64_t z = (s += 0x9E3779B97F4A7C15ull);
    z          = (z ^ (z >> 30)) * 0xBF58476D1CE4E5B9ull;
    z          = (z ^ (z >> 27)) * 0x94D049BB133111EBull;
    return z ^ (z >> 31);
  }
};

class Carrier : public context::propagation::TextMapCarrier
{
public:
  std::map<std::string, std::string> h;
  mutable std::vector<std::unique_ptr<char[]>> handed;
  nostd::string_view Get(nostd::string_view key) const noexcept override
  {
    auto it = h.find(std::string(key.data(), key.size()));
    if (it == h.end())
      return "";
    // exactly-sized heap copy, no NUL terminator
    std::unique_ptr<char[]> p(new char[it->second.size() ? it->second.size() : 1]);
    memcpy(p.get(), it->second.data(), it->second.size());
    handed.push_back(std::move(p));
    return nostd::string_view(handed.back().get(), it->second.size());
  }
  void Set(nostd::string_view key, nostd::string_view value) noexcept override
  {
    h[std::string(key.data(), key.size())] = std::string(value.data(), value.size());
  }
};

struct Ident
{
  uint8_t tid[16];
  uint8_t sid[8];
  bool sampled;
  std::string thex() const { return hex(tid, 16); }
  std::string shex() const { return hex(sid, 8); }
  static std::string hex(const uint8_t *p, size_t n)
  {
    static const char *H = "0123456789abcdef";
    std::string s;
    for (size_t i = 0; i < n; ++i)
    {
      s.push_back(H[p[i] / 16u]);
      s.push_back(H[p[i] % 16u]);
    }
    return s;
  }
};

static Ident mk_ident(Rng &r, uint8_t tag)
{
  Ident x;
  for (auto &b : x.tid)
    b = (uint8_t)r.next();
  for (auto &b : x.sid)
    b = (uint8_t)r.next();
  x.tid[0] = tag;  // the four identities of one scenario always differ, ids are never all-zero
  x.sid[0] = tag;
  x.tid[15] |= 1;
  x.sid[7] |= 1;
  x.sampled = r.next() & 1;
  return x;
}

static std::unique_ptr<TextMapPropagator> mk_part(const std::string &p)
{
  if (p == "tc")
    return std::unique_ptr<TextMapPropagator>(new trace::propagation::HttpTraceContext());
  if (p == "bag")
    return std::unique_ptr<TextMapPropagator>(new baggage::propagation::BaggagePropagator());
  if (p == "b3")
    return std::unique_ptr<TextMapPropagator>(new trace::propagation::B3Propagator());
  if (p == "b3m")
    return std::unique_ptr<TextMapPropagator>(new trace::propagation::B3PropagatorMultiHeader());
  if (p == "jg")
    return std::unique_ptr<TextMapPropagator>(new trace::propagation::JaegerPropagator());
  return nullptr;
}

static nostd::shared_ptr<TextMapPropagator> mk_composite(const json &parts, bool via_global)
{
  std::vector<std::unique_ptr<TextMapPropagator>> v;
  for (auto &p : parts)
    v.push_back(mk_part(p.get<std::string>()));
  nostd::shared_ptr<TextMapPropagator> c(new context::propagation::CompositePropagator(std::move(v)));
  if (!via_global)
    return c;
  context::propagation::GlobalTextMapPropagator::SetGlobalPropagator(c);
  return context::propagation::GlobalTextMapPropagator::GetGlobalPropagator();
}

typedef std::vector<std::pair<std::string, std::string>> List;
static List entries(const nostd::shared_ptr<baggage::Baggage> &b)
{
  List l;
  b->GetAllEntries([&l](nostd::string_view k, nostd::string_view v) {
    l.push_back({std::string(k.data(), k.size()), std::string(v.data(), v.size())});
    return true;
  });
  return l;
}

static context::Context with_span(context::Context &c, const Ident &id, const std::string &ts)
{
  trace::SpanContext sc(trace::TraceId(nostd::span<const uint8_t, 16>(id.tid, 16)),
                        trace::SpanId(nostd::span<const uint8_t, 8>(id.sid, 8)),
                        trace::TraceFlags(id.sampled ? trace::TraceFlags::kIsSampled : 0), false,
                        ts.empty() ? trace::TraceState::GetDefault() : trace::TraceState::FromHeader(ts));
  nostd::shared_ptr<trace::Span> sp(new trace::DefaultSpan(sc));
  return trace::SetSpan(c, sp);
}

static int replay(const char *path)
{
  std::ifstream in(path);
  std::string line;
  while (std::getline(in, line))
  {
    if (line.empty())
      continue;
    json b        = json::parse(line);
    long id       = b["id"].get<long>();
    uint64_t inst = b["inst"].get<uint64_t>();
    Rng r(inst);
    json res = {{"beh", id}, {"ok", true}};
    for (auto &st : b["steps"])
    {
      std::string op = st["op"].get<std::string>();
      auto comp      = mk_composite(st["parts"], inst & 1);
      std::string why;
      json got;
      if (op == "extract")
      {
        Ident tc = mk_ident(r, 0xA1), b3 = mk_ident(r, 0xB2), bx = mk_ident(r, 0xB7), jg = mk_ident(r, 0xC3),
              s0 = mk_ident(r, 0xD4);
        Carrier car;
        std::string s;
        s = st["car"]["tc"].get<std::string>();
        if (s == "valid")
        {
          car.h["traceparent"] = "00-" + tc.thex() + "-" + tc.shex() + (tc.sampled ? "-01" : "-00");
          if (r.next() & 1)
            car.h["tracestate"] = "vk=vv";
        }
        else if (s == "invalid")
          car.h["traceparent"] = (r.next() & 1) ? "00-zz" + tc.thex().substr(2) + "-" + tc.shex() + "-01" : "garbage";
        s = st["car"]["b3s"].get<std::string>();      // the single "b3" header
        if (s == "valid")
          car.h["b3"] = b3.thex() + "-" + b3.shex() + (b3.sampled ? "-1" : "-0");
        else if (s == "invalid")
          car.h["b3"] = "zz" + b3.thex().substr(2) + "-" + b3.shex();
        s = st["car"]["b3x"].get<std::string>();      // the X-B3-* headers (their own identity)
        if (s == "valid")
        {
          car.h["X-B3-TraceId"] = bx.thex();
          car.h["X-B3-SpanId"]  = bx.shex();
          if (r.next() & 1)
            car.h["X-B3-Sampled"] = bx.sampled ? "1" : "0";
        }
        else if (s == "invalid")
        {
          car.h["X-B3-TraceId"] = "zz" + bx.thex().substr(2);
          car.h["X-B3-SpanId"]  = "zz";
        }
        s = st["car"]["jg"].get<std::string>();
        if (s == "valid")
          car.h["uber-trace-id"] = jg.thex() + ":" + jg.shex() + ":0:" + (jg.sampled ? "01" : "00");
        else if (s == "invalid")
          car.h["uber-trace-id"] = "zz" + jg.thex().substr(2) + ":" + jg.shex() + ":0:01";
        s = st["car"]["bag"].get<std::string>();
        if (s == "valid")
          car.h["baggage"] = "bk=bv";
        else if (s == "invalid")
          car.h["baggage"] = (r.next() & 1) ? "novalue" : "k%zz=v";
        context::Context c0;
        context::Context cur = c0.SetValue("verif-unrelated-key", (int64_t)4711);
        bool has0 = st["ctx0"]["span"].get<std::string>() == "S0";
        if (has0)
        {
          context::Context t = with_span(cur, s0, "");
          auto b0            = baggage::Baggage::GetDefault()->Set("c0k", "c0v");
          cur                = baggage::SetBaggage(t, b0);
        }
        context::Context out = comp->Extract(car, cur);
        // projection
        std::string span = "?";
        auto sc          = trace::GetSpan(out)->GetContext();
        if (!sc.IsValid())
          span = "none";
        else
        {
          char t[32], sp[16];
          sc.trace_id().ToLowerBase16(t);
          sc.span_id().ToLowerBase16(sp);
          std::string th(t, 32), sh(sp, 16);
          const Ident *ids[]  = {&tc, &b3, &bx, &jg, &s0};
          const char *names[] = {"tcS", "b3sS", "b3xS", "jgS", "S0"};
          for (int i = 0; i < 5; ++i)
            if (th == ids[i]->thex() && sh == ids[i]->shex())
              span = names[i];
        }
        List bl         = entries(baggage::GetBaggage(out));
        std::string bag = bl.empty() ? "none" : (bl == List{{"bk", "bv"}}) ? "hdrB" : (bl == List{{"c0k", "c0v"}}) ? "B0" : "?";
        auto other      = out.GetValue("verif-unrelated-key");
        bool other_ok   = nostd::holds_alternative<int64_t>(other) && nostd::get<int64_t>(other) == 4711;
        if (span != st["exp"]["span"].get<std::string>() || bag != st["exp"]["bag"].get<std::string>() || !other_ok)
        {
          why = "composite Extract is not the left fold of its parts";
          got = {{"span", span}, {"bag", bag}, {"unrelated_key_kept", other_ok}};
        }
      }
      else if (op == "inject")
      {
        Ident me = mk_ident(r, 0xE5);
        context::Context c0;
        context::Context cur = c0;
        if (st["ctx"]["span"].get<std::string>() == "valid")
          cur = with_span(cur, me, st["ctx"]["ts"].get<bool>() ? "vk=vv" : "");
        if (st["ctx"]["bag"].get<bool>())
        {
          auto bg = baggage::Baggage::GetDefault()->Set("ik", "iv");
          cur     = baggage::SetBaggage(cur, bg);
        }
        Carrier car;
        comp->Inject(car, cur);
        std::map<std::string, std::string> want;  // header -> owner
        if (st["exp"].is_object())
          for (auto it = st["exp"].begin(); it != st["exp"].end(); ++it)
            want[it.key()] = it.value().get<std::string>();
        json keys = json::array();
        for (auto &e : car.h)
          keys.push_back(e.first);
        if (car.h.size() != want.size())
          why = "the carrier does not hold exactly the headers of the configured parts";
        for (auto &w : want)
        {
          if (!why.empty())
            break;
          auto it = car.h.find(w.first);
          if (it == car.h.end())
          {
            why = "header " + w.first + " of part " + w.second + " was not written";
            break;
          }
          Carrier alone;
          mk_part(w.second)->Inject(alone, cur);
          auto ia = alone.h.find(w.first);
          if (ia == alone.h.end() || ia->second != it->second)
            why = "header " + w.first + " differs from what part " + w.second + " writes alone";
        }
        if (!why.empty())
          got = {{"carrier_keys", keys}};
      }
      else
      {
        std::cerr << "unknown op " << op << "\n";
        return 5;
      }
      if (!why.empty())
      {
        res["ok"]   = false;
        res["step"] = 0;
        res["what"] = why;
        res["got"]  = got;
      }
    }
    std::cout << res.dump() << "\n" << std::flush;
  }
  return 0;
}

int main(int argc, char **argv)
{
  if (argc >= 3 && std::string(argv[1]) == "replay")
    return replay(argv[2]);
  std::cerr << "usage: c15_composite replay <file>\n";
  return 5;
}
