// C20 replayer driver: see c20_common.h.
//   c20_replay replay <behaviours.ndjson> <seed> <instances> [<shard> <nshards>]
#include "c20_common.h"

#include <algorithm>
#include <csignal>
#include <fstream>
#include <iostream>
#include <sys/mman.h>
#include <sys/wait.h>

namespace c20
{
Shm *g_shm = nullptr;

static std::map<std::string, ReplayFn> &registry()
{
  static std::map<std::string, ReplayFn> r;
  return r;
}
void register_machine(const char *name, ReplayFn fn)
{
  registry()[name] = fn;
}

void emit(const json &j)
{
  std::string s = j.dump();
  s.push_back('\n');
  size_t off = 0;
  while (off < s.size())
  {
    ssize_t n = ::write(1, s.data() + off, s.size() - off);
    if (n <= 0)
      break;
    off += static_cast<size_t>(n);
  }
}

std::string diff(const json &exp, const json &obs, const std::function<bool(const json &)> &wild,
                 const std::string &path)
{
  if (wild(exp))
    return "";
  if (exp.is_object())
  {
    if (!obs.is_object())
      return path.empty() ? "/" : path;
    for (auto it = exp.begin(); it != exp.end(); ++it)
    {
      if (!obs.contains(it.key()))
        return path + "/" + it.key() + " (not observed)";
      std::string d = diff(it.value(), obs[it.key()], wild, path + "/" + it.key());
      if (!d.empty())
        return d;
    }
    return "";
  }
  if (exp.is_array())
  {
    if (!obs.is_array() || obs.size() != exp.size())
      return path.empty() ? "/" : path;
    for (size_t i = 0; i < exp.size(); ++i)
    {
      std::string d = diff(exp[i], obs[i], wild, path + "/" + std::to_string(i));
      if (!d.empty())
        return d;
    }
    return "";
  }
  return exp == obs ? "" : (path.empty() ? "/" : path);
}

static json locate(const json &j, const std::string &path)
{
  // path: /a/0/b ... (possibly with a trailing " (not observed)")
  json cur = j;
  size_t i = 0;
  std::string p = path.substr(0, path.find(' '));
  while (i < p.size())
  {
    size_t k         = p.find('/', i + 1);
    std::string part = p.substr(i + 1, k == std::string::npos ? std::string::npos : k - i - 1);
    if (part.empty())
      break;
    if (cur.is_array())
    {
      size_t idx = static_cast<size_t>(atoi(part.c_str()));
      if (idx >= cur.size())
        return nullptr;
      cur = cur[idx];
    }
    else if (cur.is_object() && cur.contains(part))
      cur = cur[part];
    else
      return nullptr;
    if (k == std::string::npos)
      break;
    i = k;
  }
  return cur;
}

Verdict judge(const Case &c, int step, const json &stepj, const json &obs, const char *world,
              const std::function<bool(const json &)> &wild)
{
  g_shm->checks++;
  const json &exp = stepj["exp"];
  std::string d   = diff(exp, obs, wild);
  bool is_std = std::strcmp(world, "std") == 0;
  if (d.empty())
  {
    if (!is_std && stepj.contains("alts") && !stepj["alts"].empty())
      g_shm->alt_counts[exp.contains("died") && !exp["died"].empty() ? 1 : 0]++;
    return Verdict::Ok;
  }
  if (stepj.contains("alts"))
  {
    int k = 0;
    for (auto &a : stepj["alts"])
    {
      if (diff(a, obs, wild).empty())
      {
        if (!is_std)
        {
          // which alternative of a don't-care band the real code takes is counted (evidence), never judged
          g_shm->truncated_alt++;
          bool released = a.contains("died") && !a["died"].empty();
          g_shm->alt_counts[released ? 1 : 0]++;
        }
        return Verdict::Alt;
      }
      ++k;
    }
  }
  std::string dev = stepj.value("dev", "");
  if (!dev.empty() && stepj.contains("expDev"))
  {
    for (auto &e : stepj["expDev"])
    {
      if (diff(e, obs, wild).empty())
      {
        g_shm->findings++;
        g_shm->truncated_dev++;
        emit({{"r", is_std ? "stdspec" : "dev"}, {"dev", dev}, {"m", c.m}, {"id", c.id}, {"inst", c.inst},
              {"step", step}, {"op", stepj.value("op", "")}, {"exp", exp}, {"obs", obs}, {"crashed", false},
              {"what", std::string(world) + " took the deviation's outcome at " + d}});
        return Verdict::Dev;
      }
    }
  }
  g_shm->findings++;
  g_shm->bad++;
  emit({{"r", is_std ? "stdspec" : "mismatch"}, {"m", c.m}, {"id", c.id}, {"inst", c.inst}, {"step", step},
        {"op", stepj.value("op", "")}, {"path", d}, {"exp", locate(exp, d)}, {"obs", locate(obs, d)},
        {"what", std::string(world) + " result differs from the specification at " + d}});
  return Verdict::Mismatch;
}

void harness_error(const Case &c, int step, const std::string &what)
{
  g_shm->findings++;
  g_shm->bad++;
  emit({{"r", "harness"}, {"m", c.m}, {"id", c.id}, {"inst", c.inst}, {"step", step}, {"what", what}});
}
}  // namespace c20

using namespace c20;

static uint64_t mix(uint64_t a, uint64_t b)
{
  Rng r(a * 1000003ull + b);
  return r.next();
}

int main(int argc, char **argv)
{
  if (argc < 5 || std::string(argv[1]) != "replay")
  {
    fprintf(stderr, "usage: %s replay <file> <seed> <instances> [<shard> <nshards>]\n", argv[0]);
    return 2;
  }
  uint64_t seed = strtoull(argv[3], nullptr, 10);
  int ninst     = atoi(argv[4]);
  long shard    = argc > 6 ? atol(argv[5]) : 0;
  long nshards  = argc > 6 ? atol(argv[6]) : 1;
  // the parent keeps only the offsets of its behaviours (a small process forks cheaply); the child
  // reads and parses each behaviour when it gets there
  std::vector<std::pair<long, long>> lines;
  {
    std::ifstream in(argv[2], std::ios::binary);
    if (!in)
    {
      fprintf(stderr, "cannot open %s\n", argv[2]);
      return 2;
    }
    std::string line;
    long idx = 0, off = 0;
    while (std::getline(in, line))
    {
      long len = static_cast<long>(line.size());
      if (!line.empty() && idx++ % nshards == shard)
        lines.emplace_back(off, len);
      off += len + 1;
    }
  }
  auto load = [&](long j) -> json {
    std::ifstream in(argv[2], std::ios::binary);
    in.seekg(lines[static_cast<size_t>(j)].first);
    std::string line(static_cast<size_t>(lines[static_cast<size_t>(j)].second), '\0');
    in.read(&line[0], static_cast<std::streamsize>(line.size()));
    return json::parse(line);
  };
  g_shm = static_cast<Shm *>(mmap(nullptr, sizeof(Shm), PROT_READ | PROT_WRITE, MAP_SHARED | MAP_ANONYMOUS, -1, 0));
  if (g_shm == MAP_FAILED)
  {
    perror("mmap");
    return 2;
  }
  memset(g_shm, 0, sizeof(Shm));
  g_shm->natural_left = 2;
  long n     = static_cast<long>(lines.size());
  long start = 0;
  long forks = 0, crashes = 0;
  bool aborted = false;
  while (start < n)
  {
    if (g_shm->bad >= kMaxBad)
    {
      aborted = true;
      break;
    }
    int ep[2];
    if (pipe(ep) != 0)
    {
      perror("pipe");
      return 2;
    }
    g_shm->cur  = start;
    g_shm->step = -1;
    g_shm->done = start;
    fflush(stdout);
    pid_t pid = fork();
    if (pid < 0)
    {
      perror("fork");
      return 2;
    }
    ++forks;
    if (pid == 0)
    {
      close(ep[0]);
      dup2(ep[1], 2);
      close(ep[1]);
      std::ifstream in(argv[2], std::ios::binary);
      std::string line;
      for (long j = start; j < n; ++j)
      {
        g_shm->cur  = j;
        g_shm->step = -1;
        in.seekg(lines[static_cast<size_t>(j)].first);
        line.resize(static_cast<size_t>(lines[static_cast<size_t>(j)].second));
        in.read(&line[0], static_cast<std::streamsize>(line.size()));
        const json b  = json::parse(line);
        std::string m = b.value("m", "");
        auto it       = registry().find(m);
        Case c{&b, m, b.value("id", -1L), 0, 0};
        if (it == registry().end())
        {
          g_shm->cur = j;
          harness_error(c, -1, "no replayer for machine " + m);
          g_shm->done = j + 1;
          continue;
        }
        long before = g_shm->findings;
        int ni = b.value("ninst", ninst);   // a behaviour may ask for its own number of concretisations
        for (int k = 0; k < ni; ++k)
        {
          g_shm->cur   = j;
          g_shm->step  = -1;
          g_shm->inst  = k;
          g_shm->phase = 0;
          g_shm->ndied = 0;
          c.inst       = k;
          c.seed       = mix(mix(seed, static_cast<uint64_t>(c.id)), static_cast<uint64_t>(k));
          it->second(c);
          g_shm->instances++;
        }
        g_shm->behaviours++;
        g_shm->done = j + 1;
        g_shm->step = -1;
        // a non-ideal outcome of the code under test may have corrupted this process (a dangling
        // owner was exercised): continue in a fresh child
        if (g_shm->findings != before && j + 1 < n)
          _exit(42);
        if (g_shm->bad >= kMaxBad)
          _exit(42);
      }
      _exit(0);
    }
    close(ep[1]);
    std::string err;
    char buf[4096];
    ssize_t r;
    while ((r = read(ep[0], buf, sizeof buf)) > 0)
      if (err.size() < (1u << 20))
        err.append(buf, static_cast<size_t>(r));
    close(ep[0]);
    int st = 0;
    waitpid(pid, &st, 0);
    bool early = WIFEXITED(st) && WEXITSTATUS(st) == 43;
    if (WIFEXITED(st) && (WEXITSTATUS(st) == 0 || WEXITSTATUS(st) == 42))
    {
      if (!err.empty())
        fputs(err.c_str(), stderr);
      start = g_shm->done;
      if (WEXITSTATUS(st) == 0 && start < n)
      {
        emit({{"r", "harness"}, {"what", "child left early"}, {"done", start}, {"n", n}});
        return 3;
      }
      continue;
    }
    // the child died while replaying behaviour cur, step `step`
    ++crashes;
    long cur        = g_shm->cur;
    long step       = g_shm->step;
    const json b    = load(cur);
    std::string m   = b.value("m", "");
    std::string sum = "";
    {
      size_t p = err.find("SUMMARY:");
      if (p != std::string::npos)
        sum = err.substr(p, err.find('\n', p) - p);
      else
      {
        p = err.find("runtime error:");
        if (p != std::string::npos)
          sum = err.substr(p, err.find('\n', p) - p);
      }
    }
    json died = json::array();
    {
      std::vector<int> d;
      for (int i = 0; i < g_shm->ndied && i < 16; ++i)
        d.push_back(static_cast<int>(g_shm->died[i]));
      std::sort(d.begin(), d.end());
      for (int x : d)
        died.push_back(x);
    }
    json j = {{"m", m},       {"id", b.value("id", -1L)}, {"inst", static_cast<long>(g_shm->inst)},
              {"step", step}, {"died", died},            {"asan", sum},
              {"status", WIFSIGNALED(st) ? -WTERMSIG(st) : WEXITSTATUS(st)}};
    bool classified = false;
    if (g_shm->phase == 0 && step >= 0 && b.contains("steps") && step >= static_cast<long>(b["steps"].size()))
    {
      j["r"]     = "crash";
      j["op"]    = "teardown";
      j["what"]  = "the code under test crashed when the remaining variables left scope: " + sum;
      j["stderr"] = err.substr(0, 3000);
      classified = true;
    }
    else if (g_shm->phase != 0 || step < 0 || !b.contains("steps"))
    {
      j["r"]    = "harness";
      j["what"] = std::string("child died outside a step of the code under test (phase ") +
                  std::to_string(g_shm->phase) + "): " + sum + " | " + err.substr(0, 1500);
      classified = true;
    }
    else
    {
      const json &sj = b["steps"][static_cast<size_t>(step)];
      j["op"]        = sj.value("op", "");
      std::string dev = sj.value("dev", "");
      if (!dev.empty() && sj.contains("expDev"))
      {
        for (auto &e : sj["expDev"])
        {
          json ed = e.value("died", json::array());
          std::vector<int> v = ed.get<std::vector<int>>();
          std::sort(v.begin(), v.end());
          bool subset = !died.empty();
          for (auto &x : died)
            subset = subset && std::find(v.begin(), v.end(), x.get<int>()) != v.end();
          if (json(v) == died || (early && subset))
          {
            // the destructor events recorded before the process ended are exactly the deviation's
            j["r"]       = "dev";
            j["dev"]     = dev;
            j["crashed"] = !early;
            if (!early)
              g_shm->dev_crashes = g_shm->dev_crashes + 1;
            bool same_as_ideal = sj["exp"].value("died", json::array()) == ed;
            j["what"] = (same_as_ideal ? "the process died in " + sj.value("op", "") +
                                             " (the deviation: what the operation lets go of is used again)"
                                       : "object(s) " + died.dump() + " destroyed during " + sj.value("op", "") +
                                             " although the specification keeps an owner (instance counter), as in the deviation") +
                        (early ? std::string("") : ": " + sum);
            classified = true;
            break;
          }
        }
      }
      if (!classified && early)
      {
        j["r"]    = "mismatch";
        j["path"] = "/died";
        j["exp"]  = sj["exp"].value("died", json::array());
        j["obs"]  = died;
        j["what"] = "nostd: object(s) " + died.dump() + " destroyed during " + sj.value("op", "") +
                    " although the specification keeps them alive (instance counter)";
      }
      else if (!classified)
      {
        j["r"]    = "crash";
        j["what"] = "the code under test crashed in " + sj.value("op", "") + ": " + sum;
        j["stderr"] = err.substr(0, 3000);
      }
    }
    emit(j);
    g_shm->findings++;
    g_shm->behaviours++;
    if (j["r"] != "dev")
      g_shm->bad++;
    start = cur + 1;
  }
  emit({{"r", "summary"},
        {"aborted", aborted ? 1 : 0},
        {"bad", static_cast<long>(g_shm->bad)},
        {"behaviours", static_cast<long>(g_shm->behaviours)},
        {"loaded", n},
        {"steps", static_cast<long>(g_shm->steps)},
        {"checks", static_cast<long>(g_shm->checks)},
        {"instances", static_cast<long>(g_shm->instances)},
        {"truncated_alt", static_cast<long>(g_shm->truncated_alt)},
        {"truncated_dev", static_cast<long>(g_shm->truncated_dev)},
        {"skipped_known_crash", static_cast<long>(g_shm->skipped_known_crash)},
        {"alt_took_unchanged", static_cast<long>(g_shm->alt_counts[0])},
        {"alt_took_released", static_cast<long>(g_shm->alt_counts[1])},
        {"emplace_threw_valueless", static_cast<long>(g_shm->band_valueless)},
        {"emplace_threw_kept", static_cast<long>(g_shm->band_kept)},
        {"forks", forks},
        {"crashes", crashes}});
  return 0;
}
