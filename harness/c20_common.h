// C20 replayers: shared plumbing.
//
// One binary replays TLC behaviours (one JSON object per line, produced by the Nostd*.tla modules)
// on the real nostd type AND on the std type it stands in for.  The expected projection after every
// step comes from TLC (field "exp"); this code only concretises abstract values, calls the public
// API and projects.  Results (one JSON object per line on stdout):
//   {"r":"mismatch", m,id,inst,step,path,exp,obs,what}   nostd differs from the spec      -> VIOLATION
//   {"r":"dev", dev, m,id,inst,step,...}                  nostd matches the deviation's expectation
//   {"r":"crash", m,id,step,sig/exit,died,asan}           the code under test crashed      -> VIOLATION
//                                                         (or "dev" if the step carries a deviation
//                                                          whose destruction set was observed)
//   {"r":"stdspec", ...}                                  std type differs from the spec   -> broken check
//   {"r":"harness", ...}                                  harness problem                  -> broken check
//   {"r":"summary", ...}                                  counters
// Behaviours are replayed in a forked child; when the child dies (sanitizer report, signal) the
// parent reports the behaviour/step it died in (kept in shared memory, together with the
// destructor events of that step) and forks a new child for the remaining behaviours, so one crash
// never hides the other behaviours.
#pragma once
#include <cstdint>
#include <cstdio>
#include <cstring>
#include <functional>
#include <map>
#include <string>
#include <vector>
#include <unistd.h>

#include <nlohmann/json.hpp>

namespace c20
{
using json = nlohmann::json;

struct Rng
{
  uint64_t s;
  explicit Rng(uint64_t seed) : s(seed * 0x9E3779B97F4A7C15ull + 0x1234567ull) {}
  uint64_t next()
  {
    uint64_t z = (s += 0x9E3779B97F4A7C15ull);
    z          = (z ^ (z >> 30)) * 0xBF58476D1CE4E5B9ull;
    z          = (z ^ (z >> 27)) * 0x94D049BB133111EBull;
    return z ^ (z >> 31);
  }
  int pick(int n) { return n <= 1 ? 0 : static_cast<int>(next() % static_cast<uint64_t>(n)); }
};

// shared between the forked child and its parent
struct Shm
{
  volatile long cur;       // index of the behaviour being replayed
  volatile long step;      // index of the step being executed (-1 between behaviours)
  volatile long inst;      // concretisation instance
  volatile long done;      // behaviours completely replayed
  volatile long phase;     // 0 = nostd world, 1 = std world, 2 = teardown
  // destructor events of the CURRENT step in the nostd world (object ids), and double destructions
  volatile int ndied;
  volatile int died[16];
  volatile int ndouble;
  // a destruction the specification does not allow in this step ends the child at once (exit 43:
  // the verdict comes from the instance counter, not from a sanitizer); the first `natural_left`
  // such cases run on, so that what the sanitizer says about them is on record
  volatile int natural_left;
  // natural deaths of the process that were classified as a named deviation whose expectation is
  // "nothing observable changes, the process may die": once two were seen, later steps of that
  // kind are not executed any more (the behaviour is truncated there, as after any deviating step)
  volatile int dev_crashes;
  volatile long skipped_known_crash;
  // mismatches + crashes that are NOT explained by a named deviation; the driver stops after kMaxBad
  // of them (the run has failed already; thousands of sanitizer reports would only cost time)
  volatile long bad;
  // counters
  volatile long behaviours, steps, checks, instances, truncated_alt, truncated_dev, findings;
  volatile long alt_counts[8];
  // variant machine: an exception out of a direct emplace -- the variant became valueless / kept its value
  // (both allowed by the standard; counted as evidence, never judged)
  volatile long band_valueless, band_kept;
};
extern Shm *g_shm;
const long kMaxBad = 150;

void emit(const json &j);   // unbuffered: a later crash cannot lose the line

struct Case
{
  const json *beh;
  std::string m;
  long id;
  int inst;
  uint64_t seed;
};

// Generic comparison of an observed projection with the expected one.  `wild(e)` says that the
// expected leaf is a don't-care.  Returns "" or the JSON-pointer-like path of the first difference.
std::string diff(const json &exp, const json &obs, const std::function<bool(const json &)> &wild,
                 const std::string &path = "");

// result of comparing one step
enum class Verdict
{
  Ok,
  Alt,       // an allowed alternative outcome (don't-care band): stop this behaviour
  Dev,       // the named deviation's outcome: reported, stop this behaviour
  Mismatch   // reported, stop this behaviour
};

// Compare obs with step["exp"], then step["alts"], then step["expDev"]; report.  world: "nostd"|"std".
Verdict judge(const Case &c, int step, const json &stepj, const json &obs, const char *world,
              const std::function<bool(const json &)> &wild);

void harness_error(const Case &c, int step, const std::string &what);

typedef void (*ReplayFn)(const Case &);
void register_machine(const char *name, ReplayFn fn);
struct Registrar
{
  Registrar(const char *name, ReplayFn fn) { register_machine(name, fn); }
};
}  // namespace c20
