// C20 function_ref replayer: behaviours of spec/NostdFunctionRef.tla on nostd::function_ref<int(int,int)>
// (and on std::function<int(int,int)> holding std::ref(callable) as a cross-check of the spec).
//
// Concretisation table (trusted):
//   callable "L"  -> a mutable lambda object with BY-VALUE state n (the accumulator) that also publishes n
//                    into a cell the harness can read:  n = (n + x) % M; cell = n; return 10*n + y
//                    (a function_ref that copied the lambda instead of referring to it would evolve a
//                    private n: direct calls and calls through the reference would then disagree)
//   callable "F"  -> a plain function:  cnt = (cnt + 1) % M; return 100 + 3*x + y
//                    bound (seeded) as F (function lvalue) or &F (function pointer)
//   "null"        -> function_ref(nullptr)
//   Bind/CopyRef  -> the variable (std::optional<function_ref>) is re-created: function_ref is not assignable
//   Invoke        -> (seeded) r(x, y), or passing the reference by value into a function that calls it
// Projection: bool(r1), bool(r2), the accumulator cell, the call counter, the returned value.
#include "c20_common.h"

#include <optional>

#include "opentelemetry/nostd/function_ref.h"

namespace nostd = opentelemetry::nostd;
using namespace c20;

namespace
{
int g_cnt[2];
int g_mod = 4;
template <int W>
int PlainF(int x, int y)
{
  g_cnt[W] = (g_cnt[W] + 1) % g_mod;
  return 100 + 3 * x + y;
}

struct NostdRef
{
  static constexpr int world = 0;
  using R                    = nostd::function_ref<int(int, int)>;
  template <class L>
  static void bind_lambda(std::optional<R> &r, L &l)
  {
    r.emplace(l);
  }
  static void bind_fn(std::optional<R> &r, int variant)
  {
    if (variant % 2)
      r.emplace(PlainF<0>);
    else
      r.emplace(&PlainF<0>);
  }
  static void bind_null(std::optional<R> &r) { r.emplace(nullptr); }
  static int call_by_value(R f, int x, int y) { return f(x, y); }
};
struct StdRef
{
  static constexpr int world = 1;
  using R                    = std::function<int(int, int)>;
  template <class L>
  static void bind_lambda(std::optional<R> &r, L &l)
  {
    r.emplace(std::ref(l));
  }
  static void bind_fn(std::optional<R> &r, int variant)
  {
    if (variant % 2)
      r.emplace(PlainF<1>);
    else
      r.emplace(&PlainF<1>);
  }
  static void bind_null(std::optional<R> &r) { r.emplace(nullptr); }
  static int call_by_value(R f, int x, int y) { return f(x, y); }
};

bool no_wild(const json &)
{
  return false;
}

template <class Fam>
void run_world(const Case &c)
{
  using R         = typename Fam::R;
  const json &beh = *c.beh;
  const json &sts = beh["steps"];
  Rng rng(c.seed);
  g_mod            = beh["cfg"]["m"];
  g_cnt[Fam::world] = 0;
  int cell         = 0;
  int mod          = g_mod;
  auto lambda      = [n = 0, &cell, mod](int x, int y) mutable {
    n    = (n + x) % mod;
    cell = n;
    return 10 * n + y;
  };
  std::optional<R> r[2];
  g_shm->phase = Fam::world;
  for (size_t k = 0; k < sts.size(); ++k)
  {
    const json &st = sts[k];
    if (Fam::world == 0)
      g_shm->step = static_cast<long>(k);
    std::string op = st["op"];
    std::string d  = st.value("d", "");
    std::string t  = st.value("t", "");
    int x = st.value("x", 0), y = st.value("y", 0);
    int variant = rng.pick(4);
    int ret     = 99;
    int di      = d == "r2" ? 1 : 0;
    if (op == "init")
    {
    }
    else if (op == "Bind")
    {
      if (t == "L")
        Fam::bind_lambda(r[di], lambda);
      else if (t == "F")
        Fam::bind_fn(r[di], variant);
      else
        Fam::bind_null(r[di]);
    }
    else if (op == "CopyRef")
    {
      if (!r[1 - di])
      {
        harness_error(c, static_cast<int>(k), "CopyRef from an unset variable");
        return;
      }
      const R &src = *r[1 - di];
      r[di].emplace(src);
    }
    else if (op == "Invoke")
    {
      if (!r[di] || !static_cast<bool>(*r[di]))
      {
        // the spec only invokes bound references: the projection of the previous step was wrong
        harness_error(c, static_cast<int>(k), "Invoke of an unset/null reference");
        return;
      }
      if (variant % 2)
        ret = (*r[di])(x, y);
      else
        ret = Fam::call_by_value(*r[di], x, y);
    }
    else if (op == "Direct")
    {
      ret = t == "L" ? lambda(x, y) : PlainF<Fam::world>(x, y);
    }
    else
    {
      harness_error(c, static_cast<int>(k), "unknown op " + op);
      return;
    }
    g_shm->steps++;
    json obs;
    obs["b1"]  = !r[0] ? "-" : (static_cast<bool>(*r[0]) ? "T" : "F");
    obs["b2"]  = !r[1] ? "-" : (static_cast<bool>(*r[1]) ? "T" : "F");
    obs["acc"] = cell;
    obs["cnt"] = g_cnt[Fam::world];
    obs["ret"] = ret;
    Verdict v  = judge(c, static_cast<int>(k), st, obs, Fam::world == 0 ? "nostd" : "std", no_wild);
    if (v != Verdict::Ok)
      return;
  }
  if (Fam::world == 0)
    g_shm->step = -1;
}

void replay_fref(const Case &c)
{
  long before = g_shm->findings;
  run_world<NostdRef>(c);
  if (g_shm->findings != before)
    return;
  run_world<StdRef>(c);
  g_shm->phase = 0;
}

Registrar reg("fref", replay_fref);
}  // namespace
