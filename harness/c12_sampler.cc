// C12 harness.
//
//   c12_sampler table <cases.ndjson> <seed> <ninst>
//       spec -> code: every line is one case of the decision table printed by TLC from
//       spec/Sampler.tla (sampler chain, parent-context class, expected decision / trace state /
//       root-sampler calls / sampled flag of a span started through a Tracer).  Each case is
//       concretised <ninst> times (seeded) and evaluated on the real samplers and a real Tracer.
//
//   c12_sampler matrix <seed> <nrandom_ids> <nrandom_ratios>
//       code -> spec: evaluates the real TraceIdRatioBasedSampler on a matrix trace ids x sorted
//       adversarial ratios and logs the decision rows (Cfg / Row events) for SamplerTrace.tla.
//
// Concretisation (table): valid ids are random non-zero or extreme patterns; flags byte =
// sampled bit | {0x00, 0x02, 0xfe}; trace state "" / one member / two members; "r0" is a ratio
// sampler with a ratio in {0, -0.0, -1, -1e-300, -inf}, "r1" one in {1, 1.5, 2, 1e300, +inf}; "rec" is a
// custom root sampler returning RECORD_ONLY with its own trace state; every root sampler sits in
// a counting proxy.  Name, kind, attributes and links vary with the seed.
#include <algorithm>
#include <cmath>
#include <cstdint>
#include <cstdio>
#include <cstring>
#include <fstream>
#include <iostream>
#include <limits>
#include <map>
#include <memory>
#include <random>
#include <set>
#include <string>
#include <vector>

#include <nlohmann/json.hpp>

#include "opentelemetry/context/context.h"
#include "opentelemetry/exporters/memory/in_memory_span_exporter.h"
#include "opentelemetry/sdk/resource/resource.h"
#include "opentelemetry/sdk/trace/id_generator.h"
#include "opentelemetry/sdk/trace/random_id_generator.h"
#include "opentelemetry/sdk/trace/sampler.h"
#include "opentelemetry/sdk/trace/samplers/always_off.h"
#include "opentelemetry/sdk/trace/samplers/always_on.h"
#include "opentelemetry/sdk/trace/samplers/parent.h"
#include "opentelemetry/sdk/trace/samplers/trace_id_ratio.h"
#include "opentelemetry/sdk/trace/simple_processor.h"
#include "opentelemetry/sdk/trace/tracer_provider.h"
#include "opentelemetry/trace/context.h"
#include "opentelemetry/trace/default_span.h"
#include "opentelemetry/trace/span_context.h"
#include "opentelemetry/trace/span_context_kv_iterable_view.h"
#include "opentelemetry/trace/trace_state.h"

using json = nlohmann::json;
namespace st    = opentelemetry::sdk::trace;
namespace ta    = opentelemetry::trace;
namespace nostd = opentelemetry::nostd;
namespace common = opentelemetry::common;

[[noreturn]] static void broken(const std::string &why)
{
  std::cout << json({{"broken", why}}).dump() << std::endl;
  std::exit(5);
}

// ---- samplers of the harness ------------------------------------------------------------------
class CountingSampler : public st::Sampler
{
public:
  CountingSampler(std::shared_ptr<st::Sampler> inner, int *calls) : inner_(std::move(inner)), calls_(calls) {}
  st::SamplingResult ShouldSample(const ta::SpanContext &parent,
                                  ta::TraceId trace_id,
                                  nostd::string_view name,
                                  ta::SpanKind kind,
                                  const common::KeyValueIterable &attributes,
                                  const ta::SpanContextKeyValueIterable &links) noexcept override
  {
    ++*calls_;
    return inner_->ShouldSample(parent, trace_id, name, kind, attributes, links);
  }
  nostd::string_view GetDescription() const noexcept override { return "Counting"; }

private:
  std::shared_ptr<st::Sampler> inner_;
  int *calls_;
};

class RecordOnlySampler : public st::Sampler
{
public:
  st::SamplingResult ShouldSample(const ta::SpanContext &,
                                  ta::TraceId,
                                  nostd::string_view,
                                  ta::SpanKind,
                                  const common::KeyValueIterable &,
                                  const ta::SpanContextKeyValueIterable &) noexcept override
  {
    std::unique_ptr<std::map<std::string, common::AttributeValue>> attrs(
        new std::map<std::string, common::AttributeValue>());
    (*attrs)["dlg"] = static_cast<int32_t>(1);
    return {st::Decision::RECORD_ONLY,
            std::unique_ptr<const std::map<std::string, common::AttributeValue>>(attrs.release()),
            ta::TraceState::FromHeader("dlg=1")};
  }
  nostd::string_view GetDescription() const noexcept override { return "RecordOnly"; }
};

// forwards to a shared sampler (TracerProvider wants a unique_ptr)
class Fwd : public st::Sampler
{
public:
  explicit Fwd(std::shared_ptr<st::Sampler> s) : s_(std::move(s)) {}
  st::SamplingResult ShouldSample(const ta::SpanContext &parent,
                                  ta::TraceId trace_id,
                                  nostd::string_view name,
                                  ta::SpanKind kind,
                                  const common::KeyValueIterable &attributes,
                                  const ta::SpanContextKeyValueIterable &links) noexcept override
  {
    return s_->ShouldSample(parent, trace_id, name, kind, attributes, links);
  }
  nostd::string_view GetDescription() const noexcept override { return s_->GetDescription(); }

private:
  std::shared_ptr<st::Sampler> s_;
};

class FixedIdGenerator : public st::IdGenerator
{
public:
  FixedIdGenerator() : st::IdGenerator(false) {}
  ta::SpanId GenerateSpanId() noexcept override
  {
    uint8_t b[8];
    uint64_t v = ++n_;
    std::memcpy(b, &v, 8);
    b[7] |= 0x40;
    return ta::SpanId(b);
  }
  ta::TraceId GenerateTraceId() noexcept override { return ta::TraceId(next); }
  uint8_t next[16] = {1};

private:
  uint64_t n_ = 0;
};

static std::unique_ptr<st::SpanProcessor> make_processor()
{
  auto exp = std::unique_ptr<st::SpanExporter>(new opentelemetry::exporter::memory::InMemorySpanExporter(4));
  return std::unique_ptr<st::SpanProcessor>(new st::SimpleSpanProcessor(std::move(exp)));
}

static const char *dname(st::Decision d)
{
  switch (d)
  {
    case st::Decision::DROP:
      return "DROP";
    case st::Decision::RECORD_ONLY:
      return "RO";
    case st::Decision::RECORD_AND_SAMPLE:
      return "RS";
  }
  return "?";
}

using AttrMap = std::map<std::string, std::string>;
using LinkVec = std::vector<std::pair<ta::SpanContext, std::map<std::string, std::string>>>;

// ---- table mode --------------------------------------------------------------------------------
static void fill_id(std::mt19937_64 &rng, uint8_t *b, int n, bool zero)
{
  std::memset(b, 0, n);
  if (zero)
    return;
  switch (rng() % 5)
  {
    case 0:
      b[0] = 1;
      break;
    case 1:
      b[n - 1] = 1;
      break;
    case 2:
      std::memset(b, 0xff, n);
      break;
    default:
      for (int i = 0; i < n; ++i)
        b[i] = static_cast<uint8_t>(rng());
      if (std::all_of(b, b + n, [](uint8_t x) { return x == 0; }))
        b[n / 2] = 7;
  }
}

static int run_table(const char *file, uint64_t seed, int ninst)
{
  std::ifstream in(file);
  std::string line;
  int idx = 0;
  while (std::getline(in, line))
  {
    if (line.empty())
      continue;
    json c = json::parse(line);
    std::cout << json({{"start", idx}}).dump() << std::endl;
    json out        = json::object();
    out["case"]     = idx;
    out["ok"]       = true;
    out["devs"]     = json::array();
    out["evals"]    = 0;
    const json &s   = c["s"];
    const json &p   = c["p"];
    std::string pv  = p["valid"];
    for (int inst = 0; inst < ninst && out["ok"].get<bool>(); ++inst)
    {
      std::mt19937_64 rng(seed * 7919 + static_cast<uint64_t>(idx) * 131 + static_cast<uint64_t>(inst));
      // -- the parent context
      uint8_t tid[16], sid[8];
      fill_id(rng, tid, 16, pv == "zero_tid" || pv == "zero_both");
      fill_id(rng, sid, 8, pv == "zero_sid" || pv == "zero_both");
      std::string of = p["oflags"];
      uint8_t flags  = (p["sampled"].get<bool>() ? 1 : 0) | (of == "none" ? 0x00 : of == "random" ? 0x02 : 0xfe);
      std::string tsk = p["ts"];
      static const char *one[] = {"a=1", "congo=t61rcWkgMzE", "vendor@sys=opaque:value"};
      static const char *two[] = {"a=1,b=2", "rojo=00f067aa0ba902b7,congo=t61rcWkgMzE"};
      std::string hdr = tsk == "empty" ? "" : tsk == "one" ? one[rng() % 3] : two[rng() % 2];
      auto pts        = hdr.empty() ? ta::TraceState::GetDefault() : ta::TraceState::FromHeader(hdr);
      if (pts->ToHeader() != hdr)
        broken("harness trace state header does not round-trip: " + hdr);
      ta::SpanContext parent(ta::TraceId(tid), ta::SpanId(sid), ta::TraceFlags(flags), p["remote"].get<bool>(), pts);
      if (parent.IsValid() != (pv == "ok"))
        broken("concretised parent validity differs from its class");
      // -- the sampler chain
      int calls = 0;
      std::string base = s["base"];
      std::shared_ptr<st::Sampler> root;
      static const double r0s[] = {0.0, -0.0, -1.0, -1e-300, -std::numeric_limits<double>::infinity()};
      static const double r1s[] = {1.0, 1.5, 2.0, 1e300, std::numeric_limits<double>::infinity()};
      if (base == "on")
        root = std::make_shared<st::AlwaysOnSampler>();
      else if (base == "off")
        root = std::make_shared<st::AlwaysOffSampler>();
      else if (base == "rec")
        root = std::make_shared<RecordOnlySampler>();
      else if (base == "r0")
        root = std::make_shared<st::TraceIdRatioBasedSampler>(r0s[rng() % 5]);
      else if (base == "r1")
        root = std::make_shared<st::TraceIdRatioBasedSampler>(r1s[rng() % 5]);
      else
        broken("unknown base sampler " + base);
      std::shared_ptr<st::Sampler> chain = std::make_shared<CountingSampler>(root, &calls);
      for (int d = 0; d < s["depth"].get<int>(); ++d)
        chain = std::make_shared<st::ParentBasedSampler>(chain);
      // -- other arguments
      static const char *names[] = {"", "span", "a rather long span name with spaces"};
      std::string name           = names[rng() % 3];
      ta::SpanKind kind          = static_cast<ta::SpanKind>(rng() % 5);
      AttrMap am;
      if (rng() % 2)
        am["http.method"] = "GET";
      common::KeyValueIterableView<AttrMap> attrs{am};
      LinkVec lv;
      if (rng() % 2)
        lv.push_back({ta::SpanContext(true, true), {{"l", "1"}}});
      ta::SpanContextKeyValueIterableView<LinkVec> links{lv};
      // -- 1. ShouldSample directly
      uint8_t newtid[16];
      fill_id(rng, newtid, 16, false);
      ta::TraceId arg_tid = parent.IsValid() ? parent.trace_id() : ta::TraceId(newtid);
      auto res            = chain->ShouldSample(parent, arg_tid, name, kind, attrs, links);
      out["evals"]        = out["evals"].get<int>() + 1;
      json got;
      got["d"]     = dname(res.decision);
      got["calls"] = calls;
      got["ts"]    = res.trace_state ? res.trace_state->ToHeader() : std::string("<null>");
      std::string why;
      if (got["d"] != c["d"])
        why = "decision";
      else if (calls != c["calls"].get<int>())
        why = "root sampler calls";
      else if (c["ts"] == "parent" && (!res.trace_state || res.trace_state->ToHeader() != hdr))
        why = "trace state";
      // -- 2. through a real Tracer
      if (why.empty())
      {
        calls = 0;
        st::TracerProvider tp(make_processor(), opentelemetry::sdk::resource::Resource::Create({}),
                              std::unique_ptr<st::Sampler>(new Fwd(chain)));
        auto tracer = tp.GetTracer("c12", "1");
        ta::StartSpanOptions opts;
        opts.kind = kind;
        int how   = static_cast<int>(rng() % 2);
        if (how == 0)
          opts.parent = parent;
        else
        {
          opentelemetry::context::Context ctx;
          ctx = ta::SetSpan(ctx, nostd::shared_ptr<ta::Span>(new ta::DefaultSpan(parent)));
          opts.parent = ctx;
        }
        auto span = tracer->StartSpan(name, attrs, links, opts);
        out["evals"] = out["evals"].get<int>() + 1;
        auto sc          = span->GetContext();
        got["tsampled"]  = sc.IsSampled();
        got["tts"]       = sc.trace_state() ? sc.trace_state()->ToHeader() : std::string("<null>");
        got["tcalls"]    = calls;
        got["how"]       = how;
        bool exp_sampled = c["tsampled"].get<bool>();
        if (sc.IsSampled() != exp_sampled)
        {
          bool matched = false;
          for (const auto &a : c["alts"])
            if (a["tsampled"].get<bool>() == sc.IsSampled())
            {
              matched = true;
              for (const auto &d : a["devs"])
                if (std::find(out["devs"].begin(), out["devs"].end(), d) == out["devs"].end())
                  out["devs"].push_back(d);
            }
          if (!matched)
            why = "sampled flag of the span started through the Tracer";
        }
        if (why.empty() && c["tts"] == "parent" && (!sc.trace_state() || sc.trace_state()->ToHeader() != hdr))
          why = "trace state of the span started through the Tracer";
        if (why.empty() && calls != c["calls"].get<int>())
          why = "root sampler calls through the Tracer";
        span->End();
      }
      if (!why.empty())
      {
        out["ok"]   = false;
        out["why"]  = why;
        out["got"]  = got;
        out["inst"] = inst;
        char fb[8];
        snprintf(fb, sizeof fb, "%02x", flags);
        out["concrete"] = {{"flags", fb}, {"tracestate", hdr}, {"name", name}};
      }
    }
    std::cout << out.dump() << std::endl;
    ++idx;
  }
  return 0;
}

// ---- matrix mode -------------------------------------------------------------------------------
static std::string hexd(double d)
{
  char b[64];
  snprintf(b, sizeof b, "%a", d);
  return b;
}

static void add_with_neighbours(std::vector<double> &v, double x, int k = 1)
{
  v.push_back(x);
  double lo = x, hi = x;
  for (int i = 0; i < k; ++i)
  {
    lo = std::nextafter(lo, -std::numeric_limits<double>::infinity());
    hi = std::nextafter(hi, std::numeric_limits<double>::infinity());
    v.push_back(lo);
    v.push_back(hi);
  }
}

static std::vector<double> make_ratios(std::mt19937_64 &rng, int nrandom)
{
  const double inf = std::numeric_limits<double>::infinity();
  const double dmin = std::numeric_limits<double>::denorm_min();
  std::vector<double> v = {-inf, -1e300, -1.5, -1.0, -0.5, -(std::numeric_limits<double>::min)(), -dmin, -0.0, 0.0,
                           dmin, 3 * dmin, (std::numeric_limits<double>::min)(), 1e-300, 1e-100,
                           std::ldexp(1.0, -100), std::ldexp(1.0, -70), std::ldexp(1.0, -66), std::ldexp(1.0, -65),
                           std::ldexp(1.5, -64), std::ldexp(1.0, -63), std::ldexp(3.0, -64), std::ldexp(1.0, -62),
                           std::ldexp(1.0, -60), std::ldexp(1.0, -53), std::ldexp(1.0, -52), std::ldexp(1.0, -40),
                           std::ldexp(1.0, -33), std::ldexp(1.0, -31), 1e-9, 1e-6, 1e-4, 0.001, 0.1, 0.2, 0.25, 0.3,
                           0.75, 0.9, 0.99, 0.999, 0.999999, 1 - std::ldexp(1.0, -33), 1 - std::ldexp(1.0, -40),
                           1 - std::ldexp(1.0, -52), 1.5, 2.0, 1e300, inf};
  add_with_neighbours(v, std::ldexp(1.0, -64), 2);
  add_with_neighbours(v, std::ldexp(1.0, -32), 2);
  add_with_neighbours(v, 0.01, 1);
  add_with_neighbours(v, 1.0 / 3.0, 1);
  add_with_neighbours(v, 0.5, 2);
  add_with_neighbours(v, 2.0 / 3.0, 1);
  add_with_neighbours(v, 1 - std::ldexp(1.0, -32), 2);
  add_with_neighbours(v, 1.0, 2);  // 1 - 2^-53, 1 - 2^-52, 1 + 2^-52, ...
  // products UINT32_MAX * ratio that cross an integer (the hi/lo split of CalculateThreshold)
  const double u32 = 4294967295.0;
  for (double n : {1.0, 2.0, 3.0, 1000.0, 65536.0, 2147483648.0, 4294967294.0})
    add_with_neighbours(v, n / u32, 2);
  std::uniform_real_distribution<double> uni(0.0, 1.0);
  for (int i = 0; i < nrandom; ++i)
  {
    double x;
    switch (i % 4)
    {
      case 0:
        x = uni(rng);
        break;
      case 1:
        x = std::ldexp(uni(rng) + 0.5, -static_cast<int>(rng() % 70));  // log-uniform
        break;
      case 2:
        x = 1.0 - std::ldexp(uni(rng), -static_cast<int>(rng() % 50));  // close to 1
        break;
      default:
        x = static_cast<double>(rng() % 4294967295ULL) / u32;  // integer products
    }
    add_with_neighbours(v, x, 1);
  }
  std::vector<double> out;
  for (double x : v)
    if (!std::isnan(x))
      out.push_back(x);
  std::sort(out.begin(), out.end());  // -0.0 and 0.0 compare equal: both stay (adjacent, either order)
  std::vector<double> u;
  for (double x : out)
    if (u.empty() || std::memcmp(&u.back(), &x, 8) != 0)
      u.push_back(x);
  return u;
}

static void set_prefix(uint8_t *tid, uint64_t v, std::mt19937_64 &rng)
{
  // the sampler reads the first 8 bytes in memory order; the rest is arbitrary (never all zero)
  std::memcpy(tid, &v, 8);
  for (int i = 8; i < 16; ++i)
    tid[i] = static_cast<uint8_t>(rng());
  tid[15] |= 1;
}

static int run_matrix(uint64_t seed, int nrandom_ids, int nrandom_ratios)
{
  std::mt19937_64 rng(seed);
  std::vector<double> ratios = make_ratios(rng, nrandom_ratios);
  const int n                = static_cast<int>(ratios.size());
  json classes               = json::array();
  json rhex                  = json::array();
  for (double r : ratios)
  {
    classes.push_back(r <= 0.0 ? "le0" : (r >= 1.0 ? "ge1" : "mid"));
    rhex.push_back(hexd(r));
  }
  // trace id prefixes
  std::vector<uint64_t> pre = {0ULL, 1ULL, 2ULL, 3ULL, 0xffffffffULL, 0x100000000ULL, 0x100000001ULL,
                               0x7fffffffffffffffULL, 0x8000000000000000ULL, 0x8000000000000001ULL,
                               0xfffffffffffff7ffULL, 0xfffffffffffff800ULL, 0xfffffffffffffbffULL,
                               0xfffffffffffffc00ULL, 0xfffffffffffffffeULL, 0xffffffffffffffffULL,
                               0x0100000000000000ULL, 0x00000000000000ffULL, 0xff00000000000000ULL};
  for (double r : ratios)
  {
    if (!(r > 0.0 && r < 1.0))
      continue;
    long double x = static_cast<long double>(r) * 18446744073709551616.0L;  // r * 2^64, exact scaling
    if (x >= 18446744073709551615.0L)
      x = 18446744073709551615.0L;
    uint64_t c = static_cast<uint64_t>(x);
    for (int64_t d : {-2049LL, -2048LL, -1025LL, -1024LL, -2LL, -1LL, 0LL, 1LL, 2LL, 1024LL, 1025LL, 2048LL, 2049LL})
    {
      uint64_t y = c + static_cast<uint64_t>(d);
      if ((d < 0 && y > c) || (d > 0 && y < c))
        continue;  // wrapped
      if (rng() % 3 == 0 || d == 0 || d == 1 || d == -1)
        pre.push_back(y);
    }
  }
  for (int i = 0; i < nrandom_ids; ++i)
    pre.push_back(rng());
  std::sort(pre.begin(), pre.end());
  pre.erase(std::unique(pre.begin(), pre.end()), pre.end());
  std::shuffle(pre.begin(), pre.end(), rng);

  // one long-lived sampler and one Tracer per ratio
  std::vector<std::unique_ptr<st::TraceIdRatioBasedSampler>> samplers;
  std::vector<std::unique_ptr<st::TracerProvider>> tps, ptps;
  std::vector<FixedIdGenerator *> gens, pgens;
  std::vector<nostd::shared_ptr<ta::Tracer>> tracers, ptracers;
  for (double r : ratios)
  {
    samplers.emplace_back(new st::TraceIdRatioBasedSampler(r));
    auto *g = new FixedIdGenerator();
    gens.push_back(g);
    tps.emplace_back(new st::TracerProvider(make_processor(), opentelemetry::sdk::resource::Resource::Create({}),
                                            std::unique_ptr<st::Sampler>(new st::TraceIdRatioBasedSampler(r)),
                                            std::unique_ptr<st::IdGenerator>(g)));
    tracers.push_back(tps.back()->GetTracer("c12m", "1"));
    auto *pg = new FixedIdGenerator();
    pgens.push_back(pg);
    ptps.emplace_back(new st::TracerProvider(
        make_processor(), opentelemetry::sdk::resource::Resource::Create({}),
        std::unique_ptr<st::Sampler>(new st::ParentBasedSampler(std::make_shared<st::TraceIdRatioBasedSampler>(r))),
        std::unique_ptr<st::IdGenerator>(pg)));
    ptracers.push_back(ptps.back()->GetTracer("c12p", "1"));
  }
  std::cout << json({{"e", "Info"}, {"ratios", rhex}, {"ids", pre.size()}}).dump() << std::endl;

  AttrMap am0, am1{{"k", "v"}};
  LinkVec lv0, lv1{{ta::SpanContext(true, true), {{"l", "1"}}}};
  const size_t block = 48;
  long evals         = 0;
  for (size_t b0 = 0; b0 < pre.size(); b0 += block)
  {
    std::cout << json({{"e", "Cfg"}, {"classes", classes}}).dump() << std::endl;
    for (size_t i = b0; i < std::min(pre.size(), b0 + block); ++i)
    {
      uint8_t tid[16];
      set_prefix(tid, pre[i], rng);
      ta::TraceId trace_id(tid);
      char idhex[40];
      trace_id.ToLowerBase16(nostd::span<char, 32>(idhex, 32));
      idhex[32] = 0;
      auto emit = [&](const char *src, const std::vector<int> &d) {
        std::cout << json({{"e", "Row"}, {"id", static_cast<int>(i - b0) + 1}, {"src", src}, {"tid", idhex}, {"d", d}}).dump()
                  << "\n";
      };
      std::vector<int> d(n);
      // direct: long-lived sampler, no parent
      {
        common::KeyValueIterableView<AttrMap> a{am0};
        ta::SpanContextKeyValueIterableView<LinkVec> l{lv0};
        for (int j = 0; j < n; ++j)
          d[j] = samplers[j]->ShouldSample(ta::SpanContext::GetInvalid(), trace_id, "", ta::SpanKind::kInternal, a, l)
                         .decision == st::Decision::RECORD_AND_SAMPLE;
        evals += n;
        emit("direct", d);
      }
      // another participant of the same trace: fresh sampler object, a valid (sampled / remote /
      // odd flags) parent of the same trace, other name / kind / attributes / links
      if (i % 2 == 0)
      {
        common::KeyValueIterableView<AttrMap> a{am1};
        ta::SpanContextKeyValueIterableView<LinkVec> l{lv1};
        uint8_t sid[8] = {9, 9, 9, 9, 9, 9, 9, 9};
        ta::SpanContext parent(trace_id, ta::SpanId(sid), ta::TraceFlags(static_cast<uint8_t>(rng())), (rng() % 2) == 0,
                               ta::TraceState::FromHeader("a=1"));
        for (int j = 0; j < n; ++j)
        {
          st::TraceIdRatioBasedSampler fresh(ratios[j]);
          d[j] = fresh.ShouldSample(parent, trace_id, "other participant", ta::SpanKind::kServer, a, l).decision ==
                 st::Decision::RECORD_AND_SAMPLE;
        }
        evals += n;
        emit("participant", d);
      }
      // through a Tracer: root span with this trace id; sampled flag of the started span
      if (i % 4 == 1)
      {
        for (int j = 0; j < n; ++j)
        {
          std::memcpy(gens[j]->next, tid, 16);
          auto span = tracers[j]->StartSpan("root");
          d[j]      = span->GetContext().IsSampled() ? 1 : 0;
          if (std::memcmp(span->GetContext().trace_id().Id().data(), tid, 16) != 0)
            broken("the Tracer did not use the generated trace id");
          span->End();
        }
        evals += n;
        emit("tracer-root", d);
      }
      // through a Tracer with ParentBased(ratio): the root decision is the ratio sampler's
      if (i % 4 == 3)
      {
        for (int j = 0; j < n; ++j)
        {
          std::memcpy(pgens[j]->next, tid, 16);
          auto span = ptracers[j]->StartSpan("root");
          d[j]      = span->GetContext().IsSampled() ? 1 : 0;
          span->End();
        }
        evals += n;
        emit("tracer-parentbased-root", d);
      }
      // through a Tracer as child of an UNSAMPLED remote parent of this trace (plain ratio sampler
      // re-decides from the trace id; a sampled parent is left to the decision-table part)
      if (i % 8 == 2)
      {
        uint8_t sid[8] = {7, 7, 7, 7, 7, 7, 7, 7};
        ta::SpanContext parent(trace_id, ta::SpanId(sid), ta::TraceFlags(0), true);
        ta::StartSpanOptions o;
        o.parent = parent;
        for (int j = 0; j < n; ++j)
        {
          auto span = tracers[j]->StartSpan("child", o);
          d[j]      = span->GetContext().IsSampled() ? 1 : 0;
          span->End();
        }
        evals += n;
        emit("tracer-child-of-unsampled", d);
      }
    }
  }
  std::cout << json({{"e", "Summary"}, {"evaluations", evals}, {"ratios", n}, {"ids", pre.size()}}).dump() << std::endl;
  return 0;
}

int main(int argc, char **argv)
{
  if (argc >= 5 && std::string(argv[1]) == "table")
    return run_table(argv[2], std::strtoull(argv[3], nullptr, 10), std::atoi(argv[4]));
  if (argc >= 5 && std::string(argv[1]) == "matrix")
    return run_matrix(std::strtoull(argv[2], nullptr, 10), std::atoi(argv[3]), std::atoi(argv[4]));
  std::cerr << "usage: c12_sampler table <cases> <seed> <ninst> | matrix <seed> <nrandom_ids> <nrandom_ratios>\n";
  return 2;
}
