// C17 harness: observable instruments / gauges through the PUBLIC metrics API only.
//
//   c17_async replay <behaviours.ndjson> <seed>      spec -> code: steps TLC behaviours (MetricsAsync.tla)
//   c17_async record <seed> <n> <minops> <maxops> <sgauge 0|1>   code -> spec: seeded random histories,
//                                                    one ndjson event per call (validated by MetricsAsyncTrace.tla)
//   c17_async caps                                   prints {"sgauge":bool} (ABI v2 build has the synchronous Gauge)
//
// The harness never decides anything: it concretises abstract values through the fixed tables below,
// calls the real API, and projects what every reader is given back to the spec's vocabulary.
//
// Concretisation tables (trusted base, documented in design_notes/C17.md)
//   attribute set a: 1 {} (no attributes)  2 {k:"v1"}  3 {k:"v2"}  4 {k:int64 1}  5 {k:true}
//                    6 {k:"v1", j:"x"}  7 {j:"x"}  8 {k:1.5}  9 {k:""}  10 {K:"v1"}   a>10 {n:int64 a, s:"s<a>"}
//     keys and string values are handed over as non-NUL-terminated views into heap buffers that are
//     scribbled over and freed right after the call; key order of 6 and a>10 is seeded.
//   value v (abstract integer): concrete = v * scale(instrument); long scales {1,7,1000,2^33},
//     double scales {1.0,0.25,1024.0,2^40} (all products/differences exact); value type per instrument seeded.
//   observable gauge only: with probability 1/4 a callback first observes a decoy (v+3) for the same set and
//     then the value it reports (last observation wins - "the most recently observed value").
//   callback c: (trampoline K, state pointer S) per seeded mode: same function/distinct states, distinct
//     functions/one state, mixed, or shared (K,S) across instruments of different value type.
//   instrument i lives in meter (i-1) mod nm, nm in {1,2} seeded; names are distinct per instrument.
//   reader r: pull MetricReader with temporality Temps[r] for every instrument type.
//   LastValue uses system_clock sample times: every API call and callback invocation is separated by a
//     busy-wait until system_clock has advanced >= 2us (equal timestamps are an explicit assumption);
//     a history during which system_clock was seen going backwards is discarded (reported, not judged).
#include <chrono>
#include <cmath>
#include <cstdint>
#include <cstring>
#include <fstream>
#include <functional>
#include <iostream>
#include <map>
#include <memory>
#include <random>
#include <set>
#include <sstream>
#include <string>
#include <vector>

#include <nlohmann/json.hpp>

#include "opentelemetry/common/key_value_iterable_view.h"
#include "opentelemetry/context/context.h"
#include "opentelemetry/metrics/async_instruments.h"
#include "opentelemetry/metrics/meter.h"
#include "opentelemetry/metrics/observer_result.h"
#include "opentelemetry/metrics/sync_instruments.h"
#include "opentelemetry/sdk/common/global_log_handler.h"
#include "opentelemetry/sdk/metrics/data/metric_data.h"
#include "opentelemetry/sdk/metrics/data/point_data.h"
#include "opentelemetry/sdk/metrics/export/metric_producer.h"
#include "opentelemetry/sdk/metrics/instruments.h"
#include "opentelemetry/sdk/metrics/meter_provider.h"
#include "opentelemetry/sdk/metrics/metric_reader.h"

namespace api  = opentelemetry::metrics;
namespace sdkm = opentelemetry::sdk::metrics;
namespace nostd = opentelemetry::nostd;
using json      = nlohmann::json;

// ------------------------------------------------------------------------------------------------
// strict clock
static std::chrono::system_clock::time_point g_last_tick;
static bool g_clock_regressed = false;
static void tick()
{
  auto n = std::chrono::system_clock::now();
  if (n < g_last_tick)
    g_clock_regressed = true;
  auto target = (n > g_last_tick ? n : g_last_tick) + std::chrono::microseconds(2);
  int spins   = 0;
  while ((n = std::chrono::system_clock::now()) < target)
  {
    if (++spins > 50000000)
    {
      g_clock_regressed = true;  // clock stuck: treat as unusable
      break;
    }
  }
  g_last_tick = n;
}

// ------------------------------------------------------------------------------------------------
class PullReader : public sdkm::MetricReader
{
public:
  explicit PullReader(sdkm::AggregationTemporality t) : t_(t) {}
  sdkm::AggregationTemporality GetAggregationTemporality(sdkm::InstrumentType) const noexcept override
  {
    return t_;
  }

private:
  bool OnForceFlush(std::chrono::microseconds) noexcept override { return true; }
  bool OnShutDown(std::chrono::microseconds) noexcept override { return true; }
  sdkm::AggregationTemporality t_;
};

// ------------------------------------------------------------------------------------------------
// attribute sets
struct AttrArg
{
  // owns heap buffers (exact size, no NUL) that the views point into
  std::vector<std::unique_ptr<char[]>> bufs;
  std::vector<size_t> lens;
  std::vector<std::pair<nostd::string_view, opentelemetry::common::AttributeValue>> kv;
  nostd::string_view own(const std::string &s)
  {
    std::unique_ptr<char[]> b(new char[s.size() ? s.size() : 1]);
    memcpy(b.get(), s.data(), s.size());
    nostd::string_view v(b.get(), s.size());
    lens.push_back(s.size());
    bufs.push_back(std::move(b));
    return v;
  }
  void scribble()
  {
    for (size_t i = 0; i < bufs.size(); ++i)
      memset(bufs[i].get(), '#', lens[i]);
  }
};

static void build_attrs(int a, bool flip, AttrArg &out)
{
  using AV = opentelemetry::common::AttributeValue;
  auto S   = [&](const char *s) { return AV(out.own(s)); };
  switch (a)
  {
    case 1:
      break;
    case 2:
      out.kv.emplace_back(out.own("k"), S("v1"));
      break;
    case 3:
      out.kv.emplace_back(out.own("k"), S("v2"));
      break;
    case 4:
      out.kv.emplace_back(out.own("k"), AV(static_cast<int64_t>(1)));
      break;
    case 5:
      out.kv.emplace_back(out.own("k"), AV(true));
      break;
    case 6:
      if (flip)
      {
        out.kv.emplace_back(out.own("j"), S("x"));
        out.kv.emplace_back(out.own("k"), S("v1"));
      }
      else
      {
        out.kv.emplace_back(out.own("k"), S("v1"));
        out.kv.emplace_back(out.own("j"), S("x"));
      }
      break;
    case 7:
      out.kv.emplace_back(out.own("j"), S("x"));
      break;
    case 8:
      out.kv.emplace_back(out.own("k"), AV(1.5));
      break;
    case 9:
      out.kv.emplace_back(out.own("k"), S(""));
      break;
    case 10:
      out.kv.emplace_back(out.own("K"), S("v1"));
      break;
    default: {
      std::string sv = "s" + std::to_string(a);
      if (flip)
      {
        out.kv.emplace_back(out.own("s"), AV(out.own(sv)));
        out.kv.emplace_back(out.own("n"), AV(static_cast<int64_t>(a)));
      }
      else
      {
        out.kv.emplace_back(out.own("n"), AV(static_cast<int64_t>(a)));
        out.kv.emplace_back(out.own("s"), AV(out.own(sv)));
      }
    }
  }
}

// canonical text of an exported attribute set (for mapping back to the abstract id)
static std::string canon(const sdkm::PointAttributes &attrs)
{
  std::ostringstream os;
  for (auto &kv : attrs)
  {
    os << kv.first << "=";
    const auto &v = kv.second;
    if (nostd::holds_alternative<bool>(v))
      os << "b:" << nostd::get<bool>(v);
    else if (nostd::holds_alternative<int32_t>(v))
      os << "i32:" << nostd::get<int32_t>(v);
    else if (nostd::holds_alternative<uint32_t>(v))
      os << "u32:" << nostd::get<uint32_t>(v);
    else if (nostd::holds_alternative<int64_t>(v))
      os << "i64:" << nostd::get<int64_t>(v);
    else if (nostd::holds_alternative<uint64_t>(v))
      os << "u64:" << nostd::get<uint64_t>(v);
    else if (nostd::holds_alternative<double>(v))
      os << "d:" << nostd::get<double>(v);
    else if (nostd::holds_alternative<std::string>(v))
      os << "s:" << nostd::get<std::string>(v);
    else
      os << "other:" << v.index();
    os << ";";
  }
  return os.str();
}

static std::string canon_of_abstract(int a)
{
  switch (a)
  {
    case 1:
      return "";
    case 2:
      return "k=s:v1;";
    case 3:
      return "k=s:v2;";
    case 4:
      return "k=i64:1;";
    case 5:
      return "k=b:1;";
    case 6:
      return "j=s:x;k=s:v1;";
    case 7:
      return "j=s:x;";
    case 8:
      return "k=d:1.5;";
    case 9:
      return "k=s:;";
    case 10:
      return "K=s:v1;";
    default:
      return "n=i64:" + std::to_string(a) + ";s=s:s" + std::to_string(a) + ";";
  }
}

// ------------------------------------------------------------------------------------------------
struct Slot
{
  int dummy;
};

struct World;
static World *G = nullptr;

struct Instr
{
  std::string kind;  // ocounter | oupdown | ogauge | sgauge
  bool is_double = false;
  int64_t lscale = 1;
  double dscale  = 1.0;
  std::string name;
  nostd::shared_ptr<api::ObservableInstrument> obs;
#if OPENTELEMETRY_ABI_VERSION_NO >= 2
  nostd::unique_ptr<api::Gauge<int64_t>> lg;
  nostd::unique_ptr<api::Gauge<double>> dg;
#endif
  bool observable() const { return kind != "sgauge"; }
};

struct Cb
{
  int instr;  // 0-based
  int K;
  Slot *S;
};

static const long long BADV = 999999;  // "not representable in the spec's vocabulary"

struct World
{
  std::unique_ptr<sdkm::MeterProvider> mp;
  std::vector<std::shared_ptr<PullReader>> readers;
  std::vector<Instr> instr;
  std::vector<Cb> cbs;
  std::vector<Slot> slots;
  std::map<std::string, int> canon2a;
  std::map<std::string, int> name2i;
  int max_a = 0;
  uint64_t seed;
  std::mt19937_64 rng;

  // collection in progress
  bool in_collect = false;
  std::vector<int> inv;                        // per callback, invocations in this collection
  std::vector<json> events;                    // recorder: buffered events
  bool recording = false;
  int stray      = 0;                          // callback invocations outside a collection / unknown callback
  // what a callback reports when invoked: replay: scripted per collection; record: policy
  std::vector<std::vector<std::pair<int, long long>>> script;  // per callback, for the current collection
  std::function<std::vector<std::pair<int, long long>>(int)> policy;

  explicit World(uint64_t s) : seed(s), rng(s) {}

  void setup(const std::vector<std::string> &kinds, const std::vector<std::string> &temps,
             const std::vector<int> &cbi /* 1-based instrument per callback */, int na)
  {
    G = this;
    mp.reset(new sdkm::MeterProvider());
    for (auto &t : temps)
    {
      auto r = std::make_shared<PullReader>(t == "d" ? sdkm::AggregationTemporality::kDelta
                                                     : sdkm::AggregationTemporality::kCumulative);
      readers.push_back(r);
      mp->AddMetricReader(r);
    }
    int nm = 1 + static_cast<int>(rng() % 2);
    std::vector<nostd::shared_ptr<api::Meter>> meters;
    for (int m = 0; m < nm; ++m)
      meters.push_back(mp->GetMeter("c17.m" + std::to_string(m), "1.0"));
    static const int64_t LS[] = {1, 7, 1000, (1LL << 33)};
    static const double DS[]  = {1.0, 0.25, 1024.0, 1099511627776.0};
    for (size_t i = 0; i < kinds.size(); ++i)
    {
      Instr in;
      in.kind      = kinds[i];
      in.is_double = (rng() % 2) == 1;
      in.lscale    = LS[rng() % 4];
      in.dscale    = DS[rng() % 4];
      in.name      = "c17_i" + std::to_string(i + 1) + "_" + kinds[i];
      auto &m      = meters[i % nm];
      if (in.kind == "ocounter")
        in.obs = in.is_double ? m->CreateDoubleObservableCounter(in.name, "d", "u")
                              : m->CreateInt64ObservableCounter(in.name, "d", "u");
      else if (in.kind == "oupdown")
        in.obs = in.is_double ? m->CreateDoubleObservableUpDownCounter(in.name, "d", "u")
                              : m->CreateInt64ObservableUpDownCounter(in.name, "d", "u");
      else if (in.kind == "ogauge")
        in.obs = in.is_double ? m->CreateDoubleObservableGauge(in.name, "d", "u")
                              : m->CreateInt64ObservableGauge(in.name, "d", "u");
      else if (in.kind == "sgauge")
      {
#if OPENTELEMETRY_ABI_VERSION_NO >= 2
        if (in.is_double)
          in.dg = m->CreateDoubleGauge(in.name, "d", "u");
        else
          in.lg = m->CreateInt64Gauge(in.name, "d", "u");
#else
        std::cerr << "sgauge needs the ABI v2 build" << std::endl;
        exit(5);
#endif
      }
      else
      {
        std::cerr << "unknown kind " << in.kind << std::endl;
        exit(5);
      }
      name2i[in.name] = static_cast<int>(i);
      instr.push_back(std::move(in));
    }
    // callbacks
    int mode = static_cast<int>(rng() % 4);
    slots.resize(cbi.size() + 1);
    std::map<bool, int> rank;
    for (size_t c = 0; c < cbi.size(); ++c)
    {
      Cb cb;
      cb.instr = cbi[c] - 1;
      bool dbl = instr[cb.instr].is_double;
      switch (mode)
      {
        case 0:
          cb.K = 0;
          cb.S = &slots[c];
          break;
        case 1:
          cb.K = static_cast<int>(c) % 8;
          cb.S = (c < 8) ? &slots[0] : &slots[1 + c / 8];
          break;
        case 2:
          cb.K = static_cast<int>(c) % 2;
          cb.S = &slots[c / 2];
          break;
        default:
          cb.K = 0;
          cb.S = &slots[rank[dbl]++];
      }
      cbs.push_back(cb);
    }
    inv.assign(cbs.size(), 0);
    script.assign(cbs.size(), {});
    max_a = na;
    for (int a = 1; a <= na; ++a)
      canon2a[canon_of_abstract(a)] = a;
  }

  // ---- callbacks ---------------------------------------------------------------------------
  void on_cb(int K, void *st, api::ObserverResult &res)
  {
    tick();
    bool dbl = nostd::holds_alternative<nostd::shared_ptr<api::ObserverResultT<double>>>(res);
    int c    = -1;
    for (size_t i = 0; i < cbs.size(); ++i)
      if (cbs[i].K == K && cbs[i].S == st && instr[cbs[i].instr].is_double == dbl)
        c = static_cast<int>(i);
    if (c < 0 || !in_collect)
    {
      ++stray;
      if (recording)
        events.push_back({{"e", "Cb"}, {"c", c + 1}, {"rep", json::array()}, {"stray", true}});
      return;
    }
    inv[c]++;
    std::vector<std::pair<int, long long>> rep;
    if (inv[c] == 1)
      rep = policy ? policy(c) : script[c];
    if (recording)
    {
      json jr = json::array();
      for (auto &p : rep)
        jr.push_back({p.first, p.second});
      events.push_back({{"e", "Cb"}, {"c", c + 1}, {"rep", jr}});
    }
    const Instr &in = instr[cbs[c].instr];
    for (auto &p : rep)
    {
      AttrArg aa;
      build_attrs(p.first, (rng() % 2) == 1, aa);
      bool no_attr_overload = (p.first == 1) && (rng() % 2 == 0);
      // gauge only ("the most recently observed value"): now and then the callback first observes a
      // decoy for the same set and then the value it really reports
      bool decoy = in.kind == "ogauge" && (rng() % 4 == 0);
      if (dbl)
      {
        auto r   = nostd::get<nostd::shared_ptr<api::ObserverResultT<double>>>(res);
        double v = static_cast<double>(p.second) * in.dscale;
        for (int pass = decoy ? 0 : 1; pass < 2; ++pass)
        {
          double x = pass ? v : v + 3 * in.dscale;
          if (no_attr_overload)
            r->Observe(x);
          else
            r->Observe(x, opentelemetry::common::KeyValueIterableView<decltype(aa.kv)>(aa.kv));
        }
      }
      else
      {
        auto r    = nostd::get<nostd::shared_ptr<api::ObserverResultT<int64_t>>>(res);
        int64_t v = static_cast<int64_t>(p.second) * in.lscale;
        for (int pass = decoy ? 0 : 1; pass < 2; ++pass)
        {
          int64_t x = pass ? v : v + 3 * in.lscale;
          if (no_attr_overload)
            r->Observe(x);
          else
            r->Observe(x, opentelemetry::common::KeyValueIterableView<decltype(aa.kv)>(aa.kv));
        }
      }
      aa.scribble();
    }
    tick();
  }

  void add_cb(int c);
  void rem_cb(int c);

  void destroy(int i)
  {
    tick();
    instr[i].obs = nostd::shared_ptr<api::ObservableInstrument>();
    tick();
  }

  void record_gauge(int i, int a, long long v)
  {
#if OPENTELEMETRY_ABI_VERSION_NO >= 2
    tick();
    Instr &in = instr[i];
    AttrArg aa;
    build_attrs(a, (rng() % 2) == 1, aa);
    int variant = static_cast<int>(rng() % 2);
    opentelemetry::context::Context ctx{};
    bool noattr = (a == 1) && (rng() % 2 == 0);
    opentelemetry::common::KeyValueIterableView<decltype(aa.kv)> view(aa.kv);
    if (in.is_double)
    {
      double cv = static_cast<double>(v) * in.dscale;
      if (noattr)
        variant ? in.dg->Record(cv, ctx) : in.dg->Record(cv);
      else
        variant ? in.dg->Record(cv, view, ctx) : in.dg->Record(cv, view);
    }
    else
    {
      int64_t cv = static_cast<int64_t>(v) * in.lscale;
      if (noattr)
        variant ? in.lg->Record(cv, ctx) : in.lg->Record(cv);
      else
        variant ? in.lg->Record(cv, view, ctx) : in.lg->Record(cv, view);
    }
    aa.scribble();
    tick();
#else
    (void)i;
    (void)a;
    (void)v;
#endif
  }

  // returns {"inv":[...], "pts":[[{a,v}..]..], "notes":[...]}
  json collect(int r)
  {
    tick();
    in_collect = true;
    std::fill(inv.begin(), inv.end(), 0);
    int stray0 = stray;
    std::vector<json> pts(instr.size(), json::array());
    std::vector<int> seen(instr.size(), 0);
    json notes = json::array();
    readers[r]->Collect([&](sdkm::ResourceMetrics &rm) {
      for (auto &sm : rm.scope_metric_data_)
        for (auto &md : sm.metric_data_)
        {
          auto it = name2i.find(md.instrument_descriptor.name_);
          if (it == name2i.end())
          {
            notes.push_back("unknown instrument " + md.instrument_descriptor.name_);
            continue;
          }
          int i        = it->second;
          const Instr &in = instr[i];
          if (seen[i]++)
            notes.push_back("instrument delivered twice in one collection: " + in.name);
          for (auto &pda : md.point_data_attr_)
          {
            json p;
            std::string cs = canon(pda.attributes);
            auto ia        = canon2a.find(cs);
            p["a"]         = ia == canon2a.end() ? 0 : ia->second;
            if (ia == canon2a.end())
              p["attrs"] = cs;
            opentelemetry::sdk::metrics::ValueType val;
            bool have = false;
            if (nostd::holds_alternative<sdkm::SumPointData>(pda.point_data))
            {
              val  = nostd::get<sdkm::SumPointData>(pda.point_data).value_;
              have = true;
              p["t"] = "sum";
            }
            else if (nostd::holds_alternative<sdkm::LastValuePointData>(pda.point_data))
            {
              auto &lv = nostd::get<sdkm::LastValuePointData>(pda.point_data);
              val      = lv.value_;
              have     = true;
              p["t"]   = "last";
              p["valid"] = lv.is_lastvalue_valid_;
            }
            else
              p["t"] = "other";
            long long av = BADV;
            if (have)
            {
              if (nostd::holds_alternative<int64_t>(val) && !in.is_double)
              {
                int64_t cv = nostd::get<int64_t>(val);
                if (cv % in.lscale == 0 && std::llabs(cv / in.lscale) < 100000)
                  av = cv / in.lscale;
                else
                  p["raw"] = cv;
              }
              else if (nostd::holds_alternative<double>(val) && in.is_double)
              {
                double cv = nostd::get<double>(val);
                double q  = cv / in.dscale;
                if (std::isfinite(q) && q == std::floor(q) && std::fabs(q) < 100000)
                  av = static_cast<long long>(q);
                else
                  p["raw"] = cv;
              }
              else
                p["raw"] = "value type differs from the instrument's";
            }
            p["v"] = av;
            pts[i].push_back(p);
          }
        }
      return true;
    });
    in_collect = false;
    tick();
    json res;
    res["inv"]   = inv;
    res["pts"]   = pts;
    res["stray"] = stray - stray0;
    res["notes"] = notes;
    return res;
  }
};

template <int K>
static void tramp(api::ObserverResult res, void *st)
{
  G->on_cb(K, st, res);
}
static api::ObservableCallbackPtr TR[8] = {tramp<0>, tramp<1>, tramp<2>, tramp<3>,
                                           tramp<4>, tramp<5>, tramp<6>, tramp<7>};

void World::add_cb(int c)
{
  tick();
  instr[cbs[c].instr].obs->AddCallback(TR[cbs[c].K], cbs[c].S);
  tick();
}
void World::rem_cb(int c)
{
  tick();
  instr[cbs[c].instr].obs->RemoveCallback(TR[cbs[c].K], cbs[c].S);
  tick();
}

// ------------------------------------------------------------------------------------------------
// spec -> code
static int do_replay(const char *path, uint64_t seed)
{
  std::ifstream f(path);
  std::string line;
  int idx = 0;
  while (std::getline(f, line))
  {
    if (line.empty())
      continue;
    json b      = json::parse(line);
    auto &steps = b["steps"];
    g_clock_regressed = false;
    // the concretisation seed of a behaviour depends on its "id" only (so a single one can be re-run)
    uint64_t id = b.contains("id") ? b["id"].get<uint64_t>() : static_cast<uint64_t>(idx);
    World w(seed * 1000003ULL + id * 7919ULL + 17);
    json out = json::array();
    for (auto &s : steps)
    {
      std::string op = s["op"];
      json r         = json::object();
      if (op == "Cfg")
      {
        w.setup(s["kinds"].get<std::vector<std::string>>(), s["temps"].get<std::vector<std::string>>(),
                s["cbi"].get<std::vector<int>>(), s["na"].get<int>());
      }
      else if (op == "Add")
        w.add_cb(s["c"].get<int>() - 1);
      else if (op == "Rem")
        w.rem_cb(s["c"].get<int>() - 1);
      else if (op == "Destroy")
        w.destroy(s["i"].get<int>() - 1);
      else if (op == "Rec")
        w.record_gauge(s["i"].get<int>() - 1, s["a"].get<int>(), s["v"].get<long long>());
      else if (op == "Collect")
      {
        for (size_t c = 0; c < w.cbs.size(); ++c)
        {
          w.script[c].clear();
          for (auto &p : s["reps"][c])
            w.script[c].emplace_back(p["a"].get<int>(), p["v"].get<long long>());
        }
        r = w.collect(s["r"].get<int>() - 1);
      }
      else
      {
        std::cerr << "unknown op " << op << std::endl;
        return 5;
      }
      out.push_back(r);
    }
    json res;
    res["beh"]      = idx;
    res["id"]       = id;
    res["steps"]    = out;
    res["clock_ok"] = !g_clock_regressed;
    std::cout << res.dump() << "\n";
    ++idx;
  }
  std::cout.flush();
  return 0;
}

// ------------------------------------------------------------------------------------------------
// code -> spec
static int do_record(uint64_t seed, int n, int minops, int maxops, bool sgauge)
{
  int discarded = 0;
  for (int h = 0; h < n; ++h)
  {
    g_clock_regressed = false;
    World w(seed * 2654435761ULL + static_cast<uint64_t>(h) * 40503ULL + 3);
    auto &rng = w.rng;
    auto R    = [&](int lo, int hi) { return lo + static_cast<int>(rng() % static_cast<uint64_t>(hi - lo + 1)); };
    w.recording = true;
    int ni      = R(1, 4);
    std::vector<std::string> kinds;
    static const char *KO[] = {"ocounter", "oupdown", "ogauge"};
    for (int i = 0; i < ni; ++i)
    {
      if (sgauge && R(0, 3) == 0)
        kinds.push_back("sgauge");
      else
        kinds.push_back(KO[R(0, 2)]);
    }
    int nr = R(1, 4);
    std::vector<std::string> temps;
    for (int r = 0; r < nr; ++r)
      temps.push_back(R(0, 1) ? "d" : "c");
    std::vector<int> obsi, sgi;
    for (int i = 0; i < ni; ++i)
      (kinds[i] == "sgauge" ? sgi : obsi).push_back(i);
    int nc = obsi.empty() ? 0 : R(1, 6);
    std::vector<int> cbi;
    for (int c = 0; c < nc; ++c)
      cbi.push_back(obsi[R(0, static_cast<int>(obsi.size()) - 1)] + 1);
    int na = R(10, 20);
    w.setup(kinds, temps, cbi, na);
    w.events.push_back({{"e", "Cfg"}, {"kinds", kinds}, {"temps", temps}, {"cbi", cbi}, {"na", na}, {"h", h}});
    // each callback owns a home subset of attribute sets, disjoint among callbacks of one instrument
    std::vector<std::vector<int>> home(nc);
    {
      std::map<int, std::vector<int>> pool;
      for (int i : obsi)
      {
        std::vector<int> p;
        for (int a = 1; a <= na; ++a)
          p.push_back(a);
        std::shuffle(p.begin(), p.end(), rng);
        pool[i] = p;
      }
      for (int c = 0; c < nc; ++c)
      {
        auto &p = pool[cbi[c] - 1];
        int k   = R(1, 4);
        while (k-- > 0 && !p.empty())
        {
          home[c].push_back(p.back());
          p.pop_back();
        }
      }
    }
    std::vector<int> mono(nc);
    for (int c = 0; c < nc; ++c)
      mono[c] = R(0, 2);  // 0 monotone running total, 1 random walk, 2 arbitrary
    std::map<std::pair<int, int>, long long> cur;  // (callback, a) -> last reported
    w.policy = [&](int c) {
      std::vector<std::pair<int, long long>> rep;
      const std::string &kind = kinds[cbi[c] - 1];
      for (int a : home[c])
      {
        if (R(0, 9) < 3)
          continue;  // the set disappears for this collection
        long long &v = cur[{c, a}];
        bool nonneg  = (kind == "ocounter");
        if (mono[c] == 0)
          v += R(0, 5);
        else if (mono[c] == 1)
          v += R(-4, 4);
        else
          v = R(-30, 30);
        if (nonneg && v < 0)
          v = R(0, 3);
        rep.emplace_back(a, v);
      }
      return rep;
    };
    std::vector<bool> reg(nc, false), alive(ni, true);
    int nops = R(minops, maxops);
    for (int o = 0; o < nops; ++o)
    {
      int x = R(0, 99);
      if (x < 40)
      {
        int r = R(0, nr - 1);
        w.events.push_back({{"e", "Begin"}, {"r", r + 1}});
        json res = w.collect(r);
        json pts = json::array();
        for (auto &pi : res["pts"])
        {
          json one = json::array();
          for (auto &p : pi)
            one.push_back({p["a"], p["v"]});
          pts.push_back(one);
        }
        json e = {{"e", "End"}, {"r", r + 1}, {"pts", pts}};
        if (!res["notes"].empty())
          e["notes"] = res["notes"];
        // duplicate delivery of an instrument is made visible to the spec as a duplicate point list
        w.events.push_back(e);
      }
      else if (x < 62 && nc)
      {
        int c = R(0, nc - 1);
        if (!alive[cbi[c] - 1] || reg[c])
          continue;
        w.add_cb(c);
        reg[c] = true;
        w.events.push_back({{"e", "Add"}, {"c", c + 1}});
      }
      else if (x < 75 && nc)
      {
        int c = R(0, nc - 1);
        if (!alive[cbi[c] - 1])
          continue;
        w.rem_cb(c);
        reg[c] = false;
        w.events.push_back({{"e", "Rem"}, {"c", c + 1}});
      }
      else if (x < 78 && !obsi.empty())
      {
        int i = obsi[R(0, static_cast<int>(obsi.size()) - 1)];
        if (!alive[i])
          continue;
        w.destroy(i);
        alive[i] = false;
        for (int c = 0; c < nc; ++c)
          if (cbi[c] - 1 == i)
            reg[c] = false;
        w.events.push_back({{"e", "Destroy"}, {"i", i + 1}});
      }
      else if (!sgi.empty())
      {
        int i       = sgi[R(0, static_cast<int>(sgi.size()) - 1)];
        int a       = R(1, std::min(na, 6));
        long long v = R(-30, 30);
        w.record_gauge(i, a, v);
        w.events.push_back({{"e", "Rec"}, {"i", i + 1}, {"a", a}, {"v", v}});
      }
    }
    if (g_clock_regressed)
    {
      ++discarded;
      continue;
    }
    for (auto &e : w.events)
      std::cout << e.dump() << "\n";
  }
  std::cout << json({{"e", "Summary"}, {"discarded", discarded}}).dump() << std::endl;
  return 0;
}

int main(int argc, char **argv)
{
  std::string mode = argc > 1 ? argv[1] : "";
  // the SDK's internal diagnostics go to stdout by default; this harness owns stdout
  opentelemetry::sdk::common::internal_log::GlobalLogHandler::SetLogLevel(
      opentelemetry::sdk::common::internal_log::LogLevel::None);
  if (mode == "caps")
  {
#if OPENTELEMETRY_ABI_VERSION_NO >= 2
    std::cout << "{\"sgauge\":true}" << std::endl;
#else
    std::cout << "{\"sgauge\":false}" << std::endl;
#endif
    return 0;
  }
  if (mode == "replay" && argc >= 4)
    return do_replay(argv[2], std::strtoull(argv[3], nullptr, 10));
  if (mode == "record" && argc >= 7)
    return do_record(std::strtoull(argv[2], nullptr, 10), atoi(argv[3]), atoi(argv[4]), atoi(argv[5]),
                     atoi(argv[6]) != 0);
  std::cerr << "usage: c17_async replay FILE SEED | record SEED N MINOPS MAXOPS SGAUGE | caps" << std::endl;
  return 5;
}
