// C20 variant replayer: behaviours of spec/NostdVariant.tla on nostd::variant<int, std::string, Tracked>
// (the bundled absl variant) and on std::variant<...> as a cross-check of the spec.
//
// Concretisation table (trusted):
//   alternative 0 int      value 0 -> 0 (the value-initialised default), 1 -> one of 41, INT_MAX, 1    (seeded)
//   alternative 1 string   (0,1) -> one of ("","x"), ("a", a 50-byte string beyond the small-string
//                          buffer), ("a\0b","a\0c") -- order preserved; ANY (7) = unspecified moved-from value
//   alternative 2 Tracked  instance-counted class, value 0/1; its move operations leave MOVED (8) behind
//   AssignVal              -> v = lvalue | v = rvalue | (string without NUL) v = "literal"
//   Emplace                -> v.emplace<I>(args) | v.emplace<T>(args); the returned reference is checked
//   Copy/Move how=assign   -> d = o / d = std::move(o);  how=construct -> destroy d, V(o) / V(std::move(o))
//   Swap                   -> v1.swap(v2) | swap(v1, v2)
//   AliasSelf              -> d = static_cast<const T&>(get<held>(d))   (the source is the held value itself)
// (The shape with throwing alternatives, valueless variants and member aliasing is replayed by c20_varx.cc.)
// Projection per variable: index(), holds_alternative<T> for every T, get<I> for every I (99 = throws
// bad_variant_access; get<T>, get_if<I>, get_if<T> must agree), visit; for the pair: binary visit,
// == != < > <= >=; live Tracked instances.
#include "c20_common.h"

#include <climits>
#include <optional>
#include <variant>

#include "opentelemetry/nostd/variant.h"

namespace nostd = opentelemetry::nostd;
using namespace c20;

namespace
{
template <int W>
struct Tracked
{
  static int live;
  static int bad;   // destructor / use of an instance that is not alive
  static std::vector<const void *> &alive()
  {
    static std::vector<const void *> v;
    return v;
  }
  int val;
  void reg()
  {
    alive().push_back(this);
    live++;
  }
  explicit Tracked(int v) : val(v) { reg(); }
  Tracked(const Tracked &o) : val(o.val) { reg(); }
  Tracked(Tracked &&o) noexcept : val(o.val)
  {
    o.val = 8;
    reg();
  }
  Tracked &operator=(const Tracked &o)
  {
    val = o.val;
    return *this;
  }
  Tracked &operator=(Tracked &&o) noexcept
  {
    if (this != &o)
    {
      val   = o.val;
      o.val = 8;
    }
    return *this;
  }
  ~Tracked()
  {
    auto &a = alive();
    for (size_t i = 0; i < a.size(); ++i)
      if (a[i] == this)
      {
        a.erase(a.begin() + static_cast<long>(i));
        live--;
        return;
      }
    bad++;
  }
  friend bool operator==(const Tracked &a, const Tracked &b) { return a.val == b.val; }
  friend bool operator!=(const Tracked &a, const Tracked &b) { return a.val != b.val; }
  friend bool operator<(const Tracked &a, const Tracked &b) { return a.val < b.val; }
  friend bool operator>(const Tracked &a, const Tracked &b) { return a.val > b.val; }
  friend bool operator<=(const Tracked &a, const Tracked &b) { return a.val <= b.val; }
  friend bool operator>=(const Tracked &a, const Tracked &b) { return a.val >= b.val; }
};
template <int W>
int Tracked<W>::live = 0;
template <int W>
int Tracked<W>::bad = 0;

struct NostdV
{
  static constexpr int world = 0;
  using T2                   = Tracked<0>;
  using V                    = nostd::variant<int, std::string, T2>;
  using Bad                  = nostd::bad_variant_access;
  template <size_t I>
  static auto &get(V &v)
  {
    return nostd::get<I>(v);
  }
  template <class T>
  static auto &get_t(V &v)
  {
    return nostd::get<T>(v);
  }
  template <size_t I>
  static auto get_if(V *v)
  {
    return nostd::get_if<I>(v);
  }
  template <class T>
  static auto get_if_t(V *v)
  {
    return nostd::get_if<T>(v);
  }
  template <class T>
  static bool holds(const V &v)
  {
    return nostd::holds_alternative<T>(v);
  }
  template <class F, class... Vs>
  static auto visit(F &&f, Vs &&...vs)
  {
    return nostd::visit(std::forward<F>(f), std::forward<Vs>(vs)...);
  }
};
struct StdV
{
  static constexpr int world = 1;
  using T2                   = Tracked<1>;
  using V                    = std::variant<int, std::string, T2>;
  using Bad                  = std::bad_variant_access;
  template <size_t I>
  static auto &get(V &v)
  {
    return std::get<I>(v);
  }
  template <class T>
  static auto &get_t(V &v)
  {
    return std::get<T>(v);
  }
  template <size_t I>
  static auto get_if(V *v)
  {
    return std::get_if<I>(v);
  }
  template <class T>
  static auto get_if_t(V *v)
  {
    return std::get_if<T>(v);
  }
  template <class T>
  static bool holds(const V &v)
  {
    return std::holds_alternative<T>(v);
  }
  template <class F, class... Vs>
  static auto visit(F &&f, Vs &&...vs)
  {
    return std::visit(std::forward<F>(f), std::forward<Vs>(vs)...);
  }
};

struct Conc
{
  int ival[2];
  std::string sval[2];
};

template <class Fam>
struct VWorld
{
  using V  = typename Fam::V;
  using T2 = typename Fam::T2;
  Conc cc;
  std::optional<V> v[2];

  int abs_int(int x) const { return x == cc.ival[0] ? 0 : (x == cc.ival[1] ? 1 : 55); }
  int abs_str(const std::string &s) const { return s == cc.sval[0] ? 0 : (s == cc.sval[1] ? 1 : 56); }
  int abs_tr(const T2 &t) const { return t.val; }

  struct Visitor
  {
    const VWorld *w;
    std::pair<int, int> operator()(const int &x) const { return {0, w->abs_int(x)}; }
    std::pair<int, int> operator()(const std::string &x) const { return {1, w->abs_str(x)}; }
    std::pair<int, int> operator()(const T2 &x) const { return {2, w->abs_tr(x)}; }
  };
  struct Visitor2
  {
    const VWorld *w;
    template <class A, class B>
    std::vector<int> operator()(const A &a, const B &b) const
    {
      Visitor u{w};
      auto p = u(a), q = u(b);
      return {p.first, p.second, q.first, q.second};
    }
  };

  template <size_t I>
  json get_one(V &x)
  {
    // get<I>, get<T>, get_if<I>, get_if<T> must tell the same story
    using T = typename std::decay<decltype(Fam::template get<I>(x))>::type;
    Visitor u{this};
    json r;
    try
    {
      r = u(Fam::template get<I>(x)).second;
    }
    catch (const typename Fam::Bad &)
    {
      r = 99;
    }
    catch (...)
    {
      return "get<I> throws another exception type";
    }
    json r2;
    try
    {
      r2 = u(Fam::template get_t<T>(x)).second;
    }
    catch (const typename Fam::Bad &)
    {
      r2 = 99;
    }
    catch (...)
    {
      return "get<T> throws another exception type";
    }
    if (r2 != r)
      return "get<T> disagrees with get<I>";
    auto *p = Fam::template get_if<I>(&x);
    auto *q = Fam::template get_if_t<T>(&x);
    if ((p == nullptr) != (r == 99) || p != q)
      return "get_if disagrees with get";
    if (p && u(*p).second != r)
      return "get_if value disagrees with get";
    const V &cx = x;
    try
    {
      auto &cr = nostd_or_std_const_get<I>(cx);
      if (u(cr).second != r)
        return "const get<I> disagrees";
    }
    catch (const typename Fam::Bad &)
    {
      if (r != 99)
        return "const get<I> throws";
    }
    return r;
  }
  template <size_t I>
  static const auto &nostd_or_std_const_get(const V &cx)
  {
    if constexpr (Fam::world == 0)
      return nostd::get<I>(cx);
    else
      return std::get<I>(cx);
  }

  json obs_var(V &x)
  {
    json o;
    o["idx"]   = x.index();
    o["holds"] = json::array({Fam::template holds<int>(x) ? "T" : "F", Fam::template holds<std::string>(x) ? "T" : "F",
                              Fam::template holds<T2>(x) ? "T" : "F"});
    o["get"]   = json::array({get_one<0>(x), get_one<1>(x), get_one<2>(x)});
    auto p     = Fam::visit(Visitor{this}, x);
    o["visit"] = json::array({p.first, p.second});
    o["vless"] = x.valueless_by_exception() ? "T" : "F";   // nothing can throw in this shape: never valueless
    if (x.valueless_by_exception())
      o["idx"] = -1;
    return o;
  }
  static const char *tf(bool b) { return b ? "T" : "F"; }
  json observe()
  {
    json o;
    V &a = *v[0], &b = *v[1];
    o["v1"]     = obs_var(a);
    o["v2"]     = obs_var(b);
    o["visit2"] = Fam::visit(Visitor2{this}, a, b);
    o["eq"]     = tf(a == b);
    o["ne"]     = tf(a != b);
    o["lt"]     = tf(a < b);
    o["gt"]     = tf(a > b);
    o["le"]     = tf(a <= b);
    o["ge"]     = tf(a >= b);
    o["live"]   = json::array({0, 0, T2::live});   // live instances per alternative (only Tracked is counted)
    o["threw"]  = "F";
    if (T2::bad)
      o["live"] = "a Tracked instance that was not alive was destroyed";
    return o;
  }
};

// expected leaf 7 (ANY) / "any": unspecified value
bool var_wild(const json &e)
{
  return (e.is_number_integer() && e == 7) || (e.is_string() && e == "any");
}

template <class Fam>
void run_world(const Case &c)
{
  using V         = typename Fam::V;
  using T2        = typename Fam::T2;
  const json &beh = *c.beh;
  const json &sts = beh["steps"];
  Rng rng(c.seed);
  VWorld<Fam> *w = new VWorld<Fam>();
  static const int iv[] = {41, INT_MAX, 1};
  w->cc.ival[0] = 0;
  w->cc.ival[1] = iv[rng.pick(3)];
  switch (rng.pick(3))
  {
    case 0:
      w->cc.sval[0] = "";
      w->cc.sval[1] = "x";
      break;
    case 1:
      w->cc.sval[0] = "a";
      w->cc.sval[1] = "a string that does not fit into the small string buffer ..";
      break;
    default:
      w->cc.sval[0] = std::string("a\0b", 3);
      w->cc.sval[1] = std::string("a\0c", 3);
      break;
  }
  T2::live     = 0;
  T2::bad      = 0;
  T2::alive().clear();
  g_shm->phase = Fam::world;
  const char *world = Fam::world == 0 ? "nostd" : "std";
  for (size_t k = 0; k < sts.size(); ++k)
  {
    const json &st = sts[k];
    if (Fam::world == 0)
      g_shm->step = static_cast<long>(k);
    std::string op  = st["op"];
    std::string dn  = st.value("d", "");
    std::string how = st.value("how", "");
    int di          = dn == "v2" ? 1 : 0;
    int alt = st.value("i", 0), x = st.value("x", 0);
    int variant = rng.pick(6);
    std::string note;
    if (op == "init")
    {
      w->v[0].emplace();
      w->v[1].emplace();
    }
    else if (op == "AssignVal")
    {
      V &d = *w->v[di];
      if (alt == 0)
      {
        int val = w->cc.ival[x];
        if (variant % 2)
          d = val;
        else
          d = int(val);
      }
      else if (alt == 1)
      {
        std::string val = w->cc.sval[x];
        if (variant % 3 == 0)
          d = val;
        else if (variant % 3 == 1 || val.find('\0') != std::string::npos)
          d = std::string(val);
        else
          d = val.c_str();
      }
      else
      {
        T2 val(x);
        if (variant % 2)
          d = val;
        else
          d = T2(x);
      }
    }
    else if (op == "Emplace")
    {
      V &d = *w->v[di];
      if (alt == 0)
      {
        int &r = variant % 2 ? d.template emplace<0>(w->cc.ival[x]) : d.template emplace<int>(w->cc.ival[x]);
        if (&r != Fam::template get_if<0>(&d) || r != w->cc.ival[x])
          note = "emplace<0> returned a wrong reference";
      }
      else if (alt == 1)
      {
        std::string &r = variant % 2 ? d.template emplace<1>(w->cc.sval[x])
                                     : d.template emplace<std::string>(w->cc.sval[x].data(), w->cc.sval[x].size());
        if (&r != Fam::template get_if<1>(&d) || r != w->cc.sval[x])
          note = "emplace<1> returned a wrong reference";
      }
      else
      {
        T2 &r = variant % 2 ? d.template emplace<2>(x) : d.template emplace<T2>(x);
        if (&r != Fam::template get_if<2>(&d) || r.val != x)
          note = "emplace<2> returned a wrong reference";
      }
    }
    else if (op == "Copy" || op == "Move")
    {
      std::optional<V> &d = w->v[di];
      V &o                = *w->v[1 - di];
      if (how == "assign")
      {
        if (op == "Copy")
          *d = static_cast<const V &>(o);
        else
          *d = std::move(o);
      }
      else
      {
        d.reset();
        if (op == "Copy")
          d.emplace(static_cast<const V &>(o));
        else
          d.emplace(std::move(o));
      }
    }
    else if (op == "SelfCopy")
    {
      V &d           = *w->v[di];
      const V &alias = d;
      d              = alias;
    }
    else if (op == "AliasSelf")
    {
      // d = <const reference to the value d holds>: assignment to the same alternative from itself
      V &d = *w->v[di];
      switch (d.index())
      {
        case 0:
          d = static_cast<const int &>(Fam::template get<0>(d));
          break;
        case 1:
          d = static_cast<const std::string &>(Fam::template get<1>(d));
          break;
        case 2:
          d = static_cast<const T2 &>(Fam::template get<2>(d));
          break;
        default:
          note = "AliasSelf on a variant that holds nothing";
      }
    }
    else if (op == "Swap")
    {
      if (variant % 2)
        w->v[0]->swap(*w->v[1]);
      else
      {
        using std::swap;
        swap(*w->v[0], *w->v[1]);
      }
    }
    else
    {
      harness_error(c, static_cast<int>(k), "unknown op " + op);
      return;
    }
    g_shm->steps++;
    json obs = w->observe();
    json stx = st;
    if (!note.empty())
    {
      obs["emplace"]        = note;
      stx["exp"]["emplace"] = "";
    }
    Verdict vd = judge(c, static_cast<int>(k), stx, obs, world, var_wild);
    if (vd != Verdict::Ok)
      return;   // leak the world: its state is not the specified one
  }
  // both variables leave scope: no Tracked instance may survive, none may be destroyed twice
  if (Fam::world == 0)
    g_shm->step = static_cast<long>(sts.size());
  w->v[0].reset();
  w->v[1].reset();
  if (T2::live != 0 || T2::bad != 0)
  {
    g_shm->findings++;
          g_shm->bad++;
    emit({{"r", Fam::world == 0 ? "mismatch" : "stdspec"}, {"m", c.m}, {"id", c.id}, {"inst", c.inst},
          {"step", static_cast<long>(sts.size())}, {"op", "teardown"}, {"path", "/live"}, {"exp", 0}, {"obs", T2::live},
          {"what", std::string(world) + ": Tracked instances alive after both variants were destroyed: " +
                       std::to_string(T2::live) + ", bad destructions: " + std::to_string(T2::bad)}});
  }
  delete w;
  if (Fam::world == 0)
    g_shm->step = -1;
}

void replay_var(const Case &c)
{
  long before = g_shm->findings;
  run_world<NostdV>(c);
  if (g_shm->findings != before)
    return;
  run_world<StdV>(c);
  g_shm->phase = 0;
}

Registrar reg("var", replay_var);
}  // namespace
