// C17, concurrent clause: collector threads (reader->Collect) racing threads that add / remove
// callbacks and destroy observable instruments, on the REAL, unmodified SDK compiled against the
// scheduler shim (flavour "shim": std::mutex callbacks_m_, SpinLockMutex atomics, std::thread are
// scheduling points of engine/vsched; exactly one thread runs at a time, reproducible per seed/tape).
// Every execution prints its observable event log, in the engine's total order, for
// spec/MetricsAsyncConcTrace.tla:
//   Cfg(cbi, nr)                   callback c (1-based) belongs to instrument cbi[c]
//   AddCall(c) AddRet(c)  RemoveCall(c) RemoveRet(c)  DestroyCall(i) DestroyRet(i)
//   ColCall(k, r) ColRet(k)        collection k by reader r starts / has returned
//   CbInvoked(c, k)                the SDK entered callback c on the thread running collection k
//                                  (k = 0: on a thread that is not collecting)
//   End
// "Call" events are emitted before the API call starts, "Ret" events after it has returned, so the
// logged windows are never narrower than the real ones (no false alarm from the logging itself).
// Every callback yields to the scheduler (vs::point(K_USER)) on entry, in the middle and on exit, so
// that other threads can run while a collection is inside user code.
//
//   c17_conc explore <random|pct|dfs> <n> <seed> <ncb> <nmut> <ncolth> <ncol> <nops> [bound]
//     ncb callbacks: callback 1 lives on instrument 1 and is never touched (registered first, so a
//     collection is inside it while later ones are pending); callback c > 1 is owned by mutator
//     (c-2) mod nmut and lives on instrument 2 + owner.  All callbacks are registered by the main
//     thread before the race.  Mutator m performs nops operations on its own callbacks (seeded:
//     remove a registered one / add a removed one) and then, on a seeded coin, destroys its
//     instrument.  ncolth collector threads perform ncol collections each, reader (t mod nr) + 1,
//     nr = min(2, ncolth).  Afterwards, all threads joined, one more collection per reader.
#include <nlohmann/json.hpp>

#include "engine/vsched.h"
#include "hcommon.h"

#include "opentelemetry/metrics/async_instruments.h"
#include "opentelemetry/metrics/meter.h"
#include "opentelemetry/metrics/observer_result.h"
#include "opentelemetry/sdk/common/global_log_handler.h"
#include "opentelemetry/sdk/metrics/export/metric_producer.h"
#include "opentelemetry/sdk/metrics/meter_provider.h"
#include "opentelemetry/sdk/metrics/metric_reader.h"

namespace api   = opentelemetry::metrics;
namespace sdkm  = opentelemetry::sdk::metrics;
namespace nostd = opentelemetry::nostd;
using json      = nlohmann::json;

namespace
{
class PullReader final : public sdkm::MetricReader
{
public:
  explicit PullReader(sdkm::AggregationTemporality t) : t_(t) {}
  sdkm::AggregationTemporality GetAggregationTemporality(sdkm::InstrumentType) const noexcept override
  {
    return t_;
  }

private:
  bool OnForceFlush(std::chrono::microseconds) noexcept override { return true; }
  bool OnShutDown(std::chrono::microseconds) noexcept override { return true; }
  sdkm::AggregationTemporality t_;
};

void emit(const json &e)
{
  vs::NoYield ny;
  vs::emit(e.dump());
}

thread_local int t_collection = 0;  // the collection the current thread is running (0: none)

struct CbState
{
  int c;  // 1-based callback id
};

void the_callback(api::ObserverResult res, void *state)
{
  int c = static_cast<CbState *>(state)->c;
  emit({{"e", "CbInvoked"}, {"c", c}, {"k", t_collection}});
  vs::point(vs::K_USER, nullptr);
  if (nostd::holds_alternative<nostd::shared_ptr<api::ObserverResultT<int64_t>>>(res))
    nostd::get<nostd::shared_ptr<api::ObserverResultT<int64_t>>>(res)->Observe(
        static_cast<int64_t>(c), {{"n", static_cast<int64_t>(c)}});
  vs::point(vs::K_USER, nullptr);
  vs::point(vs::K_USER, nullptr);
}

struct Rng
{
  uint64_t s;
  explicit Rng(uint64_t seed) : s(seed * 0x9E3779B97F4A7C15ULL + 0x1234567ULL) {}
  uint64_t next()
  {
    s ^= s << 13;
    s ^= s >> 7;
    s ^= s << 17;
    return s;
  }
  int below(int n) { return static_cast<int>(next() % static_cast<uint64_t>(n)); }
};
}  // namespace

int main(int argc, char **argv)
{
  if (argc < 10 || std::string(argv[1]) != "explore")
  {
    fprintf(stderr, "usage: c17_conc explore random|pct|dfs N SEED NCB NMUT NCOLTH NCOL NOPS [BOUND]\n");
    return 2;
  }
  std::string strat = argv[2];
  long n            = atol(argv[3]);
  uint64_t seed     = strtoull(argv[4], nullptr, 10);
  int ncb = atoi(argv[5]), nmut = atoi(argv[6]), ncolth = atoi(argv[7]), ncol = atoi(argv[8]), nops = atoi(argv[9]);
  int bound = argc > 10 ? atoi(argv[10]) : 2;
  int nr    = ncolth >= 2 ? 2 : 1;
  int ni    = 1 + nmut;
  hc::install();
  opentelemetry::sdk::common::internal_log::GlobalLogHandler::SetLogLevel(
      opentelemetry::sdk::common::internal_log::LogLevel::None);
  std::vector<int> cbi(static_cast<size_t>(ncb));
  for (int c = 1; c <= ncb; ++c)
    cbi[static_cast<size_t>(c - 1)] = c == 1 ? 1 : 2 + (c - 2) % nmut;
  std::vector<int> tape;
  long execs = 0;
  for (long it = 0; it < n; ++it)
  {
    vs::Config cfg;
    // dfs explores the schedules of ONE program (the seed fixes the mutators' operations)
    uint64_t pseed = strat == "dfs" ? seed : seed * 1000003ULL + static_cast<uint64_t>(it);
    cfg.seed       = seed * 1000003ULL + static_cast<uint64_t>(it);
    if (strat == "pct")
    {
      cfg.strategy  = vs::S_PCT;
      cfg.pct_depth = 1 + static_cast<int>(it % 4);
      cfg.pct_len   = 300;
    }
    else if (strat == "dfs")
    {
      cfg.strategy       = vs::S_TAPE;
      cfg.tape           = tape;
      cfg.preempt_bound  = bound;
      cfg.p_spurious_cas = 0;
    }
    else
    {
      cfg.strategy = vs::S_RANDOM;
      cfg.p_switch = (it % 3 == 0) ? 0.15 : 0.45;
    }
    cfg.max_steps        = 200000;
    cfg.fair_extra_steps = 200000;
    json cfgev = {{"e", "Cfg"}, {"cbi", cbi}, {"nr", nr}, {"seed", cfg.seed}, {"strat", strat}};
    hc::pending_header() = cfgev.dump();
    vs::Result res = vs::run(cfg, [&]() {
      Rng rng(pseed);
      auto provider = std::make_shared<sdkm::MeterProvider>();
      std::vector<std::shared_ptr<PullReader>> readers;
      for (int r = 0; r < nr; ++r)
      {
        readers.push_back(std::make_shared<PullReader>(r == 0 ? sdkm::AggregationTemporality::kCumulative
                                                              : sdkm::AggregationTemporality::kDelta));
        provider->AddMetricReader(readers.back());
      }
      auto meter = provider->GetMeter("c17.conc");
      std::vector<nostd::shared_ptr<api::ObservableInstrument>> instr;
      for (int i = 1; i <= ni; ++i)
        instr.push_back(meter->CreateInt64ObservableGauge("c17_conc_i" + std::to_string(i)));
      std::vector<std::unique_ptr<CbState>> states;
      for (int c = 1; c <= ncb; ++c)
        states.emplace_back(new CbState{c});
      auto add = [&](int c) {
        emit({{"e", "AddCall"}, {"c", c}});
        instr[static_cast<size_t>(cbi[static_cast<size_t>(c - 1)] - 1)]->AddCallback(the_callback, states[static_cast<size_t>(c - 1)].get());
        emit({{"e", "AddRet"}, {"c", c}});
      };
      auto rem = [&](int c) {
        emit({{"e", "RemoveCall"}, {"c", c}});
        instr[static_cast<size_t>(cbi[static_cast<size_t>(c - 1)] - 1)]->RemoveCallback(the_callback, states[static_cast<size_t>(c - 1)].get());
        emit({{"e", "RemoveRet"}, {"c", c}});
      };
      int col_ids  = 0;
      auto collect = [&](int r) {
        int k;
        {
          vs::NoYield ny;
          k = ++col_ids;
        }
        emit({{"e", "ColCall"}, {"k", k}, {"r", r}});
        t_collection = k;
        readers[static_cast<size_t>(r - 1)]->Collect([](sdkm::ResourceMetrics &) { return true; });
        t_collection = 0;
        emit({{"e", "ColRet"}, {"k", k}});
      };
      for (int c = 1; c <= ncb; ++c)
        add(c);
      // every thread's program is fixed before the threads start (it depends on the seed only)
      struct Op
      {
        int kind;  // 0 remove, 1 add, 2 destroy instrument
        int arg;
      };
      std::vector<std::vector<Op>> prog(static_cast<size_t>(nmut));
      for (int m = 0; m < nmut; ++m)
      {
        std::vector<int> own;
        for (int c = 2; c <= ncb; ++c)
          if ((c - 2) % nmut == m)
            own.push_back(c);
        std::vector<bool> in(static_cast<size_t>(ncb + 1), true);
        for (int o = 0; o < nops && !own.empty(); ++o)
        {
          int c = own[static_cast<size_t>(rng.below(static_cast<int>(own.size())))];
          prog[static_cast<size_t>(m)].push_back({in[static_cast<size_t>(c)] ? 0 : 1, c});
          in[static_cast<size_t>(c)] = !in[static_cast<size_t>(c)];
        }
        if (rng.below(3) == 0)
          prog[static_cast<size_t>(m)].push_back({2, 2 + m});
      }
      std::vector<std::thread> th;
      for (int m = 0; m < nmut; ++m)
        th.emplace_back([&, m]() {
          for (auto &op : prog[static_cast<size_t>(m)])
          {
            if (op.kind == 0)
              rem(op.arg);
            else if (op.kind == 1)
              add(op.arg);
            else
            {
              emit({{"e", "DestroyCall"}, {"i", op.arg}});
              instr[static_cast<size_t>(op.arg - 1)] = nostd::shared_ptr<api::ObservableInstrument>();
              emit({{"e", "DestroyRet"}, {"i", op.arg}});
            }
          }
        });
      for (int t = 0; t < ncolth; ++t)
        th.emplace_back([&, t]() {
          for (int k = 0; k < ncol; ++k)
            collect(t % nr + 1);
        });
      for (auto &t : th)
        t.join();
      for (int r = 1; r <= nr; ++r)
        collect(r);
      emit({{"e", "End"}});
    });
    std::cout << cfgev.dump() << "\n";
    for (auto &l : vs::log_lines())
      std::cout << l << "\n";
    (void)res;
    execs++;
    if (strat == "dfs" && !hc::next_tape(res.choices, tape))
    {
      std::cout << "{\"e\":\"DfsComplete\",\"executions\":" << execs << "}\n";
      break;
    }
  }
  std::cout << "{\"e\":\"Summary\",\"executions\":" << execs << "}" << std::endl;
  return 0;
}
