// C19 / views: replays view lists + instruments printed by TLC from spec/Views.tla on the real
// MeterProvider / ViewRegistry / Meter.
//
// Input : ndjson {"id", "shared":bool, "views":[{type,pat:{k,s},unit,msel:{name,version,schema},
//                 name,desc,agg,filter}..], "insts":[{type,name:[p,s],unit,meter,attrs:[..]}..]}
//   shared = true : one behaviour of the machine, all instruments live in ONE provider
//   shared = false: a set of continuations of the same view list; instruments are packed into as
//                   few providers as keep (meter, name) unique (Streams(i, views) does not depend
//                   on other instruments)
// Output: ndjson {"id","inst":k,"res":[{"j":index,"streams":[{name,desc,unit,type,kind,keys,meter}..]}..],
//                 "unattributed":[..]}
//
// Concretisation table (variant chosen by seed; all variants keep the abstract relations):
//   name tokens   x,y | a,b | z  ->  req,db|count,bytes|zzz   Http,Rpc|Dur,Size|Q9   a,b|x1,y2|z
//                                     req,prereq|cnt,cnt2|zz (one name a substring of another)
//   name          <<p,s>> -> p SEP s, SEP in "_" "/" "-"        (no regex metacharacter)
//                                     r,d|c,e|q  H,k|N,m|w (one character per token, no separator: always
//                                     used for "rx" selectors; tokens "." and "_" are themselves)
//   selectors     exact n -> the name; prefix p -> "p.*"; suffix s -> ".*s"; all -> "*"; rx tree -> ECMAScript
//                 text with the operator as the only syntax: rc|dc  re|qq  r|rcc  rcc?  rc+  rc*  r[ce]  r.c  r\.c
//                 ^rc$  rc{2}
//   units         "" -> "", ms,By -> ms,By | s,{packets} | 1,kBy/s | k,kBy | m|s,m | m.s,mxs
//   meters        id "n|v|s", n in "",m1,m2  v in "",1.0,2.0  s in "",s1,s2; "" -> "" (GetMeter("") resp. no version /
//                 schema url), else per field through kMeterTables (3 variants), the SAME table for the meter
//                 selector of a view and for GetMeter; identity arguments as (seeded) non-terminated views
//   view k        name "view<k>_out", description "view <k> description", unit argument "VIEWUNIT" (must
//                 never show), aggregation enum, filter: none->default processor, k1->{"k1"}, empty->{}
//   attribute keys k1->"k1", k2->"k2", k1v->the view "k1" of the block "k1zz", k1n->the 5 bytes k1<NUL>zz
//   measurement   instrument j records 1000+7j once (observable: observes it), attributing streams
#include "c19_common.h"

#include "opentelemetry/sdk/metrics/view/attributes_processor.h"
#include "opentelemetry/sdk/metrics/view/instrument_selector.h"
#include "opentelemetry/sdk/metrics/view/meter_selector.h"
#include "opentelemetry/sdk/metrics/view/view.h"

namespace c19
{
namespace
{
struct Table
{
  std::map<std::string, std::string> tok, unit;
  std::string sep;
  int meters = 0;  // which meter table (see kMeters)
  // `chars`: one character per token and no separator, so that a regular-expression tree renders
  // with its operator as the ONLY syntax of the pattern text ("rc|dc", "rcc?", "r[ce]", "r\\.c", ...)
  Table(Rng &rng, bool chars)
  {
    // (variant 3 makes one name a substring of another and one unit a prefix of the other: a
    // selector that searches instead of matching, or compares prefixes, is then visible)
    static const char *toks[6][5]  = {{"req", "db", "count", "bytes", "zzz"}, {"Http", "Rpc", "Dur", "Size", "Q9"},
                                      {"a", "b", "x1", "y2", "z"},            {"req", "prereq", "cnt", "cnt2", "zz"},
                                      {"r", "d", "c", "e", "q"},              {"H", "k", "N", "m", "w"}};
    // units with regex syntax characters: the unit selector is compared literally ("m|s" is not "m")
    static const char *units[6][2] = {{"ms", "By"}, {"s", "{packets}"}, {"1", "kBy/s"}, {"k", "kBy"}, {"m|s", "m"}, {"m.s", "mxs"}};
    static const char *seps[3]     = {"_", "/", "-"};
    int v                          = chars ? 4 + static_cast<int>(rng.below(2)) : static_cast<int>(rng.below(6));
    tok["x"]                       = toks[v][0];
    tok["y"]                       = toks[v][1];
    tok["a"]                       = toks[v][2];
    tok["b"]                       = toks[v][3];
    tok["z"]                       = toks[v][4];
    tok["."]                       = ".";
    tok["_"]                       = "_";
    int u                          = static_cast<int>(rng.below(6));
    unit[""]                       = "";
    unit["ms"]                     = units[u][0];
    unit["By"]                     = units[u][1];
    sep                            = v >= 4 ? "" : seps[rng.below(3)];
    meters                         = static_cast<int>(rng.below(3));
  }
  std::string name(const json &n) const
  {
    std::string out;
    for (size_t i = 0; i < n.size(); ++i)
      out += (i ? sep : "") + tok.at(n[i]);
    return out;
  }
  // a regular-expression tree (spec/Views.tla, Lang) as ECMAScript text; a group (?:..) is added only
  // where a multi-character operand needs one (never for the one-operator patterns of RxPats)
  std::string rx(const json &t, bool operand = false) const
  {
    std::string k = t[0];
    std::string out;
    bool atom = true;
    if (k == "tok")
    {
      out  = tok.at(t[1]);
      atom = out.size() == 1;
      if (out == ".")
        out = "\\.";
    }
    else if (k == "any")
      out = ".";
    else if (k == "escdot")
      out = "\\.";
    else if (k == "cls")
    {
      out = "[";
      for (auto &c : t[1])
        out += tok.at(c);
      out += "]";
    }
    else if (k == "seq")
    {
      for (auto &c : t[1])
        out += c[0] == "alt" ? "(?:" + rx(c) + ")" : rx(c);
      atom = false;
    }
    else if (k == "alt")
    {
      out  = rx(t[1]) + "|" + rx(t[2]);
      atom = false;
    }
    else if (k == "anch")
      return "^" + rx(t[1]) + "$";
    else
    {
      std::string in = rx(t[1], true);
      if (k == "opt")
        out = in + "?";
      else if (k == "plus")
        out = in + "+";
      else if (k == "star")
        out = in + "*";
      else
        out = in + "{" + std::to_string(t[2].get<int>()) + "}";
    }
    if (operand && !atom)
      return "(?:" + out + ")";
    return out;
  }
  std::string pattern(const json &p) const
  {
    std::string k = p["k"];
    if (k == "all")
      return "*";
    if (k == "exact")
      return name(p["s"]);
    if (k == "rx")
      return rx(p["s"][1]);
    if (k == "prefix")
      return tok.at(p["s"][0]) + ".*";
    return ".*" + tok.at(p["s"][0]);
  }
};
// Meter identity fields, selector side and meter side through the SAME table (equal abstract token <=>
// equal string).  The EMPTY token is the empty string on both sides: an unnamed meter is GetMeter("")
// (or, by seed, a null string_view: both are documented as "library name is empty"), a meter without
// version / schema url passes "".
//   table 0: plain   table 1: values with regex syntax characters - the meter selector is compared literally
//   ("a|c" is not "a", "1.0" is not "1x0")   table 2: the SAME strings in different fields (a meter
//   whose version is "lib" is not the meter named "lib")
const char *kSchema = "https://example.test/schema/1";
struct MeterTable
{
  const char *name[2], *version[2], *schema[2];
};
const MeterTable kMeterTables[3] = {{{"libA", "libC"}, {"1.0.0", "2.0.0"}, {kSchema, "https://example.test/schema/2"}},
                                    {{"a|c", "a"}, {"1.0", "1x0"}, {kSchema, "https://example.test/schema/2"}},
                                    {{"lib", "1"}, {"1", "lib"}, {"lib", "1"}}};
const int kMeterTableCount = 3;
std::string sel_name(const std::string &n, int t)
{
  return n == "m1" ? kMeterTables[t].name[0] : n == "m2" ? kMeterTables[t].name[1] : "";
}
std::string sel_version(const std::string &v, int t)
{
  return v == "1.0" ? kMeterTables[t].version[0] : v == "2.0" ? kMeterTables[t].version[1] : "";
}
std::string sel_schema(const std::string &s, int t)
{
  return s == "s1" ? kMeterTables[t].schema[0] : s == "s2" ? kMeterTables[t].schema[1] : "";
}
// abstract meter id "name|version|schema" (tokens of spec/Views.tla) <-> concrete identity
struct MeterId
{
  std::string name, version, schema;
};
MeterId meter_of(const std::string &id, int t)
{
  size_t a = id.find('|'), b = id.find('|', a == std::string::npos ? a : a + 1);
  if (a == std::string::npos || b == std::string::npos)
  {
    std::cerr << "bad meter id " << id << "\n";
    exit(3);
  }
  std::string n = id.substr(0, a), v = id.substr(a + 1, b - a - 1), s = id.substr(b + 1);
  static const char *known[] = {"", "m1", "m2", "1.0", "2.0", "s1", "s2"};
  int ok                     = 0;
  for (auto *k : known)
    ok += (n == k) + (v == k) + (s == k);
  if (ok != 3)
  {
    std::cerr << "unknown meter " << id << "\n";
    exit(3);
  }
  return {sel_name(n, t), sel_version(v, t), sel_schema(s, t)};
}
std::string abstract_field(const std::string &c, const char *const (&conc)[2], const char *t0, const char *t1)
{
  if (c.empty())
    return "";
  if (c == conc[0])
    return t0;
  if (c == conc[1])
    return t1;
  return "?" + c;
}
std::string abstract_meter(const std::string &n, const std::string &v, const std::string &s, int t)
{
  return abstract_field(n, kMeterTables[t].name, "m1", "m2") + "|" + abstract_field(v, kMeterTables[t].version, "1.0", "2.0") + "|" +
         abstract_field(s, kMeterTables[t].schema, "s1", "s2");
}

sdkm::InstrumentType sdk_type(const std::string &t)
{
  switch (type_index(t))
  {
    case 0:
      return sdkm::InstrumentType::kCounter;
    case 1:
      return sdkm::InstrumentType::kUpDownCounter;
    case 2:
      return sdkm::InstrumentType::kHistogram;
    case 3:
      return sdkm::InstrumentType::kObservableCounter;
    case 4:
      return sdkm::InstrumentType::kObservableUpDownCounter;
    default:
      return sdkm::InstrumentType::kObservableGauge;
  }
}
sdkm::AggregationType sdk_agg(const std::string &a)
{
  if (a == "sum")
    return sdkm::AggregationType::kSum;
  if (a == "last")
    return sdkm::AggregationType::kLastValue;
  if (a == "hist")
    return sdkm::AggregationType::kHistogram;
  if (a == "drop")
    return sdkm::AggregationType::kDrop;
  return sdkm::AggregationType::kDefault;
}
std::string view_name(size_t k) { return "view" + std::to_string(k) + "_out"; }
std::string view_desc(size_t k) { return "view " + std::to_string(k) + " description"; }
std::string inst_desc(size_t j) { return "instrument " + std::to_string(j) + " description"; }
double tag(size_t j) { return 1000.0 + 7.0 * static_cast<double>(j); }

// attribute keys of the one measurement, in caller memory that outlives the collection
struct Keys
{
  std::vector<std::unique_ptr<Buf>> bufs;
  AttrList list;
  explicit Keys(const json &attrs)
  {
    for (auto &a : attrs)
    {
      std::string k = a;
      if (k == "k1")
        bufs.emplace_back(new Buf("k1", "z", ""));
      else if (k == "k2")
        bufs.emplace_back(new Buf("k2", "z", ""));
      else if (k == "k1v")
        bufs.emplace_back(new Buf("k1", "good", "zz"));  // non-terminated view of "k1zz"
      else
        bufs.emplace_back(new Buf(std::string("k1\0zz", 5), "z", ""));
      list.emplace_back(bufs.back()->view(), opentelemetry::common::AttributeValue("val"));
    }
  }
};
std::string abstract_key(const std::string &k)
{
  if (k == "k1" || k == "k2")
    return k;
  if (k == std::string("k1\0zz", 5))
    return "k1n";
  return "?" + hex_prefix(k);
}

void add_views(sdkm::MeterProvider &mp, const json &views, const Table &t)
{
  size_t k = 0;
  for (auto &v : views)
  {
    ++k;
    std::string filter = v["filter"];
    std::unique_ptr<sdkm::AttributesProcessor> proc;
    if (filter == "none")
      proc.reset(new sdkm::DefaultAttributesProcessor());
    else
    {
      std::unordered_map<std::string, bool> allow;
      if (filter == "k1")
        allow["k1"] = true;
      proc.reset(new sdkm::FilteringAttributesProcessor(allow));
    }
    std::string vname = v["name"], vdesc = v["desc"];
    mp.AddView(std::unique_ptr<sdkm::InstrumentSelector>(
                   new sdkm::InstrumentSelector(sdk_type(v["type"]), t.pattern(v["pat"]), t.unit.at(v["unit"]))),
               std::unique_ptr<sdkm::MeterSelector>(new sdkm::MeterSelector(
                   sel_name(v["msel"]["name"], t.meters), sel_version(v["msel"]["version"], t.meters), sel_schema(v["msel"]["schema"], t.meters))),
               std::unique_ptr<sdkm::View>(new sdkm::View(vname.empty() ? "" : view_name(k), vdesc.empty() ? "" : view_desc(k),
                                                          "VIEWUNIT", sdk_agg(v["agg"]), nullptr, std::move(proc))));
  }
}

// one provider with the views and the instruments `idx` (indices into insts); appends per-instrument
// stream lists to res[j] and whatever cannot be attributed to `unattributed`
void run_group(const json &views, const json &insts, const std::vector<size_t> &idx, const Table &t, Rng &rng,
               std::map<size_t, json> &res, json &unattributed)
{
  sdkm::MeterProvider mp;
  auto reader = std::make_shared<PullReader>(rng.below(2) == 1);
  mp.AddMetricReader(reader);
  add_views(mp, views, t);
  std::vector<std::unique_ptr<Inst>> live;
  std::vector<std::unique_ptr<Keys>> keys;
  std::map<std::string, ns::shared_ptr<api::Meter>> meters;
  for (size_t j : idx)
  {
    const json &i    = insts[j];
    std::string mid  = i["meter"];
    const MeterId m  = meter_of(mid, t.meters);
    if (!meters.count(mid))
    {
      // (seeded) the identity arguments as non-terminated views; an empty name also as a null view
      Buf nb(m.name, rng.below(2) ? "z" : "good", "!!"), vb(m.version, rng.below(2) ? "z" : "good", "9"),
          sb(m.schema, rng.below(2) ? "z" : "good", "/x");
      ns::string_view nv = (m.name.empty() && rng.below(2)) ? ns::string_view() : nb.view();
      meters[mid]        = mp.GetMeter(nv, vb.view(), sb.view());
    }
    std::unique_ptr<Inst> inst(new Inst());
    {
      Buf nb(t.name(i["name"]), rng.below(2) ? "z" : "good", "qq"), ub(t.unit.at(i["unit"]), "z", "");
      std::string d = inst_desc(j);
      Buf db(d, "z", "");
      // (instrument names are valid and NUL-free here: a "good" tail keeps a C-string reading valid)
      inst->create(*meters[mid], type_index(i["type"]), rng.below(2) == 1, nb.view(), db.view(), ub.view());
    }
    keys.emplace_back(new Keys(i["attrs"]));
    inst->record(tag(j), keys.back()->list.empty() ? nullptr : &keys.back()->list);
    res[j] = json::array();
    live.push_back(std::move(inst));
  }
  auto got = collect(*reader);
  for (auto &c : got)
  {
    auto &d = c.md.instrument_descriptor;
    // attribute the stream to an instrument through the value it carries
    long owner      = -1;
    bool consistent = true;
    std::string kind;
    std::vector<std::string> ks;
    bool data = false;
    for (auto &p : c.md.point_data_attr_)
    {
      double v;
      std::string k;
      if (!point_value(p.point_data, v, k))
        continue;  // drop points carry no data
      data = true;
      if (!kind.empty() && kind != k)
        consistent = false;
      kind   = k;
      long o = -1;
      for (size_t j : idx)
        if (v == tag(j))
          o = static_cast<long>(j);
      if (o < 0 || (owner >= 0 && owner != o))
        consistent = false;
      owner = o;
      for (auto &kv : p.attributes)
      {
        std::string ak = abstract_key(kv.first);
        bool have      = false;
        for (auto &x : ks)
          have = have || x == ak;
        if (!have)
          ks.push_back(ak);
      }
    }
    if (!data && !c.md.point_data_attr_.empty())
      continue;  // a stream of drop points only: not data-carrying (projection, see spec/Views.tla)
    if (!consistent || owner < 0)
    {
      unattributed.push_back({{"name", d.name_}, {"points", c.md.point_data_attr_.size()}, {"scope", c.scope_name}});
      continue;
    }
    size_t j      = static_cast<size_t>(owner);
    const json &i = insts[j];
    json s;
    if (d.name_ == t.name(i["name"]))
      s["name"] = i["name"];
    else
    {
      json nm = json::array({"?", d.name_});
      for (size_t k = 1; k <= views.size(); ++k)
        if (d.name_ == view_name(k))
          nm = json::array({"v", "v" + std::to_string(k)});
      s["name"] = nm;
    }
    if (d.description_ == inst_desc(j))
      s["desc"] = "inst";
    else
    {
      s["desc"] = "?" + d.description_;
      for (size_t k = 1; k <= views.size(); ++k)
        if (d.description_ == view_desc(k))
          s["desc"] = "v" + std::to_string(k);
    }
    s["unit"]  = d.unit_ == t.unit.at(i["unit"]) ? json(i["unit"]) : json("?" + d.unit_);
    s["type"]  = sdk_type_name(d.type_);
    s["kind"]  = kind;
    s["keys"]  = ks;
    s["meter"] = abstract_meter(c.scope_name, c.scope_version, c.scope_schema, t.meters);
    res[j].push_back(s);
  }
  for (auto &l : live)
    l->release();
}
}  // namespace

int run_views(std::istream &in, uint64_t seed, int instances)
{
  std::string line;
  while (std::getline(in, line))
  {
    if (line.empty())
      continue;
    json c            = json::parse(line);
    long id           = c["id"];
    const json &views = c["views"];
    const json &insts = c["insts"];
    for (int k = 0; k < instances; ++k)
    {
      Rng rng(mix(seed, static_cast<uint64_t>(id), static_cast<uint64_t>(k)));
      // regular-expression selectors and names that are not token pairs need one character per token
      bool chars = false;
      for (auto &v : views)
        chars = chars || v["pat"]["k"] == "rx";
      for (auto &i : insts)
        chars = chars || i["name"].size() != 2;
      Table t(rng, chars);
      // pack the instruments into providers with unique (meter, name)
      std::vector<std::vector<size_t>> groups;
      std::vector<std::map<std::string, bool>> used;
      for (size_t j = 0; j < insts.size(); ++j)
      {
        std::string key = insts[j]["meter"].get<std::string>() + "|" + insts[j]["name"].dump();
        size_t g        = 0;
        while (g < groups.size() && used[g].count(key))
          ++g;
        if (g == groups.size())
        {
          if (c.value("shared", false) && g > 0)
          {
            std::cerr << "behaviour " << id << " reuses (meter, name)\n";
            return 3;
          }
          groups.emplace_back();
          used.emplace_back();
        }
        groups[g].push_back(j);
        used[g][key] = true;
      }
      std::map<size_t, json> res;
      json unattributed = json::array();
      for (auto &g : groups)
        run_group(views, insts, g, t, rng, res, unattributed);
      json r = {{"id", id}, {"inst", k}, {"res", json::array()}, {"unattributed", unattributed}};
      for (auto &e : res)
        r["res"].push_back({{"j", e.first}, {"streams", e.second}});
      std::cout << r.dump(-1, ' ', false, json::error_handler_t::replace) << "\n";
    }
  }
  std::cout.flush();
  return 0;
}
}  // namespace c19
