// C18 executor / recorder.
//
//   c18_env run <jobs.ndjson>            execute jobs (TLC behaviours, concretised here)
//   c18_env random <n> <seed> <len>      generate n random jobs (10-20 keys, long histories) and execute
//
// A job is {"seed":n,"ninst":k,"steps":[{"op":"Cfg",...},{"op":"New"|"Create"|"Merge"|"MkProv"|"Emit"|"Read",...}]}
// in the vocabulary of spec/ResourceEnv.tla; an input line is a job or {"batch":[jobs with the same Cfg]}.
// Every batch runs in a forked child of its own whose environment is set before the first SDK call and
// never touched afterwards (so it does not matter WHEN Resource::Create reads it - once, cached, or on
// every call; UBSan kills the process on signed overflow, after which the remaining jobs go to a fresh
// child).  The givens of the SDK build that the statement does not pin are OBSERVED, not assumed: every
// history starts with a Cfg event carrying the projection of Resource::GetDefault() (attributes and
// schema URL), of Resource::GetEmpty() and the schema URL of OTELResourceDetector().Detect(); the spec
// applies the Merge / Create rules to what was observed.  The child
// performs each step on the REAL classes through their public interface and writes one ndjson event
// per call with the observable projection; the parent adds the event for a call that killed the child.
// The log is validated by spec/ResourceEnvTrace.tla - nothing is decided here.
//
// Concretisation table (abstract -> concrete), part of the trusted base:
//   values   s1..s6 strings (salted per job), s_empty "", i1 int64 42, i2 int64 -7, n1 int32 5, u1 uint32 7,
//            q1 uint64 2^40, b1 true, b0 false, d1 0.5, vs1 {"a","b"}, vi1 {1,2,3}, vb1 {true,false}, vd1 {0.25},
//            dflt_lang "cpp", dflt_name "opentelemetry", dflt_ver OPENTELEMETRY_SDK_VERSION (mere names for
//            three more strings - e.g. a caller value equal to a default; the spec does NOT expect the
//            default resource to have them)
//            (projection: the name of the equal table entry; any other string "=<text>", else "?")
//   urls     "" , u1, u2 (two schema URLs)
//   strings  pre: none "" | blank " " "\t" "  " "\n " | plus "+" | minus "-"
//            body: d0..d10 digit runs (both edges of the value range, then random; optional leading
//            zeros), true/false in mixed case, word (non-numeric junk), frac (exact binary fractions),
//            hugeexp (float overflow); suf: unit text | junk; tb: trailing blank
//   tokens   kv "k=v", noeq "junk", empty "", emptykey "=v", padkv " k = v ", valeq "k=a=b", emptyval "k="
//            (kv values/keys range over the whole tables: empty value, values and keys with LF / CR / TAB /
//            control / non-ASCII / invalid-UTF-8 bytes and spaces inside; abstract keys "~k_*" -> concrete text)
#include <fcntl.h>
#include <sys/wait.h>
#include <unistd.h>
#include <cerrno>
#include <chrono>
#include <cmath>
#include <cstdio>
#include <cstdlib>
#include <cstring>
#include <deque>
#include <fstream>
#include <iostream>
#include <memory>
#include <string>
#include <vector>

#include <nlohmann/json.hpp>

#include "opentelemetry/logs/noop.h"
#include "opentelemetry/logs/provider.h"
#include "opentelemetry/metrics/noop.h"
#include "opentelemetry/metrics/provider.h"
#include "opentelemetry/sdk/common/disabled.h"
#include "opentelemetry/sdk/common/env_variables.h"
#include "opentelemetry/sdk/common/global_log_handler.h"
#include "opentelemetry/sdk/logs/exporter.h"
#include "opentelemetry/sdk/logs/logger_provider.h"
#include "opentelemetry/sdk/logs/provider.h"
#include "opentelemetry/sdk/logs/read_write_log_record.h"
#include "opentelemetry/sdk/logs/simple_log_record_processor.h"
#include "opentelemetry/sdk/metrics/meter_provider.h"
#include "opentelemetry/sdk/metrics/metric_reader.h"
#include "opentelemetry/sdk/metrics/provider.h"
#include "opentelemetry/sdk/resource/resource.h"
#include "opentelemetry/sdk/resource/resource_detector.h"
#include "opentelemetry/sdk/trace/exporter.h"
#include "opentelemetry/sdk/trace/provider.h"
#include "opentelemetry/sdk/trace/simple_processor.h"
#include "opentelemetry/sdk/trace/span_data.h"
#include "opentelemetry/sdk/trace/tracer_provider.h"
#include "opentelemetry/sdk/version/version.h"
#include "opentelemetry/trace/noop.h"
#include "opentelemetry/trace/provider.h"

using json = nlohmann::json;
namespace sdkc  = opentelemetry::sdk::common;
namespace sdkr  = opentelemetry::sdk::resource;
namespace sdkt  = opentelemetry::sdk::trace;
namespace sdkl  = opentelemetry::sdk::logs;
namespace sdkm  = opentelemetry::sdk::metrics;
namespace nostd = opentelemetry::nostd;

static_assert(std::is_same<std::chrono::system_clock::duration::period, std::nano>::value &&
                  sizeof(std::chrono::system_clock::duration::rep) == 8,
              "the digit-class capacities of ResourceEnv.tla assume 64-bit nanoseconds");

// ------------------------------------------------------------------------------------------------
struct Rng
{
  uint64_t s;
  explicit Rng(uint64_t seed) : s(seed * 0x9E3779B97F4A7C15ull + 0x1234567) {}
  uint64_t next()
  {
    uint64_t z = (s += 0x9E3779B97F4A7C15ull);
    z          = (z ^ (z >> 30)) * 0xBF58476D1CE4E5B9ull;
    z          = (z ^ (z >> 27)) * 0x94D049BB133111EBull;
    return z ^ (z >> 31);
  }
  uint64_t below(uint64_t n) { return n ? next() % n : 0; }
  uint64_t range(uint64_t lo, uint64_t hi)  // inclusive
  {
    uint64_t span = hi - lo;
    if (span == UINT64_MAX)
      return next();
    return lo + next() % (span + 1);
  }
  template <class T>
  const T &pick(const std::vector<T> &v)
  {
    return v[below(v.size())];
  }
};

static std::string dumps(const json &j)
{
  return j.dump(-1, ' ', false, json::error_handler_t::replace);
}

// ------------------------------------------------------------------------------------------------
// values and URLs
using Val = sdkc::OwnedAttributeValue;
struct Tables
{
  std::vector<std::pair<std::string, Val>> vals;
  std::vector<std::pair<std::string, std::string>> urls;
  std::vector<std::pair<std::string, std::string>> keys;  // abstract key "~name" -> concrete text; other keys are literal
  explicit Tables(const std::string &salt)
  {
    vals = {{"s1", std::string("alpha") + salt},
            {"s2", std::string("beta") + salt},
            {"s3", std::string("x y/z:1")},
            {"s4", std::string("gamma.delta") + salt},
            {"s5", std::string("Zeta_9")},
            {"s6", std::string("w")},
            // values with unusual bytes INSIDE (never at an edge: edges are the padkv don't-care band)
            {"s_lf", std::string("app:web\ntier:front")},
            {"s_cr", std::string("a\rb")},
            {"s_tab", std::string("col1\tcol2")},
            {"s_ctl", std::string("a\x01\x7f" "b")},
            {"s_utf", std::string("caf\xc3\xa9 \xe6\x97\xa5\xe6\x9c\xac")},
            {"s_bin", std::string("x\xff\xfe" "y")},
            {"s_sp", std::string("two  spaces in side")},
            {"s_empty", std::string()},
            {"i1", int64_t{42}},
            {"i2", int64_t{-7}},
            {"n1", int32_t{5}},
            {"u1", uint32_t{7}},
            {"q1", uint64_t{1} << 40},
            {"b1", true},
            {"b0", false},
            {"d1", 0.5},
            {"vs1", std::vector<std::string>{"a", "b"}},
            {"vi1", std::vector<int64_t>{1, 2, 3}},
            {"vb1", std::vector<bool>{true, false}},
            {"vd1", std::vector<double>{0.25}},
            {"dflt_lang", std::string("cpp")},
            {"dflt_name", std::string("opentelemetry")},
            {"dflt_ver", std::string(OPENTELEMETRY_SDK_VERSION)}};
    keys = {{"~k_sp", "key with spaces"},
            {"~k_lf", "key\nlf"},
            {"~k_tab", "key\ttab"},
            {"~k_cr", "key\rcr"},
            {"~k_ctl", "key\x01" "ctl"},
            {"~k_utf", "cl\xc3\xa9.\xe9\x94\xae"}};
    urls = {{"", ""},
            {"u1", "https://opentelemetry.io/schemas/1.21.0"},
            {"u2", "http://example.test/schema/2" + salt}};
  }
  Val value(const std::string &name) const
  {
    for (auto &p : vals)
      if (p.first == name)
        return p.second;
    fprintf(stderr, "c18_env: unknown abstract value %s\n", name.c_str());
    _exit(90);
  }
  std::string str(const std::string &name) const
  {
    Val v = value(name);
    if (!nostd::holds_alternative<std::string>(v))
    {
      fprintf(stderr, "c18_env: %s is not a string value\n", name.c_str());
      _exit(90);
    }
    return nostd::get<std::string>(v);
  }
  std::string name_of_string(const std::string &s) const
  {
    for (auto &p : vals)
      if (nostd::holds_alternative<std::string>(p.second) && nostd::get<std::string>(p.second) == s)
        return p.first;
    return "=" + s;
  }
  std::string name_of(const Val &v) const
  {
    for (auto &p : vals)
      if (p.second == v)
        return p.first;
    if (nostd::holds_alternative<std::string>(v))
      return "=" + nostd::get<std::string>(v);
    return "?";
  }
  std::string key(const std::string &name) const
  {
    for (auto &p : keys)
      if (p.first == name)
        return p.second;
    if (!name.empty() && name[0] == '~' && name != "~rawk")
    {
      fprintf(stderr, "c18_env: unknown abstract key %s\n", name.c_str());
      _exit(90);
    }
    return name;
  }
  std::string key_name(const std::string &k) const
  {
    for (auto &p : keys)
      if (p.second == k)
        return p.first;
    return k;
  }
  std::string url(const std::string &name) const
  {
    for (auto &p : urls)
      if (p.first == name)
        return p.second;
    fprintf(stderr, "c18_env: unknown url %s\n", name.c_str());
    _exit(90);
  }
  std::string url_name(const std::string &u) const
  {
    for (auto &p : urls)
      if (p.second == u)
        return p.first;
    return "=" + u;
  }
};

struct RawResource : public sdkr::Resource
{
  RawResource(const sdkr::ResourceAttributes &a, const std::string &u) : sdkr::Resource(a, u) {}
};

static json project(const Tables &t, const sdkr::Resource &r)
{
  json a = json::object();
  for (auto &kv : r.GetAttributes())
    a[t.key_name(kv.first)] = t.name_of(kv.second);
  return json{{"attrs", a}, {"url", t.url_name(r.GetSchemaURL())}};
}

static sdkr::ResourceAttributes make_attrs(const Tables &t, const json &m)
{
  sdkr::ResourceAttributes a;
  if (m.is_object())
    for (auto it = m.begin(); it != m.end(); ++it)
      a[t.key(it.key())] = t.value(it.value().get<std::string>());
  return a;
}
static json norm_map(const json &m)
{
  return m.is_object() ? m : json::object();
}

// ------------------------------------------------------------------------------------------------
// abstract strings
struct Conc
{
  bool unset = false;
  std::string text;
  bool has_n  = false;  // the digit run's value fits 64 bits
  uint64_t n  = 0;
  bool is_num = false;  // body is numeric (digits / frac): ref holds its value
  long double ref = 0;
};

static const uint64_t kU64Max = UINT64_MAX;
struct DigRange
{
  const char *cls;
  uint64_t lo, hi;
};
static const DigRange kDig[] = {{"d0", 0, 0},
                                {"d1", 1, 2562047ull},
                                {"d2", 2562048ull, 153722867ull},
                                {"d3", 153722868ull, 4294967294ull},
                                {"d4", 4294967295ull, 4294967295ull},
                                {"d5", 4294967296ull, 9223372036ull},
                                {"d6", 9223372037ull, 9223372036854ull},
                                {"d7", 9223372036855ull, 9223372036854775ull},
                                {"d8", 9223372036854776ull, 9223372036854775807ull},
                                {"d9", 9223372036854775808ull, kU64Max - 4294967295ull},
                                {"d9w", kU64Max - 4294967294ull, kU64Max}};

static std::string mixed_case(const std::string &w, int inst, Rng &rng)
{
  if (inst == 0)
    return w;
  std::string r = w;
  if (inst == 1)
  {
    for (auto &c : r)
      c = (char)toupper(c);
    return r;
  }
  for (auto &c : r)
    if (rng.below(2))
      c = (char)toupper(c);
  return r;
}

static Conc concretise(const json &s, int inst, Rng &rng)
{
  Conc c;
  std::string pre = s["pre"], body = s["body"], suf = s["suf"];
  bool tb = s["tb"].get<bool>();
  if (pre == "unset")
  {
    c.unset = true;
    return c;
  }
  std::string t;
  if (pre == "blank")
    t += std::vector<std::string>{" ", "\t", "  ", "\n ", " \t "}[inst == 0 ? 0 : rng.below(5)];
  else if (pre == "plus")
    t += "+";
  else if (pre == "minus")
    t += "-";
  std::string b;
  bool isdig = false;
  for (auto &d : kDig)
    if (body == d.cls)
    {
      isdig       = true;
      uint64_t n  = inst == 0 ? d.lo : inst == 1 ? d.hi : rng.range(d.lo, d.hi);
      c.has_n     = true;
      c.n         = n;
      b           = std::to_string(n);
      if (inst >= 2 && rng.below(4) == 0)
        b = std::vector<std::string>{"0", "00", "0000000000000000000000"}[rng.below(3)] + b;
      if (body == "d0" && inst >= 1)
        b = std::vector<std::string>{"00", "0000", "0"}[inst == 1 ? 0 : rng.below(3)];
    }
  if (body == "d10")
  {
    isdig = true;
    if (inst == 0)
      b = "18446744073709551616";
    else if (inst == 1)
      b = std::string(24, '9');
    else
    {
      int len = 20 + (int)rng.below(11);
      b       = std::string(1, (char)('2' + rng.below(8)));
      for (int i = 1; i < len; i++)
        b += (char)('0' + rng.below(10));
    }
  }
  else if (body == "true" || body == "false")
    b = mixed_case(body, inst, rng);
  else if (body == "word")
  {
    static const std::vector<std::string> w = {"abc", "yes", "on", "tru", "truee", "t", "#", "\xc3\xa9", "off", "no", "a\nb", "tr\rue", "x\ty",
                                               "\x01", "tr ue", "\xff\xfe",
                                               "falsee", "enabled", "_", "--", "e5", "x1"};
    b = inst < (int)w.size() && inst < 3 ? w[inst] : rng.pick(w);
  }
  else if (body == "frac")
  {
    static const std::vector<std::string> w = {"0.5", "12.75", "1024.125", "3.0", "0.25", "7.5", "100.0625", "2.000"};
    b = inst < 2 ? w[inst] : rng.pick(w);
  }
  else if (body == "hugeexp")
  {
    static const std::vector<std::string> w = {"1e999", "1e39", "9e99999", "3.5e38", "1e40"};
    b = inst < 2 ? w[inst] : rng.pick(w);
  }
  if (isdig || body == "frac")
  {
    c.is_num = true;
    c.ref    = strtold(b.c_str(), nullptr);
  }
  t += b;
  if (suf == "junk")
  {
    static const std::vector<std::string> w = {"x", "abc", "%", "ms2", "sec", "!", "_", "s s", ";", "mss", "hh", "\xc2\xb5s"};
    t += inst < 2 ? w[inst] : rng.pick(w);
  }
  else if (suf != "none")
    t += suf;
  if (tb)
    t += std::vector<std::string>{" ", "\t", "  "}[inst == 0 ? 0 : rng.below(3)];
  c.text = t;
  return c;
}

static int g_errno_shadow = 0;
static void set_errno(const std::string &e)
{
  if (e == "erange")
    errno = ERANGE;
  else if (e == "clean")
    errno = 0;
  else
    errno = g_errno_shadow;
}

static bool float_matches(float v, long double ref)
{
  float r = (float)ref;
  return v == r || v == std::nextafterf(r, INFINITY) || v == std::nextafterf(r, -INFINITY);
}

// performs one reader call; returns {ret, val}
static void do_read(const std::string &r, const Conc &c, const std::string &e, std::string &ret, std::string &val)
{
  const char *var = (r == "disabled" || r.rfind("install_", 0) == 0) ? "OTEL_SDK_DISABLED" : "C18_VAR";
  if (c.unset)
    unsetenv(var);
  else
    setenv(var, c.text.c_str(), 1);
  if (r == "bool")
  {
    bool v = true;
    set_errno(e);
    bool ok        = sdkc::GetBoolEnvironmentVariable(var, v);
    g_errno_shadow = errno;
    ret            = ok ? "T" : "F";
    val            = v ? "true" : "false";
  }
  else if (r == "uint")
  {
    std::uint32_t v = 0xDEADBEEFu;
    set_errno(e);
    bool ok        = sdkc::GetUintEnvironmentVariable(var, v);
    g_errno_shadow = errno;
    ret            = ok ? "T" : "F";
    if (v == 0)
      val = "zero";
    else if (c.has_n && v == c.n)
      val = "exact";
    else
      val = "other";
  }
  else if (r == "float")
  {
    float v = -12345.678f;
    set_errno(e);
    bool ok        = sdkc::GetFloatEnvironmentVariable(var, v);
    g_errno_shadow = errno;
    ret            = ok ? "T" : "F";
    if (v == 0.0f)
      val = "zero";
    else if (c.is_num && float_matches(v, c.ref))
      val = "exact";
    else if (c.is_num && float_matches(v, -c.ref))
      val = "negexact";
    else
      val = "other";
  }
  else if (r == "dur")
  {
    using D       = std::chrono::system_clock::duration;
    const D keep  = D{-777};
    D v           = keep;
    set_errno(e);
    bool ok        = sdkc::GetDurationEnvironmentVariable(var, v);
    g_errno_shadow = errno;
    ret            = ok ? "T" : "F";
    val            = "other";
    if (v == keep)
      val = "keep";
    else if (v.count() == 0)
      val = "zero";
    else if (c.has_n && c.n <= (uint64_t)INT64_MAX)
    {
      // abstract value <N, unit>  |->  std::chrono::<unit>{N}
      static const std::pair<const char *, int64_t> units[] = {{"ns", 1},          {"us", 1000},           {"ms", 1000000},
                                                               {"s", 1000000000}, {"m", 60000000000ll}, {"h", 3600000000000ll}};
      for (auto &u : units)
      {
        int64_t prod;
        if (!__builtin_mul_overflow((int64_t)c.n, u.second, &prod) && v.count() == prod)
          val = u.first;
      }
    }
  }
  else if (r == "str")
  {
    std::string v = "\x01keep\x01";
    set_errno(e);
    bool ok        = sdkc::GetStringEnvironmentVariable(var, v);
    g_errno_shadow = errno;
    ret            = ok ? "T" : "F";
    if (v == "\x01keep\x01")
      val = "keep";
    else if (v.empty())
      val = "empty";
    else if (!c.unset && v == c.text)
      val = "same";
    else
      val = "other";
  }
  else if (r == "disabled")
  {
    set_errno(e);
    bool v         = sdkc::GetSdkDisabled();
    g_errno_shadow = errno;
    ret            = "na";
    val            = v ? "true" : "false";
  }
  else if (r == "install_t")
  {
    nostd::shared_ptr<opentelemetry::trace::TracerProvider> p(new opentelemetry::trace::NoopTracerProvider());
    set_errno(e);
    sdkt::Provider::SetTracerProvider(p);
    g_errno_shadow = errno;
    ret            = "na";
    val            = opentelemetry::trace::Provider::GetTracerProvider().get() == p.get() ? "yes" : "no";
  }
  else if (r == "install_l")
  {
    nostd::shared_ptr<opentelemetry::logs::LoggerProvider> p(new opentelemetry::logs::NoopLoggerProvider());
    set_errno(e);
    sdkl::Provider::SetLoggerProvider(p);
    g_errno_shadow = errno;
    ret            = "na";
    val            = opentelemetry::logs::Provider::GetLoggerProvider().get() == p.get() ? "yes" : "no";
  }
  else if (r == "install_m")
  {
    nostd::shared_ptr<opentelemetry::metrics::MeterProvider> p(new opentelemetry::metrics::NoopMeterProvider());
    set_errno(e);
    sdkm::Provider::SetMeterProvider(p);
    g_errno_shadow = errno;
    ret            = "na";
    val            = opentelemetry::metrics::Provider::GetMeterProvider().get() == p.get() ? "yes" : "no";
  }
  else
  {
    fprintf(stderr, "c18_env: unknown reader %s\n", r.c_str());
    _exit(90);
  }
}

// ------------------------------------------------------------------------------------------------
// capturing exporters / reader
struct Seen
{
  bool have = false;
  json obs;
  bool same = false;
};

class CapSpanExporter final : public sdkt::SpanExporter
{
public:
  CapSpanExporter(const Tables *t, Seen *s, const sdkr::Resource **expect) : t_(t), s_(s), expect_(expect) {}
  std::unique_ptr<sdkt::Recordable> MakeRecordable() noexcept override
  {
    return std::unique_ptr<sdkt::Recordable>(new sdkt::SpanData());
  }
  sdkc::ExportResult Export(const nostd::span<std::unique_ptr<sdkt::Recordable>> &spans) noexcept override
  {
    for (auto &r : spans)
    {
      auto *sd = static_cast<sdkt::SpanData *>(r.get());
      s_->have = true;
      s_->obs  = project(*t_, sd->GetResource());
      s_->same = (&sd->GetResource() == *expect_);
    }
    return sdkc::ExportResult::kSuccess;
  }
  bool ForceFlush(std::chrono::microseconds) noexcept override { return true; }
  bool Shutdown(std::chrono::microseconds) noexcept override { return true; }

private:
  const Tables *t_;
  Seen *s_;
  const sdkr::Resource **expect_;
};

class CapLogExporter final : public sdkl::LogRecordExporter
{
public:
  CapLogExporter(const Tables *t, Seen *s, const sdkr::Resource **expect) : t_(t), s_(s), expect_(expect) {}
  std::unique_ptr<sdkl::Recordable> MakeRecordable() noexcept override
  {
    return std::unique_ptr<sdkl::Recordable>(new sdkl::ReadWriteLogRecord());
  }
  sdkc::ExportResult Export(const nostd::span<std::unique_ptr<sdkl::Recordable>> &recs) noexcept override
  {
    for (auto &r : recs)
    {
      auto *lr = static_cast<sdkl::ReadWriteLogRecord *>(r.get());
      s_->have = true;
      s_->obs  = project(*t_, lr->GetResource());
      s_->same = (&lr->GetResource() == *expect_);
    }
    return sdkc::ExportResult::kSuccess;
  }
  bool ForceFlush(std::chrono::microseconds) noexcept override { return true; }
  bool Shutdown(std::chrono::microseconds) noexcept override { return true; }

private:
  const Tables *t_;
  Seen *s_;
  const sdkr::Resource **expect_;
};

class CapReader final : public sdkm::MetricReader
{
public:
  sdkm::AggregationTemporality GetAggregationTemporality(sdkm::InstrumentType) const noexcept override
  {
    return sdkm::AggregationTemporality::kCumulative;
  }

private:
  bool OnForceFlush(std::chrono::microseconds) noexcept override { return true; }
  bool OnShutDown(std::chrono::microseconds) noexcept override { return true; }
};

struct Prov
{
  std::string kind;
  Seen seen;
  const sdkr::Resource *expect = nullptr;
  std::shared_ptr<sdkt::TracerProvider> tp;
  std::shared_ptr<sdkl::LoggerProvider> lp;
  std::shared_ptr<sdkm::MeterProvider> mp;
  std::shared_ptr<CapReader> reader;
  int n = 0;
};

// ------------------------------------------------------------------------------------------------
// environment
static std::string pad(Rng &rng, bool force)
{
  static const std::vector<std::string> p = {" ", "  ", "\t", "\n", "\r"};
  if (force || rng.below(2))
    return rng.pick(p);
  return "";
}

// fills rawk/rawv of each token, returns the text of OTEL_RESOURCE_ATTRIBUTES
static std::string concretise_tokens(const Tables &t, json &toks, Rng &rng)
{
  std::string out;
  bool first = true;
  for (auto &tk : toks)
  {
    std::string kind = tk["t"], k = tk.value("k", "-"), v = tk.value("v", "-");
    std::string ck = t.key(k);  // concrete key text
    std::string text, rawk = "~rawk", rawv = "~rawv";
    if (kind == "kv")
      text = ck + "=" + t.str(v);
    else if (kind == "noeq")
      text = std::vector<std::string>{"junk", "novalue", "k1", " ", "service.name"}[rng.below(5)];
    else if (kind == "empty")
      text = "";
    else if (kind == "emptykey")
      text = "=" + t.str(v);
    else if (kind == "padkv")
    {
      bool left       = rng.below(2);
      std::string kk  = (left ? pad(rng, true) : pad(rng, false)) + ck + (left ? pad(rng, false) : pad(rng, true));
      std::string vv  = pad(rng, false) + t.str(v) + pad(rng, false);
      text            = kk + "=" + vv;
      rawk            = kk;
      rawv            = t.name_of_string(vv);
    }
    else if (kind == "valeq")
    {
      std::string vv = std::vector<std::string>{"a=b", "=", "x==y", "b64=="}[rng.below(4)];
      text           = ck + "=" + vv;
      rawv           = t.name_of_string(vv);
    }
    else if (kind == "emptyval")
      text = ck + "=";
    else
    {
      fprintf(stderr, "c18_env: unknown token kind %s\n", kind.c_str());
      _exit(90);
    }
    tk["k"]    = k;
    tk["v"]    = v;
    tk["rawk"] = rawk;
    tk["rawv"] = rawv;
    if (!first)
      out += ",";
    out += text;
    first = false;
  }
  return out;
}

// ------------------------------------------------------------------------------------------------
// the child: performs steps [from, ...) of the job, one event line per call, a "pre" line before each
static void emit(FILE *f, const json &j)
{
  std::string s = dumps(j);
  fputs(s.c_str(), f);
  fputc('\n', f);
  fflush(f);
}

struct Env
{
  json toks, svc;
  std::string ora;
};

// one history (job) inside the child; returns normally when the history is over
static void run_steps(const json &job, size_t jn, const Tables &tab, const Env &env, size_t from_step, int from_inst, FILE *out)
{
  uint64_t seed    = job.value("seed", 1);
  int ninst        = job.value("ninst", 1);
  bool inst_random = job.value("inst_random", false);
  Rng rng(seed);
  const json &steps = job["steps"];
  g_errno_shadow    = 0;
  unsetenv("OTEL_SDK_DISABLED");
  unsetenv("C18_VAR");

  std::deque<std::unique_ptr<sdkr::Resource>> pool;
  pool.emplace_back(new sdkr::Resource(sdkr::Resource::GetDefault()));
  pool.emplace_back(new sdkr::Resource(sdkr::Resource::GetEmpty()));
  std::deque<Prov> provs;
  auto pool_json = [&]() {
    json a = json::array();
    // 1 and 2 are re-read from the singletons: Create/Merge must not change them either
    a.push_back(project(tab, sdkr::Resource::GetDefault()));
    a.push_back(project(tab, sdkr::Resource::GetEmpty()));
    for (size_t i = 2; i < pool.size(); i++)
      a.push_back(project(tab, *pool[i]));
    return a;
  };
  // the givens of this SDK build, as found in this process (see the head comment)
  std::string envurl = tab.url_name(sdkr::OTELResourceDetector().Detect().GetSchemaURL());
  emit(out, json{{"e", "Cfg"}, {"toks", env.toks}, {"svc", env.svc}, {"pool", pool_json()}, {"envurl", envurl}, {"ora", env.ora},
                 {"seed", std::to_string(seed)}, {"job", job.value("id", -1)}});

  size_t since_audit = 0;
  for (size_t i = 1; i < steps.size(); i++)
  {
    const json &st = steps[i];
    std::string op = st["op"];
    bool skip      = i < from_step;
    if (op == "Read")
    {
      for (int inst = 0; inst < ninst; inst++)
      {
        // the rng is advanced identically whether or not the call is skipped (restart after a death)
        int ci = inst_random ? (int)rng.below(4) : inst;
        Conc c = concretise(st["s"], ci, rng);
        if (skip || (i == from_step && inst < from_inst))
          continue;
        json ev = {{"e", "Read"}, {"r", st["r"]}, {"s", st["s"]}, {"errno", st["errno"]},
                   {"conc", c.unset ? std::string("<unset>") : c.text}, {"step", i}, {"inst", inst}};
        json pre      = ev;
        pre["pre"]    = 1;
        pre["jobidx"] = jn;
        emit(out, pre);
        std::string ret, val;
        do_read(st["r"], c, st["errno"], ret, val);
        ev["ret"] = ret;
        ev["val"] = val;
        emit(out, ev);
      }
      continue;
    }
    if (skip)
    {
      fprintf(stderr, "c18_env: cannot restart behind a stateful step\n");
      _exit(90);
    }
    json pre      = st;
    pre["pre"]    = 1;
    pre["e"]      = op;
    pre["step"]   = i;
    pre["jobidx"] = jn;
    emit(out, pre);
    if (op == "New")
    {
      json m = norm_map(st["attrs"]);
      pool.emplace_back(new RawResource(make_attrs(tab, m), tab.url(st["url"])));
      emit(out, json{{"e", "New"}, {"attrs", m}, {"url", st["url"]}, {"obs", project(tab, *pool.back())}});
    }
    else if (op == "Create")
    {
      json m = norm_map(st["user"]);
      std::string threw;
      try
      {
        // the caller's map and URL live in temporaries that are gone after the call
        std::unique_ptr<sdkr::ResourceAttributes> a(new sdkr::ResourceAttributes(make_attrs(tab, m)));
        std::unique_ptr<std::string> u(new std::string(tab.url(st["url"])));
        if (u->empty() && rng.below(2))
          pool.emplace_back(new sdkr::Resource(sdkr::Resource::Create(*a)));  // defaulted schema_url
        else
          pool.emplace_back(new sdkr::Resource(sdkr::Resource::Create(*a, *u)));
      }
      catch (const std::exception &ex)
      {
        threw = std::string("exception: ") + ex.what();
      }
      if (!threw.empty())
      {
        // no resource came back: this history ends here
        emit(out, json{{"e", "Create"}, {"user", m}, {"url", st["url"]}, {"threw", threw},
                       {"obs", json{{"attrs", json::object()}, {"url", ""}}}});
        emit(out, json{{"e", "End"}});
        return;
      }
      emit(out, json{{"e", "Create"}, {"user", m}, {"url", st["url"]}, {"threw", ""}, {"obs", project(tab, *pool.back())}});
    }
    else if (op == "Merge")
    {
      size_t a = st["a"].get<size_t>(), b = st["b"].get<size_t>();
      const sdkr::Resource &ra = a == 1 ? sdkr::Resource::GetDefault() : a == 2 ? sdkr::Resource::GetEmpty() : *pool.at(a - 1);
      const sdkr::Resource &rb = b == 1 ? sdkr::Resource::GetDefault() : b == 2 ? sdkr::Resource::GetEmpty() : *pool.at(b - 1);
      pool.emplace_back(new sdkr::Resource(ra.Merge(rb)));
      emit(out, json{{"e", "Merge"}, {"a", a}, {"b", b}, {"obs", project(tab, *pool.back())}, {"obsA", project(tab, ra)},
                     {"obsB", project(tab, rb)}});
    }
    else if (op == "MkProv")
    {
      size_t ri = st["res"].get<size_t>();
      provs.emplace_back();
      Prov &p = provs.back();
      p.kind  = st["kind"];
      {
        // the provider must keep its own copy: the argument dies right after construction
        std::unique_ptr<sdkr::Resource> arg(new sdkr::Resource(*pool.at(ri - 1)));
        if (p.kind == "trace")
        {
          std::unique_ptr<sdkt::SpanExporter> ex(new CapSpanExporter(&tab, &p.seen, &p.expect));
          std::unique_ptr<sdkt::SpanProcessor> pr(new sdkt::SimpleSpanProcessor(std::move(ex)));
          p.tp.reset(new sdkt::TracerProvider(std::move(pr), *arg));
        }
        else if (p.kind == "logs")
        {
          std::unique_ptr<sdkl::LogRecordExporter> ex(new CapLogExporter(&tab, &p.seen, &p.expect));
          std::unique_ptr<sdkl::LogRecordProcessor> pr(new sdkl::SimpleLogRecordProcessor(std::move(ex)));
          p.lp.reset(new sdkl::LoggerProvider(std::move(pr), *arg));
        }
        else
        {
          p.mp.reset(new sdkm::MeterProvider(std::unique_ptr<sdkm::ViewRegistry>(new sdkm::ViewRegistry()), *arg));
          p.reader.reset(new CapReader());
          p.mp->AddMetricReader(p.reader);
        }
      }
      p.expect = p.tp ? &p.tp->GetResource() : p.lp ? &p.lp->GetResource() : &p.mp->GetResource();
      emit(out, json{{"e", "MkProv"}, {"kind", p.kind}, {"res", ri}, {"obs", project(tab, *p.expect)}});
    }
    else if (op == "Emit")
    {
      size_t pi = st["p"].get<size_t>();
      Prov &p   = provs.at(pi - 1);
      p.seen    = Seen();
      p.n++;
      std::string scope = "c18.scope." + std::to_string(p.n % 2);
      if (p.kind == "trace")
      {
        auto tracer = p.tp->GetTracer(scope, "1.0");
        auto span   = tracer->StartSpan("c18-span");
        span->End();
      }
      else if (p.kind == "logs")
      {
        auto logger = p.lp->GetLogger(scope, "c18-lib");
        logger->EmitLogRecord(opentelemetry::logs::Severity::kInfo, "c18 body");
      }
      else
      {
        auto meter   = p.mp->GetMeter(scope, "1.0");
        auto counter = meter->CreateUInt64Counter("c18.counter." + std::to_string(p.n));
        counter->Add(3);
        p.reader->Collect([&](sdkm::ResourceMetrics &rm) {
          p.seen.have = true;
          if (rm.resource_ == nullptr)
            p.seen.obs = json{{"attrs", json::object()}, {"url", "=<null resource>"}};
          else
          {
            p.seen.obs  = project(tab, *rm.resource_);
            p.seen.same = rm.resource_ == p.expect;
          }
          return true;
        });
      }
      json ev   = {{"e", "Emit"}, {"p", pi}, {"kind", p.kind}, {"same", p.seen.same}};
      ev["obs"] = p.seen.have ? p.seen.obs : json{{"attrs", json::object()}, {"url", "=<nothing exported>"}};
      emit(out, ev);
    }
    else if (op == "Audit")
    {
      emit(out, json{{"e", "Audit"}, {"pool", pool_json()}});
      since_audit = 0;
      continue;
    }
    else
    {
      fprintf(stderr, "c18_env: unknown op %s\n", op.c_str());
      _exit(90);
    }
    if (++since_audit >= 8)
    {
      emit(out, json{{"e", "Audit"}, {"pool", pool_json()}});
      since_audit = 0;
    }
  }
  if (pool.size() > 2 || !provs.empty())
    emit(out, json{{"e", "Audit"}, {"pool", pool_json()}});
  emit(out, json{{"e", "End"}});
}

// The child: one process = one environment.  All jobs of a batch have the same Cfg step, so they can
// share the process (the environment stays as set here for the life of the process); every job starts a new
// history (new Cfg event, fresh pool).
[[noreturn]] static void child_main(const json &batch, size_t from_job, size_t from_step, int from_inst, FILE *out)
{
  // keep the SDK's own diagnostics out of the way
  sdkc::internal_log::GlobalLogHandler::SetLogLevel(sdkc::internal_log::LogLevel::None);
  const json &first = batch.at(0);
  Rng erng(first.value("seed", (uint64_t)1) ^ 0x5bd1e995u);
  static const std::vector<std::string> salts = {"", "-x", ".0123456789abcdefghijklmnopqrstuvwxyzABCDEFGHIJKLMNOPQRSTUVWXYZ/0123456789"};
  Tables tab(salts[erng.below(salts.size())]);
  Env env;
  json cfg = first["steps"].at(0);
  env.toks = cfg.value("toks", json::array());
  if (!env.toks.is_array())
    env.toks = json::array();
  env.svc = cfg.value("svc", json{{"c", "unset"}, {"v", "-"}});
  env.ora = concretise_tokens(tab, env.toks, erng);
  if (env.toks.empty() && erng.below(2) == 0)
    unsetenv("OTEL_RESOURCE_ATTRIBUTES");
  else
    setenv("OTEL_RESOURCE_ATTRIBUTES", env.ora.c_str(), 1);
  if (env.svc["c"] == "unset")
    unsetenv("OTEL_SERVICE_NAME");
  else if (env.svc["c"] == "empty")
    setenv("OTEL_SERVICE_NAME", "", 1);
  else
    setenv("OTEL_SERVICE_NAME", tab.str(env.svc["v"]).c_str(), 1);
  for (size_t jn = from_job; jn < batch.size(); jn++)
  {
    if (batch[jn]["steps"].at(0) != cfg)
    {
      fprintf(stderr, "c18_env: jobs of one batch must share their Cfg step\n");
      _exit(90);
    }
    run_steps(batch[jn], jn, tab, env, jn == from_job ? from_step : 1, jn == from_job ? from_inst : 0, out);
  }
  fflush(out);
  _exit(0);
}

// ------------------------------------------------------------------------------------------------
// the parent: forks, relays events, turns a dead child into an event
static bool flat_before(const json &job, size_t step)
{
  for (size_t i = 1; i <= step && i < job["steps"].size(); i++)
    if (job["steps"][i]["op"] != "Read")
      return false;
  return true;
}

static std::string read_all(int fd)
{
  std::string s;
  char buf[4096];
  ssize_t n;
  while ((n = read(fd, buf, sizeof buf)) > 0)
    s.append(buf, (size_t)n);
  return s;
}

static void run_batch(const json &batch)
{
  size_t from_job = 0, from_step = 1;
  int from_inst = 0;
  while (from_job < batch.size())
  {
    int po[2], pe[2];
    if (pipe(po) || pipe(pe))
    {
      perror("pipe");
      exit(91);
    }
    fflush(stdout);
    pid_t pid = fork();
    if (pid < 0)
    {
      perror("fork");
      exit(91);
    }
    if (pid == 0)
    {
      close(po[0]);
      close(pe[0]);
      int dn = open("/dev/null", O_WRONLY);
      dup2(dn, 1);
      dup2(pe[1], 2);
      FILE *out = fdopen(po[1], "w");
      child_main(batch, from_job, from_step, from_inst, out);
    }
    close(po[1]);
    close(pe[1]);
    FILE *in = fdopen(po[0], "r");
    json lastpre;
    size_t cur = from_job;  // job whose history is in progress
    bool first_cfg = true, open_history = false;
    char *line = nullptr;
    size_t cap = 0;
    ssize_t n;
    while ((n = getline(&line, &cap, in)) > 0)
    {
      json ev;
      try
      {
        ev = json::parse(std::string(line, (size_t)n));
      }
      catch (...)
      {
        continue;
      }
      if (ev.contains("pre"))
      {
        lastpre = ev;
        continue;
      }
      lastpre = json();
      if (ev["e"] == "Cfg")
      {
        if (!first_cfg)
          cur++;
        first_cfg    = false;
        open_history = true;
      }
      if (ev["e"] == "End")
        open_history = false;
      fputs(dumps(ev).c_str(), stdout);
      fputc('\n', stdout);
    }
    free(line);
    fclose(in);
    std::string err = read_all(pe[0]);
    close(pe[0]);
    int st = 0;
    waitpid(pid, &st, 0);
    if (WIFEXITED(st) && WEXITSTATUS(st) == 0 && !open_history)
      return;
    if (WIFEXITED(st) && (WEXITSTATUS(st) == 90 || WEXITSTATUS(st) == 91))
    {
      fprintf(stderr, "c18_env: harness error in child: %s\n", err.c_str());
      exit(92);
    }
    // the child died inside a call of the code under test
    bool ub = err.find("runtime error: signed integer overflow") != std::string::npos &&
              err.find("AddressSanitizer") == std::string::npos;
    std::string tail = err.size() > 600 ? err.substr(0, 600) : err;
    if (!lastpre.is_null() && lastpre.value("e", "") == "Read")
    {
      json ev = lastpre;
      ev.erase("pre");
      size_t k = ev["jobidx"].get<size_t>();
      ev.erase("jobidx");
      ev["ret"]    = "na";
      ev["val"]    = ub ? "ub" : "crash";
      ev["status"] = st;
      ev["stderr"] = tail;
      puts(dumps(ev).c_str());
      puts("{\"e\":\"End\"}");
      size_t step = ev["step"].get<size_t>();
      int inst    = ev["inst"].get<int>();
      const json &job = batch[k];
      bool left = inst + 1 < job.value("ninst", 1) || step + 1 < job["steps"].size();
      if (flat_before(job, step) && left)
      {
        from_job  = k;
        from_step = step;
        from_inst = inst + 1;
      }
      else
      {
        // the rest of this history needs the state that died with the process
        from_job  = k + 1;
        from_step = 1;
        from_inst = 0;
      }
      continue;
    }
    if (first_cfg)
      puts(dumps(json{{"e", "Cfg"}, {"toks", json::array()}, {"svc", json{{"c", "unset"}, {"v", "-"}}}, {"pool", json::array()}, {"envurl", ""},
                      {"job", batch[cur].value("id", -1)}, {"note", "the process died before its first event"}})
               .c_str());
    json ev = {{"e", "Crash"}, {"during", lastpre}, {"status", st}, {"stderr", tail}};
    puts(dumps(ev).c_str());
    puts("{\"e\":\"End\"}");
    from_job  = cur + 1;
    from_step = 1;
    from_inst = 0;
  }
}

// ------------------------------------------------------------------------------------------------
// random jobs (code -> spec direction): long histories, 10-20 distinct keys, every token kind
static json random_job(Rng &rng, uint64_t seed, int len)
{
  static const std::vector<std::string> base = {"service.name", "telemetry.sdk.language", "telemetry.sdk.name",
                                                "telemetry.sdk.version", "process.executable.name"};
  static const std::vector<std::string> odd = {"", " spaced key ", "\xd0\xba\xd0\xbb\xd1\x8e\xd1\x87", "a=b", "k,comma", "~k_lf", "~k_utf", "~k_sp",
                                               std::string(300, 'K')};
  std::vector<std::string> keys = base;
  int nk = 5 + (int)rng.below(11);
  for (int i = 0; i < nk; i++)
    keys.push_back("k" + std::to_string(i));
  for (auto &o : odd)
    if (rng.below(3) == 0)
      keys.push_back(o);
  std::vector<std::string> ekeys = {"service.name", "telemetry.sdk.language", "process.executable.name", "k0", "k1", "k2", "k3", "k4",
                                    "~k_sp", "~k_lf", "~k_tab", "~k_cr", "~k_ctl", "~k_utf"};
  static const std::vector<std::string> svals = {"s1", "s2", "s3", "s4", "s5", "s6", "s_empty", "s_lf", "s_cr", "s_tab", "s_ctl",
                                                 "s_utf", "s_bin", "s_sp"};
  static const std::vector<std::string> vals  = {"s1", "s2", "s3", "s4", "s5", "s6", "s_empty", "i1", "i2", "n1", "u1", "q1",
                                                 "b1", "b0", "d1", "vs1", "vi1", "vb1", "vd1", "dflt_lang"};
  static const std::vector<std::string> kinds = {"kv", "kv", "kv", "kv", "noeq", "empty", "emptykey", "padkv", "valeq", "emptyval"};
  static const std::vector<std::string> urls  = {"", "", "u1", "u2"};
  json toks = json::array();
  int nt = rng.below(4) == 0 ? 0 : (int)rng.below(7);
  bool clean = rng.below(3) == 0;  // a third of the environments are well-formed (the pinned case)
  for (int i = 0; i < nt; i++)
  {
    std::string kind = clean ? "kv" : rng.pick(kinds);
    toks.push_back(json{{"t", kind}, {"k", rng.pick(ekeys)}, {"v", rng.pick(svals)}});
  }
  json svc;
  switch (rng.below(4))
  {
    case 0:
    {
      std::string v = rng.pick(svals);
      svc = json{{"c", "set"}, {"v", v == "s_empty" ? std::string("s2") : v}};  // (an empty value is the class "empty")
    }
      break;
    case 1:
      svc = json{{"c", clean ? "unset" : "empty"}, {"v", "-"}};
      break;
    default:
      svc = json{{"c", "unset"}, {"v", "-"}};
  }
  json steps = json::array();
  steps.push_back(json{{"op", "Cfg"}, {"toks", toks}, {"svc", svc}});
  auto rmap = [&](int maxn, bool allow_svc) {
    json m = json::object();
    int n  = (int)rng.below(maxn + 1);
    for (int i = 0; i < n; i++)
    {
      std::string k = rng.pick(keys);
      if (!allow_svc && k == "service.name")
        continue;
      m[k] = rng.pick(vals);
    }
    return m;
  };
  static const std::vector<std::string> pres = {"none", "none", "none", "blank", "plus", "minus", "unset"};
  static const std::vector<std::string> bods = {"d0", "d1", "d2", "d3", "d4", "d5", "d6", "d7", "d8", "d9", "d9w", "d10",
                                                "none", "true", "false", "word", "frac", "hugeexp", "d1", "d1", "true"};
  static const std::vector<std::string> sufs = {"none", "none", "none", "ns", "us", "ms", "s", "m", "h", "junk"};
  static const std::vector<std::string> rds  = {"bool", "uint", "dur", "float", "str", "disabled", "install_t", "install_l", "install_m",
                                                "uint", "dur", "float"};
  static const std::vector<std::string> errs = {"asis", "asis", "clean", "erange"};
  size_t npool = 2, nprov = 0;
  for (int i = 0; i < len; i++)
  {
    uint64_t c = rng.below(100);
    if (c < 14)
    {
      steps.push_back(json{{"op", "New"}, {"attrs", rmap(8, true)}, {"url", rng.pick(urls)}});
      npool++;
    }
    else if (c < 34)
    {
      steps.push_back(json{{"op", "Create"}, {"user", rmap(6, rng.below(2))}, {"url", rng.pick(urls)}});
      npool++;
    }
    else if (c < 62)
    {
      // prefer recent operands: merges of merges
      size_t a = rng.below(3) ? npool - rng.below(std::min<size_t>(npool, 4)) : 1 + rng.below(npool);
      size_t b = rng.below(3) ? npool - rng.below(std::min<size_t>(npool, 4)) : 1 + rng.below(npool);
      steps.push_back(json{{"op", "Merge"}, {"a", a}, {"b", b}});
      npool++;
    }
    else if (c < 70 && nprov < 6)
    {
      steps.push_back(json{{"op", "MkProv"}, {"kind", std::vector<std::string>{"trace", "logs", "metrics"}[rng.below(3)]},
                           {"res", 1 + rng.below(npool)}});
      nprov++;
    }
    else if (c < 84 && nprov > 0)
      steps.push_back(json{{"op", "Emit"}, {"p", 1 + rng.below(nprov)}});
    else
    {
      std::string pre = rng.pick(pres);
      json s = pre == "unset" ? json{{"pre", "unset"}, {"body", "none"}, {"suf", "none"}, {"tb", false}}
                              : json{{"pre", pre}, {"body", rng.pick(bods)}, {"suf", rng.pick(sufs)}, {"tb", rng.below(8) == 0}};
      steps.push_back(json{{"op", "Read"}, {"r", rng.pick(rds)}, {"s", s}, {"errno", rng.pick(errs)}});
    }
  }
  return json{{"seed", seed}, {"ninst", 1}, {"steps", steps}, {"inst_random", true}};
}

int main(int argc, char **argv)
{
  if (argc >= 3 && std::string(argv[1]) == "run")
  {
    std::ifstream f(argv[2]);
    std::string line;
    size_t n = 0;
    while (std::getline(f, line))
    {
      if (line.empty())
        continue;
      json j = json::parse(line);
      if (j.contains("batch"))
        run_batch(j["batch"]);
      else
        run_batch(json::array({j}));
      n++;
    }
    fflush(stdout);
    fprintf(stderr, "c18_env: %zu batches\n", n);
    return 0;
  }
  if (argc >= 5 && std::string(argv[1]) == "random")
  {
    int n         = atoi(argv[2]);
    uint64_t seed = strtoull(argv[3], nullptr, 10);
    int len       = atoi(argv[4]);
    Rng rng(seed);
    for (int i = 0; i < n; i++)
    {
      json job = random_job(rng, seed * 1000003ull + (uint64_t)i, len);
      if (argc >= 6 && std::string(argv[5]) == "dump")
        puts(dumps(job).c_str());
      else
        run_batch(json::array({job}));
    }
    fflush(stdout);
    return 0;
  }
  fprintf(stderr, "usage: c18_env run <jobs.ndjson> | random <n> <seed> <len> [dump]\n");
  return 2;
}
